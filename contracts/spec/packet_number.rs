// Contract predicates for packet-number truncation / reconstruction and the per-space transmit counter
// -- property C08.  Restricted sub-language (DESIGN 2.2); asserted by
// contracts/kani/core/c08_packet_number.rs and contracts/kani/transport/c08_tx_packet_numbers.rs,
// transliterated for verus/lemmas/C08.rs.

pub fn pn_max() -> i128 { 4611686018427387903 }

// pn_win = 1 << pn_nbits for the four wire encodings (RFC 9000 17.1: 1 to 4 bytes)
pub fn pn_win(bits: i128) -> i128 {
    if bits == 8 { 256 } else if bits == 16 { 65536 } else if bits == 24 { 16777216 } else { 4294967296 }
}
pub fn pn_bits_valid(bits: i128) -> bool { bits == 8 || bits == 16 || bits == 24 || bits == 32 }

// ---- PacketNumber::truncate(pn, largest_acked) -> Option<(bits, value)> ----------------------------
// RFC 9000 17.1: "the sender MUST use a packet number size able to represent more than twice as large a
// range as the difference between the largest acknowledged packet number and the packet number being sent"
pub fn pn_truncate_representable(pn: i128, la: i128) -> bool { la <= pn && 2 * (pn - la) < 4294967296 }
pub fn pn_truncate_none_iff_unrepresentable(pn: i128, la: i128, some: bool) -> bool {
    some == pn_truncate_representable(pn, la)
}
pub fn pn_truncate_window_more_than_twice_distance(pn: i128, la: i128, bits: i128) -> bool {
    pn_bits_valid(bits) && pn_win(bits) > 2 * (pn - la)
}
// RFC 9000 A.2: the smallest of the four encodings with that property
pub fn pn_min_bits(pn: i128, la: i128) -> i128 {
    if 2 * (pn - la) < 256 { 8 } else if 2 * (pn - la) < 65536 { 16 } else if 2 * (pn - la) < 16777216 { 24 } else { 32 }
}
pub fn pn_truncate_len_is_minimal(pn: i128, la: i128, bits: i128) -> bool { bits == pn_min_bits(pn, la) }
// "including only the least significant bits of the packet number"
pub fn pn_truncate_value_is_low_bits(pn: i128, bits: i128, value: i128) -> bool { value == pn % pn_win(bits) }

// ---- RFC 9000 Appendix A.3  DecodePacketNumber(largest_pn, truncated_pn, pn_nbits) --------------------
// (expected_pn & ~pn_mask) | truncated_pn  ==  expected_pn - expected_pn mod pn_win + truncated_pn
pub fn pn_decode_candidate(largest: i128, truncated: i128, bits: i128) -> i128 {
    (largest + 1) - (largest + 1) % pn_win(bits) + truncated
}
pub fn pn_decode_adjust(expected: i128, win: i128, hwin: i128, cand: i128) -> i128 {
    if cand <= expected - hwin && cand < 4611686018427387904 - win { cand + win }
    else if cand > expected + hwin && cand >= win { cand - win }
    else { cand }
}
pub fn pn_decode_rfc(largest: i128, truncated: i128, bits: i128) -> i128 {
    pn_decode_adjust(largest + 1, pn_win(bits), pn_win(bits) / 2, pn_decode_candidate(largest, truncated, bits))
}
// the receiver reconstructs pn from its low bits whenever pn lies in the RFC window around its own largest r:
// "greater than expected_pn - pn_hwin and less than or equal to expected_pn + pn_hwin"
pub fn pn_in_decode_window(pn: i128, r: i128, bits: i128) -> bool {
    pn > r + 1 - pn_win(bits) / 2 && pn <= r + 1 + pn_win(bits) / 2
}
// ensures of expand / decode_packet_number
pub fn pn_decode_equals_rfc(largest: i128, truncated: i128, bits: i128, result: i128) -> bool {
    pn_decode_rfc(largest, truncated, bits) > pn_max() || result == pn_decode_rfc(largest, truncated, bits)
}
// the pseudocode leaves the 62-bit range only if the receiver already holds the last packet number there is;
// the code answers with that last number (nothing valid can follow it)
pub fn pn_decode_out_of_range_only_at_end(largest: i128, truncated: i128, bits: i128, result: i128) -> bool {
    pn_decode_rfc(largest, truncated, bits) <= pn_max() || (largest == pn_max() && result == pn_max())
}
// the property: sender truncates against `la`, receiver holds any largest-received r with la <= r < pn
pub fn pn_roundtrip_for_receiver(pn: i128, la: i128, r: i128, expanded: i128) -> bool {
    !(la <= r && r < pn) || expanded == pn
}
pub fn pn_roundtrip_in_window(pn: i128, r: i128, bits: i128, expanded: i128) -> bool {
    !pn_in_decode_window(pn, r, bits) || expanded == pn
}

// ---- TxPacketNumbers: abstraction (next, largest_sent_acked) ----------------------------------------
#[derive(Clone, Copy)]
pub struct TxPn { pub next: i128, pub acked: i128, pub has_skip: bool, pub skip: i128 }

// largest_sent_acked starts at 0 together with next == 0; afterwards it is the largest number named by an
// accepted ACK, which is below next
pub fn txpn_inv(s: TxPn) -> bool {
    0 <= s.acked && s.acked <= s.next && s.next <= pn_max() && (s.acked < s.next || s.acked == 0)
        && (!s.has_skip || (0 <= s.skip && s.skip < s.next))
}
// ensures of on_transmit(pn)
pub fn txpn_on_transmit_next_is_pn_plus_one(old: TxPn, pn: i128, new: TxPn) -> bool { new.next == pn + 1 }
// call sites pass next() or next() + 1 / + 2 (skipped numbers): with pn >= old.next numbers on the wire strictly increase
pub fn txpn_on_transmit_strictly_increasing(old: TxPn, pn: i128, new: TxPn) -> bool { pn < old.next || new.next > old.next }
pub fn txpn_on_transmit_frame(old: TxPn, pn: i128, new: TxPn) -> bool {
    new.acked == old.acked && new.has_skip == old.has_skip && new.skip == old.skip
}
// ensures of on_packet_ack(ack range [lo, hi], lowest_tracking) -> ok
// RFC 9000 13.1: "An endpoint SHOULD treat receipt of an acknowledgment for a packet it did not send as a
// connection error of type PROTOCOL_VIOLATION"; 21.4: the deliberately skipped number counts as not sent
pub fn txpn_ack_names_unsent(old: TxPn, lo: i128, hi: i128) -> bool {
    hi >= old.next || (old.has_skip && lo <= old.skip && old.skip <= hi)
}
pub fn txpn_on_ack_ok_iff_only_sent(old: TxPn, lo: i128, hi: i128, ok: bool) -> bool { ok == !txpn_ack_names_unsent(old, lo, hi) }
pub fn txpn_on_ack_largest_is_max(old: TxPn, hi: i128, ok: bool, new: TxPn) -> bool {
    if ok { new.acked == (if hi > old.acked { hi } else { old.acked }) } else { new.acked == old.acked }
}
pub fn txpn_on_ack_largest_below_next(old: TxPn, ok: bool, new: TxPn) -> bool { !ok || new.acked < new.next }
pub fn txpn_on_ack_next_unchanged(old: TxPn, new: TxPn) -> bool { new.next == old.next }
pub fn txpn_on_ack_skip(old: TxPn, ok: bool, lowest_tracking: i128, new: TxPn) -> bool {
    if ok && old.has_skip && lowest_tracking > old.skip + 1 { !new.has_skip }
    else { new.has_skip == old.has_skip && (!old.has_skip || new.skip == old.skip) }
}
