// Contract predicates for the connection-id registries -- property C13.
// Restricted sub-language (DESIGN 2.2): integer/boolean expressions over i128, if/else, struct
// literals, calls to other functions of these files.  The same text is asserted by the Kani
// harnesses (contracts/kani/transport/lidr.rs; probes/kani_injected_c13_pidr.rs) and transliterated into Verus spec functions
// for the history lemmas (verus/lemmas/C13.rs).
//
// A registry is a *sequence* of entries plus a few counters.  The sub-language has no sequences, so the
// predicates below are per entry (the harness asserts them for every entry of the concrete shape it
// builds, the lemma quantifies over the entries of a `Seq`), plus predicates over the counters.
//
// Connection ids (<= 20 bytes) and stateless-reset tokens (16 bytes) are abstracted injectively:
//   id  -> (id_len, id_a = bytes[0..10) big endian, id_b = bytes[10..20) big endian, zero padded)
//   tok -> (tok_a = bytes[0..8) big endian, tok_b = bytes[8..16) big endian)

pub fn imax2(a: i128, b: i128) -> i128 { if a >= b { a } else { b } }
pub fn imin2(a: i128, b: i128) -> i128 { if a <= b { a } else { b } }
pub fn u32_max() -> i128 { 4294967295 }

// ================================================================================================
// LocalIdRegistry: ids this endpoint issues to its peer (RFC 9000 5.1.1, 5.1.2, 19.15, 19.16)
// ================================================================================================

// status codes of LocalIdStatus
pub fn lst_pending_issuance() -> i128 { 0 }
pub fn lst_pending_reissue() -> i128 { 1 }
pub fn lst_pending_ack() -> i128 { 2 }
pub fn lst_active() -> i128 { 3 }
pub fn lst_pending_retirement_confirmation() -> i128 { 4 }
pub fn lst_pending_removal() -> i128 { 5 }

#[derive(Clone, Copy)]
pub struct LidEntry {
    pub seq: i128,
    pub id_len: i128, pub id_a: i128, pub id_b: i128,
    pub tok_a: i128, pub tok_b: i128,
    pub status: i128,
    pub retire_at: i128,      // retirement time in microseconds, -1 = none (id never expires)
}

// counters of the registry; `active` = number of entries that count towards the peer's limit
#[derive(Clone, Copy)]
pub struct Lidr { pub next_seq: i128, pub retire_prior_to: i128, pub limit: i128, pub len: i128, pub active: i128 }

pub fn lid_same_id(a: LidEntry, b: LidEntry) -> bool { a.id_len == b.id_len && a.id_a == b.id_a && a.id_b == b.id_b }
pub fn lid_same_token(a: LidEntry, b: LidEntry) -> bool { a.tok_a == b.tok_a && a.tok_b == b.tok_b }
pub fn lid_token_zeroed(a: LidEntry) -> bool { a.tok_a == 0 && a.tok_b == 0 }
// "unretired": the id counts towards the peer's active_connection_id_limit
pub fn lid_counts(e: LidEntry) -> bool {
    e.status != lst_pending_retirement_confirmation() && e.status != lst_pending_removal()
}
pub fn lid_wants_transmit(e: LidEntry) -> bool {
    e.status == lst_pending_issuance() || e.status == lst_pending_reissue()
}
pub fn lid_count1(e: LidEntry) -> i128 { if lid_counts(e) { 1 } else { 0 } }

// ---- representation invariant -----------------------------------------------------------------
// counters
pub fn lidr_inv(s: Lidr) -> bool {
    0 <= s.len && 0 <= s.active && s.active <= s.len
        // the handshake id (sequence number 0) is registered by the constructor
        && 1 <= s.next_seq && s.next_seq <= u32_max()
        // never asks the peer to retire ids it has not issued
        && 0 <= s.retire_prior_to && s.retire_prior_to <= s.next_seq
        // MAX_ACTIVE_CONNECTION_ID_LIMIT = 3; 1 until the peer's transport parameters are known
        && 1 <= s.limit && s.limit <= 3
        // never more unretired ids than the limit
        && s.active <= s.limit
}
// one entry against the counters
pub fn lid_entry_inv(s: Lidr, e: LidEntry) -> bool {
    0 <= e.seq && e.seq < s.next_seq && 0 <= e.status && e.status <= 5
        && 4 <= e.id_len && e.id_len <= 20 && e.retire_at >= 0 - 1
        // the handshake id is never announced in a NEW_CONNECTION_ID frame: it starts Active and can only be retired
        && (e.seq != 0 || e.status >= lst_active())
}
// two entries at positions i < j of the registry
pub fn lid_pair_inv(a: LidEntry, b: LidEntry) -> bool {
    // issue order is sequence-number order; sequence numbers are unique
    a.seq < b.seq
        // ids pairwise distinct
        && !lid_same_id(a, b)
        // tokens pairwise distinct (an acknowledged id forgets its token: it is overwritten by zeroes)
        && (!lid_same_token(a, b) || lid_token_zeroed(a))
}
// Conditional part of the invariant ("retire-prior-to discipline"): every id below retire_prior_to
// has been retired locally.  It is inductive only if ids are registered with retirement times that are
// monotone in issue order (`lid_pair_monotone`), which is a caller obligation of register_connection_id.
pub fn lid_entry_rpt_inv(s: Lidr, e: LidEntry) -> bool { e.seq >= s.retire_prior_to || !lid_counts(e) }
// retirement times of unretired ids are monotone in issue order (-1 = never = +infinity)
pub fn lid_retire_le(a: LidEntry, b: LidEntry) -> bool {
    b.retire_at < 0 || (a.retire_at >= 0 && a.retire_at <= b.retire_at)
}
pub fn lid_pair_monotone(a: LidEntry, b: LidEntry) -> bool {
    !lid_counts(a) || !lid_counts(b) || lid_retire_le(a, b)
}

// ---- LocalIdRegistry::new(handshake id): one entry `e` ---------------------------------------------
// RFC 9000 5.1.1: "The sequence number of the initial connection ID is 0."
pub fn lidr_new_post(s: Lidr, e: LidEntry) -> bool {
    s.next_seq == 1 && s.retire_prior_to == 0 && s.limit == 1 && s.len == 1 && s.active == 1
        && e.seq == 0 && e.status == lst_active()
}

// ---- register_connection_id(id, expiration, token) -> Ok -----------------------------------------
// `e` is the entry appended at the end of the registry
pub fn lidr_register_ok_counters(old: Lidr, new: Lidr) -> bool {
    new.next_seq == old.next_seq + 1 && new.len == old.len + 1 && new.active == old.active + 1
        && new.retire_prior_to == old.retire_prior_to && new.limit == old.limit
}
pub fn lidr_register_ok_entry(old: Lidr, e: LidEntry) -> bool {
    // RFC 9000 5.1.1: "The sequence number on each newly issued connection ID MUST increase by 1."
    e.seq == old.next_seq && e.status == lst_pending_issuance()
}
// against every entry `o` already registered
pub fn lidr_register_ok_fresh(o: LidEntry, e: LidEntry) -> bool {
    !lid_same_id(o, e) && !lid_same_token(o, e) && o.seq < e.seq
}
// Err: nothing changes
pub fn lidr_unchanged(old: Lidr, new: Lidr) -> bool {
    new.next_seq == old.next_seq && new.len == old.len && new.active == old.active
        && new.retire_prior_to == old.retire_prior_to && new.limit == old.limit
}
pub fn lid_entry_unchanged(a: LidEntry, b: LidEntry) -> bool {
    a.seq == b.seq && lid_same_id(a, b) && lid_same_token(a, b) && a.status == b.status && a.retire_at == b.retire_at
}

// ---- set_active_connection_id_limit(l) / connection_id_interest() -> k (0 = Interest::None) -----
pub fn lidr_set_limit_post(old: Lidr, l: i128, new: Lidr) -> bool {
    new.limit == imin2(l, 3) && new.next_seq == old.next_seq && new.len == old.len && new.active == old.active
        && new.retire_prior_to == old.retire_prior_to
}
pub fn lidr_interest_exact(s: Lidr, k: i128) -> bool { k == s.limit - s.active }
// RFC 9000 5.1.1: "An endpoint MUST NOT provide more connection IDs than the peer's limit."
pub fn lidr_interest_within_limit(s: Lidr, k: i128) -> bool { 0 <= k && s.active + k <= s.limit }

// ---- on_retire_connection_id(seq, dcid) ----------------------------------------------------------
// the entry a RETIRE_CONNECTION_ID frame with sequence number `seq` refers to
pub fn lid_retire_target(e: LidEntry, seq: i128) -> bool { e.seq == seq && e.status != lst_pending_removal() }
// RFC 9000 19.16: never issued => PROTOCOL_VIOLATION
pub fn lidr_retire_never_issued(s: Lidr, seq: i128) -> bool { seq >= s.next_seq }
// Ok: the target moves to PendingRemoval, nothing else about it changes; every other entry is unchanged
pub fn lid_retire_entry_post(old: LidEntry, seq: i128, new: LidEntry) -> bool {
    new.seq == old.seq && lid_same_id(old, new) && lid_same_token(old, new) && new.retire_at == old.retire_at
        && (if lid_retire_target(old, seq) { new.status == lst_pending_removal() } else { new.status == old.status })
}
pub fn lidr_retire_counters(old: Lidr, new: Lidr, target_counted: bool) -> bool {
    new.next_seq == old.next_seq && new.len == old.len && new.retire_prior_to == old.retire_prior_to
        && new.limit == old.limit && new.active == (if target_counted { old.active - 1 } else { old.active })
}

// ---- on_timeout(now) -----------------------------------------------------------------------------
// `retire_ready` / `expired` are computed by the harness from the timestamps (K_GRANULARITY rounding
// included) and handed to the predicates as booleans
pub fn lid_timeout_entry_post(old: LidEntry, retire_ready: bool, new: LidEntry) -> bool {
    new.seq == old.seq && lid_same_id(old, new) && lid_same_token(old, new) && new.retire_at == old.retire_at
        && (if retire_ready { new.status == lst_pending_retirement_confirmation() } else { new.status == old.status })
}
// contribution of one entry to the new retire_prior_to
pub fn lid_timeout_rpt_of(e: LidEntry, retire_ready: bool) -> i128 { if retire_ready { e.seq + 1 } else { 0 } }
pub fn lidr_timeout_counters(old: Lidr, new: Lidr, rpt_contrib: i128, removed: i128, newly_retired: i128) -> bool {
    new.next_seq == old.next_seq && new.limit == old.limit
        && new.retire_prior_to == imax2(old.retire_prior_to, rpt_contrib)
        && new.len == old.len - removed && new.active == old.active - newly_retired
}

// ---- on_transmit: one NEW_CONNECTION_ID frame (RFC 9000 19.15) ----------------------------------
// frame fields as read back from the wire by an independent parser
#[derive(Clone, Copy)]
pub struct NcidFrame { pub seq: i128, pub retire_prior_to: i128, pub id_len: i128, pub id_a: i128, pub id_b: i128, pub tok_a: i128, pub tok_b: i128 }
pub fn ncid_frame_is_entry(f: NcidFrame, e: LidEntry) -> bool {
    f.seq == e.seq && f.id_len == e.id_len && f.id_a == e.id_a && f.id_b == e.id_b && f.tok_a == e.tok_a && f.tok_b == e.tok_b
}
pub fn ncid_frame_rpt_is_registry(f: NcidFrame, s: Lidr) -> bool { f.retire_prior_to == s.retire_prior_to }
// RFC 9000 19.15: "The value in the Retire Prior To field MUST be less than or equal to the value in
// the Sequence Number field."  -- "never asks to retire IDs beyond the one it is issuing"
pub fn ncid_frame_rpt_le_seq(f: NcidFrame) -> bool { f.retire_prior_to <= f.seq }
// weaker form that needs no caller obligation: only ids that were issued are asked to be retired
pub fn ncid_frame_rpt_le_issued(f: NcidFrame, s: Lidr) -> bool { f.retire_prior_to <= s.next_seq }
pub fn lid_transmit_entry_post(old: LidEntry, written: bool, new: LidEntry) -> bool {
    new.seq == old.seq && lid_same_id(old, new) && lid_same_token(old, new) && new.retire_at == old.retire_at
        && (if written { new.status == lst_pending_ack() } else { new.status == old.status })
}

// ---- on_packet_ack / on_packet_loss / on_handshake_confirmed -------------------------------------
pub fn lid_ack_entry_post(old: LidEntry, acked: bool, new: LidEntry) -> bool {
    new.seq == old.seq && lid_same_id(old, new) && new.retire_at == old.retire_at
        && (if acked && old.status == lst_pending_ack() { new.status == lst_active() && lid_token_zeroed(new) }
            else { new.status == old.status && lid_same_token(old, new) })
}
pub fn lid_loss_entry_post(old: LidEntry, lost: bool, new: LidEntry) -> bool {
    new.seq == old.seq && lid_same_id(old, new) && lid_same_token(old, new) && new.retire_at == old.retire_at
        && (if lost && old.status == lst_pending_ack() { new.status == lst_pending_reissue() } else { new.status == old.status })
}
// the handshake id (sequence number 0) is asked to be retired
pub fn lid_rotate_target(e: LidEntry) -> bool { e.seq == 0 && lid_counts(e) }
pub fn lid_rotate_entry_post(old: LidEntry, rotate: bool, new: LidEntry) -> bool {
    new.seq == old.seq && lid_same_id(old, new) && lid_same_token(old, new) && new.retire_at == old.retire_at
        && (if rotate && lid_rotate_target(old) { new.status == lst_pending_retirement_confirmation() } else { new.status == old.status })
}
pub fn lidr_rotate_counters(old: Lidr, new: Lidr, retired: bool) -> bool {
    new.next_seq == old.next_seq && new.limit == old.limit && new.len == old.len
        && new.retire_prior_to == (if retired { imax2(old.retire_prior_to, 1) } else { old.retire_prior_to })
        && new.active == (if retired { old.active - 1 } else { old.active })
}

// ================================================================================================
// PeerIdRegistry: ids the peer issued to this endpoint (RFC 9000 5.1.1, 5.1.2, 19.15)
// ================================================================================================
pub fn pst_new() -> i128 { 0 }
pub fn pst_in_use() -> i128 { 1 }
pub fn pst_in_use_pending_new_connection_id() -> i128 { 2 }
pub fn pst_pending_retirement() -> i128 { 3 }
pub fn pst_pending_retirement_retransmission() -> i128 { 4 }
pub fn pst_pending_ack() -> i128 { 5 }

#[derive(Clone, Copy)]
pub struct PidEntry {
    pub seq: i128,
    pub id_len: i128, pub id_a: i128, pub id_b: i128,
    pub has_tok: bool, pub tok_a: i128, pub tok_b: i128,
    pub status: i128,
}
// ACTIVE_CONNECTION_ID_LIMIT = 3 (the value this endpoint advertises), RETIRED_CONNECTION_ID_LIMIT = 6
pub fn pid_active_limit() -> i128 { 3 }
pub fn pid_retired_limit() -> i128 { 6 }
#[derive(Clone, Copy)]
pub struct Pidr { pub retire_prior_to: i128, pub len: i128, pub active: i128 }

pub fn pid_same_id(a: PidEntry, b: PidEntry) -> bool { a.id_len == b.id_len && a.id_a == b.id_a && a.id_b == b.id_b }
pub fn pid_same_token(a: PidEntry, b: PidEntry) -> bool {
    a.has_tok == b.has_tok && (!a.has_tok || (a.tok_a == b.tok_a && a.tok_b == b.tok_b))
}
pub fn pid_is_active(e: PidEntry) -> bool {
    e.status == pst_new() || e.status == pst_in_use() || e.status == pst_in_use_pending_new_connection_id()
}
pub fn pid_count1(e: PidEntry) -> i128 { if pid_is_active(e) { 1 } else { 0 } }

pub fn pidr_inv(s: Pidr) -> bool {
    0 <= s.len && 0 <= s.active && s.active <= s.len && 0 <= s.retire_prior_to && s.retire_prior_to <= u32_max()
        // RFC 9000 5.1.1: never more active peer ids than the advertised active_connection_id_limit
        && s.active <= pid_active_limit() && s.len - s.active <= pid_retired_limit()
}
pub fn pid_entry_inv(s: Pidr, e: PidEntry) -> bool {
    0 <= e.seq && e.seq <= u32_max() && 0 <= e.status && e.status <= 5 && 0 <= e.id_len && e.id_len <= 20
        // RFC 9000 5.1.2: ids below the largest Retire Prior To received are no longer used
        && (e.seq >= s.retire_prior_to || !pid_is_active(e))
}
pub fn pid_pair_inv(a: PidEntry, b: PidEntry) -> bool {
    a.seq != b.seq && !pid_same_id(a, b) && !pid_same_token(a, b)
        // only the handshake id can wait for rotation
        && !(a.status == pst_in_use_pending_new_connection_id() && b.status == pst_in_use_pending_new_connection_id())
}

// ---- on_new_connection_id(id, seq, retire_prior_to, token): classification of the frame against one
// registered entry, RFC 9000 19.15 ----------------------------------------------------------------
// `n` is the entry the frame describes (status New)
// exact repetition of a frame already processed
pub fn pid_frame_duplicate_of(e: PidEntry, n: PidEntry) -> bool {
    pid_same_id(e, n) && e.seq == n.seq && pid_same_token(e, n)
}
// "repeats a previously issued connection ID with a different Stateless Reset Token field value or a
// different Sequence Number field value, or if a sequence number is used for different connection IDs"
// (+ RFC 9000 10.3.2: a token used for two different ids)
pub fn pid_frame_conflicts_with(e: PidEntry, n: PidEntry) -> bool {
    if pid_same_id(e, n) { e.seq != n.seq || !pid_same_token(e, n) } else { e.seq == n.seq || pid_same_token(e, n) }
}
// status of a registered entry after an accepted frame: retired iff below the new retire_prior_to, or
// it is the handshake id waiting to be rotated and the frame brought a usable new id
pub fn pid_ncid_entry_post(old: PidEntry, new_rpt: i128, rotate_now: bool, new: PidEntry) -> bool {
    new.seq == old.seq && pid_same_id(old, new) && pid_same_token(old, new)
        && (if pid_is_active(old) && old.seq < new_rpt { new.status == pst_pending_retirement() }
            else if rotate_now && old.status == pst_in_use_pending_new_connection_id() { new.status == pst_pending_retirement() }
            else { new.status == old.status })
}
// a repetition of a frame already processed appends nothing and rotates nothing; only Retire Prior To acts
pub fn pid_ncid_dup_entry_post(old: PidEntry, new_rpt: i128, new: PidEntry) -> bool {
    pid_ncid_entry_post(old, new_rpt, false, new)
}
// what an Err return may have changed before the error was detected (the connection is closed anyway):
// statuses may have moved to PendingRetirement, nothing else
pub fn pid_ncid_err_entry_post(old: PidEntry, new: PidEntry) -> bool {
    new.seq == old.seq && pid_same_id(old, new) && pid_same_token(old, new)
        && (new.status == old.status || (pid_is_active(old) && new.status == pst_pending_retirement()))
}
pub fn pid_entry_unchanged(a: PidEntry, b: PidEntry) -> bool {
    a.seq == b.seq && pid_same_id(a, b) && pid_same_token(a, b) && a.status == b.status
}
// the entry appended for a non-duplicate frame
pub fn pid_ncid_new_entry(n: PidEntry, new_rpt: i128, e: PidEntry) -> bool {
    e.seq == n.seq && pid_same_id(e, n) && pid_same_token(e, n) && e.has_tok
        && e.status == (if n.seq < new_rpt { pst_pending_retirement() } else { pst_new() })
}
pub fn pidr_ncid_rpt(old: Pidr, frame_rpt: i128, new: Pidr) -> bool {
    // RFC 9000 19.15: "A receiver MUST ignore any Retire Prior To fields that do not increase the
    // largest received Retire Prior To value."
    new.retire_prior_to == imax2(old.retire_prior_to, frame_rpt)
}
