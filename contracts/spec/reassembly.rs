// Contract predicates for the reassembly buffer, its slots and the interval algebra -- properties C16 / C01.
// Restricted sub-language (DESIGN 2.2): integer/boolean expressions over i128, if/else, struct literals,
// calls to other functions of these files.  The same text is asserted by the Kani harnesses
// (contracts/kani/core/c16_*.rs) and transliterated into Verus spec functions (verus/lemmas/C01.rs).
//
// Byte contents cannot be phrased in this sub-language; content obligations are written as ordinary
// Rust in the harness files (witness offset `w`: "the byte stored for stream offset w").

pub fn ra_varint_max() -> i128 { 4611686018427387903 }
pub fn ra_min(a: i128, b: i128) -> i128 { if a <= b { a } else { b } }
pub fn ra_max(a: i128, b: i128) -> i128 { if a >= b { a } else { b } }
pub fn ra_in(lo: i128, v: i128, hi_excl: i128) -> bool { lo <= v && v < hi_excl }

// ---- closed integer intervals [s, e] ------------------------------------------------------------------
pub fn iv_valid(s: i128, e: i128) -> bool { s <= e }
pub fn iv_len(s: i128, e: i128) -> i128 { e - s + 1 }
pub fn iv_contains(s: i128, e: i128, v: i128) -> bool { s <= v && v <= e }
// successor / predecessor saturating at the bounds of the element type
pub fn iv_succ_sat(x: i128, tmax: i128) -> i128 { if x < tmax { x + 1 } else { tmax } }
pub fn iv_pred_sat(x: i128, tmin: i128) -> i128 { if x > tmin { x - 1 } else { tmin } }
// `a.should_coalesce(b)`: no element lies strictly between b's end and a's start
pub fn iv_no_gap_after(a_start: i128, b_end: i128) -> bool { a_start <= b_end + 1 }
// end of the interval that starts at s and has len elements
pub fn iv_end_for_len(s: i128, len: i128) -> i128 { s + len - 1 }

// ---- Reassembler::allocation_size / align_offset --------------------------------------------------------
// table of the doc comment (boundaries 64 KiB, 256 KiB, 1 MiB as in the property statement)
pub fn ra_alloc_size(o: i128) -> i128 {
    if o >= 1048576 { 65536 } else { if o >= 262144 { 32768 } else { if o >= 65536 { 16384 } else { 4096 } } }
}
pub fn ra_align(o: i128, a: i128) -> i128 { (o / a) * a }
pub fn ra_align_le_offset(o: i128, a: i128, r: i128) -> bool { r <= o }
pub fn ra_align_offset_in_block(o: i128, a: i128, r: i128) -> bool { o < r + a }
pub fn ra_align_is_multiple(o: i128, a: i128, r: i128) -> bool { r % a == 0 }
pub fn ra_block_start(o: i128) -> i128 { ra_align(o, ra_alloc_size(o)) }

// ---- Slot: abstraction (start, len, end_alloc); the filled bytes are [start, start+len) ----------------------
#[derive(Clone, Copy)]
pub struct SlotV { pub start: i128, pub len: i128, pub end_alloc: i128 }

pub fn slot_end(s: SlotV) -> i128 { s.start + s.len }
// (filled bytes are stream bytes: their offsets are <= 2^62-1; the allocation itself may reach beyond that)
pub fn slot_inv(s: SlotV) -> bool {
    0 <= s.start && 0 <= s.len && slot_end(s) <= s.end_alloc && s.end_alloc - s.start <= 65536
        && slot_end(s) <= ra_varint_max()
}
pub fn slot_is_full(s: SlotV) -> bool { slot_end(s) == s.end_alloc }
pub fn slot_is_occupied(s: SlotV, prev: i128) -> bool { s.len > 0 && s.start == prev }
pub fn slot_should_drop(s: SlotV) -> bool { s.start == s.end_alloc }

// Reader (slice-backed request): abstraction (off, len) = the bytes [off, off+len) still to be written
#[derive(Clone, Copy)]
pub struct ReqV { pub off: i128, pub len: i128 }
pub fn req_end(r: ReqV) -> i128 { r.off + r.len }
// reader.skip_until(t): drops the bytes below t, never more than it has
pub fn req_skip_until(r: ReqV, t: i128) -> ReqV {
    if t <= r.off { r } else { if t >= req_end(r) { ReqV { off: req_end(r), len: 0 } } else { ReqV { off: t, len: req_end(r) - t } } }
}

// ---- Slot::try_write_reader(reader, filled_slot) -> Option<Slot> ------------------------------------------
// requires: old.start <= r.off (debug_assert of the function; established by the slot search of the caller)
pub fn slot_write_pre(old: SlotV, r: ReqV) -> bool { slot_inv(old) && old.start <= r.off && 0 <= r.len && req_end(r) <= ra_varint_max() }
// the reader after the bytes this slot already holds have been trimmed
pub fn slot_write_trimmed(old: SlotV, r: ReqV) -> ReqV {
    if slot_is_full(old) { req_skip_until(r, old.end_alloc) } else { req_skip_until(r, slot_end(old)) }
}
// does the call store anything
pub fn slot_write_stores(old: SlotV, r: ReqV) -> bool {
    !slot_is_full(old) && slot_write_trimmed(old, r).len > 0 && slot_write_trimmed(old, r).off < old.end_alloc
}
// number of bytes stored: as many as fit between the (trimmed) request offset and the end of the allocation
pub fn slot_write_count(old: SlotV, r: ReqV) -> i128 {
    if slot_write_stores(old, r) { ra_min(slot_write_trimmed(old, r).len, old.end_alloc - slot_write_trimmed(old, r).off) } else { 0 }
}
// the call splits the slot iff it stores behind a gap
pub fn slot_write_splits(old: SlotV, r: ReqV) -> bool { slot_write_stores(old, r) && slot_write_trimmed(old, r).off > slot_end(old) }
// post: the slot itself
pub fn slot_write_self(old: SlotV, r: ReqV, new: SlotV) -> bool {
    if slot_write_splits(old, r) {
        new.start == old.start && new.len == old.len && new.end_alloc == slot_write_trimmed(old, r).off
    } else {
        new.start == old.start && new.len == old.len + slot_write_count(old, r) && new.end_alloc == old.end_alloc
    }
}
// post: the slot that was split off (only if slot_write_splits)
pub fn slot_write_filled(old: SlotV, r: ReqV, filled: SlotV) -> bool {
    filled.start == slot_write_trimmed(old, r).off && filled.len == slot_write_count(old, r) && filled.end_alloc == old.end_alloc
}
// post: the reader
pub fn slot_write_reader(old: SlotV, r: ReqV, rnew: ReqV) -> bool {
    rnew.off == slot_write_trimmed(old, r).off + slot_write_count(old, r) && req_end(rnew) == req_end(r)
}
// post: the `filled_slot` flag is raised iff the write reached the end of the allocation
pub fn slot_write_flag(old: SlotV, r: ReqV, flag_old: bool, flag_new: bool) -> bool {
    flag_new == (flag_old || (slot_write_stores(old, r) && slot_write_trimmed(old, r).off + slot_write_count(old, r) == old.end_alloc))
}

// ---- Slot::skip_until(t) / skip(n) ------------------------------------------------------------------------
// requires t <= end_alloc (call site: Reassembler::skip drops slots with end_alloc < t first)
pub fn slot_skip_until_pre(old: SlotV, t: i128) -> bool { slot_inv(old) && t <= old.end_alloc }
pub fn slot_skip_until_post(old: SlotV, t: i128, new: SlotV) -> bool {
    if t <= old.start { new.start == old.start && new.len == old.len && new.end_alloc == old.end_alloc }
    else { new.start == t && new.len == ra_max(slot_end(old) - t, 0) && new.end_alloc == old.end_alloc }
}

// ---- Slot::consume() -> bytes, Slot::read_chunk(watermark) -> bytes ----------------------------------------
pub fn slot_consume_post(old: SlotV, new: SlotV, n: i128) -> bool {
    n == old.len && new.start == old.end_alloc && new.len == 0 && new.end_alloc == old.end_alloc
}
pub fn slot_read_chunk_post(old: SlotV, watermark: i128, new: SlotV, n: i128) -> bool {
    n == ra_min(old.len, watermark) && new.start == old.start + n && new.len == old.len - n && new.end_alloc == old.end_alloc
}

// ---- Slot::unsplit(next) ------------------------------------------------------------------------------------
// requires: self full, next adjacent, both non-empty (the assume!s of the function)
pub fn slot_unsplit_pre(a: SlotV, b: SlotV) -> bool {
    slot_inv(a) && slot_inv(b) && slot_is_full(a) && slot_end(a) == b.start && a.len > 0 && b.len > 0
}
pub fn slot_unsplit_post(a: SlotV, b: SlotV, new: SlotV) -> bool {
    new.start == a.start && new.len == a.len + b.len && new.end_alloc == b.end_alloc
}

// ---- Reassembler::allocate_slot(reader) -> Slot --------------------------------------------------------------
// (the cursors CurV are defined below; b / a = block start / allocation size of the reader offset, passed in so that
// callers can compute them without a division: b == ra_block_start(off), a == ra_alloc_size(off))
// requires: the reader is non-empty, not below the read cursor and not beyond a known final size
// (call sites: write_reader_impl / write_reader_with_alloc after skip_until(start) and handle_reader_fin)
pub fn alloc_slot_pre(c: CurV, off: i128, len: i128) -> bool {
    len >= 1 && c.start <= off && off + len <= ra_varint_max() && (!cur_fin_known(c) || off + len <= c.fin)
}
// ensures: an empty slot from max(block start, read cursor) to the block end, cut at the final size if the reader
// ends exactly there
pub fn alloc_slot_post(c: CurV, off: i128, len: i128, b: i128, a: i128, v: SlotV) -> bool {
    v.start == ra_max(b, c.start) && v.len == 0
        && v.end_alloc == (if cur_fin_known(c) && c.fin == off + len && off + len < b + a { off + len } else { b + a })
}

// ---- Reassembler cursors: abstraction (start, max_recv, fin) with fin == -1 for "unknown" ------------------------
#[derive(Clone, Copy)]
pub struct CurV { pub start: i128, pub max_recv: i128, pub fin: i128 }
pub fn cur_fin_known(c: CurV) -> bool { c.fin >= 0 }
pub fn cur_inv(c: CurV) -> bool {
    0 <= c.start && c.start <= c.max_recv && c.max_recv <= ra_varint_max() && c.fin >= -1
        && (!cur_fin_known(c) || c.max_recv <= c.fin) && c.fin <= ra_varint_max()
}
// a write (off, len, is_fin) is rejected exactly in these cases (RFC 9000 4.5 + the 2^62-1 stream limit)
pub fn write_out_of_range(off: i128, len: i128) -> bool { off + len > ra_varint_max() }
pub fn write_contradicts_fin(c: CurV, off: i128, len: i128, is_fin: bool) -> bool {
    if is_fin { if cur_fin_known(c) { off + len != c.fin } else { c.max_recv > off + len } }
    else { cur_fin_known(c) && off + len > c.fin }
}
pub fn write_cursors_post(c: CurV, off: i128, len: i128, is_fin: bool, n: CurV) -> bool {
    n.start == c.start && n.max_recv == ra_max(c.max_recv, off + len)
        && n.fin == (if is_fin { off + len } else { c.fin })
}
// skip(n)
pub fn skip_out_of_range(c: CurV, n: i128) -> bool { n > 0 && c.start + n > ra_varint_max() }
pub fn skip_contradicts_fin(c: CurV, n: i128) -> bool { n > 0 && cur_fin_known(c) && c.start + n > c.fin }
pub fn skip_cursors_post(c: CurV, n: i128, new: CurV) -> bool {
    new.start == c.start + n && new.max_recv == ra_max(c.max_recv, c.start + n) && new.fin == c.fin
}
// pop: only the start cursor moves, by the number of bytes handed out
pub fn pop_cursors_post(c: CurV, n: i128, new: CurV) -> bool {
    new.start == c.start + n && new.max_recv == c.max_recv && new.fin == c.fin
}
