// Contract predicates for the outgoing (sender-side) flow controllers -- property C03.
// Restricted sub-language (DESIGN 2.2): integer/boolean expressions over i128, if/else, struct
// literals, calls to other functions of these files.  The same text is asserted by the Kani
// harnesses (contracts/kani/transport/flow_out.rs) and transliterated into Verus spec functions
// for the history lemmas (verus/lemmas/C03.rs).

pub fn varint_max() -> i128 { 4611686018427387903 }
pub fn imin(a: i128, b: i128) -> i128 { if a <= b { a } else { b } }
pub fn imax(a: i128, b: i128) -> i128 { if a >= b { a } else { b } }

// ---- OutgoingConnectionFlowControllerImpl: abstraction (total, avail) --------------------------
#[derive(Clone, Copy)]
pub struct Ocfc { pub total: i128, pub avail: i128 }

pub fn ocfc_inv(s: Ocfc) -> bool { 0 <= s.avail && s.avail <= s.total && s.total <= varint_max() }
pub fn ocfc_granted(s: Ocfc) -> i128 { s.total - s.avail }

// ensures of acquire_window(desired) -> r
pub fn ocfc_acquire_grant_le_desired(old: Ocfc, desired: i128, new: Ocfc, r: i128) -> bool { 0 <= r && r <= desired }
pub fn ocfc_acquire_grant_le_avail(old: Ocfc, desired: i128, new: Ocfc, r: i128) -> bool { r <= old.avail }
pub fn ocfc_acquire_grant_is_min(old: Ocfc, desired: i128, new: Ocfc, r: i128) -> bool { r == imin(old.avail, desired) }
pub fn ocfc_acquire_avail_decreases(old: Ocfc, desired: i128, new: Ocfc, r: i128) -> bool { new.avail == old.avail - r }
pub fn ocfc_acquire_total_unchanged(old: Ocfc, desired: i128, new: Ocfc, r: i128) -> bool { new.total == old.total }
pub fn ocfc_acquire_post(old: Ocfc, desired: i128, new: Ocfc, r: i128) -> bool {
    ocfc_acquire_grant_le_desired(old, desired, new, r) && ocfc_acquire_grant_le_avail(old, desired, new, r)
        && ocfc_acquire_grant_is_min(old, desired, new, r) && ocfc_acquire_avail_decreases(old, desired, new, r)
        && ocfc_acquire_total_unchanged(old, desired, new, r)
}

// ensures of on_max_data(m)
pub fn ocfc_max_data_total_is_max(old: Ocfc, m: i128, new: Ocfc) -> bool { new.total == imax(old.total, m) }
pub fn ocfc_max_data_granted_unchanged(old: Ocfc, m: i128, new: Ocfc) -> bool { ocfc_granted(new) == ocfc_granted(old) }
pub fn ocfc_max_data_post(old: Ocfc, m: i128, new: Ocfc) -> bool {
    ocfc_max_data_total_is_max(old, m, new) && ocfc_max_data_granted_unchanged(old, m, new)
}

// ---- StreamFlowController: abstraction (max_stream_data, acquired, highest_requested, finished) ----
#[derive(Clone, Copy)]
pub struct Sfc { pub msd: i128, pub acquired: i128, pub requested: i128, pub finished: bool }

pub fn sfc_inv(s: Sfc) -> bool {
    0 <= s.msd && s.msd <= varint_max() && 0 <= s.acquired && s.acquired <= s.requested && s.requested <= varint_max()
}
pub fn sfc_window(s: Sfc) -> i128 { imin(s.msd, s.acquired) }

// ensures of set_max_stream_data(m)
pub fn sfc_set_msd_is_max(old: Sfc, m: i128, new: Sfc) -> bool { new.msd == imax(old.msd, m) }
pub fn sfc_set_msd_frame(old: Sfc, m: i128, new: Sfc) -> bool {
    new.acquired == old.acquired && new.requested == old.requested && new.finished == old.finished
}

// ensures of acquire_flow_control_window(end) -> r, with the connection controller going c_old -> c_new
pub fn sfc_acquire_result_is_window(old: Sfc, end: i128, new: Sfc, r: i128) -> bool { r == sfc_window(new) }
pub fn sfc_acquire_requested_is_max(old: Sfc, end: i128, new: Sfc, r: i128) -> bool {
    if old.finished { new.requested == old.requested } else { new.requested == imax(old.requested, end) }
}
pub fn sfc_acquire_books_connection_grant(old: Sfc, new: Sfc, c_old: Ocfc, c_new: Ocfc) -> bool {
    new.acquired - old.acquired == ocfc_granted(c_new) - ocfc_granted(c_old) && new.acquired >= old.acquired
}
pub fn sfc_acquire_never_more_than_requested(old: Sfc, end: i128, new: Sfc, r: i128) -> bool {
    new.acquired <= new.requested
}
pub fn sfc_acquire_msd_unchanged(old: Sfc, end: i128, new: Sfc, r: i128) -> bool {
    new.msd == old.msd && new.finished == old.finished
}
pub fn sfc_acquire_post(old: Sfc, end: i128, new: Sfc, r: i128, c_old: Ocfc, c_new: Ocfc) -> bool {
    sfc_acquire_result_is_window(old, end, new, r) && sfc_acquire_requested_is_max(old, end, new, r)
        && sfc_acquire_books_connection_grant(old, new, c_old, c_new)
        && sfc_acquire_never_more_than_requested(old, end, new, r) && sfc_acquire_msd_unchanged(old, end, new, r)
        && c_new.total == c_old.total
}

// ---- LocalInitiated stream-count controller: abstraction (peer limit, opened, open_now, local limit) ----
#[derive(Clone, Copy)]
pub struct Lic { pub peer_max: i128, pub opened: i128, pub closed: i128, pub local_max_open: i128 }

pub fn lic_inv(s: Lic) -> bool {
    0 <= s.closed && s.closed <= s.opened && s.opened <= s.peer_max && s.peer_max <= 1152921504606846976
}
pub fn lic_on_max_streams_is_max(old: Lic, m: i128, new: Lic) -> bool {
    new.peer_max == imax(old.peer_max, m) && new.opened == old.opened && new.closed == old.closed
}
pub fn lic_open_allowed(s: Lic) -> bool { s.opened < s.peer_max && s.opened - s.closed < s.local_max_open }
pub fn lic_on_open_counts(old: Lic, new: Lic) -> bool {
    new.opened == old.opened + 1 && new.peer_max == old.peer_max && new.closed == old.closed
}
// on_close_stream(): caller obligation closed < opened
pub fn lic_on_close_counts(old: Lic, new: Lic) -> bool {
    new.closed == old.closed + 1 && new.opened == old.opened && new.peer_max == old.peer_max
}
// available_stream_capacity() -> r: what the local application may still open, respecting both limits
pub fn lic_capacity(s: Lic) -> i128 { imin(imax(0, s.local_max_open - (s.opened - s.closed)), imax(0, s.peer_max - s.opened)) }
