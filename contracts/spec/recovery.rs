// Contract predicates for loss detection, RTT estimation, PTO and in-flight bookkeeping -- property C09
// (and the per-call window/in-flight predicates of C10 that the C09 history lemma relies on).
// Restricted sub-language (DESIGN 2.2): integer/boolean expressions over i128, if/else, struct
// literals, calls to other functions of these files.  The same text is asserted by the Kani harnesses
// (contracts/kani/core/{loss,rtt,pto,cubic}.rs) and transliterated into Verus spec functions for the
// history lemmas (verus/lemmas/C09.rs).
//
// Units: every time quantity is an integer number of NANOSECONDS unless the name ends in _us / _ms.

pub fn rmin(a: i128, b: i128) -> i128 { if a <= b { a } else { b } }
pub fn rmax(a: i128, b: i128) -> i128 { if a >= b { a } else { b } }

pub fn k_granularity_ns() -> i128 { 1000000 }
pub fn k_granularity_us() -> i128 { 1000 }
pub fn k_packet_threshold() -> i128 { 3 }

// ---- loss::detect (RFC 9002 section 6.1) ---------------------------------------------------------
// distance = largest_acked - packet_number (> 0 by the function's precondition); sent / now = timestamps,
// thr = time threshold, g = kGranularity -- all four in ONE time unit chosen by the caller (ns in the lemmas;
// the Kani harness uses us and passes floor/ceil of the ns threshold as explained there).

// the property statement, read strictly: lost iff 3 packet numbers older or sent at least `thr` earlier
pub fn loss_rfc_lost(distance: i128, sent: i128, thr: i128, now: i128) -> bool {
    distance >= k_packet_threshold() || now >= sent + thr
}
// the input class of the recorded finding (DESIGN 6 item 5): Timestamp::has_elapsed adds kGranularity
pub fn loss_known_early_class(distance: i128, sent: i128, thr: i128, now: i128, g: i128) -> bool {
    distance < k_packet_threshold() && 0 < sent + thr - now && sent + thr - now <= g
}
pub fn loss_lost_iff_rfc(lost: bool, distance: i128, sent: i128, thr: i128, now: i128) -> bool {
    lost == loss_rfc_lost(distance, sent, thr, now)
}
pub fn loss_lost_iff_rfc_outside_known(lost: bool, distance: i128, sent: i128, thr: i128, now: i128, g: i128) -> bool {
    loss_known_early_class(distance, sent, thr, now, g) || lost == loss_rfc_lost(distance, sent, thr, now)
}
// the obligations that stay in force (timer-granularity slack written into them)
pub fn loss_lost_only_if_threshold_with_slack(lost: bool, distance: i128, sent: i128, thr: i128, now: i128, g: i128) -> bool {
    !lost || distance >= k_packet_threshold() || now + g > sent + thr
}
pub fn loss_time_threshold_implies_lost(lost: bool, distance: i128, sent: i128, thr: i128, now: i128) -> bool {
    !(now >= sent + thr) || lost
}
pub fn loss_packet_threshold_implies_lost(lost: bool, distance: i128, sent: i128, thr: i128, now: i128) -> bool {
    !(distance >= k_packet_threshold()) || lost
}
pub fn loss_lost_iff_with_granularity(lost: bool, distance: i128, sent: i128, thr: i128, now: i128, g: i128) -> bool {
    lost == (distance >= k_packet_threshold() || now + g > sent + thr)
}

// ---- congestion controller: in-flight bookkeeping (C10 per call, C09 over histories) -------------
// bytes_in_flight after on_packet_sent(n)
pub fn cc_sent_bif(old_bif: i128, n: i128, new_bif: i128) -> bool { new_bif == old_bif + n }
// bytes_in_flight after on_ack(n) / on_packet_lost(n) / on_packet_discarded(n); callers guarantee n <= old_bif
pub fn cc_resolved_bif(old_bif: i128, n: i128, new_bif: i128) -> bool { new_bif == old_bif - n && new_bif >= 0 }

// ---- RttEstimator (RFC 9002 sections 5, 6.1.2, 6.2.1, 7.6.1) -------------------------------------
pub fn min_rtt_ns() -> i128 { 1000 }

// loss_time_threshold(): 9/8 * max(smoothed_rtt, latest_rtt), never less than kGranularity (integer ns)
pub fn rtt_loss_time_threshold_ns(srtt: i128, latest: i128) -> i128 {
    rmax((9 * rmax(srtt, latest)) / 8, k_granularity_ns())
}

// PTO (6.2.1), microsecond arithmetic: smoothed_rtt + max(4*rttvar, kGranularity) + max_ack_delay (application space only)
pub fn rtt_pto_base_us(srtt_us: i128, rttvar_us: i128, max_ack_delay_us: i128, application_space: bool) -> i128 {
    srtt_us + rmax(4 * rttvar_us, k_granularity_us()) + (if application_space { max_ack_delay_us } else { 0 })
}
pub fn rtt_pto_period_us(backoff: i128, base_us: i128) -> i128 { rmax(k_granularity_us(), backoff * base_us) }

// persistent congestion duration (7.6.1), millisecond arithmetic:
// (smoothed_rtt + max(4*rttvar, kGranularity) + max_ack_delay) * kPersistentCongestionThreshold
pub fn rtt_persistent_congestion_threshold_ms(srtt_ms: i128, rttvar4_ms: i128, max_ack_delay_ms: i128) -> i128 {
    (srtt_ms + rmax(rttvar4_ms, 1) + max_ack_delay_ms) * 3
}

// weighted_average(a, b, w) = a * (w-1)/w + b/w in integer ns, dividing first (DESIGN 6 item 4)
pub fn rtt_weighted_average_ns(a: i128, b: i128, w: i128) -> i128 { (a / w) * (w - 1) + b / w }
// ... which stays within [min(a,b) - (w-1) ns, max(a,b)]  (w = 8: 7 ns, w = 4: 3 ns; both bounds are attained).
// DESIGN 6 item 4 budgets 14 ns / 6 ns; the tight bound proved here implies it.
pub fn rtt_weighted_average_within(a: i128, b: i128, w: i128, r: i128) -> bool {
    rmin(a, b) - (w - 1) <= r && r <= rmax(a, b)
}

// abstraction of the estimator (ns)
#[derive(Clone, Copy)]
pub struct Rtt { pub latest: i128, pub min: i128, pub srtt: i128, pub rttvar: i128, pub max_ack_delay: i128, pub has_sample: bool }

// update_rtt(ack_delay, sample, .., handshake_confirmed, initial_space)
pub fn rtt_update_latest(old: Rtt, sample: i128, new: Rtt) -> bool { new.latest == rmax(sample, min_rtt_ns()) }
pub fn rtt_update_first_sample(old: Rtt, sample: i128, new: Rtt) -> bool {
    new.min == new.latest && new.srtt == new.latest && new.rttvar == new.latest / 2 && new.has_sample
}
pub fn rtt_update_min(old: Rtt, sample: i128, new: Rtt) -> bool { new.min == rmin(old.min, new.latest) }
// the ack delay actually subtracted: 0 in the Initial space, capped by max_ack_delay once the handshake is confirmed
pub fn rtt_effective_ack_delay(old: Rtt, ack_delay: i128, confirmed: bool, initial_space: bool) -> i128 {
    if initial_space { 0 } else { if confirmed { rmin(ack_delay, old.max_ack_delay) } else { ack_delay } }
}
// adjusted_rtt: latest minus the ack delay unless that would go below min_rtt
pub fn rtt_adjusted(new: Rtt, eff_delay: i128) -> i128 {
    if new.min + eff_delay < new.latest { new.latest - eff_delay } else { new.latest }
}
// a sample is ignored (estimates untouched) if the delay is implausible and the handshake is unconfirmed
pub fn rtt_sample_ignored(new: Rtt, eff_delay: i128, confirmed: bool) -> bool {
    !(new.min + eff_delay < new.latest) && !confirmed
}
pub fn rtt_update_estimates(old: Rtt, adj: i128, new: Rtt) -> bool {
    new.srtt == rtt_weighted_average_ns(old.srtt, adj, 8)
        && new.rttvar == rtt_weighted_average_ns(old.rttvar, (if old.srtt >= adj { old.srtt - adj } else { adj - old.srtt }), 4)
}
// "RTT estimates stay within the range of the samples observed" (7 ns divide-first rounding slack, within DESIGN's 14 ns)
pub fn rtt_update_srtt_within_samples(old: Rtt, adj: i128, new: Rtt) -> bool {
    rmin(old.srtt, adj) - 7 <= new.srtt && new.srtt <= rmax(old.srtt, adj) && new.min <= adj && adj <= new.latest
}

// ---- PTO backoff (recovery::Manager::on_timeout: pto_backoff' = min(2 * pto_backoff, max_pto_backoff)) ----
pub fn pto_backoff_next(backoff: i128, max_backoff: i128) -> i128 { rmin(2 * backoff, max_backoff) }
