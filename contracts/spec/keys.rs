// Contract predicates for the 1-RTT key set -- property C15 (RFC 9001 section 6: key update, 6.6: AEAD limits).
// Restricted sub-language (DESIGN 2.2): integer/boolean expressions over i128, if/else, struct literals, calls
// to other functions of the spec files.  The same text is asserted by the Kani harnesses
// (contracts/kani/core/keyset.rs) and transliterated into Verus spec functions for the history lemmas
// (verus/lemmas/C15.rs).

pub fn u64_max() -> i128 { 18446744073709551615 }
pub fn u16_max() -> i128 { 65535 }
pub fn sat_sub(a: i128, b: i128) -> i128 { if a >= b { a - b } else { 0 } }

// ---- limited::Key: abstraction (packets encrypted, decrypt attempts, confidentiality limit, ghost: the
// generation of the key material, i.e. how many times derive_next_key was applied to the first 1-RTT key) ----
#[derive(Clone, Copy)]
pub struct LKey { pub enc: i128, pub dec: i128, pub limit: i128, pub gen: i128 }

// the number of packets protected with one key never exceeds the confidentiality limit (RFC 9001 6.6)
pub fn lkey_inv(k: LKey) -> bool { 0 <= k.enc && k.enc <= k.limit && k.limit <= u64_max() && 0 <= k.dec && 0 <= k.gen }

// limited::Key::new(key): fresh counters, limit taken from the AEAD
pub fn lkey_new_post(new: LKey, aead_conf_limit: i128, gen: i128) -> bool {
    new.enc == 0 && new.dec == 0 && new.limit == aead_conf_limit && new.gen == gen
}
// limited::Key::expired(): ">= because we don't want to encrypt an additional packet if the key has already
// been used up to the limit"
pub fn lkey_expired(k: LKey) -> bool { k.enc >= k.limit }
// limited::Key::needs_update(limits): inside the update window before the limit
pub fn lkey_needs_update(k: LKey, window: i128) -> bool { k.enc > sat_sub(k.limit, window) }
// limited::Key::on_packet_encryption()
pub fn lkey_on_encryption_post(old: LKey, new: LKey) -> bool {
    new.enc == old.enc + 1 && new.dec == old.dec && new.limit == old.limit && new.gen == old.gen
}
// limited::Key::on_packet_decryption()
pub fn lkey_on_decryption_post(old: LKey, new: LKey) -> bool {
    new.dec == old.dec + 1 && new.enc == old.enc && new.limit == old.limit && new.gen == old.gen
}
pub fn lkey_same(a: LKey, b: LKey) -> bool { a.enc == b.enc && a.dec == b.dec && a.limit == b.limit && a.gen == b.gen }

// ---- KeySet: abstraction ---------------------------------------------------------------------------
// phase: current key phase bit (0/1); generation: number of rotations; k0/k1: the keys stored for phase 0/1;
// failures: packets that failed authentication; timer_armed: a key update is in progress (the non-active slot
// still holds the PREVIOUS key until the derivation timer fires)
#[derive(Clone, Copy)]
pub struct Ks {
    pub phase: i128, pub generation: i128, pub k0: LKey, pub k1: LKey,
    pub failures: i128, pub integrity_limit: i128, pub window: i128, pub timer_armed: bool,
}

pub fn ks_active(s: Ks) -> LKey { if s.phase == 0 { s.k0 } else { s.k1 } }
pub fn ks_other(s: Ks) -> LKey { if s.phase == 0 { s.k1 } else { s.k0 } }
pub fn ks_key(s: Ks, phase: i128) -> LKey { if phase == 0 { s.k0 } else { s.k1 } }
pub fn other_phase(p: i128) -> i128 { if p == 0 { 1 } else { 0 } }

// representation invariant re-established by new / encrypt_packet / decrypt_packet / on_timeout:
//  * counters in range, every key within its confidentiality limit,
//  * the key phase bit toggles with every rotation (phase == generation mod 2),
//  * the active key is the key of generation `generation`,
//  * the other slot holds the NEXT key (generation + 1) when no update is in progress and the PREVIOUS key
//    (generation - 1) while the derivation timer is armed (RFC 9001 6.3/6.5: "retain two sets of packet
//    protection keys for receiving packets: the current and the next"; old keys kept ~PTO after an update)
pub fn ks_inv(s: Ks) -> bool {
    (s.phase == 0 || s.phase == 1)
        && 0 <= s.generation && s.generation <= u16_max()
        && s.phase == s.generation % 2
        && lkey_inv(s.k0) && lkey_inv(s.k1)
        && 0 <= s.failures && s.failures <= u64_max()
        && 0 <= s.integrity_limit && s.integrity_limit <= u64_max()
        && 0 <= s.window && s.window <= u64_max()
        && ks_active(s).gen == s.generation
        && (if s.timer_armed { ks_other(s).gen == s.generation - 1 } else { ks_other(s).gen == s.generation + 1 })
}

// KeySet::new(key, limits)
pub fn ks_new_post(new: Ks, conf_limit: i128, integrity_limit: i128, window: i128) -> bool {
    new.phase == 0 && new.generation == 0 && new.failures == 0 && !new.timer_armed
        && new.integrity_limit == integrity_limit && new.window == window
        && lkey_new_post(new.k0, conf_limit, 0) && lkey_new_post(new.k1, conf_limit, 1)
}

// KeySet::encryption_phase(): "Endpoints MUST initiate a key update before sending more protected packets
// than the confidentiality limit for the selected AEAD permits" -- the next phase iff the active key is
// within the update window of its limit
pub fn ks_encryption_phase(s: Ks) -> i128 {
    if lkey_needs_update(ks_active(s), s.window) { other_phase(s.phase) } else { s.phase }
}

// RFC 9001 6.4: "An endpoint never sends packets that are protected with old keys.  Only the current keys are
// used." -- the key selected for sending is never older than the current generation (it is the current key,
// or the next one when this endpoint initiates an update)
pub fn ks_encryption_key_not_older(s: Ks) -> bool { ks_key(s, ks_encryption_phase(s)).gen >= s.generation }

// everything but the two keys
pub fn ks_same_control(a: Ks, b: Ks) -> bool {
    a.phase == b.phase && a.generation == b.generation && a.failures == b.failures
        && a.integrity_limit == b.integrity_limit && a.window == b.window && a.timer_armed == b.timer_armed
}
pub fn ks_same(a: Ks, b: Ks) -> bool { ks_same_control(a, b) && lkey_same(a.k0, b.k0) && lkey_same(a.k1, b.k1) }

// KeySet::encrypt_packet(..) -> ok / Err(AeadLimitReached); `called` = the packet-writing callback ran,
// `cb_ok` = it succeeded (only meaningful when called)
//   Ok  => the key of the encryption phase was below its limit and is counted exactly once
pub fn ks_encrypt_ok_post(old: Ks, new: Ks) -> bool {
    ks_key(old, ks_encryption_phase(old)).enc < ks_key(old, ks_encryption_phase(old)).limit
        && lkey_on_encryption_post(ks_key(old, ks_encryption_phase(old)), ks_key(new, ks_encryption_phase(old)))
        && lkey_same(ks_key(old, other_phase(ks_encryption_phase(old))), ks_key(new, other_phase(ks_encryption_phase(old))))
        && ks_same_control(old, new)
}
//   Err(AeadLimitReached) <=> the key of the encryption phase is used up; nothing encrypted, nothing counted
pub fn ks_encrypt_limit_reached(old: Ks) -> bool {
    ks_key(old, ks_encryption_phase(old)).enc >= ks_key(old, ks_encryption_phase(old)).limit
}
// every call: the successful encryptions of a key never exceed its limit, whatever happens
pub fn ks_encrypt_post(old: Ks, new: Ks, ok: bool) -> bool {
    if ok { ks_encrypt_ok_post(old, new) } else { ks_same(old, new) }
}

// KeySet::decrypt_packet(packet, largest_acked, pto): which stored key is tried for a packet carrying key-phase
// bit `pkt_phase` -- always the one stored for that bit (current phase -> active key; other phase -> the next
// key, or during an update the previous key)
pub fn ks_decrypt_key_phase(s: Ks, pkt_phase: i128) -> i128 { pkt_phase }

// authentication failure: counted; the connection must be closed with AEAD_LIMIT_REACHED once the count
// reaches the integrity limit (RFC 9001 6.6); keys and phase untouched except the attempt counter
pub fn ks_decrypt_fail_post(old: Ks, pkt_phase: i128, new: Ks) -> bool {
    new.failures == old.failures + 1
        && new.phase == old.phase && new.generation == old.generation && new.timer_armed == old.timer_armed
        && new.integrity_limit == old.integrity_limit && new.window == old.window
        && lkey_on_decryption_post(ks_key(old, pkt_phase), ks_key(new, pkt_phase))
        && lkey_same(ks_key(old, other_phase(pkt_phase)), ks_key(new, other_phase(pkt_phase)))
}
pub fn ks_decrypt_fail_is_close(new: Ks) -> bool { new.failures >= new.integrity_limit }

// success in the current phase: nothing but the attempt counter changes
pub fn ks_decrypt_ok_same_phase_post(old: Ks, new: Ks) -> bool {
    ks_same_control(old, new)
        && lkey_on_decryption_post(ks_active(old), ks_active(new)) && lkey_same(ks_other(old), ks_other(new))
}
// success with the NEXT key (no update in progress): the peer updated (or answered our update): rotate --
// generation + 1, phase toggled, derivation timer armed, send keys are now the new ones (RFC 9001 6.2)
pub fn ks_decrypt_ok_next_phase_post(old: Ks, new: Ks) -> bool {
    new.generation == old.generation + 1 && new.phase == other_phase(old.phase) && new.timer_armed
        && new.failures == old.failures && new.integrity_limit == old.integrity_limit && new.window == old.window
        && lkey_on_decryption_post(ks_other(old), ks_active(new)) && lkey_same(ks_active(old), ks_other(new))
}
// success with the PREVIOUS key while an update is in progress (a delayed packet from before the update,
// RFC 9001 6.5): the packet is delivered, but keys, phase and generation stay -- "Packets with higher packet
// numbers MUST be protected with either the same or newer packet protection keys than packets with lower
// packet numbers" (6.4), so the endpoint must not fall back to the old send keys
pub fn ks_decrypt_ok_previous_phase_post(old: Ks, new: Ks) -> bool {
    ks_same_control(old, new)
        && lkey_on_decryption_post(ks_other(old), ks_other(new)) && lkey_same(ks_active(old), ks_active(new))
}

// KeySet::on_timeout(now): when the derivation timer fires, exactly one next key is derived from the active
// one and replaces the previous key; otherwise nothing changes
pub fn ks_timeout_fired_post(old: Ks, new: Ks, aead_conf_limit: i128) -> bool {
    !new.timer_armed && new.phase == old.phase && new.generation == old.generation && new.failures == old.failures
        && new.integrity_limit == old.integrity_limit && new.window == old.window
        && lkey_same(ks_active(old), ks_active(new))
        && lkey_new_post(ks_other(new), aead_conf_limit, ks_active(old).gen + 1)
}
