// Contract predicates for the duplicate-detection window -- properties C06 / C16.
// packet::number::SlidingWindow (quic/s2n-quic-core/src/packet/number/sliding_window.rs)
//
// Restricted sub-language (DESIGN 2.2).  The same text is asserted by the Kani harnesses
// (contracts/kani/core/c06_sliding_window.rs) and transliterated for verus/lemmas/C06.rs.
//
// Abstract state: an optional right edge (`has_edge`, `edge`) and a set `seen` of packet numbers.
// A set cannot be a field of the sub-language, therefore every predicate is *pointwise*: it talks
// about one packet number `q` and takes `member_q = (q in seen)` as a parameter.  Layer F asserts
// it for a symbolic witness q (= for all q), layer L quantifies over q.
//
// RFC 4303 3.4.3 (quoted in the source): "The 'right' edge of the window represents the highest,
// validated Sequence Number value received [...] Packets that contain sequence numbers lower than the
// 'left' edge of the window are rejected.  Packets falling within the window are checked against a
// list of received packets within the window."

// width of the window: 128 bitmap positions + the right edge itself
pub fn sw_width() -> i128 { 129 }

// result / status codes
pub fn sw_ok() -> i128 { 0 }
pub fn sw_duplicate() -> i128 { 1 }
pub fn sw_too_old() -> i128 { 2 }

// q is not below the left edge:  q > edge - 129  (everything is inside an empty window)
pub fn sw_in_window(has_edge: bool, edge: i128, q: i128) -> bool { !has_edge || q + sw_width() > edge }

// what the window must answer for q: TooOld below the left edge, Duplicate iff recorded, Ok otherwise
pub fn sw_status(has_edge: bool, edge: i128, q: i128, member_q: bool) -> i128 {
    if !sw_in_window(has_edge, edge, q) { sw_too_old() } else if member_q { sw_duplicate() } else { sw_ok() }
}

// representation invariant, pointwise: only packet numbers up to the right edge are recorded, the
// right edge itself is recorded, nothing is recorded in an empty window
pub fn sw_inv_at(has_edge: bool, edge: i128, q: i128, member_q: bool) -> bool {
    (!member_q || (has_edge && q <= edge)) && (!(has_edge && q == edge) || member_q) && (!has_edge || 0 <= edge)
}

// ensures of check(pn) -> code
pub fn sw_check_ok_iff_unseen_in_window(has_edge: bool, edge: i128, pn: i128, member_pn: bool, code: i128) -> bool {
    (code == sw_ok()) == (!member_pn && sw_in_window(has_edge, edge, pn))
}
pub fn sw_check_duplicate_iff_seen(has_edge: bool, edge: i128, pn: i128, member_pn: bool, code: i128) -> bool {
    (code == sw_duplicate()) == (member_pn && sw_in_window(has_edge, edge, pn))
}
pub fn sw_check_too_old_iff_below_window(has_edge: bool, edge: i128, pn: i128, member_pn: bool, code: i128) -> bool {
    (code == sw_too_old()) == !sw_in_window(has_edge, edge, pn)
}
pub fn sw_check_post(has_edge: bool, edge: i128, pn: i128, member_pn: bool, code: i128) -> bool {
    sw_check_ok_iff_unseen_in_window(has_edge, edge, pn, member_pn, code)
        && sw_check_duplicate_iff_seen(has_edge, edge, pn, member_pn, code)
        && sw_check_too_old_iff_below_window(has_edge, edge, pn, member_pn, code)
}

// ensures of insert(pn) -> code, window (has_edge, edge) -> (new_has_edge, new_edge)
// the verdict is the one check() gives on the old state
pub fn sw_insert_code_is_check(has_edge: bool, edge: i128, pn: i128, member_pn: bool, code: i128) -> bool {
    code == sw_status(has_edge, edge, pn, member_pn)
}
// the right edge becomes max(edge, pn) on success and is untouched on error
pub fn sw_insert_edge_is_max(has_edge: bool, edge: i128, pn: i128, code: i128, new_has_edge: bool, new_edge: i128) -> bool {
    if code == sw_ok() {
        new_has_edge && new_edge == (if has_edge && edge > pn { edge } else { pn })
    } else {
        new_has_edge == has_edge && new_edge == edge
    }
}
// "insert adds exactly pn": every q that is still inside the (new) window is recorded afterwards iff it was
// recorded before or is the accepted pn itself; q below the new left edge is TooOld by sw_status
pub fn sw_insert_member_at(pn: i128, code: i128, new_has_edge: bool, new_edge: i128, q: i128, member_q: bool, new_member_q: bool) -> bool {
    !sw_in_window(new_has_edge, new_edge, q) || new_member_q == (member_q || (code == sw_ok() && q == pn))
}
// eviction report of insert_with_evicted: q is reported iff it was inside the old bitmap (below the old right
// edge), had never been inserted, and has now fallen below the left edge
pub fn sw_insert_evicted_at(has_edge: bool, edge: i128, code: i128, new_has_edge: bool, new_edge: i128, q: i128, member_q: bool, reported_q: bool) -> bool {
    reported_q == (code == sw_ok() && has_edge && q < edge && sw_in_window(has_edge, edge, q) && !member_q
        && !sw_in_window(new_has_edge, new_edge, q))
}
