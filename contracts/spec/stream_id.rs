// Contract predicates for `StreamId` (quic/s2n-quic-core/src/stream/id.rs) -- properties C12, C03.
// Restricted sub-language (DESIGN 2.2).  RFC 9000 2.1: a stream id is a 62-bit integer whose two least
// significant bits give the type (0x1: server-initiated, 0x2: unidirectional); ids of one type are
// therefore spaced 4 apart.

pub fn sid_max() -> i128 { 4611686018427387903 }
pub fn sid_valid(v: i128) -> bool { 0 <= v && v <= sid_max() }
// the two type bits
pub fn sid_type_bits(v: i128) -> i128 { v % 4 }
// RFC 9000 2.1 Table 1
pub fn sid_type_of(client: bool, bidi: bool) -> i128 { if client { if bidi { 0 } else { 2 } } else { if bidi { 1 } else { 3 } } }

// ensures of StreamId::initial(initiator, type) -> r
pub fn sid_initial_post(client: bool, bidi: bool, r: i128) -> bool { r == sid_type_of(client, bidi) }

// ensures of StreamId::nth(initiator, type, n) -> Option r      (0 <= n < 2^64)
pub fn sid_nth_some_iff_in_range(client: bool, bidi: bool, n: i128, some: bool) -> bool {
    some == (4 * n + sid_type_of(client, bidi) <= sid_max())
}
pub fn sid_nth_value(client: bool, bidi: bool, n: i128, some: bool, r: i128) -> bool {
    !some || r == 4 * n + sid_type_of(client, bidi)
}

// ensures of StreamId::next_of_type(v) -> Option r
pub fn sid_next_some_iff_in_range(v: i128, some: bool) -> bool { some == (v + 4 <= sid_max()) }
pub fn sid_next_value(v: i128, some: bool, r: i128) -> bool { !some || r == v + 4 }
pub fn sid_next_post(v: i128, some: bool, r: i128) -> bool { sid_next_some_iff_in_range(v, some) && sid_next_value(v, some, r) }
