// Contract predicates for the sending half of a stream (DataSender state machine) -- property C12.
// Restricted sub-language (DESIGN 2.2).  Asserted by contracts/kani/transport/data_sender.rs on the
// real DataSender and transliterated for verus/lemmas/C12.rs.

pub fn snd_varint_max() -> i128 { 4611686018427387903 }

// abstraction of a DataSender: st = 0 Sending, 1 Finishing(_), 2 Finished, 3 Cancelled(_);
// total = total_enqueued_len() = number of bytes ever pushed (reset to 0 by stop_sending)
#[derive(Clone, Copy)]
pub struct Snd { pub st: i128, pub total: i128 }

pub fn snd_inv(s: Snd) -> bool { 0 <= s.st && s.st <= 3 && 0 <= s.total && s.total <= snd_varint_max() }

// push(data), |data| = n > 0: only while Sending (debug_assert in push = obligation on the caller)
pub fn snd_push_pre(old: Snd) -> bool { old.st == 0 }
pub fn snd_push_post(old: Snd, n: i128, new: Snd) -> bool { new.st == 0 && new.total == old.total + n }

// finish(): Sending -> Finishing, everything else unchanged; total_len is never touched
pub fn snd_finish_post(old: Snd, new: Snd) -> bool {
    new.total == old.total && new.st == (if old.st == 0 { 1 } else { old.st })
}

// stop_sending(err): Finished is left alone, everything else becomes Cancelled with no data at all
pub fn snd_stop_post(old: Snd, new: Snd) -> bool {
    if old.st == 2 { new.st == 2 && new.total == old.total } else { new.st == 3 && new.total == 0 }
}

// on_packet_ack / on_packet_loss: total_len unchanged; the only state change is Finishing -> Finished
pub fn snd_ack_loss_post(old: Snd, new: Snd) -> bool {
    new.total == old.total && (new.st == old.st || (old.st == 1 && new.st == 2))
}

// on_transmit: state class and total_len unchanged ...
pub fn snd_transmit_post(old: Snd, new: Snd) -> bool { new.total == old.total && new.st == old.st }
// ... and every chunk [off, off+len) it hands to the frame writer lies inside [0, total); the FIN bit is
// set only while Finishing and only on a chunk that ends at total
pub fn snd_chunk_ok(s: Snd, off: i128, len: i128, fin: bool) -> bool {
    s.st <= 1 && 0 <= off && 1 <= len && off + len <= s.total && (!fin || (s.st == 1 && off + len == s.total))
}
// ... and a FIN-only frame is written only while Finishing, with offset == total
pub fn snd_fin_frame_ok(s: Snd, off: i128) -> bool { s.st == 1 && off == s.total }
