// Contract predicates for the set of packet numbers waiting to be acknowledged -- properties C08 / C16.
// ack::Ranges (quic/s2n-quic-core/src/ack/ranges.rs) and AckManager (quic/s2n-quic-transport/src/ack/ack_manager.rs).
// Restricted sub-language (DESIGN 2.2).  Asserted by contracts/kani/core/c08_ack_ranges.rs and
// contracts/kani/transport/c08_ack_manager.rs, transliterated for verus/lemmas/C08.rs.
//
// The abstract state is a set of packet numbers.  As in sliding_window.rs every predicate is pointwise: it
// talks about one packet number q and takes `old_q = (q in ranges)`, `new_q = (q in ranges')` as parameters.
// Layer F asserts it for a symbolic witness q, layer L quantifies over q.

pub fn ar_in(lo: i128, hi: i128, q: i128) -> bool { lo <= q && q <= hi }

// outcome codes of Ranges::insert_packet_number_range
pub fn ar_ok() -> i128 { 0 }
pub fn ar_lowest_dropped() -> i128 { 1 }      // Err(LowestRangeDropped { min, max }): inserted, lowest stored range evicted
pub fn ar_insertion_failed() -> i128 { 2 }    // Err(RangeInsertionFailed): nothing inserted

// ---- Ranges::insert_packet_number_range([lo, hi]) -> code (dmin, dmax = the evicted range when code == 1) ----
// C08: never names anything that was not handed in:  ranges' is a subset of ranges + [lo, hi]
pub fn ar_insert_subset_at(lo: i128, hi: i128, q: i128, old_q: bool, new_q: bool) -> bool {
    !new_q || old_q || ar_in(lo, hi, q)
}
// C16: exact view
pub fn ar_insert_view_at(lo: i128, hi: i128, code: i128, dmin: i128, dmax: i128, q: i128, old_q: bool, new_q: bool) -> bool {
    if code == ar_ok() { new_q == (old_q || ar_in(lo, hi, q)) }
    else if code == ar_lowest_dropped() { new_q == ((old_q && !ar_in(dmin, dmax, q)) || ar_in(lo, hi, q)) }
    else { new_q == old_q }
}
// "a capacity-bounded ACK-range set discarding only its lowest ranges": what is evicted is a stored range, nothing
// stored lies below it, it lies entirely below the new packet numbers, and it happens only when the set is full
pub fn ar_insert_evicted_is_lowest_at(code: i128, dmin: i128, dmax: i128, q: i128, old_q: bool) -> bool {
    code != ar_lowest_dropped() || (dmin <= dmax && (!ar_in(dmin, dmax, q) || old_q) && (q >= dmin || !old_q))
}
pub fn ar_insert_evicts_only_for_larger(code: i128, dmax: i128, lo: i128) -> bool {
    code != ar_lowest_dropped() || dmax < lo
}
pub fn ar_insert_error_only_when_full(code: i128, old_len: i128, limit: i128) -> bool {
    code == ar_ok() || old_len == limit
}
pub fn ar_insert_len_within_limit(new_len: i128, limit: i128) -> bool { 0 <= new_len && new_len <= limit }

// ---- AckManager::on_processed_packet(pn): ranges' is a subset of ranges + {pn} ------------------------------
pub fn am_processed_subset_at(pn: i128, q: i128, old_q: bool, new_q: bool) -> bool { ar_insert_subset_at(pn, pn, q, old_q, new_q) }
// ---- AckManager::on_packet_ack: only removes ---------------------------------------------------------------
pub fn am_ack_only_removes_at(q: i128, old_q: bool, new_q: bool) -> bool { !new_q || old_q }
// ---- AckManager::on_transmit: the frame handed to the writer carries exactly the stored ranges ----------------
pub fn am_frame_is_ranges_at(q: i128, ranges_q: bool, frame_q: bool) -> bool { frame_q == ranges_q }
pub fn am_transmit_ranges_unchanged_at(q: i128, old_q: bool, new_q: bool) -> bool { new_q == old_q }
