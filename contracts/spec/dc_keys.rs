// Contract predicates for the s2n-quic-dc key-id sender and replay-window receiver -- property C19.
// Restricted sub-language (DESIGN 2.2): integer/boolean expressions over i128, if/else, struct
// literals, calls to other functions of these files.  The same text is asserted by the Kani harnesses
// (contracts/kani/dc/dc_sender.rs, dc_receiver.rs) and transliterated into Verus spec functions for
// the history lemmas (verus/lemmas/C19.rs).

pub fn key_id_max() -> i128 { 4611686018427387903 }   // KeyId::MAX == VarInt::MAX == 2^62 - 1 (reserved)
pub fn key_window() -> i128 { 896 }                    // receiver.rs: const WINDOW
pub fn kmax(a: i128, b: i128) -> i128 { if a >= b { a } else { b } }
pub fn kmin(a: i128, b: i128) -> i128 { if a <= b { a } else { b } }

// ---- sender::State: abstraction = the value of `current_id` (the next id to be issued) ------------
pub fn dcs_inv(cur: i128) -> bool { 0 <= cur && cur <= key_id_max() }
// next_key_id() is documented to panic ("2^62 integer incremented per-path will not wrap") instead of
// issuing the reserved maximum; below that point it must not panic
pub fn dcs_next_pre(cur: i128) -> bool { dcs_inv(cur) && cur + 1 < key_id_max() }
// ensures of next_key_id() -> r
pub fn dcs_next_returns_current(old: i128, new: i128, r: i128) -> bool { r == old }
pub fn dcs_next_increments_by_one(old: i128, new: i128, r: i128) -> bool { new == old + 1 }
pub fn dcs_next_issued_below_reserved_max(old: i128, new: i128, r: i128) -> bool { r < key_id_max() - 1 && new < key_id_max() }
pub fn dcs_next_post(old: i128, new: i128, r: i128) -> bool {
    dcs_next_returns_current(old, new, r) && dcs_next_increments_by_one(old, new, r)
        && dcs_next_issued_below_reserved_max(old, new, r)
}
// ensures of update_for_stale_key(m)
pub fn dcs_stale_is_max(old: i128, m: i128, new: i128) -> bool { new == kmax(old, m) }

// ---- receiver::State: abstraction ------------------------------------------------------------------
// `init`     : nothing accepted yet (max_seen_key_id holds its initial u64::MAX)
// `max_seen` : highest id accepted so far (meaningful when !init)
// The 896-bit window is abstracted point-wise: for an id w, `seen` is "bit (max_seen - w) exists and is
// set".  Predicates that speak about the window take (w, seen) for an arbitrary witness id w, so a
// harness discharging them with a symbolic w has shown them for every id.
#[derive(Clone, Copy)]
pub struct Rx { pub init: bool, pub max_seen: i128 }

// id k lies above, or less than 896 below, the highest accepted id (everything does before the first accept)
pub fn rx_in_window(s: Rx, k: i128) -> bool { s.init || k > s.max_seen - key_window() }

// representation invariant at witness id w
pub fn rx_inv_at(s: Rx, w: i128, w_seen: bool) -> bool {
    (s.init || (0 <= s.max_seen && s.max_seen < key_id_max()))              // the reserved maximum is never accepted
        && (!w_seen || (!s.init && 0 <= w && w <= s.max_seen && rx_in_window(s, w)))   // only ids in [max-895, max] are marked
        && (s.init || w != s.max_seen || w_seen)                            // the maximum itself was accepted
}

// result codes of post_authentication: 0 = Ok, 1 = Err(AlreadyExists), 2 = Err(Unknown)
pub fn rx_res_ok() -> i128 { 0 }
pub fn rx_res_already_exists() -> i128 { 1 }
pub fn rx_res_unknown() -> i128 { 2 }

// ensures of post_authentication(k) -> res   (k_seen: status of k itself before the call)
pub fn rx_post_ok_iff(old: Rx, k: i128, k_seen: bool, res: i128) -> bool {
    (res == rx_res_ok()) == (k != key_id_max() && !k_seen && rx_in_window(old, k))
}
pub fn rx_post_already_exists_iff_seen(old: Rx, k: i128, k_seen: bool, res: i128) -> bool {
    (res == rx_res_already_exists()) == (k != key_id_max() && k_seen)
}
pub fn rx_post_unknown_only_outside_window_or_max(old: Rx, k: i128, k_seen: bool, res: i128) -> bool {
    (res == rx_res_unknown()) == (k == key_id_max() || !rx_in_window(old, k))
}
pub fn rx_post_max_seen(old: Rx, k: i128, res: i128, new: Rx) -> bool {
    if res == rx_res_ok() {
        !new.init && new.max_seen == (if old.init { k } else { kmax(old.max_seen, k) })
    } else {
        new.init == old.init && (new.init || new.max_seen == old.max_seen)     // error paths leave the state unchanged
    }
}
// accepted' == accepted + {k} on Ok, unchanged otherwise, restricted to the (possibly advanced) window:
// every id w keeps its status unless it fell out of the window; k becomes marked exactly on Ok
pub fn rx_post_witness(old: Rx, k: i128, res: i128, new: Rx, w: i128, w_seen_old: bool, w_seen_new: bool) -> bool {
    w_seen_new == (rx_in_window(new, w) && (w_seen_old || (res == rx_res_ok() && w == k)))
}
// ensures of minimum_unseen_key_id() -> r
pub fn rx_min_unseen(s: Rx, r: i128) -> bool {
    r == (if s.init { 0 } else { kmin(s.max_seen + 1, key_id_max()) })
}
