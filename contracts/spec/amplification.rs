// Contract predicates for the anti-amplification credit of `Path` -- property C11.
// Restricted sub-language (DESIGN 2.2).  Asserted on the real `Path<endpoint::testing::Server>` by
// contracts/kani/transport/path_amplification.rs and transliterated for verus/lemmas/C11.rs.

pub fn amp_u32_max() -> i128 { 4294967295 }
pub fn amp_min(a: i128, b: i128) -> i128 { if a <= b { a } else { b } }
pub fn amp_max(a: i128, b: i128) -> i128 { if a >= b { a } else { b } }

// ---- abstraction of Path.state + Path.anti_amplification_multiplier -------------------------------
// validated: state == State::Validated; allowance: tx_allowance (0 by convention when validated);
// mult: the configured multiplier (3 = RFC 9000 8.1 for the default limits).
#[derive(Clone, Copy)]
pub struct Amp { pub validated: bool, pub allowance: i128, pub mult: i128 }

pub fn amp_inv(s: Amp) -> bool {
    0 <= s.allowance && s.allowance <= amp_u32_max() && 0 <= s.mult && s.mult <= 255 && (!s.validated || s.allowance == 0)
}

// at_amplification_limit() -> r
pub fn amp_at_limit(s: Amp) -> bool { !s.validated && s.allowance == 0 }

// ensures of on_bytes_received(n), 0 <= n <= 65535 (a UDP payload length)
pub fn amp_rx_credit(old: Amp, n: i128, new: Amp) -> bool {
    if old.validated { new.allowance == 0 } else { new.allowance == amp_min(amp_u32_max(), old.allowance + old.mult * n) }
}
pub fn amp_rx_frame(old: Amp, n: i128, new: Amp) -> bool { new.validated == old.validated && new.mult == old.mult }
pub fn amp_rx_post(old: Amp, n: i128, new: Amp) -> bool { amp_rx_credit(old, n, new) && amp_rx_frame(old, n, new) }
// for every usize n (no range restriction): never more credit than mult * n
pub fn amp_rx_never_overcredits(old: Amp, n: i128, new: Amp) -> bool {
    new.allowance <= amp_min(amp_u32_max(), old.allowance + old.mult * n) && new.allowance >= old.allowance
}
// on_bytes_received's return value: 0 = Unchanged, 1 = ActivePathUnblocked, 2 = InactivePathUnblocked
pub fn amp_rx_outcome(old: Amp, new: Amp, active: bool) -> i128 {
    if amp_at_limit(old) && !amp_at_limit(new) { if active { 1 } else { 2 } } else { 0 }
}

// ensures of on_bytes_transmitted(n), 0 <= n <= u32::MAX; callers establish n == 0 || !at_limit(old)
pub fn amp_tx_debit(old: Amp, n: i128, new: Amp) -> bool {
    if old.validated { new.allowance == 0 } else { new.allowance == amp_max(0, old.allowance - n) }
}
pub fn amp_tx_frame(old: Amp, n: i128, new: Amp) -> bool { new.validated == old.validated && new.mult == old.mult }
pub fn amp_tx_post(old: Amp, n: i128, new: Amp) -> bool { amp_tx_debit(old, n, new) && amp_tx_frame(old, n, new) }

// ensures of on_handshake_packet() / a matching on_path_response()
pub fn amp_validated_post(old: Amp, new: Amp) -> bool { new.validated && new.allowance == 0 && new.mult == old.mult }
// every other mutator of Path
pub fn amp_unchanged(old: Amp, new: Amp) -> bool {
    new.validated == old.validated && new.allowance == old.allowance && new.mult == old.mult
}

// ---- history (ghost) state: what was received / sent on the path while it was unvalidated ----------
// rx, tx: payload bytes received from / datagram bytes sent to the address so far
// debt:   bytes by which transmitted datagrams exceeded the allowance that remained when they were
//         started (the counter saturates at 0, so this part of tx is forgotten by the implementation)
// maxd:   largest datagram sent so far
#[derive(Clone, Copy)]
pub struct AmpHist { pub s: Amp, pub rx: i128, pub tx: i128, pub debt: i128, pub maxd: i128 }

pub fn amp_hist_init(s: Amp) -> AmpHist { AmpHist { s: s, rx: 0, tx: 0, debt: 0, maxd: 0 } }
pub fn amp_hist_rx(h: AmpHist, n: i128, new: Amp) -> AmpHist { AmpHist { s: new, rx: h.rx + n, tx: h.tx, debt: h.debt, maxd: h.maxd } }
pub fn amp_hist_tx(h: AmpHist, n: i128, new: Amp) -> AmpHist {
    AmpHist { s: new, rx: h.rx, tx: h.tx + n, debt: h.debt + amp_max(0, n - h.s.allowance), maxd: amp_max(h.maxd, n) }
}

// what the counter contracts do imply, for every history on an unvalidated path:
//   allowance <= mult*rx - tx + debt      (safety direction: credit never exceeds the true balance plus what was forgotten)
//   allowance <= mult*rx
//   allowance >= mult*rx - tx  as long as the u32 counter has not saturated at the top (mult*rx <= u32::MAX)
pub fn amp_hist_inv(h: AmpHist) -> bool {
    amp_inv(h.s) && 0 <= h.rx && 0 <= h.tx && 0 <= h.debt && 0 <= h.maxd
        && (h.s.validated || h.s.allowance <= h.s.mult * h.rx - h.tx + h.debt)
        && (h.s.validated || h.s.allowance <= h.s.mult * h.rx)
        && (h.s.validated || h.s.mult * h.rx > amp_u32_max() || h.s.allowance >= h.s.mult * h.rx - h.tx)
}
// a new datagram may be started (the only gate in the implementation): !at_amplification_limit()
pub fn amp_may_start(h: AmpHist) -> bool { !amp_at_limit(h.s) }
// the bound of the property statement at the moment a datagram is started on an unvalidated path
pub fn amp_stated_start_bound(h: AmpHist) -> bool { h.s.validated || h.tx < h.s.mult * h.rx }
// the bound that does hold: below mult*rx plus everything the counter has forgotten
pub fn amp_weak_start_bound(h: AmpHist) -> bool { h.s.validated || h.tx < h.s.mult * h.rx + h.debt }
// "the total stays below 3x plus one datagram"
pub fn amp_stated_total_bound(h: AmpHist) -> bool { h.s.validated || h.tx == 0 || h.tx < h.s.mult * h.rx + h.maxd }
