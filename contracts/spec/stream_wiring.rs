// Contract predicates for the stream-manager glue (properties C03, C04, C12, C14).
// Restricted sub-language (AUTHORING.md): i128 / bool expressions, if/else, struct literals, calls.
//
// Independent transcription of RFC 9000:
//   2.1   stream id bits: "The least significant bit (0x01) of the stream ID identifies the initiator of the
//         stream.  Client-initiated streams have even-numbered stream IDs (with the bit set to 0), and
//         server-initiated streams have odd-numbered stream IDs (with the bit set to 1).  The second least
//         significant bit (0x02) of the stream ID distinguishes between bidirectional streams (with the bit set
//         to 0) and unidirectional streams (with the bit set to 1)."   Table 1: 0x00 client bidi, 0x01 server
//         bidi, 0x02 client uni, 0x03 server uni.
//   18.2  initial_max_stream_data_bidi_local  "applies to newly created bidirectional streams opened by the
//         endpoint that SENDS the transport parameter";  initial_max_stream_data_bidi_remote "applies to newly
//         created bidirectional streams opened by the endpoint that RECEIVES the transport parameter";
//         initial_max_stream_data_uni "applies to newly created unidirectional streams opened by the endpoint
//         that RECEIVES the transport parameter".
//   3.2 / 4.6 / 19.11  stream-count limits are cumulative: "a stream with ID N can only be opened if
//         N / 4 < max_streams" (19.11: "MAX_STREAMS ... stream ID = (max_streams * 4 + first_stream_id_of_type)
//         must not be exceeded").
// Roles and ids are plain integers here: `*_is_server: bool`, `id: i128` (0 <= id < 2^62).

#[derive(Clone, Copy)]
pub struct StreamLimitsDecl {
    pub bidi_local: i128,
    pub bidi_remote: i128,
    pub uni: i128,
}

// ---- RFC 9000 2.1 ------------------------------------------------------------------------------------------
pub fn sid_max() -> i128 {
    4611686018427387903
}
pub fn sid_initiator_is_server(id: i128) -> bool {
    id % 2 == 1
}
pub fn sid_is_uni(id: i128) -> bool {
    (id / 2) % 2 == 1
}
/// index of the stream within its (initiator, direction) class: 0 for the first stream of the class
pub fn sid_index(id: i128) -> i128 {
    id / 4
}
/// the first id of a class (RFC 9000 Table 1)
pub fn sid_first(initiator_is_server: bool, uni: bool) -> i128 {
    if initiator_is_server {
        if uni {
            3
        } else {
            1
        }
    } else {
        if uni {
            2
        } else {
            0
        }
    }
}
/// the n-th id of a class
pub fn sid_nth(initiator_is_server: bool, uni: bool, n: i128) -> i128 {
    sid_first(initiator_is_server, uni) + 4 * n
}
pub fn sid_same_class(a: i128, b: i128) -> bool {
    a % 4 == b % 4
}

// ---- RFC 9000 18.2: per-stream initial limit declared by one endpoint ------------------------------------
/// The receive limit that endpoint E (`declarer_is_server`) declared, through its transport parameters
/// `decl`, for a stream of the class (initiator, direction): the number of bytes E's peer may send to E on that
/// stream before any MAX_STREAM_DATA.  On a unidirectional stream that E itself opened, E only sends: E
/// declared nothing for it and its peer may send nothing (0).
pub fn rfc_initial_limit_for_class(decl: StreamLimitsDecl, declarer_is_server: bool, initiator_is_server: bool, uni: bool) -> i128 {
    if uni {
        if initiator_is_server == declarer_is_server {
            0
        } else {
            decl.uni
        }
    } else {
        if initiator_is_server == declarer_is_server {
            decl.bidi_local
        } else {
            decl.bidi_remote
        }
    }
}
/// the same, reading the class from the two low bits of the stream id (RFC 9000 2.1)
pub fn rfc_initial_max_stream_data(decl: StreamLimitsDecl, declarer_is_server: bool, id: i128) -> i128 {
    rfc_initial_limit_for_class(decl, declarer_is_server, sid_initiator_is_server(id), sid_is_uni(id))
}
/// true iff endpoint E receives on streams of the class at all (everything except its own unidirectional streams)
pub fn class_receives(e_is_server: bool, initiator_is_server: bool, uni: bool) -> bool {
    !(uni && initiator_is_server == e_is_server)
}
/// true iff endpoint E sends on streams of the class at all (everything except the peer's unidirectional streams)
pub fn class_sends(e_is_server: bool, initiator_is_server: bool, uni: bool) -> bool {
    !(uni && initiator_is_server != e_is_server)
}
pub fn endpoint_receives_on(e_is_server: bool, id: i128) -> bool {
    class_receives(e_is_server, sid_initiator_is_server(id), sid_is_uni(id))
}
pub fn endpoint_sends_on(e_is_server: bool, id: i128) -> bool {
    class_sends(e_is_server, sid_initiator_is_server(id), sid_is_uni(id))
}

// ---- wiring contract of StreamManagerState::insert_stream (C03, C04) ---------------------------------------
/// what the local endpoint (`local_is_server`) may SEND on a stream of the class before any MAX_STREAM_DATA: the
/// limit the PEER declared for that stream
pub fn wiring_send_window(peer_decl: StreamLimitsDecl, local_is_server: bool, initiator_is_server: bool, uni: bool) -> i128 {
    rfc_initial_limit_for_class(peer_decl, !local_is_server, initiator_is_server, uni)
}
/// what the local endpoint allows the peer to send on a stream of the class: the limit WE declared
pub fn wiring_receive_window(local_decl: StreamLimitsDecl, local_is_server: bool, initiator_is_server: bool, uni: bool) -> i128 {
    rfc_initial_limit_for_class(local_decl, local_is_server, initiator_is_server, uni)
}

// ---- stream id allocation (C12, C03) ---------------------------------------------------------------------
/// abstract view of one locally initiated stream class: how many were opened, the peer's cumulative limit,
/// the local concurrency limit and the number closed so far
#[derive(Clone, Copy)]
pub struct OpenClass {
    pub opened: i128,
    pub closed: i128,
    pub peer_limit: i128,
    pub local_limit: i128,
}
pub fn open_class_inv(c: OpenClass) -> bool {
    0 <= c.closed && c.closed <= c.opened && c.opened <= c.peer_limit && c.opened - c.closed <= c.local_limit
}
/// RFC 9000 4.6 / 19.11: a further stream may be opened iff the cumulative count stays within the peer's limit
/// (and the configured local concurrency limit)
pub fn open_allowed(c: OpenClass) -> bool {
    c.opened < c.peer_limit && c.opened - c.closed < c.local_limit
}
/// the id the next successful open of this class must hand out
pub fn open_next_id(local_is_server: bool, uni: bool, c: OpenClass) -> i128 {
    sid_nth(local_is_server, uni, c.opened)
}
pub fn open_step(old: OpenClass, new: OpenClass) -> bool {
    new.opened == old.opened + 1
        && new.closed == old.closed
        && new.peer_limit == old.peer_limit
        && new.local_limit == old.local_limit
}
pub fn max_streams_step(old: OpenClass, m: i128, new: OpenClass) -> bool {
    new.peer_limit == (if m > old.peer_limit { m } else { old.peer_limit })
        && new.opened == old.opened
        && new.closed == old.closed
        && new.local_limit == old.local_limit
}

// ---- peer-opened streams (C04) ---------------------------------------------------------------------------
/// RFC 9000 4.6: "An endpoint that receives a frame with a stream ID exceeding the limit it has sent MUST
/// treat this as a connection error of type STREAM_LIMIT_ERROR"; with a cumulative limit `advertised`
/// exactly the streams of index >= advertised exceed it (index = position within the class, id = first + 4*index).
pub fn remote_index_exceeds_limit(index: i128, advertised: i128) -> bool {
    index >= advertised
}
pub fn remote_open_exceeds_limit(id: i128, advertised: i128) -> bool {
    remote_index_exceeds_limit(sid_index(id), advertised)
}
/// RFC 9000 3.2: "Before a stream is created, all streams of the same type with lower-numbered stream IDs
/// MUST be created": after a frame for the stream of index i of a peer class was accepted, the number of
/// opened streams of that class is max(old, i + 1)
pub fn remote_opened_after_index(old_opened: i128, index: i128) -> i128 {
    if index + 1 > old_opened {
        index + 1
    } else {
        old_opened
    }
}
pub fn remote_opened_after(old_opened: i128, id: i128) -> i128 {
    remote_opened_after_index(old_opened, sid_index(id))
}
