// Contract predicates for the incoming (receiver-side) controllers -- property C04 (and the Cursors part of C16).
// Restricted sub-language (DESIGN 2.2): integer/boolean expressions over i128, if/else, struct literals,
// calls to other functions of the spec files.  This file is used TOGETHER with flow_out.rs, which supplies
// varint_max(), imin(), imax():   Kani: `mod spec { include!(flow_out.rs); include!(flow_in.rs); }`,
// Verus: `spec=flow_out.rs,flow_in.rs`.
// The same text is asserted by the Kani harnesses (contracts/kani/transport/{icfc,rsfc,ivs,remote_initiated}.rs,
// contracts/kani/core/cursors.rs) and transliterated into Verus spec functions for verus/lemmas/C04.rs.

pub fn u32_max() -> i128 { 4294967295 }
// RFC 9000 19.11 / 4.6: a stream count limit cannot exceed 2^60
pub fn max_streams_max() -> i128 { 1152921504606846976 }

// RFC 9000 20.1 transport error codes used by the contracted checks
pub fn code_flow_control_error() -> i128 { 3 }
pub fn code_stream_limit_error() -> i128 { 4 }
pub fn code_stream_state_error() -> i128 { 5 }
pub fn code_final_size_error() -> i128 { 6 }
pub fn code_frame_encoding_error() -> i128 { 7 }
pub fn code_transport_parameter_error() -> i128 { 8 }
pub fn code_protocol_violation() -> i128 { 10 }

// ---- IncrementalValueSync<VarInt, _>: abstraction -----------------------------------------------------
// latest: value to advertise; acked: value known to be received by the peer; inflight: value carried by the
// frame in flight (-1: none); cancelled: stop_sync() was called
#[derive(Clone, Copy)]
pub struct Ivs { pub latest: i128, pub acked: i128, pub inflight: i128, pub cancelled: bool }

pub fn ivs_inv(s: Ivs) -> bool {
    0 <= s.acked && s.acked <= s.latest && s.latest <= varint_max() && -1 <= s.inflight && s.inflight <= s.latest
}
// update_latest_value(v), caller obligation v >= latest (debug_assert in the code)
pub fn ivs_update_pre(old: Ivs, v: i128) -> bool { old.latest <= v && v <= varint_max() }
pub fn ivs_update_latest_is_value(old: Ivs, v: i128, new: Ivs) -> bool { new.latest == v }
pub fn ivs_update_monotone(old: Ivs, v: i128, new: Ivs) -> bool { new.latest >= old.latest }
// (a frame in flight may be superseded by a new delivery request: its bookkeeping is then dropped)
pub fn ivs_update_frame(old: Ivs, v: i128, new: Ivs) -> bool {
    new.acked == old.acked && (new.inflight == old.inflight || new.inflight == -1) && new.cancelled == old.cancelled
}
// on_transmit: `wrote` = a frame was put on the wire, `wire` = the value it carries
pub fn ivs_transmit_wire_value_is_latest(old: Ivs, new: Ivs, wrote: bool, wire: i128) -> bool {
    !wrote || (wire == old.latest && new.inflight == old.latest)
}
pub fn ivs_transmit_latest_unchanged(old: Ivs, new: Ivs) -> bool {
    new.latest == old.latest && new.acked == old.acked && new.cancelled == old.cancelled
}
pub fn ivs_transmit_nothing_written_frame(old: Ivs, new: Ivs, wrote: bool) -> bool { wrote || new.inflight == old.inflight }
pub fn ivs_transmit_never_when_cancelled(old: Ivs, wrote: bool) -> bool { !old.cancelled || !wrote }
// on_packet_ack(set): `hit` = the in-flight packet number is in the set
pub fn ivs_ack_post(old: Ivs, new: Ivs, hit: bool) -> bool {
    new.latest == old.latest && new.cancelled == old.cancelled
        && (if hit && old.inflight >= 0 { new.acked == old.inflight && new.inflight == -1 } else { new.acked == old.acked && new.inflight == old.inflight })
}
// on_packet_loss(set)
pub fn ivs_loss_post(old: Ivs, new: Ivs, hit: bool) -> bool {
    new.latest == old.latest && new.acked == old.acked && new.cancelled == old.cancelled
        && (if hit && old.inflight >= 0 { new.inflight == -1 } else { new.inflight == old.inflight })
}

// ---- IncomingConnectionFlowControllerImpl: abstraction ---------------------------------------------------
// advertised: read_window_sync.latest_value (largest MAX_DATA we are willing to send); acquired: credit booked by
// streams; consumed: credit whose data the application has read; window: desired_flow_control_window
#[derive(Clone, Copy)]
pub struct Icfc { pub advertised: i128, pub acquired: i128, pub consumed: i128, pub window: i128 }

// the C04 credit bound: what is advertised never exceeds what the application consumed plus the receive window
pub fn icfc_credit_bound(s: Icfc) -> bool { s.advertised <= s.consumed + s.window }
pub fn icfc_inv(s: Icfc) -> bool {
    0 <= s.consumed && s.consumed <= s.acquired && s.acquired <= s.advertised && s.advertised <= varint_max()
        && 0 <= s.window && s.window <= u32_max() && icfc_credit_bound(s)
}
pub fn icfc_same(a: Icfc, b: Icfc) -> bool {
    a.advertised == b.advertised && a.acquired == b.acquired && a.consumed == b.consumed && a.window == b.window
}
// acquire_window(d) -> ok  (Err carries the error code `code`)
pub fn icfc_acquire_ok_iff_within_limit(old: Icfc, d: i128, ok: bool) -> bool { ok == (d <= old.advertised - old.acquired) }
pub fn icfc_acquire_ok_books(old: Icfc, d: i128, new: Icfc, ok: bool) -> bool {
    !ok || (new.acquired == old.acquired + d && new.advertised == old.advertised && new.consumed == old.consumed && new.window == old.window)
}
pub fn icfc_acquire_err_unchanged(old: Icfc, d: i128, new: Icfc, ok: bool) -> bool { ok || icfc_same(old, new) }
pub fn icfc_acquire_err_code(ok: bool, code: i128) -> bool { ok || code == code_flow_control_error() }
pub fn icfc_acquire_post(old: Icfc, d: i128, new: Icfc, ok: bool, code: i128) -> bool {
    icfc_acquire_ok_iff_within_limit(old, d, ok) && icfc_acquire_ok_books(old, d, new, ok)
        && icfc_acquire_err_unchanged(old, d, new, ok) && icfc_acquire_err_code(ok, code)
}
// release_window(a): caller obligation consumed + a <= acquired (debug_assert in the code)
pub fn icfc_release_pre(old: Icfc, a: i128) -> bool { 0 <= a && old.consumed + a <= old.acquired }
pub fn icfc_release_consumed_adds(old: Icfc, a: i128, new: Icfc) -> bool {
    new.consumed == old.consumed + a && new.acquired == old.acquired && new.window == old.window
}
pub fn icfc_release_advertised_rule(old: Icfc, a: i128, new: Icfc) -> bool {
    new.advertised == imax(old.advertised, imin(varint_max(), new.consumed + new.window))
}
pub fn icfc_release_post(old: Icfc, a: i128, new: Icfc) -> bool {
    icfc_release_consumed_adds(old, a, new) && icfc_release_advertised_rule(old, a, new)
}

// on_transmit(): `wrote` = a MAX_DATA frame was put on the wire, `wire` = the value it carries
pub fn icfc_transmit_wire_is_advertised(s: Icfc, wrote: bool, wire: i128) -> bool { !wrote || wire == s.advertised }

// ---- ReceiveStreamFlowController: abstraction ------------------------------------------------------------
// advertised: read_window_sync.latest_value (largest MAX_STREAM_DATA); acquired: highest offset charged to the
// connection; released: bytes read by the application (or discarded on reset); window: desired window
#[derive(Clone, Copy)]
pub struct Rsfc { pub advertised: i128, pub acquired: i128, pub released: i128, pub window: i128 }

pub fn rsfc_credit_bound(s: Rsfc) -> bool { s.advertised <= s.released + s.window }
pub fn rsfc_inv(s: Rsfc) -> bool {
    0 <= s.released && s.released <= s.acquired && s.acquired <= s.advertised && s.advertised <= varint_max()
        && 0 <= s.window && s.window <= u32_max() && rsfc_credit_bound(s)
}
pub fn rsfc_same(a: Rsfc, b: Rsfc) -> bool {
    a.advertised == b.advertised && a.acquired == b.acquired && a.released == b.released && a.window == b.window
}
// a stream is one of the holders of the connection's credit
pub fn rsfc_share_of_connection(s: Rsfc, c: Icfc) -> bool {
    s.acquired <= c.acquired && s.released <= c.consumed && s.acquired - s.released <= c.acquired - c.consumed
}
// what acquire_window_up_to(off) has to ask the connection for
pub fn rsfc_additional(old: Rsfc, off: i128) -> i128 { imax(0, off - old.acquired) }
// acquire_window_up_to(off) -> ok, connection controller going c_old -> c_new
pub fn rsfc_acquire_over_stream_limit_rejected(old: Rsfc, off: i128, ok: bool) -> bool { off <= old.advertised || !ok }
pub fn rsfc_acquire_ok_iff_within_both_limits(old: Rsfc, c_old: Icfc, off: i128, ok: bool) -> bool {
    ok == (off <= old.advertised && rsfc_additional(old, off) <= c_old.advertised - c_old.acquired)
}
pub fn rsfc_acquire_ok_acquired_is_max(old: Rsfc, off: i128, new: Rsfc, ok: bool) -> bool {
    !ok || (new.acquired == imax(old.acquired, off) && new.advertised == old.advertised && new.released == old.released && new.window == old.window)
}
pub fn rsfc_acquire_delegation_exact(old: Rsfc, off: i128, new: Rsfc, c_old: Icfc, c_new: Icfc, ok: bool) -> bool {
    !ok || (c_new.acquired == c_old.acquired + rsfc_additional(old, off) && c_new.acquired - c_old.acquired == new.acquired - old.acquired
        && c_new.advertised == c_old.advertised && c_new.consumed == c_old.consumed && c_new.window == c_old.window)
}
pub fn rsfc_acquire_err_unchanged(old: Rsfc, new: Rsfc, c_old: Icfc, c_new: Icfc, ok: bool) -> bool {
    ok || (rsfc_same(old, new) && icfc_same(c_old, c_new))
}
pub fn rsfc_acquire_err_code(ok: bool, code: i128) -> bool { ok || code == code_flow_control_error() }
pub fn rsfc_acquire_post(old: Rsfc, off: i128, new: Rsfc, c_old: Icfc, c_new: Icfc, ok: bool, code: i128) -> bool {
    rsfc_acquire_over_stream_limit_rejected(old, off, ok) && rsfc_acquire_ok_iff_within_both_limits(old, c_old, off, ok)
        && rsfc_acquire_ok_acquired_is_max(old, off, new, ok) && rsfc_acquire_delegation_exact(old, off, new, c_old, c_new, ok)
        && rsfc_acquire_err_unchanged(old, new, c_old, c_new, ok) && rsfc_acquire_err_code(ok, code)
}
// release_window(a): caller obligation released + a <= acquired
pub fn rsfc_release_pre(old: Rsfc, a: i128) -> bool { 0 <= a && old.released + a <= old.acquired }
pub fn rsfc_release_released_adds(old: Rsfc, a: i128, new: Rsfc) -> bool {
    new.released == old.released + a && new.acquired == old.acquired && new.window == old.window
}
pub fn rsfc_release_advertised_rule(old: Rsfc, a: i128, new: Rsfc) -> bool {
    new.advertised == imax(old.advertised, imin(varint_max(), new.released + new.window))
}
pub fn rsfc_release_post(old: Rsfc, a: i128, new: Rsfc, c_old: Icfc, c_new: Icfc) -> bool {
    rsfc_release_released_adds(old, a, new) && rsfc_release_advertised_rule(old, a, new) && icfc_release_post(c_old, a, c_new)
}
// release_outstanding_window() == release_window(acquired - released)
pub fn rsfc_outstanding(old: Rsfc) -> i128 { old.acquired - old.released }

// read_window_sync.on_transmit(): `wrote` = a MAX_STREAM_DATA frame was put on the wire carrying `wire`
pub fn rsfc_transmit_wire_is_advertised(s: Rsfc, wrote: bool, wire: i128) -> bool { !wrote || wire == s.advertised }

// ---- RemoteInitiated stream-count controller: abstraction -------------------------------------------------
// advertised: max_streams_sync.latest_value (largest MAX_STREAMS we are willing to send, cumulative);
// opened / closed: peer-initiated streams opened / closed so far; local_limit: max_local_limit (concurrency)
#[derive(Clone, Copy)]
pub struct Ri { pub advertised: i128, pub opened: i128, pub closed: i128, pub local_limit: i128 }

pub fn ri_credit_bound(s: Ri) -> bool { s.advertised <= s.closed + s.local_limit && s.advertised <= max_streams_max() }
pub fn ri_inv(s: Ri) -> bool {
    0 <= s.closed && s.closed <= s.opened && s.opened <= s.advertised && 0 <= s.local_limit && s.local_limit <= s.advertised
        && ri_credit_bound(s)
}
pub fn ri_same(a: Ri, b: Ri) -> bool {
    a.advertised == b.advertised && a.opened == b.opened && a.closed == b.closed && a.local_limit == b.local_limit
}
// on_remote_open_stream(id) -> ok ; index = (id >> 2), the 0-based ordinal of the stream within its type
pub fn ri_remote_open_err_iff_at_or_over_limit(old: Ri, index: i128, ok: bool) -> bool { ok == (index < old.advertised) }
pub fn ri_remote_open_err_code(ok: bool, code: i128) -> bool { ok || code == code_stream_limit_error() }
pub fn ri_remote_open_state_unchanged(old: Ri, new: Ri) -> bool { ri_same(old, new) }
// on_open_stream(): caller obligation opened < advertised (on_remote_open_stream returned Ok for a larger index)
pub fn ri_open_counts(old: Ri, new: Ri) -> bool {
    new.opened == old.opened + 1 && new.closed == old.closed && new.advertised == old.advertised && new.local_limit == old.local_limit
}
// on_close_stream(): caller obligation closed < opened
pub fn ri_close_counts(old: Ri, new: Ri) -> bool {
    new.closed == old.closed + 1 && new.opened == old.opened && new.advertised == old.advertised && new.local_limit == old.local_limit
}
// on_timeout(now) / on_transmit(..): the advertised limit may only grow, and never beyond closed + local_limit nor 2^60
pub fn ri_timeout_post(old: Ri, new: Ri) -> bool {
    old.advertised <= new.advertised && new.advertised <= imin(max_streams_max(), old.closed + old.local_limit)
        && new.opened == old.opened && new.closed == old.closed && new.local_limit == old.local_limit
}
// with a full token bucket the whole backlog of closed streams is handed back at once
pub fn ri_timeout_full_bucket(old: Ri, new: Ri) -> bool { new.advertised == imin(max_streams_max(), old.closed + old.local_limit) }

// on_transmit(): timeout step, then `wrote` = a MAX_STREAMS frame was put on the wire carrying `wire`
pub fn ri_transmit_wire_is_advertised(new: Ri, wrote: bool, wire: i128) -> bool { !wrote || wire == new.advertised }

// ---- buffer::reassembler::Cursors: abstraction (fin == -1: final size unknown) ----------------------------
#[derive(Clone, Copy)]
pub struct Cur { pub start: i128, pub max_recv: i128, pub fin: i128 }

pub fn cur_inv(c: Cur) -> bool {
    0 <= c.start && c.start <= c.max_recv && c.max_recv <= varint_max() && -1 <= c.fin && c.fin <= varint_max()
        && (c.fin == -1 || c.max_recv <= c.fin)
}
pub fn cur_same(a: Cur, b: Cur) -> bool { a.start == b.start && a.max_recv == b.max_recv && a.fin == b.fin }
// RFC 9000 4.5.  A reader delivers the data [.., end); rfin is the final size it announces (-1: none; a
// well-formed reader has end <= rfin):
//  (1) final size announced, final size known:   "Once a final size for a stream is known, it cannot change"
//  (2) final size announced, unknown so far:     no data may have been received beyond the new final size
//  (3) none announced, final size known:         data must not extend beyond the final size
//  (4) none announced, unknown:                  no constraint
pub fn cur_reader_wf(end: i128, rfin: i128) -> bool { 0 <= end && -1 <= rfin && (rfin == -1 || end <= rfin) && rfin <= varint_max() }
pub fn cur_fin_contradiction(c: Cur, end: i128, rfin: i128) -> bool {
    if rfin >= 0 {
        if c.fin >= 0 { rfin != c.fin } else { c.max_recv > rfin }
    } else {
        if c.fin >= 0 { end > c.fin } else { false }
    }
}
// handle_reader_fin(reader) -> kind: 0 = Ok, 1 = Err(OutOfRange), 2 = Err(InvalidFin)
pub fn cur_fin_result(c: Cur, end: i128, rfin: i128, kind: i128) -> bool {
    if end > varint_max() { kind == 1 } else { if cur_fin_contradiction(c, end, rfin) { kind == 2 } else { kind == 0 } }
}
pub fn cur_fin_ok_post(old: Cur, end: i128, rfin: i128, new: Cur, kind: i128) -> bool {
    kind != 0 || (new.start == old.start && new.max_recv == imax(old.max_recv, end)
        && new.fin == (if old.fin >= 0 { old.fin } else { rfin }))
}
pub fn cur_fin_err_unchanged(old: Cur, new: Cur, kind: i128) -> bool { kind == 0 || cur_same(old, new) }
pub fn cur_fin_post(old: Cur, end: i128, rfin: i128, new: Cur, kind: i128) -> bool {
    cur_fin_result(old, end, rfin, kind) && cur_fin_ok_post(old, end, rfin, new, kind) && cur_fin_err_unchanged(old, new, kind)
}
