//@ inject crate=crypto src=quic/s2n-quic-crypto/src/iv.rs
// Contract harness for the AEAD nonce construction -- property C06 (narrow claim: the code uses the primitive the way
// RFC 9001 5.3 demands; authenticity itself is the AEAD assumption A-aead).
//
// RFC 9001 5.3: "The nonce, N, is formed by combining the packet protection IV with the packet number.  The 62 bits of
// the reconstructed QUIC packet number in network byte order are left-padded with zeros to the size of the IV.  The
// exclusive OR of the padded packet number and the IV forms the AEAD nonce."
// The oracle below is an independent transcription over plain bytes (bit patterns are outside the spec sub-language).
use super::*;

/// iv XOR (0^32 || be64(pn))
fn rfc_nonce(iv: [u8; 12], pn: u64) -> [u8; 12] {
    let mut out = iv;
    let mut i = 0;
    while i < 8 {
        out[4 + i] ^= (pn >> (8 * (7 - i))) as u8;
        i += 1;
    }
    out
}

//@ harness props=C06 tier=quick level=full timeout=240
//@ fn Iv::nonce
#[kani::proof]
#[kani::unwind(14)]
fn vq_c06_iv_nonce() {
    assert!(NONCE_LEN == 12, "C06/iv.nonce/nonce_len_is_96_bits");
    let iv: [u8; 12] = kani::any();
    let pn: u64 = kani::any();
    let pn2: u64 = kani::any();
    let key = Iv(iv);
    let n = key.nonce(pn);
    let want = rfc_nonce(iv, pn);
    let mut i = 0;
    while i < 12 {
        assert!(n[i] == want[i], "C06/iv.nonce/equals_iv_xor_padded_be_packet_number");
        i += 1;
    }
    // the IV is not modified by producing a nonce
    let mut j = 0;
    while j < 12 {
        assert!(key.0[j] == iv[j], "C06/iv.nonce/iv_unchanged");
        j += 1;
    }
    // one nonce per packet number: distinct packet numbers never share a nonce under one IV
    let n2 = key.nonce(pn2);
    let mut same = true;
    let mut k = 0;
    while k < 12 {
        same &= n[k] == n2[k];
        k += 1;
    }
    assert!(same == (pn == pn2), "C06/iv.nonce/distinct_packet_numbers_distinct_nonces");
    kani::cover!(pn == (1u64 << 62) - 1, "reach:largest_packet_number");
    kani::cover!(pn == 0 && n[11] == iv[11], "reach:zero");
    kani::cover!(pn != pn2, "reach:two_packet_numbers");
    kani::cover!(true, "reach:end");
}
