//@ inject crate=transport src=quic/s2n-quic-transport/src/stream/controller/remote_initiated.rs
// Accessors for the stream-manager glue harnesses (mgr_controller.rs, mgr_manager.rs): the counters of
// `RemoteInitiated` are private to this module.  No harness here.
use super::*;

impl RemoteInitiated {
    /// [opened, closed, advertised cumulative limit (latest MAX_STREAMS value), local concurrency limit]
    pub(crate) fn verif_view(&self) -> [u64; 4] {
        [
            self.opened_streams.as_u64(),
            self.closed_streams.as_u64(),
            self.max_streams_sync.latest_value().as_u64(),
            self.max_local_limit.as_u64(),
        ]
    }
    /// builder access for arbitrary-state harnesses (callers establish closed <= opened <= advertised limit and
    /// opened - closed <= local limit, i.e. `check_integrity()` plus the C04 invariant)
    pub(crate) fn verif_set_counts(&mut self, opened: u64, closed: u64) {
        self.opened_streams = VarInt::new(opened).unwrap();
        self.closed_streams = VarInt::new(closed).unwrap();
        self.check_integrity();
    }
}
