//@ inject crate=transport src=quic/s2n-quic-transport/src/ack/ack_manager.rs
// MODULAR contract harnesses for AckManager's own logic -- property C08 ("every ack-eliciting packet it processes is
// acknowledged promptly (within the advertised max_ack_delay plus scheduling granularity, immediately when it arrives out
// of order) for as long as the endpoint is allowed to send", which includes: an ACK that was lost is sent again).
//
// The monolithic harnesses (probes/kani_injected_c08_ack_manager.rs) time out inside IntervalSet / VecDeque.  Here the
// range-set operations the manager calls are replaced through `#[kani::stub]` by nondeterministic models over a tiny ghost
// state (is the set empty, its smallest / largest packet number, its number of intervals), constrained only by the
// contract of ack::Ranges (contracts/spec/ack_ranges.rs: insert adds the packet number unless the set is full and the
// number is older than everything stored; nothing else appears).  No VecDeque code is executed.  What is under contract
// is the manager's control logic: transmission state, delayed-ACK timer, counters, the bookkeeping of which received
// packet number our own ACK-carrying packets covered.  ASSUMED (not proved here): that ack::Ranges / IntervalSet satisfy
// that contract (assumption A-ranges; its Kani harness is probes/kani_injected_c08_ack_ranges.rs, which times out).
use super::*;
use core::time::Duration;
use s2n_codec::EncoderValue;
use s2n_quic_core::{
    endpoint,
    frame::{ack::AckRanges as AckRangesTrait, ack_elicitation::AckElicitation, FrameTrait},
    inet::{DatagramInfo, ExplicitCongestionNotification},
    interval_set::{IntervalBound, IntervalSet},
    packet::number::PacketNumberRange,
    time::timer::Provider as _,
    transmission::interest::Provider as _,
};

const MAXV: u64 = s2n_quic_core::varint::MAX_VARINT_VALUE;
const SPACE: PacketNumberSpace = PacketNumberSpace::ApplicationData;
const LIMIT: usize = 10; // ack::Settings::default().ack_ranges_limit

fn pn_of(x: u64) -> PacketNumber {
    SPACE.new_packet_number(VarInt::new(x).unwrap())
}

fn ts(secs: u64, nanos: u32) -> Timestamp {
    unsafe { Timestamp::from_duration(Duration::new(secs, nanos)) }
}

fn any_nanos() -> u32 {
    let n: u32 = kani::any();
    kani::assume(n < 1_000_000_000);
    n
}

// ---- ghost model of `self.ack_ranges` ---------------------------------------------------------------------------------
static mut G_EMPTY: bool = true;
static mut G_MIN: u64 = 0;
static mut G_MAX: u64 = 0;
static mut G_LEN: usize = 0;
static mut G_INSERT_CALLS: u32 = 0;
static mut G_INSERT_ARG: u64 = 0;
static mut G_INSERT_RECORDED: bool = false;

/// arbitrary ghost set: empty, or min <= max with 1..=LIMIT intervals (one interval => nothing more is known)
fn any_ghost(allow_empty: bool) {
    let empty: bool = kani::any();
    let mn: u64 = kani::any();
    let mx: u64 = kani::any();
    let len: usize = kani::any();
    kani::assume(allow_empty || !empty);
    kani::assume(mn <= mx && mx <= MAXV);
    kani::assume(if empty { len == 0 } else { 1 <= len && len <= LIMIT });
    unsafe {
        G_EMPTY = empty;
        G_MIN = mn;
        G_MAX = mx;
        G_LEN = len;
        G_INSERT_CALLS = 0;
        G_INSERT_ARG = 0;
        G_INSERT_RECORDED = false;
    }
}

/// the stubs are generic like the functions they replace; in these harnesses the only instantiation is PacketNumber
fn from_pn<T>(x: u64) -> T {
    let p = pn_of(x);
    assert!(core::mem::size_of::<T>() == core::mem::size_of::<PacketNumber>());
    unsafe { core::mem::transmute_copy::<PacketNumber, T>(&p) }
}

fn is_empty_model<T: IntervalBound>(_s: &IntervalSet<T>) -> bool {
    unsafe { G_EMPTY }
}
fn interval_len_model<T>(_s: &IntervalSet<T>) -> usize {
    unsafe { G_LEN }
}
fn max_value_model<T: IntervalBound>(_s: &IntervalSet<T>) -> Option<T> {
    unsafe {
        if G_EMPTY {
            None
        } else {
            Some(from_pn(G_MAX))
        }
    }
}
fn min_value_model<T: IntervalBound>(_s: &IntervalSet<T>) -> Option<T> {
    unsafe {
        if G_EMPTY {
            None
        } else {
            Some(from_pn(G_MIN))
        }
    }
}
/// contract of ack::Ranges::insert_packet_number (contracts/spec/ack_ranges.rs), as a nondeterministic transition of the
/// ghost state: errors only when full; RangeInsertionFailed only for a number older than everything stored and leaves the
/// set unchanged; otherwise the number is recorded (largest = max, smallest only moves as eviction / insertion allow)
fn insert_packet_number_model(_r: &mut ack::Ranges, packet_number: PacketNumber) -> Result<(), ack::ranges::Error> {
    let p = packet_number.as_u64();
    unsafe {
        G_INSERT_CALLS += 1;
        G_INSERT_ARG = p;
        if G_EMPTY {
            G_EMPTY = false;
            G_MIN = p;
            G_MAX = p;
            G_LEN = 1;
            G_INSERT_RECORDED = true;
            return Ok(());
        }
        let full = G_LEN == LIMIT;
        if full && p < G_MIN && p + 1 < G_MIN {
            // needs a new interval below the lowest one: rejected, nothing changes
            return Err(ack::ranges::Error::RangeInsertionFailed { min: packet_number, max: packet_number });
        }
        G_INSERT_RECORDED = true;
        let old_min = G_MIN;
        let new_len: usize = kani::any();
        kani::assume(1 <= new_len && new_len <= LIMIT && new_len <= G_LEN + 1 && new_len + 1 >= G_LEN);
        let evict: bool = kani::any();
        // eviction of the lowest interval: only when full and for a number above it
        let evicted = evict && full && p > G_MIN && new_len == G_LEN;
        if p > G_MAX {
            G_MAX = p;
        }
        if evicted {
            let new_min: u64 = kani::any();
            kani::assume(new_min > old_min && new_min <= p && new_min <= G_MAX);
            G_MIN = new_min;
            G_LEN = new_len;
            return Err(ack::ranges::Error::LowestRangeDropped { min: pn_of(old_min), max: pn_of(old_min) });
        }
        kani::assume(!full || new_len <= G_LEN);
        if p < G_MIN {
            G_MIN = p;
        }
        G_LEN = new_len;
        Ok(())
    }
}

struct NoopSubscriber;
impl event::Subscriber for NoopSubscriber {
    type ConnectionContext = ();
    fn create_connection_context(&mut self, _meta: &event::api::ConnectionMeta, _info: &event::api::ConnectionInfo) -> Self::ConnectionContext {}
}

fn any_state() -> AckTransmissionState {
    let st: u8 = kani::any();
    let retx: usize = kani::any();
    kani::assume(st < 3 && retx <= 10);
    match st {
        0 => AckTransmissionState::Disabled,
        1 => AckTransmissionState::Passive { retransmissions: retx },
        _ => AckTransmissionState::Active { retransmissions: retx },
    }
}

/// Arbitrary manager (everything except the range set, which is the ghost): any transmission state, any counters, 0..=2
/// tracked ACK-carrying transmissions, the delayed-ACK timer idle or armed by an earlier packet (not later than
/// `now + max_ack_delay`: it is only ever set to `timestamp_of_an_earlier_packet + max_ack_delay`, timestamps do not decrease)
fn any_manager(now: Timestamp, sent: [u64; 2], covered: [u64; 2], n_tx: u8) -> AckManager {
    let mut m = AckManager::new(SPACE, ack::Settings::default());
    m.transmission_state = any_state();
    if kani::any() {
        let t = ts(10, any_nanos());
        kani::assume(t <= now + m.ack_settings.max_ack_delay);
        m.ack_delay_timer.set(t);
    }
    m.processed_packets_since_transmission = Counter::new(kani::any());
    m.transmissions_since_elicitation = Counter::new(kani::any());
    if kani::any() {
        m.largest_received_packet_number_at = Some(ts(9, any_nanos()));
    }
    let lra: u64 = kani::any();
    kani::assume(lra <= MAXV);
    m.largest_received_packet_number_acked = pn_of(lra);
    kani::assume(n_tx <= 2 && sent[0] < sent[1] && sent[1] <= MAXV && covered[0] <= covered[1] && covered[1] <= MAXV);
    let mut i = 0;
    while i < 2 {
        if i < n_tx as usize {
            m.ack_eliciting_transmissions.on_transmit(ack::Transmission {
                sent_in_packet: pn_of(sent[i]),
                largest_received_packet_number_acked: pn_of(covered[i]),
            });
        }
        i += 1;
    }
    m
}

// ---- (a) on_packet_loss: a lost ACK is sent again ------------------------------------------------------------------
//@ harness props=C08 tier=quick level=full timeout=300
//@ fn AckManager::on_packet_loss
//@ fn AckTransmissionState::on_update
//@ fn AckTransmissionState::activate
#[kani::proof]
#[kani::unwind(4)]
#[kani::stub(s2n_quic_core::interval_set::IntervalSet::is_empty, is_empty_model)]
#[kani::stub(s2n_quic_core::interval_set::IntervalSet::interval_len, interval_len_model)]
#[kani::stub(s2n_quic_core::interval_set::IntervalSet::max_value, max_value_model)]
#[kani::stub(s2n_quic_core::interval_set::IntervalSet::min_value, min_value_model)]
fn vq_c08_ack_manager_on_packet_loss() {
    let now = ts(10, any_nanos());
    let sent: [u64; 2] = kani::any();
    let covered: [u64; 2] = kani::any();
    let n_tx: u8 = kani::any();
    let mut m = any_manager(now, sent, covered, n_tx);
    any_ghost(true);
    let lo: u64 = kani::any();
    let hi: u64 = kani::any();
    kani::assume(lo <= hi && hi <= MAXV);
    let old_state = m.transmission_state;
    let has_ranges = unsafe { !G_EMPTY };
    let timer_before = m.ack_delay_timer.next_expiration();
    let lra_before = m.largest_received_packet_number_acked;

    m.on_packet_loss(&PacketNumberRange::new(pn_of(lo), pn_of(hi)));

    // one of our ACK-carrying packets (the two the manager tracks) is among the lost ones
    let lost_ours = (n_tx >= 1 && lo <= sent[0] && sent[0] <= hi) || (n_tx == 2 && lo <= sent[1] && sent[1] <= hi);
    // RFC 9000 13.2.1 / 13.2.4: the acknowledgement is still owed, so it has to go out again -- and at once
    assert!(!(lost_ours && has_ranges) || m.transmission_state.is_active(), "C08/ack_manager.on_packet_loss/lost_ack_is_sent_again");
    assert!(!(lost_ours && has_ranges) || m.get_transmission_interest() == s2n_quic_core::transmission::Interest::Forced, "C08/ack_manager.on_packet_loss/lost_ack_forces_transmission_interest");
    assert!(!(lost_ours && has_ranges) || m.transmission_state.should_transmit(transmission::Constraint::CongestionLimited, transmission::Mode::Normal, true), "C08/ack_manager.on_packet_loss/lost_ack_will_be_transmitted_even_if_congestion_limited");
    // nothing to acknowledge: nothing is scheduled
    assert!(!(lost_ours && !has_ranges) || m.transmission_state == AckTransmissionState::Disabled, "C08/ack_manager.on_packet_loss/no_ranges_stays_disabled");
    // a loss report about other packets changes nothing
    assert!(lost_ours || m.transmission_state == old_state, "C08/ack_manager.on_packet_loss/unrelated_loss_leaves_state");
    // frame
    assert!(m.ack_delay_timer.next_expiration() == timer_before && m.largest_received_packet_number_acked == lra_before, "C08/ack_manager.on_packet_loss/frame");
    kani::cover!(lost_ours && has_ranges && old_state == AckTransmissionState::Disabled, "reach:disabled_reactivated");
    kani::cover!(lost_ours && has_ranges && !old_state.is_active() && old_state != AckTransmissionState::Disabled, "reach:passive_activated");
    kani::cover!(!lost_ours && n_tx == 2, "reach:unrelated_loss");
    kani::cover!(lost_ours && !has_ranges, "reach:lost_but_nothing_to_ack");
    kani::cover!(true, "reach:end");
}

// ---- write context that records what the manager does with it ---------------------------------------------------------
struct Recorder {
    now: Timestamp,
    constraint: transmission::Constraint,
    mode: transmission::Mode,
    eliciting: bool,
    accept_ping: bool,
    pings: usize,
    other_frames: usize,
}

impl WriteContext for Recorder {
    fn current_time(&self) -> Timestamp {
        self.now
    }
    fn transmission_constraint(&self) -> transmission::Constraint {
        self.constraint
    }
    fn transmission_mode(&self) -> transmission::Mode {
        self.mode
    }
    fn remaining_capacity(&self) -> usize {
        1200
    }
    fn write_ack_frame<A: AckRangesTrait>(&mut self, _ack_frame: &Ack<A>) -> Option<PacketNumber> {
        self.other_frames += 1;
        Some(self.packet_number())
    }
    fn write_frame<Frame>(&mut self, frame: &Frame) -> Option<PacketNumber>
    where
        Frame: EncoderValue + FrameTrait,
        for<'f> &'f Frame: event::IntoEvent<event::builder::Frame>,
    {
        // the only frame the manager writes through this method is PING (1 byte, type 0x01)
        if frame.encoding_size() == 1 && frame.ack_elicitation().is_ack_eliciting() {
            if self.accept_ping {
                self.pings += 1;
                return Some(self.packet_number());
            }
            return None;
        }
        self.other_frames += 1;
        None
    }
    fn write_fitted_frame<Frame>(&mut self, _frame: &Frame) -> PacketNumber
    where
        Frame: EncoderValue + FrameTrait,
        for<'f> &'f Frame: event::IntoEvent<event::builder::Frame>,
    {
        self.other_frames += 1;
        self.packet_number()
    }
    fn write_frame_forced<Frame>(&mut self, _frame: &Frame) -> Option<PacketNumber>
    where
        Frame: EncoderValue + FrameTrait,
        for<'f> &'f Frame: event::IntoEvent<event::builder::Frame>,
    {
        self.other_frames += 1;
        None
    }
    fn ack_elicitation(&self) -> AckElicitation {
        if self.eliciting {
            AckElicitation::Eliciting
        } else {
            AckElicitation::NonEliciting
        }
    }
    fn packet_number(&self) -> PacketNumber {
        pn_of(77)
    }
    fn local_endpoint_type(&self) -> endpoint::Type {
        endpoint::Type::Server
    }
    fn header_len(&self) -> usize {
        0
    }
    fn tag_len(&self) -> usize {
        0
    }
}

fn any_constraint() -> transmission::Constraint {
    let c: u8 = kani::any();
    kani::assume(c < 4);
    match c {
        0 => transmission::Constraint::None,
        1 => transmission::Constraint::RetransmissionOnly,
        2 => transmission::Constraint::CongestionLimited,
        _ => transmission::Constraint::AmplificationLimited,
    }
}

fn any_mode() -> transmission::Mode {
    let md: u8 = kani::any();
    kani::assume(md < 4);
    match md {
        0 => transmission::Mode::LossRecoveryProbing,
        1 => transmission::Mode::MtuProbing,
        2 => transmission::Mode::PathValidationOnly,
        _ => transmission::Mode::Normal,
    }
}

// ---- (b) on_transmit_complete ---------------------------------------------------------------------------------------
//@ harness props=C08 tier=quick level=full timeout=600
//@ fn AckManager::on_transmit_complete
//@ fn AckTransmissionState::on_transmit
#[kani::proof]
#[kani::unwind(4)]
#[kani::stub(s2n_quic_core::interval_set::IntervalSet::is_empty, is_empty_model)]
#[kani::stub(s2n_quic_core::interval_set::IntervalSet::interval_len, interval_len_model)]
#[kani::stub(s2n_quic_core::interval_set::IntervalSet::max_value, max_value_model)]
#[kani::stub(s2n_quic_core::interval_set::IntervalSet::min_value, min_value_model)]
fn vq_c08_ack_manager_on_transmit_complete() {
    let now = ts(10, any_nanos());
    let sent: [u64; 2] = kani::any();
    let covered: [u64; 2] = kani::any();
    let n_tx: u8 = kani::any();
    let mut m = any_manager(now, sent, covered, n_tx);
    kani::assume(n_tx == 0 || sent[1] < 77); // the packet being completed is newer than the tracked ones
    any_ghost(false);
    let mut w = Recorder { now, constraint: any_constraint(), mode: any_mode(), eliciting: kani::any(), accept_ping: kani::any(), pings: 0, other_frames: 0 };
    // precondition (caller: on_transmit returned true for this packet): an ACK frame was written, i.e. should_transmit held
    kani::assume(m.transmission_state.should_transmit(w.constraint, w.mode, true));
    let gmax = unsafe { G_MAX };
    let old_state = m.transmission_state;
    let old_since: u8 = *m.transmissions_since_elicitation;
    let old_tracked = m.ack_eliciting_transmissions.clone();

    m.on_transmit_complete(&mut w);

    // the ACK frame just sent covered everything up to the largest stored packet number -- whatever else the packet
    // carried, ack-eliciting or not: this is the basis for packet number decoding and for dropping acknowledged ranges
    assert!(m.largest_received_packet_number_acked == pn_of(gmax), "C08/ack_manager.on_transmit_complete/largest_acked_advanced_for_every_ack_sent");
    assert!(m.largest_received_packet_number_acked() == pn_of(gmax), "C08/ack_manager.largest_received_packet_number_acked/is_field");
    // nothing left to wake up for; the per-transmission counter restarts
    assert!(!m.ack_delay_timer.is_armed(), "C08/ack_manager.on_transmit_complete/delayed_ack_timer_cancelled");
    assert!(*m.processed_packets_since_transmission == 0, "C08/ack_manager.on_transmit_complete/processed_counter_reset");
    // RFC 9000 13.2.4: a PING is added only to an otherwise non-eliciting packet, only after `ack_elicitation_interval`
    // such packets, only if the constraint lets it out
    let ping_due = !w.eliciting
        && (w.constraint.can_transmit() || w.constraint.can_retransmit())
        && old_since >= m.ack_settings.ack_elicitation_interval;
    assert!(w.pings <= 1 && (w.pings == 1) == (ping_due && w.accept_ping), "C08/ack_manager.on_transmit_complete/ping_iff_due_and_fits");
    assert!(w.other_frames == 0, "C08/ack_manager.on_transmit_complete/writes_nothing_else");
    let eliciting = w.eliciting || w.pings == 1;
    // an ack-eliciting packet carrying our ACK is remembered together with what it covered (so that its acknowledgement
    // or loss can be acted on); a non-eliciting one is only counted
    let mut probe = m.ack_eliciting_transmissions.clone();
    let hit = probe.on_update(&pn_of(77));
    let recorded = match &hit {
        Some(r) => r.end().as_u64() == gmax && r.start().as_u64() == 0,
        None => false,
    };
    assert!(!eliciting || recorded, "C08/ack_manager.on_transmit_complete/eliciting_ack_packet_tracked_with_largest_covered");
    assert!(eliciting || hit.is_none(), "C08/ack_manager.on_transmit_complete/non_eliciting_packet_not_tracked");
    assert!(if eliciting { *m.transmissions_since_elicitation == 0 } else { *m.transmissions_since_elicitation == old_since.saturating_add(1) },
        "C08/ack_manager.on_transmit_complete/elicitation_counter");
    // one retransmission credit is used; Disabled once none is left
    let want_state = match old_state {
        AckTransmissionState::Active { retransmissions } | AckTransmissionState::Passive { retransmissions } => {
            if retransmissions > 0 {
                AckTransmissionState::Passive { retransmissions: retransmissions - 1 }
            } else {
                AckTransmissionState::Disabled
            }
        }
        AckTransmissionState::Disabled => AckTransmissionState::Disabled,
    };
    assert!(m.transmission_state == want_state, "C08/ack_manager.on_transmit_complete/uses_one_retransmission_credit");
    let _ = old_tracked;
    kani::cover!(!w.eliciting && w.pings == 0, "reach:non_eliciting_ack_only_packet");
    kani::cover!(w.pings == 1, "reach:ping_added");
    kani::cover!(w.eliciting, "reach:eliciting_packet");
    kani::cover!(want_state == AckTransmissionState::Disabled, "reach:last_credit");
    kani::cover!(true, "reach:end");
}

// ---- (c) on_processed_packet --------------------------------------------------------------------------------------
// KNOWN FAILING on the unchanged tree: "C08/ack_manager.on_processed_packet/out_of_order_acked_immediately" for the input
// class {largest stored packet number == 2^62-1}: `max_value.next()?` yields None there, the closure falls back to
// (is_ordered, is_largest) = (true, true) and an older, ack-eliciting packet is not acknowledged immediately (and its
// receive time overwrites that of the largest).  The `#outside-known` residual excludes exactly that class.
//@ harness props=C08 tier=thorough level=full timeout=900
//@ fn AckManager::on_processed_packet
//@ fn AckTransmissionState::on_update
//@ fn AckTransmissionState::activate
#[kani::proof]
#[kani::unwind(4)]
#[kani::stub(s2n_quic_core::interval_set::IntervalSet::is_empty, is_empty_model)]
#[kani::stub(s2n_quic_core::interval_set::IntervalSet::interval_len, interval_len_model)]
#[kani::stub(s2n_quic_core::interval_set::IntervalSet::max_value, max_value_model)]
#[kani::stub(s2n_quic_core::interval_set::IntervalSet::min_value, min_value_model)]
#[kani::stub(s2n_quic_core::ack::ranges::Ranges::insert_packet_number, insert_packet_number_model)]
fn vq_c08_ack_manager_on_processed_packet() {
    let now = ts(10, any_nanos());
    let sent: [u64; 2] = kani::any();
    let covered: [u64; 2] = kani::any();
    let n_tx: u8 = kani::any();
    let mut m = any_manager(now, sent, covered, n_tx);
    any_ghost(true);
    // Disabled exactly when there is nothing to acknowledge is NOT assumed: Disabled with ranges left is reachable
    // (all retransmission credits used)
    let pn: u64 = kani::any();
    kani::assume(pn <= MAXV);
    let e: u8 = kani::any();
    kani::assume(e < 4);
    let ecn = match e {
        0 => ExplicitCongestionNotification::NotEct,
        1 => ExplicitCongestionNotification::Ect1,
        2 => ExplicitCongestionNotification::Ect0,
        _ => ExplicitCongestionNotification::Ce,
    };
    let datagram = DatagramInfo {
        timestamp: now,
        payload_len: 1200,
        ecn,
        destination_connection_id: s2n_quic_core::connection::LocalId::TEST_ID,
        destination_connection_id_classification: s2n_quic_core::connection::id::Classification::Local,
        source_connection_id: None,
    };
    let mut packet = ProcessedPacket::new(pn_of(pn), &datagram);
    let eliciting: bool = kani::any();
    packet.ack_elicitation = if eliciting { AckElicitation::Eliciting } else { AckElicitation::NonEliciting };
    packet.path_challenge_on_active_path = kani::any();
    let (was_empty, old_max) = unsafe { (G_EMPTY, G_MAX) };
    let old_ecn = m.ecn_counts;
    let old_at = m.largest_received_packet_number_at;
    let was_active = m.transmission_state.is_active();
    let old_processed: u8 = *m.processed_packets_since_transmission;

    let ip = [127u8, 0, 0, 1];
    let cid = [1u8, 2, 3, 4];
    let path = event::builder::Path {
        local_addr: event::builder::SocketAddress::IpV4 { ip: &ip, port: 443 },
        local_cid: event::builder::ConnectionId { bytes: &cid },
        remote_addr: event::builder::SocketAddress::IpV4 { ip: &ip, port: 4433 },
        remote_cid: event::builder::ConnectionId { bytes: &cid },
        id: 0,
        is_active: true,
    };
    let mut sub = NoopSubscriber;
    let mut ctx = ();
    let mut publisher = event::ConnectionPublisherSubscriber::new(
        event::builder::ConnectionMeta { endpoint_type: endpoint::Type::Server, id: 0, timestamp: now },
        1,
        &mut sub,
        &mut ctx,
    );

    m.on_processed_packet(&packet, path, &mut publisher);

    // C08 (first sentence): the only thing handed to the range set is the packet number just processed, once
    let (calls, arg) = unsafe { (G_INSERT_CALLS, G_INSERT_ARG) };
    assert!(calls == 1 && arg == pn, "C08/ack_manager.on_processed_packet/inserts_exactly_the_processed_packet_number");
    // prompt acknowledgement (RFC 9000 13.2.1): afterwards an ACK is either forced or the delayed-ACK timer is armed and
    // fires no later than now + max_ack_delay
    let active = m.transmission_state.is_active();
    let deadline_ok = match m.ack_delay_timer.next_expiration() {
        Some(t) => t <= now + m.ack_settings.max_ack_delay,
        None => false,
    };
    assert!(!eliciting || active || deadline_ok, "C08/ack_manager.on_processed_packet/eliciting_packet_acked_within_max_ack_delay");
    assert!(!m.ack_delay_timer.is_armed() || deadline_ok, "C08/ack_manager.on_processed_packet/timer_never_later_than_max_ack_delay");
    // RFC 9000 13.2.1: out of order (older than, or leaving a gap after, the largest received) => immediately
    let in_order = was_empty || pn == old_max + 1;
    let in_order_known = was_empty || pn == old_max + 1 || old_max == MAXV;
    // residual first: outside the known failing class {largest stored packet number == 2^62-1}
    assert!(!(eliciting && !in_order_known) || active, "C08/ack_manager.on_processed_packet/out_of_order_acked_immediately#outside-known");
    assert!(!(eliciting && !in_order) || active, "C08/ack_manager.on_processed_packet/out_of_order_acked_immediately");
    assert!(!(eliciting && ecn.congestion_experienced()) || active, "C08/ack_manager.on_processed_packet/ce_marked_acked_immediately");
    assert!(!(eliciting && old_processed >= 9) || active, "C08/ack_manager.on_processed_packet/every_tenth_packet_acked_immediately");
    assert!(!(eliciting && packet.path_challenge_on_active_path) || active, "C08/ack_manager.on_processed_packet/path_challenge_acked_immediately");
    assert!(!was_active || active, "C08/ack_manager.on_processed_packet/stays_active");
    // after the insertion there is something to acknowledge, so the manager must be able to transmit
    assert!(m.transmission_state != AckTransmissionState::Disabled, "C08/ack_manager.on_processed_packet/not_disabled_with_ranges");
    // frame: ECN counters count this datagram's codepoint once; receive time of the largest follows the largest
    let mut want = old_ecn;
    want.increment(ecn);
    assert!(m.ecn_counts == want, "C08/ack_manager.on_processed_packet/ecn_counted_once");
    let is_largest = was_empty || pn > old_max;
    assert!(!is_largest || m.largest_received_packet_number_at == Some(now), "C08/ack_manager.on_processed_packet/largest_receive_time_recorded");
    assert!(is_largest || old_max == MAXV || m.largest_received_packet_number_at == old_at, "C08/ack_manager.on_processed_packet/receive_time_kept_for_older");
    kani::cover!(eliciting && !active && deadline_ok, "reach:delayed_ack_armed");
    kani::cover!(eliciting && active && in_order && !was_active, "reach:activated_in_order");
    kani::cover!(eliciting && !in_order && !was_empty && pn < old_max, "reach:reordered");
    kani::cover!(!eliciting && !active, "reach:non_eliciting");
    kani::cover!(unsafe { !G_INSERT_RECORDED }, "reach:too_old_for_full_set");
    kani::cover!(true, "reach:end");
}
