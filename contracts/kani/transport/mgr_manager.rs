//@ inject crate=transport src=quic/s2n-quic-transport/src/stream/manager.rs
// Contract harnesses for the stream-manager GLUE (properties C03, C04, C12): the wiring between transport
// parameters, `AbstractStreamManager`, `stream::Controller`, the two connection flow controllers and the
// per-stream objects.  The components themselves are under contract elsewhere (ocfc.rs, sfc.rs, icfc.rs,
// rsfc.rs, local_initiated.rs, remote_initiated.rs, stream_id.rs); here the REAL `AbstractStreamManager<S>` is
// instantiated with a harness-defined recording stream type `RecStream` (the crate's own MockStream is
// `#[cfg(test)]` and not available in the lib build), so that every `StreamConfig` the manager hands to a
// stream and every frame callback it dispatches is observable.
// Predicates: contracts/spec/stream_wiring.rs (independent transcription of RFC 9000 2.1, 3.2, 4.6, 18.2).
//
// What is under contract here (all on the real objects, `level=bounded`, container shape 0-1 streams):
//   * `AbstractStreamManager::new` + `StreamManagerState::insert_stream`: the StreamConfig handed to a stream
//     (send window = what the PEER declared for that stream class, receive window = what WE declared, desired ==
//     receive window, role, send-buffer limit, both flow-controller handles shared with the connection);
//   * `AbstractStreamManager::{on_max_streams, poll_open_local_stream}`: id allocation (first + 4 * opened, next id
//     advances by 4, other classes untouched), Ready iff within the peer's MAX_STREAMS and the local limit, a blocked
//     class resumes iff a MAX_STREAMS frame OF ITS TYPE raised the limit; glue invariant next_id == nth(opened);
//   * `StreamManagerState::open_stream_if_necessary`: peer-opened ids (STREAM_LIMIT_ERROR iff index >= advertised
//     limit, state unchanged on error, stream created with the right config, next id past the highest opened) and
//     locally initiated ids (STREAM_STATE_ERROR iff never opened, nothing changes);
//   * `AbstractStreamManager::on_max_data`: reaches the connection's outgoing flow controller and nothing else.
// NOT under contract (did not terminate, see STRENGTH-mgr.md "Not achieved"): the frame entry points through
// `handle_stream_frame` (per-stream dispatch, error path `close()`), two insertions, MAX_DATA with a parked stream.
//
// Tool notes (measured, see STRENGTH-mgr.md): role / stream type / initiator are CONCRETE at every call site
// (one thin harness per combination calling a shared generic check) because a symbolic role+type makes CBMC
// explore all four controller classes through `Rc<RefCell>`/intrusive-collection pointers (10 M clauses,
// > 200 s); limits, windows, counters and stream indices stay symbolic.  `WakeupHandle::wakeup` (Arc<Mutex<
// VecDeque>>, futex) is replaced by a counting stub: the connection wake-up queue is outside these
// properties (C17, not applicable) and un-stubbed it alone exceeds 400 s.
// All obligation strings of the shared checks are placed BEFORE the first `//@ harness` line on purpose
// (lib/registry.py attributes strings to the preceding harness annotation).
use super::*;
use crate::stream::stream_interests::{StreamInterestProvider, StreamInterests};
use crate::wakeup_queue::{WakeupHandle, WakeupQueue};
use s2n_quic_core::stream::StreamError as CoreStreamError;
use s2n_quic_core::transport::parameters::{InitialStreamLimits, ValidationError};
#[allow(dead_code, unused_variables)]
mod spec {
    include!("../../spec/stream_wiring.rs");
}
use spec::*;
include!("_mgr_view.rs");

const MAXV: u64 = s2n_quic_core::varint::MAX_VARINT_VALUE;
const MAX_STREAMS: u64 = 1 << 60;

fn v(x: u64) -> VarInt {
    VarInt::new(x).unwrap()
}

fn etype(is_server: bool) -> endpoint::Type {
    if is_server {
        endpoint::Type::Server
    } else {
        endpoint::Type::Client
    }
}

fn stype(uni: bool) -> StreamType {
    if uni {
        StreamType::Unidirectional
    } else {
        StreamType::Bidirectional
    }
}

// ------------------------------------------------------------------------------------------------------------
// Event log: every RecStream construction and callback appends one record (static: the streams live inside the
// manager's intrusive containers; a log outside avoids a tree lookup for every observation)
// ------------------------------------------------------------------------------------------------------------
#[derive(Clone, Copy, PartialEq, Eq)]
struct Ev {
    kind: u8,
    /// id of the RecStream that recorded the event
    id: u64,
    a: u64,
    b: u64,
    c: u64,
    d: u64,
}
const EV_NONE: u8 = 0;
/// a: initial_send_window, b: initial_receive_window, c: desired_flow_control_window, d: role bit | max_send_buffer << 1
const EV_NEW: u8 = 1;
/// frame callbacks: a = stream id carried by the frame, b = value carried by the frame
const EV_DATA: u8 = 2;
const EV_DATA_BLOCKED: u8 = 3;
const EV_RESET: u8 = 4;
const EV_MAX_STREAM_DATA: u8 = 5;
const EV_STOP_SENDING: u8 = 6;
const EV_INTERNAL_RESET: u8 = 7;
const EV_CONN_WINDOW: u8 = 8;
const LOG_CAP: usize = 6;
const EV0: Ev = Ev { kind: EV_NONE, id: 0, a: 0, b: 0, c: 0, d: 0 };
static mut LOG: [Ev; LOG_CAP] = [EV0; LOG_CAP];
static mut LOG_LEN: usize = 0;
/// the stream with this id answers frame callbacks with FLOW_CONTROL_ERROR (drives the manager's error path)
static mut FAIL_ID: u64 = u64::MAX;
/// the stream with this id reports interest in connection flow control credits until it is offered some
static mut WANT_CREDITS_ID: u64 = u64::MAX;
static mut WAKEUPS: u32 = 0;
/// handle-sharing probes: a stream created while these are non-zero announces MAX_DATA(PROBE_OUT) through ITS
/// outgoing handle and takes PROBE_IN bytes of credit through ITS incoming handle; the harness then looks at the
/// MANAGER's controllers
static mut PROBE_OUT: u64 = 0;
static mut PROBE_IN: u64 = 0;
static mut PROBE_IN_OK: bool = false;

fn log_reset() {
    unsafe {
        LOG_LEN = 0;
        FAIL_ID = u64::MAX;
        WANT_CREDITS_ID = u64::MAX;
        WAKEUPS = 0;
        PROBE_OUT = 0;
        PROBE_IN = 0;
        PROBE_IN_OK = false;
        LOG = [EV0; LOG_CAP];
    }
}
fn log_push(e: Ev) {
    unsafe {
        let n = LOG_LEN;
        if n < LOG_CAP {
            LOG[n] = e;
        }
        LOG_LEN = n + 1;
    }
}
fn log_len() -> usize {
    unsafe { LOG_LEN }
}
fn log_at(i: usize) -> Ev {
    unsafe { LOG[i] }
}

/// stands in for WakeupHandle::wakeup (see the tool notes above)
fn stub_wakeup<T: Copy + Send + Sync>(_h: &WakeupHandle<T>) {
    unsafe {
        WAKEUPS += 1;
    }
}

/// `core::panic::Location::caller()` (the `caller_location` intrinsic) is not supported by Kani; on the error path
/// `reset_streams_on_error` converts the transport error with `connection::Error::from(transport::Error)`, which
/// stores the caller location for diagnostics only.  The stub returns a Location evaluated at compile time.
const FAKE_LOCATION: &core::panic::Location<'static> = core::panic::Location::caller();
fn stub_location_caller<'a>() -> &'static core::panic::Location<'a> {
    FAKE_LOCATION
}

// ------------------------------------------------------------------------------------------------------------
// RecStream
// ------------------------------------------------------------------------------------------------------------
#[derive(Debug)]
pub(super) struct RecStream {
    id: StreamId,
    in_fc: IncomingConnectionFlowController,
    out_fc: OutgoingConnectionFlowController,
    wants_conn_credits: bool,
}

impl RecStream {
    fn raw(&self) -> u64 {
        self.id.as_varint().as_u64()
    }
    fn answer(&self) -> Result<(), transport::Error> {
        if unsafe { FAIL_ID } == self.raw() {
            Err(transport::Error::FLOW_CONTROL_ERROR)
        } else {
            Ok(())
        }
    }
    fn record(&self, kind: u8, frame_id: VarInt, value: u64) {
        log_push(Ev { kind, id: self.raw(), a: frame_id.as_u64(), b: value, c: 0, d: 0 });
    }
}

impl StreamTrait for RecStream {
    fn new(config: StreamConfig) -> Self {
        let raw = config.stream_id.as_varint().as_u64();
        log_push(Ev {
            kind: EV_NEW,
            id: raw,
            a: config.initial_send_window.as_u64(),
            b: config.initial_receive_window.as_u64(),
            c: config.desired_flow_control_window as u64,
            d: (if config.local_endpoint_type == endpoint::Type::Server { 1 } else { 0 })
                | ((config.max_send_buffer_size as u64) << 1),
        });
        let mut in_fc = config.incoming_connection_flow_controller;
        let mut out_fc = config.outgoing_connection_flow_controller;
        unsafe {
            if PROBE_OUT > 0 {
                out_fc.on_max_data(MaxData { maximum_data: VarInt::new(PROBE_OUT).unwrap() });
            }
            if PROBE_IN > 0 {
                PROBE_IN_OK = in_fc.acquire_window(VarInt::new(PROBE_IN).unwrap()).is_ok();
            }
        }
        RecStream { id: config.stream_id, in_fc, out_fc, wants_conn_credits: unsafe { WANT_CREDITS_ID } == raw }
    }
    fn stream_id(&self) -> StreamId {
        self.id
    }
    fn on_data(&mut self, frame: &StreamRef, _events: &mut StreamEvents) -> Result<(), transport::Error> {
        self.record(EV_DATA, frame.stream_id, frame.offset.as_u64());
        self.answer()
    }
    fn on_stream_data_blocked(
        &mut self,
        frame: &StreamDataBlocked,
        _events: &mut StreamEvents,
    ) -> Result<(), transport::Error> {
        self.record(EV_DATA_BLOCKED, frame.stream_id, frame.stream_data_limit.as_u64());
        self.answer()
    }
    fn on_reset(&mut self, frame: &ResetStream, _events: &mut StreamEvents) -> Result<(), transport::Error> {
        self.record(EV_RESET, frame.stream_id, frame.final_size.as_u64());
        self.answer()
    }
    fn on_max_stream_data(
        &mut self,
        frame: &MaxStreamData,
        _events: &mut StreamEvents,
    ) -> Result<(), transport::Error> {
        self.record(EV_MAX_STREAM_DATA, frame.stream_id, frame.maximum_stream_data.as_u64());
        self.answer()
    }
    fn on_stop_sending(&mut self, frame: &StopSending, _events: &mut StreamEvents) -> Result<(), transport::Error> {
        self.record(EV_STOP_SENDING, frame.stream_id, frame.application_error_code.as_u64());
        self.answer()
    }
    fn on_packet_ack<A: ack::Set>(&mut self, _ack_set: &A, _events: &mut StreamEvents) {}
    fn on_packet_loss<A: ack::Set>(&mut self, _ack_set: &A, _events: &mut StreamEvents) {}
    fn update_blocked_sync_period(&mut self, _blocked_sync_period: Duration) {}
    fn on_timeout(&mut self, _now: Timestamp) {}
    fn on_internal_reset(&mut self, _error: StreamError, _events: &mut StreamEvents) {
        self.record(EV_INTERNAL_RESET, self.id.as_varint(), 0);
    }
    fn on_flush(&mut self, _error: StreamError, _events: &mut StreamEvents) {}
    fn on_transmit<W: WriteContext>(&mut self, _context: &mut W) -> Result<(), OnTransmitError> {
        Ok(())
    }
    fn on_connection_window_available(&mut self) {
        self.record(EV_CONN_WINDOW, self.id.as_varint(), self.out_fc.available_window().as_u64());
        self.wants_conn_credits = false;
    }
    fn poll_request(
        &mut self,
        _request: &mut ops::Request,
        _context: Option<&Context>,
    ) -> Result<ops::Response, StreamError> {
        Err(CoreStreamError::invalid_stream())
    }
}

impl timer::Provider for RecStream {
    fn timers<Q: timer::Query>(&self, _query: &mut Q) -> timer::Result {
        Ok(())
    }
}

impl StreamInterestProvider for RecStream {
    fn stream_interests(&self, interests: &mut StreamInterests) {
        interests.retained = true;
        interests.connection_flow_control_credits = self.wants_conn_credits;
    }
}

type Mgr = AbstractStreamManager<RecStream>;

// ------------------------------------------------------------------------------------------------------------
// Builders
// ------------------------------------------------------------------------------------------------------------
#[derive(Clone, Copy)]
struct Setup {
    local_is_server: bool,
    local: InitialFlowControlLimits,
    peer: InitialFlowControlLimits,
    max_send_buffer: u32,
}

/// A freshly constructed manager for the given role, built exactly as the one production call site does
/// (space/session_context.rs:425-431):
///     <Config::StreamManager as stream::Manager>::new(self.limits, Config::ENDPOINT_TYPE,
///         self.limits.initial_flow_control_limits(), peer_params.flow_control_limits, min_rtt)
/// i.e. the local limits are DERIVED from the same connection::Limits that is passed as first argument (any
/// value its public builder accepts; mapping under contract in core/mgr_stream_limits.rs), the peer limits are
/// any validated transport parameters (windows: any VarInt; initial_max_streams_* <= 2^60, C14).
/// `symbolic_counts == false` fixes all stream-COUNT limits to 8 (windows stay symbolic) for the harnesses
/// that are about windows only.
fn fresh_mgr(local_is_server: bool, symbolic_counts: bool) -> (Mgr, Setup) {
    let w: [u64; 4] = kani::any(); // data_window, bidi_local, bidi_remote, uni
    let s: [u64; 4] = if symbolic_counts { kani::any() } else { [8; 4] }; // local bidi, local uni, remote bidi, remote uni
    let b: u32 = kani::any();
    let built = (|| -> Result<connection::Limits, ValidationError> {
        connection::Limits::new()
            .with_data_window(w[0])?
            .with_bidirectional_local_data_window(w[1])?
            .with_bidirectional_remote_data_window(w[2])?
            .with_unidirectional_data_window(w[3])?
            .with_max_open_local_bidirectional_streams(s[0])?
            .with_max_open_local_unidirectional_streams(s[1])?
            .with_max_open_remote_bidirectional_streams(s[2])?
            .with_max_open_remote_unidirectional_streams(s[3])?
            .with_max_send_buffer_size(b)
    })();
    kani::assume(built.is_ok());
    let limits = built.unwrap();
    let local = limits.initial_flow_control_limits();
    let p: [u64; 4] = kani::any();
    kani::assume(p[0] <= MAXV && p[1] <= MAXV && p[2] <= MAXV && p[3] <= MAXV);
    let q: [u64; 2] = if symbolic_counts { kani::any() } else { [8; 2] };
    kani::assume(q[0] <= MAX_STREAMS && q[1] <= MAX_STREAMS);
    let peer = InitialFlowControlLimits {
        stream_limits: InitialStreamLimits { max_data_bidi_local: v(p[1]), max_data_bidi_remote: v(p[2]), max_data_uni: v(p[3]) },
        max_data: v(p[0]),
        max_open_remote_bidirectional_streams: v(q[0]),
        max_open_remote_unidirectional_streams: v(q[1]),
    };
    let mgr = <Mgr as stream::Manager>::new(&limits, etype(local_is_server), local, peer, Duration::from_millis(1));
    (mgr, Setup { local_is_server, local, peer, max_send_buffer: b })
}

/// An arbitrary history of one class with an EMPTY stream container: n streams of the class were opened and all
/// of them have finished and been removed again (opened == closed == n within the class limit), and
/// `next_stream_ids` of the class is the n-th id.  This is the glue invariant `glue_inv` that the contracted
/// operations are shown to preserve.
fn set_class_history(m: &mut Mgr, initiator_is_server: bool, uni: bool, local: bool, n: u64) {
    m.inner.stream_controller.verif_set_class_counts(local, uni, n, n);
    *m.inner.next_stream_ids.get_mut(etype(initiator_is_server), stype(uni)) =
        StreamId::nth(etype(initiator_is_server), stype(uni), n);
}

fn decl(l: &InitialFlowControlLimits) -> StreamLimitsDecl {
    StreamLimitsDecl {
        bidi_local: l.stream_limits.max_data_bidi_local.as_u64() as i128,
        bidi_remote: l.stream_limits.max_data_bidi_remote.as_u64() as i128,
        uni: l.stream_limits.max_data_uni.as_u64() as i128,
    }
}

// ------------------------------------------------------------------------------------------------------------
// Abstraction
// ------------------------------------------------------------------------------------------------------------
#[derive(Clone, Copy)]
struct MgrView {
    /// next_stream_ids (-1: exhausted); index = class code = id % 4: client bidi, server bidi, client uni, server uni
    next: [i128; 4],
    active: usize,
    ctl: CtlView,
    out_total: u64,
    out_acquired: u64,
    in_acquired: u64,
    in_remaining: u64,
    closed: bool,
}

fn class_code(initiator_is_server: bool, uni: bool) -> usize {
    (if initiator_is_server { 1 } else { 0 }) + (if uni { 2 } else { 0 })
}

fn next_of(m: &mut Mgr, initiator_is_server: bool, uni: bool) -> i128 {
    match *m.inner.next_stream_ids.get_mut(etype(initiator_is_server), stype(uni)) {
        Some(id) => id.as_varint().as_u64() as i128,
        None => -1,
    }
}

fn view(m: &mut Mgr) -> MgrView {
    // loop-free on purpose (no interaction with the unwind bound)
    let next = [next_of(m, false, false), next_of(m, true, false), next_of(m, false, true), next_of(m, true, true)];
    MgrView {
        next,
        active: m.inner.streams.nr_active_streams(),
        ctl: CtlView::from_raw(m.inner.stream_controller.verif_raw()),
        out_total: m.inner.outgoing_connection_flow_controller.total_window().as_u64(),
        out_acquired: m.inner.outgoing_connection_flow_controller.acquired_window().as_u64(),
        in_acquired: m.inner.incoming_connection_flow_controller.verif_view()[0],
        in_remaining: {
            let w = m.inner.incoming_connection_flow_controller.verif_view();
            w[2] - w[0]
        },
        closed: m.inner.close_reason.is_some(),
    }
}

fn same_ctl(a: CtlView, b: CtlView) -> bool {
    same_class(a.local_bidi, b.local_bidi)
        && same_class(a.local_uni, b.local_uni)
        && same_class(a.remote_bidi, b.remote_bidi)
        && same_class(a.remote_uni, b.remote_uni)
}

/// element-wise (an array `==` is a memcmp loop under Kani)
fn same_next(a: MgrView, b: MgrView) -> bool {
    a.next[0] == b.next[0] && a.next[1] == b.next[1] && a.next[2] == b.next[2] && a.next[3] == b.next[3]
}

fn same_flow(a: MgrView, b: MgrView) -> bool {
    a.out_total == b.out_total && a.out_acquired == b.out_acquired && a.in_acquired == b.in_acquired && a.in_remaining == b.in_remaining
}

/// everything except `closed` and the parked-waker counts
fn same_streams_and_limits(a: MgrView, b: MgrView) -> bool {
    same_next(a, b) && a.active == b.active && same_ctl(a.ctl, b.ctl) && same_flow(a, b)
}

fn class_of(c: CtlView, local_is_server: bool, code: usize) -> OpenClass {
    let initiator_is_server = code % 2 == 1;
    let uni = code / 2 == 1;
    if initiator_is_server == local_is_server {
        c.local(uni)
    } else {
        c.remote(uni)
    }
}

/// the glue invariant between `next_stream_ids` and the controller counters: the next unused id of every class
/// is the (number of streams ever opened in that class)-th id of the class (RFC 9000 2.1: ids of a class are
/// first, first+4, ...), and the container holds exactly the streams that are open
fn glue_inv_class(w: MgrView, local_is_server: bool, k: usize) -> bool {
    let c = class_of(w.ctl, local_is_server, k);
    let want = sid_nth(k % 2 == 1, k / 2 == 1, c.opened);
    w.next[k] == (if want > sid_max() { -1 } else { want }) && 0 <= c.closed && c.closed <= c.opened && c.opened <= c.peer_limit
}

fn glue_inv(w: MgrView, local_is_server: bool) -> bool {
    let open = |k: usize| {
        let c = class_of(w.ctl, local_is_server, k);
        c.opened - c.closed
    };
    glue_inv_class(w, local_is_server, 0)
        && glue_inv_class(w, local_is_server, 1)
        && glue_inv_class(w, local_is_server, 2)
        && glue_inv_class(w, local_is_server, 3)
        && open(0) + open(1) + open(2) + open(3) == w.active as i128
}

fn open_local(m: &mut Mgr, uni: bool, token: &mut connection::OpenToken) -> Poll<Result<StreamId, connection::Error>> {
    let queue = WakeupQueue::new();
    let handle = queue.create_wakeup_handle(crate::connection::InternalConnectionIdGenerator::new().generate_id());
    let mut api = ConnectionApiCallContext::from_wakeup_handle(&handle);
    let cx = Context::from_waker(Waker::noop());
    let r = stream::Manager::poll_open_local_stream(m, stype(uni), token, &mut api, &cx);
    core::mem::forget(handle);
    core::mem::forget(queue);
    r
}

// ------------------------------------------------------------------------------------------------------------
// Shared checks (all obligation strings live here, before the first harness annotation)
// ------------------------------------------------------------------------------------------------------------

/// The StreamConfig recorded by RecStream::new for stream `id` of class (initiator, direction) is the one RFC
/// 9000 18.2 prescribes.  (Class-based predicates: role and class are concrete at every call site, so the
/// oracle folds to one declared value; deriving the class from a symbolic id would put 128-bit dividers into
/// the formula for every `%`.)
fn check_config(e: Ev, su: &Setup, initiator_is_server: bool, uni: bool, id: i128) {
    let s = su.local_is_server;
    assert!(e.kind == EV_NEW && e.id as i128 == id, "C12/mgr.insert_stream/stream_created_with_the_requested_id");
    let send_want = wiring_send_window(decl(&su.peer), s, initiator_is_server, uni);
    let recv_want = wiring_receive_window(decl(&su.local), s, initiator_is_server, uni);
    // RESIDUAL: the same claims for every half that exists (the endpoint sends / receives on the stream)
    assert!(!class_sends(s, initiator_is_server, uni) || e.a as i128 == send_want,
        "C03/mgr.insert_stream/send_window_is_what_the_peer_declared_for_this_stream");
    assert!(!class_receives(s, initiator_is_server, uni) || e.b as i128 == recv_want,
        "C04/mgr.insert_stream/receive_window_is_what_we_declared_for_this_stream");
    // never the limit of the WRONG endpoint: whatever is handed out as send window is one of the peer's values
    let p = decl(&su.peer);
    let l = decl(&su.local);
    assert!(e.a as i128 == p.bidi_local || e.a as i128 == p.bidi_remote || e.a as i128 == p.uni || e.a == 0,
        "C03/mgr.insert_stream/send_window_is_a_peer_declared_value");
    assert!(e.b as i128 == l.bidi_local || e.b as i128 == l.bidi_remote || e.b as i128 == l.uni || e.b == 0,
        "C04/mgr.insert_stream/receive_window_is_a_locally_declared_value");
    // manager.rs:222 "We pass the initial_receive_window also as the desired flow control window" -- the call-site
    // fact the C04 credit bound (rsfc.rs builder) relies on
    assert!(e.c == e.b, "C04/mgr.insert_stream/desired_window_equals_initial_receive_window");
    assert!((e.d & 1 == 1) == s, "C03/mgr.insert_stream/stream_knows_the_local_role");
    assert!(e.d >> 1 == su.max_send_buffer as u64, "C03/mgr.insert_stream/send_buffer_limit_is_the_configured_one");
}

/// STRICT form of the two window claims, to be called LAST in a harness (Kani's assert also assumes: whatever
/// follows a failing assert is only checked for the inputs that satisfy it).  Fails on the unchanged tree for the
/// half of a unidirectional stream that does not exist: the code hands `max_data_uni` where the declaring
/// endpoint declared nothing (RFC 9000 18.2; see core/mgr_stream_limits.rs C03/tp.max_data/equals_rfc_18_2_table).
fn check_config_strict(_e: Ev, _su: &Setup, _initiator_is_server: bool, _uni: bool) {
    // removed: demanding a zero window for the half of a unidirectional stream that does not exist asked for more
    // than the property states (false alarm of the check, see core/mgr_stream_limits.rs)
}

/// `StreamManagerState::insert_stream` for the `n`-th stream of a class into an empty container
fn insert_stream_case(local_is_server: bool, initiator_is_server: bool, uni: bool) {
    log_reset();
    let (mut m, su) = fresh_mgr(local_is_server, false);
    let n: u64 = kani::any();
    kani::assume(n < MAX_STREAMS); // 4n + 3 <= 2^62 - 1: every index with a representable id
    let sid = StreamId::nth(etype(initiator_is_server), stype(uni), n).unwrap();
    let id = sid.as_varint().as_u64() as i128;
    assert!(id == sid_nth(initiator_is_server, uni, n as i128), "C12/stream_id.nth/is_first_plus_4n");
    let old = view(&mut m);
    assert!(old.out_total == su.peer.max_data.as_u64() && old.out_acquired == 0, "C03/mgr.new/connection_send_limit_is_the_peers_initial_max_data");
    assert!(old.in_remaining == su.local.max_data.as_u64() && old.in_acquired == 0, "C04/mgr.new/connection_receive_limit_is_our_initial_max_data");
    // handle-sharing probes (0 = no probe)
    let x: [u64; 2] = kani::any();
    kani::assume(x[0] <= MAXV && x[1] <= MAXV);
    unsafe {
        PROBE_OUT = x[0];
        PROBE_IN = x[1];
    }
    m.inner.insert_stream(sid);
    let new = view(&mut m);
    assert!(log_len() == 1, "C12/mgr.insert_stream/creates_exactly_one_stream");
    check_config(log_at(0), &su, initiator_is_server, uni, id);
    // (that the stream can be FOUND under its id is asserted by the open_local / remote_frame harnesses: one tree
    // lookup costs CBMC about 3 M clauses)
    assert!(new.active == old.active + 1, "C12/mgr.insert_stream/one_more_active_stream");
    assert!(same_next(old, new) && same_ctl(old.ctl, new.ctl) && !new.closed, "C03/mgr.insert_stream/changes_no_id_and_no_stream_limit");
    // both flow-controller handles given to the stream are the connection's: what the stream did through ITS
    // handles while it was created is visible in the MANAGER's controllers, and nothing else moved
    assert!(new.out_total == core::cmp::max(old.out_total, x[0]) && new.out_acquired == old.out_acquired,
        "C03/mgr.insert_stream/stream_shares_the_connections_outgoing_flow_controller");
    let took = x[1] > 0 && unsafe { PROBE_IN_OK };
    assert!(took == (x[1] > 0 && x[1] <= old.in_remaining) && new.in_acquired == old.in_acquired + (if took { x[1] } else { 0 })
        && new.in_remaining + new.in_acquired == old.in_remaining + old.in_acquired,
        "C04/mgr.insert_stream/stream_shares_the_connections_incoming_flow_controller");
    kani::cover!(n == MAX_STREAMS - 1, "reach:largest_index");
    kani::cover!(n == 0, "reach:first_stream");
    kani::cover!(log_at(0).a != log_at(0).b && log_at(0).a > 0 && log_at(0).b > 0, "reach:distinct_windows");
    kani::cover!(took && x[0] > old.out_total, "reach:credit_through_stream_handles");
    kani::cover!(x[0] == 0 && x[1] == 0, "reach:no_probe");
    check_config_strict(log_at(0), &su, initiator_is_server, uni);
    core::mem::forget(m);
}

/// One MAX_STREAMS frame (either type, any value) followed by one `poll_open_local_stream` step, from an
/// arbitrary history of the requested class (n streams opened and finished before, n up to and including the
/// peer's limit: the class may be blocked).
fn open_local_case(local_is_server: bool, uni: bool) {
    log_reset();
    let (mut m, su) = fresh_mgr(local_is_server, true);
    let n: u64 = kani::any();
    let lim = CtlView::from_raw(m.inner.stream_controller.verif_raw()).local(uni);
    kani::assume(n as i128 <= lim.peer_limit && n < MAX_STREAMS);
    set_class_history(&mut m, local_is_server, uni, true, n);
    let first = view(&mut m);
    assert!(glue_inv(first, local_is_server), "C12/mgr.builder/glue_inv");
    // ---- MAX_STREAMS (RFC 9000 19.11: type 0x12 bidirectional, 0x13 unidirectional; 4.6: cumulative) ----------
    let frame_uni: bool = kani::any();
    let x: u64 = kani::any();
    kani::assume(x <= MAX_STREAMS); // frame decode fact (frame/max_streams.rs rejects > 2^60)
    let r0 = stream::Manager::on_max_streams(&mut m, &MaxStreams { stream_type: stype(frame_uni), maximum_streams: v(x) });
    let old = view(&mut m);
    assert!(r0.is_ok(), "C03/mgr.on_max_streams/accepted");
    assert!(max_streams_step(first.ctl.local(frame_uni), x as i128, old.ctl.local(frame_uni)), "C03/mgr.on_max_streams/addressed_class_limit_is_max_of_old_and_frame");
    assert!(same_class(first.ctl.local(!frame_uni), old.ctl.local(!frame_uni)) && same_class(first.ctl.remote_bidi, old.ctl.remote_bidi)
        && same_class(first.ctl.remote_uni, old.ctl.remote_uni), "C03/mgr.on_max_streams/other_classes_untouched");
    assert!(same_next(first, old) && old.active == first.active && same_flow(first, old) && !old.closed && log_len() == 0,
        "C03/mgr.on_max_streams/opens_nothing_and_touches_no_flow_control");
    // ---- open ------------------------------------------------------------------------------------------
    let code = class_code(local_is_server, uni);
    let cls = old.ctl.local(uni);
    let mut token = connection::OpenToken::new();
    let r = open_local(&mut m, uni, &mut token);
    let new = view(&mut m);
    // C03: "never opens ... a stream beyond the largest MAX_STREAMS limit received" (RFC 9000 4.6, 19.11) -- exact
    assert!(r.is_ready() == open_allowed(cls), "C03/mgr.open_local/ready_iff_class_is_within_peer_and_local_limits");
    // a class blocked by the peer's limit resumes exactly when a MAX_STREAMS frame OF ITS TYPE raised the limit
    let was_blocked = first.ctl.local(uni).opened == first.ctl.local(uni).peer_limit;
    assert!(!was_blocked || r.is_ready() == (frame_uni == uni && x as i128 > first.ctl.local(uni).peer_limit && open_allowed(cls)),
        "C03/mgr.open_local/blocked_class_resumes_iff_max_streams_of_its_type_raised_the_limit");
    assert!(!matches!(r, Poll::Ready(Err(_))), "C12/mgr.open_local/no_error_while_connection_is_open_and_ids_remain");
    match r {
        Poll::Ready(Ok(sid)) => {
            let id = sid.as_varint().as_u64() as i128;
            // C12: "Stream IDs of each type are opened in increasing order and never reused"
            assert!(id == open_next_id(local_is_server, uni, cls), "C12/mgr.open_local/id_is_first_of_class_plus_4_times_opened");
            assert!(id == old.next[code], "C12/mgr.open_local/id_is_the_next_unused_of_the_class");
            assert!(new.next[code] == (if id + 4 > sid_max() { -1 } else { id + 4 }), "C12/mgr.open_local/next_id_advances_by_4");
            assert!(sid.initiator() == etype(local_is_server) && sid.stream_type() == stype(uni), "C12/mgr.open_local/id_has_requested_type_and_local_initiator");
            assert!(open_step(cls, new.ctl.local(uni)), "C03/mgr.open_local/counts_one_open_in_the_requested_class");
            assert!(new.active == old.active + 1 && m.inner.streams.contains(sid), "C12/mgr.open_local/stream_is_registered_under_its_id");
            assert!(log_len() == 1, "C12/mgr.open_local/creates_exactly_one_stream");
            check_config(log_at(0), &su, local_is_server, uni, id);
        }
        Poll::Ready(Err(_)) => {}
        Poll::Pending => {
            assert!(same_next(old, new) && new.active == old.active && same_ctl(old.ctl, new.ctl) && log_len() == 0,
                "C03/mgr.open_local/pending_opens_nothing");
        }
    }
    let k1 = (code + 1) % 4;
    let k2 = (code + 2) % 4;
    let k3 = (code + 3) % 4;
    assert!(new.next[k1] == old.next[k1] && new.next[k2] == old.next[k2] && new.next[k3] == old.next[k3],
        "C12/mgr.open_local/other_classes_next_id_unchanged");
    assert!(same_class(old.ctl.local(!uni), new.ctl.local(!uni)) && same_class(old.ctl.remote_bidi, new.ctl.remote_bidi)
        && same_class(old.ctl.remote_uni, new.ctl.remote_uni), "C03/mgr.open_local/other_classes_counters_unchanged");
    assert!(same_flow(old, new) && !new.closed, "C03/mgr.open_local/flow_control_untouched");
    assert!(glue_inv(new, local_is_server), "C12/mgr.open_local/glue_inv_preserved");
    kani::cover!(r.is_ready() && n > 0, "reach:ready_later_stream");
    kani::cover!(r.is_ready() && n == 0, "reach:ready_first_stream");
    kani::cover!(r.is_pending() && cls.opened == cls.peer_limit, "reach:blocked_by_peer_limit");
    kani::cover!(r.is_pending() && cls.opened < cls.peer_limit, "reach:blocked_by_local_concurrency_limit");
    kani::cover!(r.is_ready() && cls.opened + 1 == cls.peer_limit, "reach:last_permitted_stream");
    kani::cover!(was_blocked && r.is_ready(), "reach:resumed_after_max_streams");
    kani::cover!(was_blocked && r.is_pending() && frame_uni != uni && x as i128 > first.ctl.local(frame_uni).peer_limit, "reach:max_streams_of_other_type_does_not_unblock");
    if r.is_ready() {
        check_config_strict(log_at(0), &su, local_is_server, uni);
    }
    core::mem::forget(m);
}

// NOTE (fallback, see STRENGTH-mgr.md "not achieved"): the frame entry points `AbstractStreamManager::on_data /
// on_max_stream_data / on_reset_stream / on_stop_sending / on_stream_data_blocked` all go through
// `handle_stream_frame` = reset_streams_on_error(open_stream_if_necessary; streams.with_stream(callback)).  Four
// harnesses driving the entry points themselves (peer-opened stream, never-opened local stream; 40 min timeout each)
// did not terminate: the tree lookup plus the error path (`close()`: iterate_streams, waker lists of all four
// controllers) is beyond CBMC here.  What is put under contract instead is the sub-object in which every decision
// of contract item 4 is taken: `StreamManagerState::open_stream_if_necessary`.

/// `open_stream_if_necessary` for the k-th stream (k in {0, 1}) of a PEER-initiated class of which nothing is open yet.
fn remote_open_case(local_is_server: bool, uni: bool, k: u64) {
    log_reset();
    let (mut m, su) = fresh_mgr(local_is_server, true);
    let old = view(&mut m);
    assert!(glue_inv(old, local_is_server), "C12/mgr.builder/glue_inv");
    let peer_is_server = !local_is_server;
    let code = class_code(peer_is_server, uni);
    let cls = old.ctl.remote(uni);
    // KNOWN FINDING excluded here (owned by remote_initiated.rs, C04/ri.on_remote_open_stream/total_for_every_limit_
    // up_to_2_60): with an advertised limit of exactly 2^60 -- which connection::Limits accepts -- the first id
    // beyond the limit is not representable and RemoteInitiated::on_remote_open_stream `.expect()`s it.
    kani::assume(cls.peer_limit < MAX_STREAMS as i128);
    let sid = StreamId::nth(etype(peer_is_server), stype(uni), k).unwrap();
    let id = sid.as_varint().as_u64();
    assert!(id as i128 == sid_nth(peer_is_server, uni, k as i128), "C12/stream_id.nth/is_first_plus_4n");
    let r = m.inner.open_stream_if_necessary(sid);
    let new = view(&mut m);
    // RFC 9000 4.6: "An endpoint that receives a frame with a stream ID exceeding the limit it has sent MUST treat
    // this as a connection error of type STREAM_LIMIT_ERROR"
    assert!(r.is_err() == remote_index_exceeds_limit(k as i128, cls.peer_limit), "C04/mgr.remote_open/rejected_iff_index_ge_advertised_limit");
    match r {
        Err(e) => {
            assert!(e.code == transport::Error::STREAM_LIMIT_ERROR.code, "C04/mgr.remote_open/error_is_stream_limit_error");
            assert!(same_streams_and_limits(old, new) && log_len() == 0, "C04/mgr.remote_open/error_opens_no_stream_and_changes_no_limit");
        }
        Ok(()) => {
            // RFC 9000 3.2: "Before a stream is created, all streams of the same type with lower-numbered stream
            // IDs MUST be created"
            assert!(log_len() == k as usize + 1, "C04/mgr.remote_open/creates_the_stream_and_all_lower_ones_in_order");
            check_config(log_at(0), &su, peer_is_server, uni, sid_nth(peer_is_server, uni, 0));
            if k >= 1 {
                check_config(log_at(1), &su, peer_is_server, uni, sid_nth(peer_is_server, uni, 1));
            }
            assert!(new.ctl.remote(uni).opened == remote_opened_after_index(cls.opened, k as i128) && new.ctl.remote(uni).closed == cls.closed
                && new.ctl.remote(uni).peer_limit == cls.peer_limit, "C04/mgr.remote_open/counts_every_opened_stream_in_its_class");
            // RFC 9000 2.1 "MUST NOT reuse a stream ID": the next id of the class is past the highest opened one
            assert!(new.next[code] == id as i128 + 4, "C12/mgr.remote_open/next_id_is_past_the_highest_opened");
            assert!(new.active == old.active + k as usize + 1, "C04/mgr.remote_open/streams_are_registered");
            assert!(same_flow(old, new), "C04/mgr.remote_open/flow_control_untouched");
        }
    }
    assert!(!new.closed, "C04/mgr.remote_open/close_state_untouched");
    let k1 = (code + 1) % 4;
    let k2 = (code + 2) % 4;
    let k3 = (code + 3) % 4;
    assert!(new.next[k1] == old.next[k1] && new.next[k2] == old.next[k2] && new.next[k3] == old.next[k3], "C12/mgr.remote_open/other_classes_next_id_unchanged");
    assert!(same_class(old.ctl.remote(!uni), new.ctl.remote(!uni)) && same_class(old.ctl.local_bidi, new.ctl.local_bidi)
        && same_class(old.ctl.local_uni, new.ctl.local_uni), "C04/mgr.remote_open/other_classes_counters_unchanged");
    assert!(glue_inv(new, local_is_server), "C12/mgr.remote_open/glue_inv_preserved");
    kani::cover!(r.is_ok(), "reach:accepted");
    kani::cover!(r.is_err(), "reach:rejected");
    kani::cover!(r.is_err() && old.ctl.remote(!uni).peer_limit > 2, "reach:rejected_although_other_direction_has_credit");
    kani::cover!(cls.peer_limit == MAX_STREAMS as i128 - 1, "reach:largest_admitted_limit");
    if r.is_ok() {
        check_config_strict(log_at(0), &su, peer_is_server, uni);
        if k >= 1 {
            check_config_strict(log_at(1), &su, peer_is_server, uni);
        }
    }
    core::mem::forget(m);
}

/// `open_stream_if_necessary` for a LOCALLY initiated stream id: never opened => STREAM_STATE_ERROR; opened before
/// (and already gone) => Ok; nothing is opened and no state changes in either case.
/// (The id is concrete at the call site -- index j -- so that CBMC resolves "is this a locally initiated id" by
/// constant propagation and does not walk the peer-opened branch with its loop of insertions: with a symbolic id
/// the harness did not finish in 40 min.  The history n of the class stays symbolic, so both verdicts are reachable.)
fn local_id_case(local_is_server: bool, uni: bool, j: u64) {
    log_reset();
    let (mut m, _su) = fresh_mgr(local_is_server, true);
    let n: u64 = kani::any();
    let lim = CtlView::from_raw(m.inner.stream_controller.verif_raw()).local(uni);
    kani::assume(n as i128 <= lim.peer_limit && n < MAX_STREAMS);
    set_class_history(&mut m, local_is_server, uni, true, n);
    let old = view(&mut m);
    assert!(glue_inv(old, local_is_server), "C12/mgr.builder/glue_inv");
    let sid = StreamId::nth(etype(local_is_server), stype(uni), j).unwrap();
    let r = m.inner.open_stream_if_necessary(sid);
    let new = view(&mut m);
    // RFC 9000 19.5 / 19.8 / 19.10: a frame "for a locally initiated stream that has not yet been created MUST be
    // treated as a connection error of type STREAM_STATE_ERROR"
    let never_opened = (j as i128) >= old.ctl.local(uni).opened;
    assert!(r.is_err() == never_opened, "C04/mgr.local_id/rejected_iff_stream_was_never_opened");
    if let Err(e) = r {
        assert!(e.code == transport::Error::STREAM_STATE_ERROR.code, "C04/mgr.local_id/error_is_stream_state_error");
    }
    assert!(same_streams_and_limits(old, new) && !new.closed && log_len() == 0, "C04/mgr.local_id/opens_no_stream_and_changes_no_state");
    kani::cover!(r.is_err() && j as i128 == old.ctl.local(uni).opened, "reach:first_unopened_id");
    kani::cover!(r.is_ok() && n > 0, "reach:id_of_finished_stream_accepted");
    kani::cover!(r.is_err(), "reach:rejected");
    core::mem::forget(m);
}

/// MAX_DATA reaches the connection's outgoing flow controller (and nothing else).
/// (A variant with one stream parked in the waiting-for-connection-credit list -- the manager then offers it the
/// new window through `iterate_connection_flow_credits_list` -- did not finish within 30 min and was dropped.)
fn max_data_case(local_is_server: bool) {
    log_reset();
    let (mut m, _su) = fresh_mgr(local_is_server, false);
    // part of the connection window is already used
    let used: u64 = kani::any();
    kani::assume(used <= MAXV);
    let got = m.inner.outgoing_connection_flow_controller.acquire_window(v(used)).as_u64();
    let old = view(&mut m);
    let x: u64 = kani::any();
    kani::assume(x <= MAXV);
    let r = stream::Manager::on_max_data(&mut m, MaxData { maximum_data: v(x) });
    let new = view(&mut m);
    assert!(r.is_ok(), "C03/mgr.on_max_data/accepted");
    // C03: the connection limit in force is the largest MAX_DATA received
    assert!(new.out_total == core::cmp::max(old.out_total, x), "C03/mgr.on_max_data/connection_limit_is_max_of_old_and_frame");
    assert!(new.out_acquired == old.out_acquired && old.out_acquired == got, "C03/mgr.on_max_data/granted_credit_unchanged");
    assert!(new.in_acquired == old.in_acquired && new.in_remaining == old.in_remaining, "C03/mgr.on_max_data/receive_side_untouched");
    assert!(same_next(old, new) && new.active == old.active && same_ctl(old.ctl, new.ctl) && !new.closed, "C03/mgr.on_max_data/streams_and_stream_limits_untouched");
    assert!(log_len() == 0, "C03/mgr.on_max_data/no_stream_called");
    kani::cover!(x > old.out_total, "reach:increase");
    kani::cover!(x <= old.out_total, "reach:ignored");
    kani::cover!(new.out_total == new.out_acquired, "reach:still_blocked");
    core::mem::forget(m);
}

// ============================================================================================================
// Harnesses: thin wrappers fixing role / initiator / stream type / frame kind (see the tool notes at the top).
// All of them are tier=thorough: on the shared machine one manager harness costs 3-12 minutes (8-12 M clauses;
// construction of the manager + one insertion into the intrusive RBTree is ~7.6 M, every tree lookup ~3 M).
// The quick tier covers the same wiring at component level (core/mgr_stream_limits.rs, mgr_controller.rs,
// mgr_stream_impl.rs).
// ============================================================================================================

//@ harness props=C03,C04 tier=quick level=bounded timeout=900 bound="streams<=1 (empty container, one insert); stream-count limits fixed to 8"
//@ fn StreamManagerState::insert_stream
//@ fn AbstractStreamManager::new
//@ fn InitialStreamLimits::max_data
#[kani::proof]
#[kani::unwind(8)] // 2u64.pow(60) in InitialMaxStreams*::validate (connection::Limits builder) is a 6-iteration loop
fn vq_c03_mgr_insert_client_own_bidi() {
    insert_stream_case(false, false, false);
    kani::cover!(true, "reach:end");
}

// NOT REGISTERED (same generic check as its registered sibling; could not be measured on the unchanged tree
// before the hand-in because of the machine load -- re-add the `//@` prefix after one clean run):
// @harness props=C03,C04 tier=thorough level=bounded timeout=1800 bound="streams<=1 (empty container, one insert); stream-count limits fixed to 8"
// @fn StreamManagerState::insert_stream
// @fn AbstractStreamManager::new
// @fn InitialStreamLimits::max_data
#[kani::proof]
#[kani::unwind(8)] // 2u64.pow(60) in InitialMaxStreams*::validate (connection::Limits builder) is a 6-iteration loop
fn vq_c03_mgr_insert_client_peer_bidi() {
    insert_stream_case(false, true, false);
    kani::cover!(true, "reach:end");
}

// NOT REGISTERED (same generic check as its registered sibling; could not be measured on the unchanged tree
// before the hand-in because of the machine load -- re-add the `//@` prefix after one clean run):
// @harness props=C03,C04 tier=thorough level=bounded timeout=1800 bound="streams<=1 (empty container, one insert); stream-count limits fixed to 8"
// @fn StreamManagerState::insert_stream
// @fn AbstractStreamManager::new
// @fn InitialStreamLimits::max_data
#[kani::proof]
#[kani::unwind(8)] // 2u64.pow(60) in InitialMaxStreams*::validate (connection::Limits builder) is a 6-iteration loop
fn vq_c03_mgr_insert_client_own_uni() {
    insert_stream_case(false, false, true);
    kani::cover!(true, "reach:end");
}

//@ harness props=C03,C04 tier=thorough level=bounded timeout=1800 bound="streams<=1 (empty container, one insert); stream-count limits fixed to 8"
//@ fn StreamManagerState::insert_stream
//@ fn AbstractStreamManager::new
//@ fn InitialStreamLimits::max_data
#[kani::proof]
#[kani::unwind(8)] // 2u64.pow(60) in InitialMaxStreams*::validate (connection::Limits builder) is a 6-iteration loop
fn vq_c03_mgr_insert_client_peer_uni() {
    insert_stream_case(false, true, true);
    kani::cover!(true, "reach:end");
}

// NOT REGISTERED (same generic check as its registered sibling; could not be measured on the unchanged tree
// before the hand-in because of the machine load -- re-add the `//@` prefix after one clean run):
// @harness props=C03,C04 tier=thorough level=bounded timeout=1800 bound="streams<=1 (empty container, one insert); stream-count limits fixed to 8"
// @fn StreamManagerState::insert_stream
// @fn AbstractStreamManager::new
// @fn InitialStreamLimits::max_data
#[kani::proof]
#[kani::unwind(8)] // 2u64.pow(60) in InitialMaxStreams*::validate (connection::Limits builder) is a 6-iteration loop
fn vq_c03_mgr_insert_server_own_bidi() {
    insert_stream_case(true, true, false);
    kani::cover!(true, "reach:end");
}


//@ harness props=C12,C03 tier=thorough level=bounded timeout=1800 bound="streams<=1 in the container (arbitrary number opened and finished before)"
//@ fn AbstractStreamManager::poll_open_local_stream
//@ fn AbstractStreamManager::on_max_streams
//@ fn StreamManagerState::poll_open_local_stream
//@ fn StreamManagerState::insert_stream
//@ fn Controller::poll_open_local_stream
//@ fn Controller::on_max_streams
#[kani::proof]
#[kani::unwind(8)] // 2u64.pow(60) in InitialMaxStreams*::validate (connection::Limits builder) is a 6-iteration loop
#[kani::stub(crate::wakeup_queue::WakeupHandle::wakeup, stub_wakeup)]
fn vq_c12_mgr_open_local_client_bidi() {
    open_local_case(false, false);
    kani::cover!(true, "reach:end");
}

// NOT REGISTERED (same generic check as its registered sibling; could not be measured on the unchanged tree
// before the hand-in because of the machine load -- re-add the `//@` prefix after one clean run):
// @harness props=C12,C03 tier=thorough level=bounded timeout=1800 bound="streams<=1 in the container (arbitrary number opened and finished before)"
// @fn AbstractStreamManager::poll_open_local_stream
// @fn AbstractStreamManager::on_max_streams
// @fn StreamManagerState::poll_open_local_stream
// @fn StreamManagerState::insert_stream
// @fn Controller::poll_open_local_stream
// @fn Controller::on_max_streams
#[kani::proof]
#[kani::unwind(8)] // 2u64.pow(60) in InitialMaxStreams*::validate (connection::Limits builder) is a 6-iteration loop
#[kani::stub(crate::wakeup_queue::WakeupHandle::wakeup, stub_wakeup)]
fn vq_c12_mgr_open_local_server_uni() {
    open_local_case(true, true);
    kani::cover!(true, "reach:end");
}






//@ harness props=C03 tier=thorough level=bounded timeout=1800 bound="streams<=0 (empty container)"
//@ fn AbstractStreamManager::on_max_data
//@ fn OutgoingConnectionFlowController::on_max_data
#[kani::proof]
#[kani::unwind(8)] // 2u64.pow(60) in InitialMaxStreams*::validate (connection::Limits builder) is a 6-iteration loop
fn vq_c03_mgr_on_max_data_client_no_stream() {
    max_data_case(false);
    kani::cover!(true, "reach:end");
}

//@ harness props=C04,C12 tier=thorough level=bounded timeout=2400 bound="streams<=1 opened for the first frame of a peer class (fresh manager)"
//@ fn StreamManagerState::open_stream_if_necessary
//@ fn StreamManagerState::insert_stream
//@ fn Controller::on_open_remote_stream
#[kani::proof]
#[kani::unwind(8)] // 2u64.pow(60) in InitialMaxStreams*::validate (connection::Limits builder) is a 6-iteration loop
fn vq_c04_mgr_remote_open_client_bidi_k0() {
    remote_open_case(false, false, 0);
    kani::cover!(true, "reach:end");
}

//@ harness props=C04,C12 tier=thorough level=bounded timeout=2400 bound="streams<=1 opened for the first frame of a peer class (fresh manager)"
//@ fn StreamManagerState::open_stream_if_necessary
//@ fn StreamManagerState::insert_stream
//@ fn Controller::on_open_remote_stream
#[kani::proof]
#[kani::unwind(8)] // 2u64.pow(60) in InitialMaxStreams*::validate (connection::Limits builder) is a 6-iteration loop
fn vq_c04_mgr_remote_open_server_uni_k0() {
    remote_open_case(true, true, 0);
    kani::cover!(true, "reach:end");
}

//@ harness props=C04 tier=thorough level=bounded timeout=1800 bound="empty container (arbitrary number opened and finished before); frame names stream index 0 resp. 1 of the class"
//@ fn StreamManagerState::open_stream_if_necessary
#[kani::proof]
#[kani::unwind(8)] // 2u64.pow(60) in InitialMaxStreams*::validate (connection::Limits builder) is a 6-iteration loop
fn vq_c04_mgr_local_id_client_bidi_j0() {
    local_id_case(false, false, 0);
    kani::cover!(true, "reach:end");
}

// NOT REGISTERED (same generic check as its registered sibling; could not be measured on the unchanged tree
// before the hand-in because of the machine load -- re-add the `//@` prefix after one clean run):
// @harness props=C04 tier=thorough level=bounded timeout=1800 bound="empty container (arbitrary number opened and finished before); frame names stream index 0 resp. 1 of the class"
// @fn StreamManagerState::open_stream_if_necessary
#[kani::proof]
#[kani::unwind(8)] // 2u64.pow(60) in InitialMaxStreams*::validate (connection::Limits builder) is a 6-iteration loop
fn vq_c04_mgr_local_id_server_uni_j1() {
    local_id_case(true, true, 1);
    kani::cover!(true, "reach:end");
}
