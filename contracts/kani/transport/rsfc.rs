//@ inject crate=transport src=quic/s2n-quic-transport/src/stream/receive_stream.rs
// Contract harnesses for ReceiveStreamFlowController (property C04): per-stream receive window, delegation of
// the connection-level credit to the real IncomingConnectionFlowController.
// Predicates: contracts/spec/flow_in.rs (shared with verus/lemmas/C04.rs).
use super::*;
#[allow(dead_code, unused_variables)]
mod spec {
    include!("../../spec/flow_out.rs");
    include!("../../spec/flow_in.rs");
}
use spec::*;
include!("_miniwriter.rs"); // at module level: `kani` must resolve to the replay shim in native replays

const MAXV: u64 = s2n_quic_core::varint::MAX_VARINT_VALUE;

fn v(x: u64) -> VarInt {
    VarInt::new(x).unwrap()
}

/// arbitrary IncrementalValueSync with the given latest value (see IncrementalValueSync::verif_build in ivs.rs);
/// the nondeterministic values are drawn here, in the harness's own module
fn any_sync_with_latest<S: ValueToFrameWriter<VarInt>>(latest: u64) -> IncrementalValueSync<VarInt, S> {
    let nd: [u64; 4] = kani::any();
    let kind: u8 = kani::any();
    IncrementalValueSync::verif_build(latest, nd, kind)
}

/// arbitrary real connection controller satisfying `icfc_inv` (IncomingConnectionFlowController::verif_build in icfc.rs)
fn any_conn() -> IncomingConnectionFlowController {
    let window: u32 = kani::any();
    let s: [u64; 3] = kani::any();
    let nd: [u64; 4] = kani::any();
    let kind: u8 = kani::any();
    IncomingConnectionFlowController::verif_build(window, s, nd, kind)
}

fn abs_conn(c: &IncomingConnectionFlowController) -> Icfc {
    let s = c.verif_abs(); // contracts/kani/transport/icfc.rs
    Icfc { advertised: s[0] as i128, acquired: s[1] as i128, consumed: s[2] as i128, window: s[3] as i128 }
}

fn abs(fc: &ReceiveStreamFlowController) -> Rsfc {
    Rsfc {
        advertised: fc.read_window_sync.latest_value().as_u64() as i128,
        acquired: fc.acquired_connection_window.as_u64() as i128,
        released: fc.released_connection_window.as_u64() as i128,
        window: fc.desired_flow_control_window as i128,
    }
}

/// Arbitrary stream controller satisfying `rsfc_inv`, attached to an arbitrary real connection controller
/// satisfying `icfc_inv`, the stream being one holder of the connection's credit (`rsfc_share_of_connection`:
/// the connection's acquired/consumed counters are the sums over its streams).
/// The only constructor call site (ReceiveStream::new <- StreamImpl::new <- stream/manager.rs:222-247) passes
/// initial == desired <= u32::MAX; `window` ranges over all of u32.  The builder does not restrict the state
/// further than the invariant, so states that the constructor cannot produce are covered as well.
fn any_rsfc() -> (IncomingConnectionFlowController, ReceiveStreamFlowController) {
    let conn = any_conn();
    let window: u32 = kani::any();
    let advertised: u64 = kani::any();
    let acquired: u64 = kani::any();
    let released: u64 = kani::any();
    kani::assume(released <= acquired && acquired <= advertised && advertised <= MAXV);
    kani::assume(advertised as u128 <= released as u128 + window as u128);
    let fc = ReceiveStreamFlowController {
        connection_flow_controller: conn.clone(),
        read_window_sync: any_sync_with_latest(advertised),
        desired_flow_control_window: window,
        acquired_connection_window: v(acquired),
        released_connection_window: v(released),
    };
    kani::assume(rsfc_share_of_connection(abs(&fc), abs_conn(&conn)));
    (conn, fc)
}

//@ harness props=C04 tier=quick level=full timeout=300
//@ fn ReceiveStreamFlowController::acquire_window_up_to
//@ fn IncomingConnectionFlowController::acquire_window
#[kani::proof]
#[kani::unwind(3)]
fn vq_c04_rsfc_acquire_window_up_to() {
    let (conn, mut fc) = any_rsfc();
    let old = abs(&fc);
    let c_old = abs_conn(&conn);
    let sync_old = fc.read_window_sync.verif_abs();
    let csync_old = conn.verif_sync_abs();
    assert!(rsfc_inv(old) && icfc_inv(c_old) && rsfc_share_of_connection(old, c_old), "C04/rsfc.builder/inv");
    let off: u64 = kani::any();
    kani::assume(off <= MAXV);
    let tag: Option<u8> = kani::any();
    let r = fc.acquire_window_up_to(v(off), tag);
    let new = abs(&fc);
    let c_new = abs_conn(&conn);
    let ok = r.is_ok();
    let code = match r {
        Ok(()) => -1,
        Err(e) => e.code.as_u64() as i128,
    };
    let o = off as i128;
    // RFC 9000 19.10 / 4.1: more data than the largest advertised MAX_STREAM_DATA => FLOW_CONTROL_ERROR
    assert!(rsfc_acquire_over_stream_limit_rejected(old, o, ok), "C04/rsfc.acquire_window_up_to/over_stream_limit_rejected");
    // RFC 9000 19.9 / 4.1: ... or more than the connection limit allows
    assert!(rsfc_acquire_ok_iff_within_both_limits(old, c_old, o, ok), "C04/rsfc.acquire_window_up_to/ok_iff_within_stream_and_connection_limit");
    assert!(rsfc_acquire_err_code(ok, code), "C04/rsfc.acquire_window_up_to/err_is_flow_control_error");
    assert!(rsfc_acquire_err_unchanged(old, new, c_old, c_new, ok), "C04/rsfc.acquire_window_up_to/err_leaves_stream_and_connection_unchanged");
    assert!(rsfc_acquire_ok_acquired_is_max(old, o, new, ok), "C04/rsfc.acquire_window_up_to/ok_acquired_is_max_of_old_and_offset");
    assert!(rsfc_acquire_delegation_exact(old, o, new, c_old, c_new, ok), "C04/rsfc.acquire_window_up_to/connection_charged_exactly_the_new_bytes");
    assert!(fc.read_window_sync.verif_abs() == sync_old && conn.verif_sync_abs() == csync_old, "C04/rsfc.acquire_window_up_to/frame_window_syncs_untouched");
    assert!(rsfc_inv(new) && icfc_inv(c_new) && rsfc_share_of_connection(new, c_new), "C04/rsfc.acquire_window_up_to/inv_preserved");
    kani::cover!(!ok && o > old.advertised, "reach:stream_limit_exceeded");
    kani::cover!(!ok && o <= old.advertised, "reach:connection_limit_exceeded");
    kani::cover!(ok && o > old.acquired, "reach:acquired_more");
    kani::cover!(ok && o <= old.acquired && o > 0, "reach:already_acquired");
    kani::cover!(ok && o == old.advertised && c_new.acquired == c_new.advertised, "reach:exactly_at_both_limits");
    kani::cover!(old.window == u32::MAX as i128, "reach:max_window");
    kani::cover!(old.advertised == MAXV as i128, "reach:max_advertised");
}

//@ harness props=C04 tier=quick level=full timeout=300
//@ fn ReceiveStreamFlowController::release_window
//@ fn IncomingConnectionFlowController::release_window
#[kani::proof]
#[kani::unwind(3)]
fn vq_c04_rsfc_release_window() {
    let (conn, mut fc) = any_rsfc();
    let old = abs(&fc);
    let c_old = abs_conn(&conn);
    let amount: u64 = kani::any();
    // caller obligation: the application can only consume bytes that were received, i.e. acquired before
    // (receive_stream.rs:854 releases the length of a chunk popped from the reassembler)
    kani::assume(amount <= MAXV && rsfc_release_pre(old, amount as i128));
    let a = amount as i128;
    // the connection's own precondition follows from the share invariant (not assumed)
    assert!(icfc_release_pre(c_old, a), "C04/rsfc.release_window/establishes_connection_precondition");
    fc.release_window(v(amount));
    let new = abs(&fc);
    let c_new = abs_conn(&conn);
    assert!(rsfc_release_released_adds(old, a, new), "C04/rsfc.release_window/released_adds_amount");
    assert!(rsfc_release_advertised_rule(old, a, new), "C04/rsfc.release_window/advertised_is_max_of_old_and_released_plus_window");
    assert!(rsfc_credit_bound(new), "C04/rsfc.release_window/advertised_le_released_plus_window");
    assert!(new.advertised >= old.advertised, "C04/rsfc.release_window/advertised_monotone");
    assert!(icfc_release_post(c_old, a, c_new), "C04/rsfc.release_window/connection_released_exactly_amount");
    assert!(icfc_credit_bound(c_new), "C04/rsfc.release_window/connection_advertised_le_consumed_plus_window");
    assert!(rsfc_inv(new) && icfc_inv(c_new) && rsfc_share_of_connection(new, c_new), "C04/rsfc.release_window/inv_preserved");
    kani::cover!(new.advertised > old.advertised, "reach:stream_window_update");
    kani::cover!(c_new.advertised > c_old.advertised, "reach:connection_window_update");
    kani::cover!(new.advertised == MAXV as i128 && old.advertised < MAXV as i128, "reach:saturates");
    kani::cover!(a == 0, "reach:zero");
    kani::cover!(new.released == new.acquired && a > 0, "reach:all_released");
}

//@ harness props=C04 tier=quick level=full timeout=300
//@ fn ReceiveStreamFlowController::release_outstanding_window
#[kani::proof]
#[kani::unwind(3)]
fn vq_c04_rsfc_release_outstanding_window() {
    let (conn, mut fc) = any_rsfc();
    let old = abs(&fc);
    let c_old = abs_conn(&conn);
    fc.release_outstanding_window();
    let new = abs(&fc);
    let c_new = abs_conn(&conn);
    let a = rsfc_outstanding(old);
    assert!(new.released == old.acquired, "C04/rsfc.release_outstanding_window/everything_acquired_is_released");
    assert!(rsfc_release_post(old, a, new, c_old, c_new), "C04/rsfc.release_outstanding_window/is_release_of_acquired_minus_released");
    assert!(rsfc_credit_bound(new) && icfc_credit_bound(c_new), "C04/rsfc.release_outstanding_window/credit_bounds");
    assert!(rsfc_inv(new) && icfc_inv(c_new) && rsfc_share_of_connection(new, c_new), "C04/rsfc.release_outstanding_window/inv_preserved");
    kani::cover!(a > 0, "reach:something_outstanding");
    kani::cover!(a == 0, "reach:nothing_outstanding");
    kani::cover!(c_new.advertised > c_old.advertised, "reach:connection_window_update");
}

//@ harness props=C04 tier=quick level=full timeout=300
//@ fn ReceiveStreamFlowController::new
#[kani::proof]
#[kani::unwind(3)]
fn vq_c04_rsfc_new() {
    // call-site fact (stream/manager.rs:222-247, the only non-test path to this constructor):
    // initial_window == desired_flow_control_window <= u32::MAX
    let conn = any_conn();
    let c_old = abs_conn(&conn);
    let window: u32 = kani::any();
    let fc = ReceiveStreamFlowController::new(conn.clone(), VarInt::from_u32(window), window);
    let s = abs(&fc);
    assert!(s.advertised == window as i128 && s.acquired == 0 && s.released == 0 && s.window == window as i128, "C04/rsfc.new/initial_credit_is_the_window");
    assert!(rsfc_inv(s) && rsfc_share_of_connection(s, c_old), "C04/rsfc.new/establishes_inv");
    assert!(icfc_same(c_old, abs_conn(&conn)), "C04/rsfc.new/connection_untouched");
    // the initial limit was announced in the transport parameters: nothing to send
    assert!(fc.read_window_sync.verif_delivery_kind() == 0, "C04/rsfc.new/no_window_update_pending");
    kani::cover!(window == 0, "reach:zero_window");
    kani::cover!(window == u32::MAX, "reach:max_window");
}

//@ harness props=C04 tier=quick level=full timeout=300
//@ fn MaxStreamDataToFrameWriter::write_value_as_frame
//@ fn IncrementalValueSync::on_transmit
#[kani::proof]
#[kani::unwind(10)]
fn vq_c04_rsfc_max_stream_data_on_transmit() {
    // ReceiveStream::on_transmit forwards to flow_controller.read_window_sync.on_transmit(stream_id, ..)
    // the connection controller is not involved in writing MAX_STREAM_DATA: a fresh one keeps this harness small
    let window: u32 = kani::any();
    let advertised: u64 = kani::any();
    let acquired: u64 = kani::any();
    let released: u64 = kani::any();
    kani::assume(released <= acquired && acquired <= advertised && advertised <= MAXV);
    kani::assume(advertised as u128 <= released as u128 + window as u128);
    let conn = IncomingConnectionFlowController::new(VarInt::from_u32(0), 0);
    let mut fc = ReceiveStreamFlowController {
        connection_flow_controller: conn.clone(),
        read_window_sync: any_sync_with_latest(advertised),
        desired_flow_control_window: window,
        acquired_connection_window: v(acquired),
        released_connection_window: v(released),
    };
    let old = abs(&fc);
    let c_old = abs_conn(&conn);
    let sid: u64 = kani::any();
    kani::assume(sid < 64); // one-byte stream id, so that the frame is tag + 1 byte + one varint
    let mut context = MiniWriter::any();
    let _ = fc.read_window_sync.on_transmit(StreamId::from_varint(v(sid)), &mut context);
    let new = abs(&fc);
    assert!(rsfc_same(old, new) && icfc_same(c_old, abs_conn(&conn)), "C04/rsfc.on_transmit/state_unchanged");
    assert!(context.frames <= 1, "C04/rsfc.on_transmit/at_most_one_frame");
    if context.frames == 1 {
        // RFC 9000 19.10: MAX_STREAM_DATA frame type 0x11, Stream ID (i), Maximum Stream Data (i)
        assert!(context.buf[0] == 0x11 && context.buf[1] as u64 == sid, "C04/rsfc.on_transmit/frame_is_max_stream_data_for_this_stream");
        let wire = context.varint_at(2);
        assert!(rsfc_transmit_wire_is_advertised(old, true, wire as i128), "C04/rsfc.on_transmit/max_stream_data_value_is_advertised");
        assert!(wire as i128 <= old.released + old.window, "C04/rsfc.on_transmit/wire_credit_le_released_plus_window");
    }
    kani::cover!(context.frames == 1, "reach:max_stream_data_written");
    kani::cover!(context.frames == 0, "reach:nothing_written");
}
