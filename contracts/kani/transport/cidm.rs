//@ inject crate=transport src=quic/s2n-quic-transport/src/connection/connection_id_mapper.rs
// Builder helper for property C13 (no harness in this file).
//
// `ConnectionIdMapperState::new` builds four SipHash maps from the `random::Generator` it is given
// (deterministic under `random::testing::Generator`) and one `OpenRequestMap` whose
// `hashbrown::HashMap::new()` seeds foldhash's `RandomState` from the stack pointer, a thread local,
// the wall clock (`std::time::UNIX_EPOCH.elapsed()`, a foreign function under Kani) and a heap address.
// CBMC stalls in that seeding code (no progress after 300 s).  The open-request map is never touched by
// the connection-id registries, so the harnesses replace `OpenRequestMap::new` by the function below,
// which builds the same empty map with an all-zero `RandomState` (trusted: A-env, "hash-map seed").
use super::*;

impl OpenRequestMap {
    pub(crate) fn verif_new_with_fixed_seed() -> Self {
        Self {
            // SAFETY: `foldhash::fast::RandomState` is a `u64` seed plus a zero-sized marker
            open_request_map: HashMap::with_hasher(unsafe { core::mem::zeroed() }),
        }
    }
}
