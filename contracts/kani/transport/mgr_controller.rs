//@ inject crate=transport src=quic/s2n-quic-transport/src/stream/controller.rs
// Contract harnesses for `stream::Controller` (properties C03, C04, C12): the DISPATCH of stream-count events to
// the four per-class controllers (local/remote x bidi/uni) and the wiring of the initial limits in `new`.
// The per-class controllers are under contract in local_initiated.rs / remote_initiated.rs; what is claimed
// here is that every event reaches exactly the class it concerns and no other, and that each class starts with
// the limit RFC 9000 18.2 assigns to it.
// Predicates: contracts/spec/stream_wiring.rs.
use super::*;
#[allow(dead_code, unused_variables)]
mod spec {
    include!("../../spec/stream_wiring.rs");
}
use core::task::Waker;
use spec::*;

const MAXV: u64 = s2n_quic_core::varint::MAX_VARINT_VALUE;
const MAX_STREAMS: u64 = 1 << 60;

fn v(x: u64) -> VarInt {
    VarInt::new(x).unwrap()
}

include!("_mgr_view.rs");

impl Controller {
    /// [local bidi, local uni, remote bidi, remote uni] x [opened, closed, cumulative limit, concurrency limit, parked wakers]
    pub(crate) fn verif_raw(&self) -> [[u64; 5]; 4] {
        let rb = self.remote_bidi_controller.verif_view();
        let ru = self.remote_uni_controller.verif_view();
        [
            self.local_bidi_controller.verif_view(),
            self.local_uni_controller.verif_view(),
            [rb[0], rb[1], rb[2], rb[3], 0],
            [ru[0], ru[1], ru[2], ru[3], 0],
        ]
    }
    fn verif_view(&self) -> CtlView {
        CtlView::from_raw(self.verif_raw())
    }
    pub(crate) fn verif_local_endpoint_type(&self) -> endpoint::Type {
        self.local_endpoint_type
    }
    /// builder access for arbitrary-state harnesses: sets the counters of one class (callers establish the class
    /// invariant closed <= opened <= cumulative limit, opened - closed <= concurrency limit)
    pub(crate) fn verif_set_class_counts(&mut self, local: bool, uni: bool, opened: u64, closed: u64) {
        match (local, uni) {
            (true, false) => self.local_bidi_controller.verif_set_counts(opened, closed),
            (true, true) => self.local_uni_controller.verif_set_counts(opened, closed),
            (false, false) => self.remote_bidi_controller.verif_set_counts(opened, closed),
            (false, true) => self.remote_uni_controller.verif_set_counts(opened, closed),
        }
    }
}

fn etype(is_server: bool) -> endpoint::Type {
    if is_server {
        endpoint::Type::Server
    } else {
        endpoint::Type::Client
    }
}

fn stype(uni: bool) -> StreamType {
    if uni {
        StreamType::Unidirectional
    } else {
        StreamType::Bidirectional
    }
}

struct CtlSetup {
    local_is_server: bool,
    peer_bidi: u64,
    peer_uni: u64,
    ours_bidi: u64,
    ours_uni: u64,
    conc_bidi: u64,
    conc_uni: u64,
}

fn flow_limits(bidi: u64, uni: u64) -> InitialFlowControlLimits {
    InitialFlowControlLimits {
        stream_limits: Default::default(),
        max_data: v(0),
        max_open_remote_bidirectional_streams: v(bidi),
        max_open_remote_unidirectional_streams: v(uni),
    }
}

/// A freshly constructed controller with arbitrary limits (the initial_max_streams_* values are <= 2^60:
/// InitialMaxStreams*::validate, RFC 9000 18.2/4.6; local concurrency limits are any VarInt).
fn fresh_ctl() -> (Controller, CtlSetup) {
    let local_is_server: bool = kani::any();
    let x: [u64; 6] = kani::any();
    kani::assume(x[0] <= MAX_STREAMS && x[1] <= MAX_STREAMS && x[2] <= MAX_STREAMS && x[3] <= MAX_STREAMS);
    kani::assume(x[4] <= MAXV && x[5] <= MAXV);
    let su = CtlSetup {
        local_is_server,
        peer_bidi: x[0],
        peer_uni: x[1],
        ours_bidi: x[2],
        ours_uni: x[3],
        conc_bidi: x[4],
        conc_uni: x[5],
    };
    let c = Controller::new(
        etype(local_is_server),
        flow_limits(su.peer_bidi, su.peer_uni),
        flow_limits(su.ours_bidi, su.ours_uni),
        stream::Limits {
            max_send_buffer_size: stream::Limits::RECOMMENDED.max_send_buffer_size,
            max_open_local_bidirectional_streams: su.conc_bidi.try_into().unwrap(),
            max_open_local_unidirectional_streams: su.conc_uni.try_into().unwrap(),
        },
        Duration::from_millis(1),
    );
    (c, su)
}

/// An arbitrary controller state: arbitrary limits and, per class, arbitrary counters satisfying the class
/// invariant the contracted operations preserve (`open_class_inv`: closed <= opened <= cumulative limit,
/// opened - closed <= concurrency limit).  For the two remote classes the advertised limit is still the initial
/// one (no MAX_STREAMS sent yet), whose concurrency limit is the same value.
fn any_ctl() -> (Controller, CtlSetup) {
    let (mut c, su) = fresh_ctl();
    let n: [u64; 8] = kani::any();
    kani::assume(n[1] <= n[0] && n[0] <= su.peer_bidi && n[0] - n[1] <= su.conc_bidi);
    kani::assume(n[3] <= n[2] && n[2] <= su.peer_uni && n[2] - n[3] <= su.conc_uni);
    kani::assume(n[5] <= n[4] && n[4] <= su.ours_bidi);
    kani::assume(n[7] <= n[6] && n[6] <= su.ours_uni);
    c.local_bidi_controller.verif_set_counts(n[0], n[1]);
    c.local_uni_controller.verif_set_counts(n[2], n[3]);
    c.remote_bidi_controller.verif_set_counts(n[4], n[5]);
    c.remote_uni_controller.verif_set_counts(n[6], n[7]);
    (c, su)
}

//@ harness props=C03,C04 tier=quick level=full timeout=600
//@ fn Controller::new
#[kani::proof]
#[kani::unwind(3)]
fn vq_c03_mgr_ctl_new_wiring() {
    let (c, su) = fresh_ctl();
    let w = c.verif_view();
    // RFC 9000 18.2: "initial_max_streams_bidi ... the initial maximum number of bidirectional streams the
    // endpoint that RECEIVES this transport parameter is permitted to initiate": the PEER's value bounds the
    // streams WE open, OUR value bounds the streams the peer opens.
    assert!(w.local_bidi.peer_limit == su.peer_bidi as i128, "C03/ctl.new/local_bidi_limited_by_peers_initial_max_streams_bidi");
    assert!(w.local_uni.peer_limit == su.peer_uni as i128, "C03/ctl.new/local_uni_limited_by_peers_initial_max_streams_uni");
    assert!(w.remote_bidi.peer_limit == su.ours_bidi as i128, "C04/ctl.new/remote_bidi_limited_by_our_initial_max_streams_bidi");
    assert!(w.remote_uni.peer_limit == su.ours_uni as i128, "C04/ctl.new/remote_uni_limited_by_our_initial_max_streams_uni");
    assert!(w.local_bidi.local_limit == su.conc_bidi as i128, "C03/ctl.new/local_bidi_concurrency_limit");
    assert!(w.local_uni.local_limit == su.conc_uni as i128, "C03/ctl.new/local_uni_concurrency_limit");
    assert!(
        w.local_bidi.opened == 0 && w.local_uni.opened == 0 && w.remote_bidi.opened == 0 && w.remote_uni.opened == 0
            && w.local_bidi.closed == 0 && w.local_uni.closed == 0 && w.remote_bidi.closed == 0 && w.remote_uni.closed == 0,
        "C12/ctl.new/nothing_opened"
    );
    assert!(c.verif_local_endpoint_type() == etype(su.local_is_server), "C03/ctl.new/role");
    kani::cover!(su.peer_bidi != su.ours_bidi && su.peer_uni != su.ours_uni && su.peer_bidi != su.peer_uni, "reach:distinct_limits");
    kani::cover!(su.peer_bidi == MAX_STREAMS, "reach:two_pow_60");
}

//@ harness props=C03 tier=quick level=full timeout=600
//@ fn Controller::on_max_streams
#[kani::proof]
#[kani::unwind(3)]
fn vq_c03_mgr_ctl_on_max_streams_dispatch() {
    let (mut c, _su) = any_ctl();
    let old = c.verif_view();
    let uni: bool = kani::any();
    let m: u64 = kani::any();
    kani::assume(m <= MAX_STREAMS); // frame decode fact (frame/max_streams.rs rejects > 2^60)
    c.on_max_streams(&MaxStreams { stream_type: stype(uni), maximum_streams: v(m) });
    let new = c.verif_view();
    // RFC 9000 19.11: type 0x12 applies to bidirectional, 0x13 to unidirectional streams; 4.6: cumulative,
    // non-increasing values are ignored
    assert!(max_streams_step(old.local(uni), m as i128, new.local(uni)), "C03/ctl.on_max_streams/addressed_class_limit_is_max");
    assert!(same_class(old.local(!uni), new.local(!uni)), "C03/ctl.on_max_streams/other_direction_untouched");
    assert!(same_class(old.remote_bidi, new.remote_bidi) && same_class(old.remote_uni, new.remote_uni),
        "C03/ctl.on_max_streams/limits_we_advertise_untouched");
    kani::cover!(uni && new.local_uni.peer_limit > old.local_uni.peer_limit, "reach:uni_increase");
    kani::cover!(!uni && new.local_bidi.peer_limit > old.local_bidi.peer_limit, "reach:bidi_increase");
    kani::cover!(m as i128 <= old.local(uni).peer_limit, "reach:ignored");
}

//@ harness props=C03,C12 tier=quick level=full timeout=600
//@ fn Controller::poll_open_local_stream
//@ fn Controller::on_open_stream
//@ fn Controller::direction
#[kani::proof]
#[kani::unwind(4)]
fn vq_c03_mgr_ctl_poll_open_local_dispatch() {
    let (mut c, _su) = any_ctl();
    let cx = Context::from_waker(Waker::noop());
    let mut tokens = connection::OpenToken::new();
    let old = c.verif_view();
    assert!(open_class_inv(old.local_bidi) && open_class_inv(old.local_uni), "C03/ctl.builder/inv");
    let uni: bool = kani::any();
    let r = c.poll_open_local_stream(stype(uni), &mut tokens, &cx);
    let new = c.verif_view();
    // C03: "never opens ... a stream beyond the largest MAX_STREAMS limit received": exact, per class
    assert!(r.is_ready() == open_allowed(old.local(uni)), "C03/ctl.poll_open_local_stream/ready_iff_requested_class_has_capacity");
    if r.is_ready() {
        assert!(open_step(old.local(uni), new.local(uni)), "C03/ctl.poll_open_local_stream/ready_counts_one_open_in_requested_class");
        assert!(new.parked_bidi == 0 && new.parked_uni == 0, "C03/ctl.poll_open_local_stream/ready_parks_nobody");
    } else {
        assert!(same_class(old.local(uni), new.local(uni)), "C03/ctl.poll_open_local_stream/pending_changes_no_counter");
        assert!(
            (if uni { new.parked_uni } else { new.parked_bidi }) == 1 && (if uni { new.parked_bidi } else { new.parked_uni }) == 0,
            "C03/ctl.poll_open_local_stream/pending_parks_caller_in_requested_class"
        );
    }
    assert!(same_class(old.local(!uni), new.local(!uni)), "C03/ctl.poll_open_local_stream/other_direction_untouched");
    assert!(same_class(old.remote_bidi, new.remote_bidi) && same_class(old.remote_uni, new.remote_uni),
        "C03/ctl.poll_open_local_stream/remote_classes_untouched");
    assert!(open_class_inv(new.local_bidi) && open_class_inv(new.local_uni), "C03/ctl.poll_open_local_stream/inv_preserved");
    kani::cover!(r.is_ready() && uni, "reach:ready_uni");
    kani::cover!(r.is_ready() && !uni, "reach:ready_bidi");
    kani::cover!(r.is_pending() && open_allowed(old.local(!uni)), "reach:blocked_while_other_direction_has_capacity");
    kani::cover!(r.is_pending() && old.local(uni).opened == old.local(uni).peer_limit, "reach:blocked_by_peer_limit");
    kani::cover!(r.is_pending() && old.local(uni).opened < old.local(uni).peer_limit, "reach:blocked_by_local_concurrency_limit");
    kani::cover!(r.is_ready() && old.local(uni).opened + 1 == old.local(uni).peer_limit, "reach:last_permitted_stream");
}

//@ harness props=C04 tier=quick level=bounded timeout=600 bound="streams<=2 opened by one frame"
//@ fn Controller::on_open_remote_stream
//@ fn Controller::on_open_stream
//@ fn Controller::direction
#[kani::proof]
#[kani::unwind(5)]
fn vq_c04_mgr_ctl_on_open_remote_dispatch() {
    let (mut c, su) = any_ctl();
    let old = c.verif_view();
    assert!(open_class_inv(old.remote_bidi) && open_class_inv(old.remote_uni), "C04/ctl.builder/inv");
    let uni: bool = kani::any();
    // the frame names the first or the second not-yet-opened stream of a peer class
    let k: u64 = kani::any();
    kani::assume(k <= 1);
    let opened = old.remote(uni).opened as u64;
    // KNOWN FINDING excluded here (owned by remote_initiated.rs, C04/ri.on_remote_open_stream/total_for_every_limit_
    // up_to_2_60): with an advertised limit of exactly 2^60 the first id beyond the limit is not representable and
    // RemoteInitiated::on_remote_open_stream `.expect()`s it.
    kani::assume(old.remote(uni).peer_limit < MAX_STREAMS as i128);
    // only ids that exist: index 2^60 has no representable stream id (4 * 2^60 > 2^62 - 1), a peer cannot name it
    kani::assume(opened + k < MAX_STREAMS);
    let first = StreamId::nth(etype(!su.local_is_server), stype(uni), opened).unwrap();
    let max = StreamId::nth(etype(!su.local_is_server), stype(uni), opened + k).unwrap();
    let id = max.as_varint().as_u64() as i128;
    assert!(id == sid_nth(!su.local_is_server, uni, (opened + k) as i128), "C12/stream_id.nth/is_first_plus_4n");
    let r = c.on_open_remote_stream(StreamIter::new(first, max));
    let new = c.verif_view();
    // RFC 9000 4.6: STREAM_LIMIT_ERROR exactly when the id exceeds the limit we sent for THAT class
    assert!(r.is_err() == remote_index_exceeds_limit((opened + k) as i128, old.remote(uni).peer_limit), "C04/ctl.on_open_remote_stream/err_iff_index_ge_advertised_limit_of_its_class");
    match r {
        Err(e) => {
            assert!(e.code == transport::Error::STREAM_LIMIT_ERROR.code, "C04/ctl.on_open_remote_stream/err_is_stream_limit_error");
            assert!(same_class(old.remote(uni), new.remote(uni)), "C04/ctl.on_open_remote_stream/err_leaves_counters_unchanged");
        }
        Ok(()) => {
            // RFC 9000 3.2: all lower-numbered streams of the type are opened too
            assert!(new.remote(uni).opened == remote_opened_after_index(old.remote(uni).opened, (opened + k) as i128), "C04/ctl.on_open_remote_stream/ok_opens_all_lower_streams_of_the_class");
            assert!(new.remote(uni).closed == old.remote(uni).closed && new.remote(uni).peer_limit == old.remote(uni).peer_limit
                && new.remote(uni).local_limit == old.remote(uni).local_limit,
                "C04/ctl.on_open_remote_stream/ok_keeps_limit_and_closed");
        }
    }
    assert!(same_class(old.remote(!uni), new.remote(!uni)), "C04/ctl.on_open_remote_stream/other_direction_untouched");
    assert!(same_class(old.local_bidi, new.local_bidi) && same_class(old.local_uni, new.local_uni), "C04/ctl.on_open_remote_stream/local_classes_untouched");
    assert!(open_class_inv(new.remote_bidi) && open_class_inv(new.remote_uni), "C04/ctl.on_open_remote_stream/inv_preserved");
    kani::cover!(r.is_ok() && k == 1, "reach:two_streams_opened");
    kani::cover!(r.is_err() && k == 1 && old.remote(uni).peer_limit == old.remote(uni).opened + 1, "reach:second_stream_is_one_past_limit");
    kani::cover!(r.is_err() && old.remote(!uni).peer_limit > old.remote(!uni).opened + 1, "reach:rejected_although_other_direction_has_credit");
    kani::cover!(r.is_ok() && uni && su.local_is_server, "reach:server_accepts_client_uni");
    kani::cover!(r.is_ok() && opened > 1000, "reach:late_in_connection");
    kani::cover!(old.remote(uni).peer_limit == MAX_STREAMS as i128 - 1, "reach:largest_admitted_limit");
}

//@ harness props=C03,C04 tier=quick level=full timeout=600
//@ fn Controller::on_close_stream
//@ fn Controller::direction
#[kani::proof]
#[kani::unwind(4)]
fn vq_c03_mgr_ctl_on_close_dispatch() {
    let (mut c, su) = any_ctl();
    let uni: bool = kani::any();
    let remote: bool = kani::any();
    let old = c.verif_view();
    let o = if remote { old.remote(uni) } else { old.local(uni) };
    // a stream of the chosen class is open (the container only reports streams it holds: stream_container.rs:520)
    kani::assume(o.opened - o.closed >= 1);
    let initiator_is_server = if remote { !su.local_is_server } else { su.local_is_server };
    let n: u64 = kani::any();
    kani::assume((n as i128) < o.opened);
    let id = StreamId::nth(etype(initiator_is_server), stype(uni), n).unwrap();
    c.on_close_stream(id);
    let new = c.verif_view();
    let nw = if remote { new.remote(uni) } else { new.local(uni) };
    assert!(nw.closed == o.closed + 1 && nw.opened == o.opened && nw.peer_limit == o.peer_limit && nw.local_limit == o.local_limit,
        "C03/ctl.on_close_stream/counts_one_close_in_the_streams_class");
    let (o2, n2) = if remote { (old.remote(!uni), new.remote(!uni)) } else { (old.local(!uni), new.local(!uni)) };
    assert!(same_class(o2, n2), "C03/ctl.on_close_stream/other_direction_untouched");
    if remote {
        assert!(same_class(old.local_bidi, new.local_bidi) && same_class(old.local_uni, new.local_uni), "C03/ctl.on_close_stream/other_initiator_untouched");
    } else {
        assert!(same_class(old.remote_bidi, new.remote_bidi) && same_class(old.remote_uni, new.remote_uni), "C03/ctl.on_close_stream/other_initiator_untouched");
    }
    kani::cover!(remote && uni, "reach:remote_uni");
    kani::cover!(!remote && !uni, "reach:local_bidi");
    kani::cover!(remote && !uni && su.local_is_server, "reach:server_closes_client_bidi");
    kani::cover!(!remote && uni && n > 0, "reach:not_the_first_stream");
}
