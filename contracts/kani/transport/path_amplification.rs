//@ inject crate=transport src=quic/s2n-quic-transport/src/path/mod.rs
// Contract harnesses for the anti-amplification credit of `Path` (property C11).
// Predicates: contracts/spec/amplification.rs (shared with verus/lemmas/C11.rs).
// The path under test is the crate's own `testing::helper_path_server()` (a
// `Path<endpoint::testing::Server>`, built by the real `Path::new`) whose amplification state,
// multiplier and activity flag are then made arbitrary by the builder below.
use super::*;
#[allow(dead_code, unused_variables)]
mod spec {
    include!("../../spec/amplification.rs");
}
use spec::*;

type ServerPath = Path<endpoint::testing::Server>;

/// arbitrary amplification state satisfying amp_inv (the only code that touches private fields)
fn any_path() -> ServerPath {
    any_path_with_multiplier(s2n_quic_core::connection::limits::ANTI_AMPLIFICATION_MULTIPLIER)
}

/// The multiplier is a connection limit (`Limits::anti_amplification_multiplier`, default 3).  It is
/// kept concrete per harness: a symbolic multiplier times a symbolic length makes CBMC compare two
/// 64/128-bit multiplier circuits (no result in 300 s), a constant one is shift-and-add.
fn any_path_with_multiplier(mult: u8) -> ServerPath {
    let mut p = testing::helper_path_server();
    let validated: bool = kani::any();
    let allowance: u32 = kani::any();
    p.state = if validated {
        State::Validated
    } else {
        State::AmplificationLimited { tx_allowance: Counter::new(allowance) }
    };
    p.anti_amplification_multiplier = mult;
    p.is_active = kani::any();
    p.peer_validated = kani::any();
    p
}

fn abs(p: &ServerPath) -> Amp {
    match p.state {
        State::Validated => Amp { validated: true, allowance: 0, mult: p.anti_amplification_multiplier as i128 },
        State::AmplificationLimited { tx_allowance } => {
            Amp { validated: false, allowance: *tx_allowance as i128, mult: p.anti_amplification_multiplier as i128 }
        }
    }
}

/// the part of `Path` that none of the amplification operations may change
#[derive(PartialEq, Eq, Clone, Copy)]
struct Frame {
    is_active: bool,
    activated: bool,
    peer_validated: bool,
    pto_backoff: u32,
    mds_normal: usize,
    response_pending: bool,
    challenge_pending: bool,
}

fn frame(p: &ServerPath) -> Frame {
    Frame {
        is_active: p.is_active,
        activated: p.activated,
        peer_validated: p.peer_validated,
        pto_backoff: p.pto_backoff,
        mds_normal: p.mtu_controller.max_datagram_size(),
        response_pending: p.response_data.is_some(),
        challenge_pending: p.challenge.is_pending(),
    }
}

fn outcome_code(o: AmplificationOutcome) -> i128 {
    match o {
        AmplificationOutcome::Unchanged => 0,
        AmplificationOutcome::ActivePathUnblocked => 1,
        AmplificationOutcome::InactivePathUnblocked => 2,
    }
}

//@ harness props=C11 tier=quick level=full timeout=120
//@ fn Path::new
#[kani::proof]
#[kani::unwind(4)]
fn vq_c11_path_amp_new_server_path_starts_limited() {
    // RFC 9000 8.1 / 9.3.1: a server path starts unvalidated with no credit at all, multiplier 3
    let p = testing::helper_path_server();
    let s = abs(&p);
    assert!(amp_inv(s), "C11/path.new/inv");
    assert!(amp_hist_inv(amp_hist_init(s)), "C11/path.new/history_inv_initially");
    assert!(!s.validated && s.allowance == 0, "C11/path.new/server_path_starts_limited_with_zero_credit");
    assert!(amp_at_limit(s) && p.at_amplification_limit(), "C11/path.new/server_path_starts_at_limit");
    assert!(s.mult == 3, "C11/path.new/default_multiplier_is_three");
    assert!(
        s2n_quic_core::connection::limits::ANTI_AMPLIFICATION_MULTIPLIER == 3,
        "C11/limits/default_multiplier_is_three"
    );
    assert!(
        p.transmission_constraint() == transmission::Constraint::AmplificationLimited,
        "C11/path.new/server_path_starts_amplification_limited"
    );
    // a client is never limited (RFC 9000 8.1: clients are only constrained by the congestion controller)
    let c = testing::helper_path_client();
    assert!(c.is_validated() && !c.at_amplification_limit(), "C11/path.new/client_path_is_not_limited");
    kani::cover!(true, "reach:end");
}

//@ harness props=C11 tier=quick level=full timeout=120
//@ fn Path::on_bytes_received
#[kani::proof]
#[kani::unwind(4)]
fn vq_c11_path_amp_on_bytes_received() {
    // the default limits: multiplier 3 (RFC 9000 8.1)
    rx_contract(s2n_quic_core::connection::limits::ANTI_AMPLIFICATION_MULTIPLIER);
}

fn rx_contract(mult: u8) {
    let mut p = any_path_with_multiplier(mult);
    let old = abs(&p);
    let f0 = frame(&p);
    assert!(amp_inv(old) && old.mult == mult as i128, "C11/path.builder/inv");
    // argument range: every production call site passes the payload length of one UDP datagram
    // (path/mod.rs:282 and path/manager.rs:475: `datagram.payload_len`)
    let n: usize = kani::any();
    kani::assume(n <= 65535);
    let out = outcome_code(p.on_bytes_received(n));
    let new = abs(&p);
    assert!(amp_rx_credit(old, n as i128, new), "C11/path.on_bytes_received/credit_is_sat_u32_of_allowance_plus_mult_times_n");
    assert!(amp_rx_frame(old, n as i128, new), "C11/path.on_bytes_received/validated_and_multiplier_unchanged");
    assert!(amp_inv(new), "C11/path.on_bytes_received/inv_preserved");
    assert!(
        out == amp_rx_outcome(old, new, f0.is_active),
        "C11/path.on_bytes_received/outcome_is_unblocked_iff_limit_left"
    );
    assert!(frame(&p) == f0, "C11/path.on_bytes_received/frame");
    kani::cover!(n == 65535, "reach:largest_datagram");
    kani::cover!(n == 0, "reach:empty");
    kani::cover!(!old.validated && new.allowance == 4294967295 && old.allowance < 4294967295, "reach:saturates_at_u32_max");
    kani::cover!(old.validated, "reach:validated_unchanged");
    kani::cover!(out == 1, "reach:active_unblocked");
    kani::cover!(out == 2, "reach:inactive_unblocked");
    kani::cover!(amp_at_limit(old) && amp_at_limit(new), "reach:still_limited");
}

//@ harness props=C11 tier=quick level=full timeout=240
//@ fn Path::on_bytes_received
#[kani::proof]
#[kani::unwind(4)]
fn vq_c11_path_amp_on_bytes_received_custom_multiplier() {
    // Limits::with_anti_amplification_multiplier: the same contract for other configured values
    rx_contract(1);
    rx_contract(2);
    rx_contract(13);
    rx_contract(255);
    // multiplier 0: the path never gets credit
    let mut p = any_path_with_multiplier(0);
    let old = abs(&p);
    let n: usize = kani::any();
    let _ = p.on_bytes_received(n);
    assert!(amp_unchanged(old, abs(&p)), "C11/path.on_bytes_received/multiplier_zero_never_credits");
    kani::cover!(true, "reach:end");
}

//@ harness props=C11 tier=quick level=full timeout=120
//@ fn Path::on_bytes_received
#[kani::proof]
#[kani::unwind(4)]
fn vq_c11_path_amp_on_bytes_received_any_usize() {
    // no restriction on n: the `as u32` conversion may lose credit but never invents any
    let mut p = any_path();
    let old = abs(&p);
    let n: usize = kani::any();
    let _ = p.on_bytes_received(n);
    let new = abs(&p);
    assert!(amp_rx_never_overcredits(old, n as i128, new), "C11/path.on_bytes_received/never_more_credit_than_mult_times_n");
    assert!(amp_rx_frame(old, n as i128, new), "C11/path.on_bytes_received/validated_and_multiplier_unchanged_any_n");
    assert!(amp_inv(new), "C11/path.on_bytes_received/inv_preserved_any_n");
    kani::cover!(n > 4294967295, "reach:beyond_u32");
    kani::cover!(!old.validated && new.allowance > old.allowance, "reach:credited");
}

//@ harness props=C11 tier=quick level=full timeout=120
//@ fn Path::on_bytes_transmitted
#[kani::proof]
#[kani::unwind(4)]
fn vq_c11_path_amp_on_bytes_transmitted() {
    let mut p = any_path();
    let old = abs(&p);
    let f0 = frame(&p);
    // argument range: a datagram length (connection/transmission.rs:410: at most the tx buffer
    // length, close_sender.rs:180: the close packet length); the conversion `bytes as u32` is exact
    // up to u32::MAX
    let n: usize = kani::any();
    kani::assume(n <= 4294967295);
    // call-site fact (debug_assert in the function): a non-empty datagram is only accounted when
    // the path was not at the limit (connection/transmission.rs:146 clamp_datagram_size before
    // writing; connection_impl.rs checks transmission_constraint() before the close sender runs)
    kani::assume(n == 0 || !amp_at_limit(old));
    p.on_bytes_transmitted(n);
    let new = abs(&p);
    assert!(amp_tx_debit(old, n as i128, new), "C11/path.on_bytes_transmitted/allowance_is_saturating_sub");
    assert!(amp_tx_frame(old, n as i128, new), "C11/path.on_bytes_transmitted/validated_and_multiplier_unchanged");
    assert!(new.allowance <= old.allowance, "C11/path.on_bytes_transmitted/never_adds_credit");
    assert!(amp_inv(new), "C11/path.on_bytes_transmitted/inv_preserved");
    assert!(frame(&p) == f0, "C11/path.on_bytes_transmitted/frame");
    kani::cover!(n == 4294967295, "reach:largest_n");
    kani::cover!(n == 0 && amp_at_limit(old), "reach:empty_at_limit");
    kani::cover!(!old.validated && (n as i128) > old.allowance, "reach:overshoot_saturates_at_zero");
    kani::cover!(!old.validated && (n as i128) < old.allowance, "reach:credit_left");
    kani::cover!(old.validated && n > 0, "reach:validated_unchanged");
}

//@ harness props=C11 tier=quick level=full timeout=120
//@ fn Path::at_amplification_limit
//@ fn Path::transmission_constraint
//@ fn Path::can_transmit
//@ fn Path::is_validated
#[kani::proof]
#[kani::unwind(4)]
fn vq_c11_path_amp_limit_and_constraint() {
    let p = any_path();
    let s = abs(&p);
    let r = p.at_amplification_limit();
    assert!(r == amp_at_limit(s), "C11/path.at_amplification_limit/iff_unvalidated_and_zero_allowance");
    assert!(p.is_validated() == s.validated, "C11/path.is_validated/iff_state_validated");
    let c = p.transmission_constraint();
    assert!(
        (c == transmission::Constraint::AmplificationLimited) == amp_at_limit(s),
        "C11/path.transmission_constraint/amplification_limited_iff_at_limit"
    );
    assert!(
        !amp_at_limit(s) || !(c.can_transmit() || c.can_retransmit()),
        "C11/path.transmission_constraint/at_limit_permits_neither_transmit_nor_retransmit"
    );
    let now = s2n_quic_core::time::clock::testing::now();
    assert!(!amp_at_limit(s) || !p.can_transmit(now), "C11/path.can_transmit/false_at_limit");
    kani::cover!(r, "reach:at_limit");
    kani::cover!(!r && !s.validated, "reach:unvalidated_with_credit");
    kani::cover!(s.validated, "reach:validated");
    kani::cover!(p.can_transmit(now), "reach:can_transmit");
}

//@ harness props=C11 tier=quick level=full timeout=120
//@ fn Path::clamp_datagram_size
//@ fn Path::max_datagram_size
#[kani::proof]
#[kani::unwind(4)]
fn vq_c11_path_amp_clamp_datagram_size() {
    let p = any_path();
    let s = abs(&p);
    // the function's documented precondition (it panics otherwise; connection/transmission.rs:146 is
    // reached only after ConnectionImpl::on_transmit saw a constraint other than AmplificationLimited)
    kani::assume(!amp_at_limit(s));
    let requested: usize = kani::any();
    let mode = match kani::any::<u8>() % 4 {
        0 => Mode::Normal,
        1 => Mode::LossRecoveryProbing,
        2 => Mode::PathValidationOnly,
        _ => Mode::MtuProbing,
    };
    let r = p.clamp_datagram_size(requested, mode);
    let mds = p.max_datagram_size(mode);
    assert!(r == core::cmp::min(requested, mds), "C11/path.clamp_datagram_size/is_min_of_requested_and_max_datagram_size");
    assert!(r <= requested && r <= mds, "C11/path.clamp_datagram_size/never_larger_than_requested_or_mtu");
    let min_mds = s2n_quic_core::path::MINIMUM_MAX_DATAGRAM_SIZE as usize;
    assert!(
        !matches!(mode, Mode::LossRecoveryProbing | Mode::PathValidationOnly) || mds == min_mds,
        "C11/path.max_datagram_size/probes_use_minimum_1200"
    );
    assert!(
        !matches!(mode, Mode::Normal) || mds == p.mtu_controller.max_datagram_size(),
        "C11/path.max_datagram_size/normal_uses_confirmed_mtu"
    );
    assert!(
        !matches!(mode, Mode::MtuProbing) || mds == p.mtu_controller.probed_sized(),
        "C11/path.max_datagram_size/mtu_probe_uses_probed_size"
    );
    assert!(mds <= 65535 && min_mds == 1200, "C11/path.max_datagram_size/fits_udp");
    kani::cover!(r < requested, "reach:clamped");
    kani::cover!(r == requested && requested > 0, "reach:unclamped");
    kani::cover!(!s.validated && (r as i128) > s.allowance, "reach:datagram_may_exceed_remaining_allowance");
}

//@ harness props=C11 tier=quick level=full timeout=120
//@ fn Path::on_handshake_packet
//@ fn Path::on_validated
#[kani::proof]
#[kani::unwind(4)]
fn vq_c11_path_amp_on_handshake_packet() {
    let mut p = any_path();
    let old = abs(&p);
    let f0 = frame(&p);
    p.on_handshake_packet();
    let new = abs(&p);
    assert!(amp_validated_post(old, new), "C11/path.on_handshake_packet/validates");
    assert!(!p.at_amplification_limit(), "C11/path.on_handshake_packet/no_longer_limited");
    assert!(
        p.transmission_constraint() != transmission::Constraint::AmplificationLimited,
        "C11/path.on_handshake_packet/constraint_not_amplification"
    );
    let f1 = frame(&p);
    assert!(
        f1.is_active == f0.is_active && f1.activated == f0.activated && f1.peer_validated == f0.peer_validated
            && f1.pto_backoff == f0.pto_backoff && f1.response_pending == f0.response_pending
            && f1.challenge_pending == f0.challenge_pending,
        "C11/path.on_handshake_packet/frame"
    );
    kani::cover!(amp_at_limit(old), "reach:was_limited");
    kani::cover!(old.validated, "reach:was_validated");
}

//@ harness props=C11 tier=quick level=full timeout=180
//@ fn Path::on_path_response
//@ fn Challenge::on_validated
#[kani::proof]
#[kani::unwind(10)]
fn vq_c11_path_amp_on_path_response() {
    let mut p = any_path();
    // challenge: none outstanding (initial path) or one outstanding with arbitrary data
    let has_challenge: bool = kani::any();
    let expected: [u8; 8] = kani::any();
    if has_challenge {
        p.set_challenge(Challenge::new(core::time::Duration::from_secs(1), expected));
    }
    let old = abs(&p);
    let f0 = frame(&p);
    assert!(f0.challenge_pending == has_challenge, "C11/path.set_challenge/pending_iff_set");
    let resp: [u8; 8] = kani::any();
    let len: usize = kani::any();
    kani::assume(len <= 8);
    let r = p.on_path_response(&resp[..len]);
    let new = abs(&p);
    let matches = has_challenge && len == 8 && resp == expected;
    assert!(r == matches, "C11/path.on_path_response/true_iff_pending_challenge_and_data_match");
    assert!(!r || amp_validated_post(old, new), "C11/path.on_path_response/match_validates");
    assert!(r || amp_unchanged(old, new), "C11/path.on_path_response/mismatch_leaves_credit_and_validation_unchanged");
    assert!(r || frame(&p) == f0, "C11/path.on_path_response/mismatch_frame");
    assert!(!r || !p.is_challenge_pending(), "C11/path.on_path_response/challenge_consumed");
    // a second copy of the same response validates nothing further (challenge is consumed)
    let again = p.on_path_response(&resp[..len]);
    assert!(!again, "C11/path.on_path_response/second_response_is_no_match");
    kani::cover!(r && !old.validated, "reach:validated_by_response");
    kani::cover!(!r && has_challenge && len == 8, "reach:wrong_data");
    kani::cover!(!r && has_challenge && len < 8, "reach:short_data");
    kani::cover!(!r && !has_challenge, "reach:no_challenge");
}

//@ harness props=C11 tier=quick level=full timeout=180
//@ fn Path::on_path_challenge
//@ fn Path::on_peer_validated
//@ fn Path::on_activated
//@ fn Path::set_challenge
//@ fn Path::reset_pto_backoff
//@ fn Path::on_datagram_received
#[kani::proof]
#[kani::unwind(4)]
fn vq_c11_path_amp_other_mutators_never_validate_or_credit() {
    // "on_validated only via on_handshake_packet / on_path_response": every other `&mut self`
    // method of Path that needs no publisher / write context leaves validation and credit alone
    // (on_datagram_received credits exactly like on_bytes_received(payload_len)).
    let mut p = any_path();
    let old = abs(&p);
    let which: u8 = kani::any();
    kani::assume(which < 6);
    let mut credited: i128 = 0;
    match which {
        0 => p.on_path_challenge(&kani::any::<[u8; 8]>()),
        1 => p.on_peer_validated(),
        2 => p.on_activated(),
        3 => p.set_challenge(Challenge::new(core::time::Duration::from_secs(1), kani::any::<[u8; 8]>())),
        4 => p.reset_pto_backoff(),
        _ => {
            let len: u16 = kani::any();
            let info = DatagramInfo {
                timestamp: s2n_quic_core::time::clock::testing::now(),
                payload_len: len as usize,
                ecn: Default::default(),
                destination_connection_id: connection::LocalId::TEST_ID,
                destination_connection_id_classification: connection::id::Classification::Local,
                source_connection_id: None,
            };
            let handle = p.handle;
            let r = p.on_datagram_received(&handle, &info, kani::any());
            assert!(r.is_ok(), "C11/path.on_datagram_received/ok_without_source_cid");
            credited = len as i128;
        }
    }
    let new = abs(&p);
    if which < 5 {
        assert!(amp_unchanged(old, new), "C11/path.other_mutators/validation_and_credit_unchanged");
    } else {
        assert!(amp_rx_post(old, credited, new), "C11/path.on_datagram_received/credits_payload_len_like_on_bytes_received");
    }
    assert!(new.validated == old.validated, "C11/path.other_mutators/never_validate");
    assert!(amp_inv(new), "C11/path.other_mutators/inv_preserved");
    kani::cover!(which == 0, "reach:on_path_challenge");
    kani::cover!(which == 1 && !old.validated, "reach:on_peer_validated");
    kani::cover!(which == 3, "reach:set_challenge");
    kani::cover!(which == 5 && credited == 65535, "reach:on_datagram_received");
}

// ---------------------------------------------------------------------------------------------------
// Not here: a Kani *inductive step* harness for the history invariant (arbitrary Path state +
// arbitrary ghost totals satisfying amp_hist_inv, one event, amp_hist_inv again).  It was written and
// measured: the three 128-bit inequalities of amp_hist_inv gave no result in 240 s with 64-bit ghost
// totals and none in 600 s with 32-bit ones (cadical; z3 as back end was slower still).  The step is
// therefore proved where it is cheap: verus/lemmas/C11.rs `step_rx` / `step_tx` derive amp_hist_inv
// from exactly the per-function predicates asserted above (amp_rx_post, amp_tx_post), for unbounded
// integers and histories of any length (`all_histories_keep_inv`).

// ---------------------------------------------------------------------------------------------------
// History harness (bounded): a symbolic sequence of <= 6 receive / transmit events on the real Path,
// driven exactly as ConnectionImpl drives it (a datagram is started iff !at_amplification_limit();
// its length is bounded by the MTU, not by the remaining allowance: see
// vq_c11_path_amp_clamp_datagram_size).  Its purpose is the *concrete history* for the two obligations
// taken from the property statement:
//
//   C11/path.amplification/no_start_at_or_over_3x            "never starts sending a datagram once the
//                                                             bytes already sent have reached 3x received"
//   C11/path.amplification/total_below_3x_plus_one_datagram  "so the total stays below 3x plus one datagram"
//
// Both are EXPECTED TO FAIL on the unchanged tree (DESIGN 6 item 3: the counter saturates at 0 and
// forgets the overshoot of the last datagram; a later receipt then adds fresh credit).  The
// `#outside-known` residuals exclude exactly the histories in which an earlier transmitted datagram
// was larger than the allowance that remained when it was started (ghost `debt != 0`).  The strict
// obligations are accumulated in flags and asserted last so that their failure does not mask any
// other obligation of the harness.  Everything else that has to be *proved* about histories is in
// verus/lemmas/C11.rs; repeating the inequalities of amp_hist_inv here makes the SAT instance 10x
// slower (measured: 57 s -> 480 s), only the equality below is kept because it makes the residuals
// cheap (227 s -> 30 s).
//@ harness props=C11 tier=quick level=bounded timeout=400 bound="history of <= 6 rx/tx events, datagrams <= 1500 bytes"
//@ fn Path::on_bytes_received
//@ fn Path::on_bytes_transmitted
//@ fn Path::at_amplification_limit
#[kani::proof]
#[kani::unwind(8)]
fn vq_c11_path_amp_history() {
    const MAX_EVENT: u16 = 1500;
    const N_EVENTS: usize = 6;
    let mut p = testing::helper_path_server();
    let mut h = amp_hist_init(abs(&p));
    let mut strict_start_ok = true;
    let mut strict_total_ok = true;
    let mut i = 0;
    while i < N_EVENTS {
        let is_rx: bool = kani::any();
        let n: u16 = kani::any();
        kani::assume(n <= MAX_EVENT);
        if is_rx {
            let _ = p.on_bytes_received(n as usize);
            h = amp_hist_rx(h, n as i128, abs(&p));
        } else if !p.at_amplification_limit() {
            kani::assume(n >= 1);
            // a datagram is started here
            assert!(amp_may_start(h), "C11/path.amplification/start_only_when_not_at_limit");
            assert!(h.debt != 0 || amp_stated_start_bound(h), "C11/path.amplification/no_start_at_or_over_3x#outside-known");
            strict_start_ok = strict_start_ok && amp_stated_start_bound(h);
            let before = h;
            p.on_bytes_transmitted(n as usize);
            h = amp_hist_tx(h, n as i128, abs(&p));
            assert!(
                before.debt != 0 || amp_stated_total_bound(h),
                "C11/path.amplification/total_below_3x_plus_one_datagram#outside-known"
            );
        }
        // without an overshoot the counter is the exact balance (no top saturation within 6 x 1500 x 3)
        assert!(h.debt != 0 || h.s.allowance == 3 * h.rx - h.tx, "C11/path.amplification/exact_balance_without_overshoot");
        strict_total_ok = strict_total_ok && amp_stated_total_bound(h);
        i += 1;
    }
    kani::cover!(h.debt > 0, "reach:overshoot");
    kani::cover!(h.tx > 0 && h.debt == 0, "reach:no_overshoot");
    kani::cover!(h.tx >= 3 * h.rx + 2 * h.maxd && h.rx > 0, "reach:more_than_two_datagrams_over_3x");
    kani::cover!(h.rx == 6 * (MAX_EVENT as i128), "reach:largest_events");
    kani::cover!(true, "reach:end");
    // ---- the property statement (expected to fail: DESIGN 6 item 3) ----
    // (total first: a violated total implies a violated start, not the other way round, so this
    // order lets CBMC report both)
    assert!(strict_total_ok, "C11/path.amplification/total_below_3x_plus_one_datagram");
    assert!(strict_start_ok, "C11/path.amplification/no_start_at_or_over_3x");
}
