//@ inject crate=transport src=quic/s2n-quic-transport/src/recovery/manager.rs
// Bounded scenario harnesses for recovery::Manager (properties C09 / C10; follow-up to the reviewers' missed changes).
//
// Everything of recovery::Manager, SentPackets (packet::number::Map), Path, RttEstimator, loss::detect, Pto, the MTU and
// ECN controllers is the REAL code.  Harness-side are only: the congestion controller (a recording one, so that every
// byte handed to on_ack / on_packet_lost / on_packet_discarded is visible), the recovery::Context (two paths built
// like path::testing::helper_path_server), the event sink and the endpoint Config that ties them together.
// Packet numbers, timestamps and RTTs are concrete (a symbolic Map shape crashes CBMC, symbolic Durations are
// SAT-hard -- see contracts/kani/core/{pn_map,timestamp}.rs); packet sizes are symbolic; the path each packet is sent on and
// the path each ACK arrives on are enumerated as separate harnesses (a symbolic index into the Path array did not finish).
//
// STATUS
//  * Retry scenario (`vq_c09_manager_retry_...`): verifies (symbolic execution 166 s alone, 746 k steps, 2.2 M variables).
//  * The four whole-`process_acks` scenarios (`vq_c09_manager_reordered_ack_*`, `vq_c09_manager_loss_threshold_*`) are
//    UNDECIDED and unregistered: no result in 3000 s at -j 3 under load ~40, none in 36 min alone under load, and none in
//    45 min alone on the idle machine (load ~8; stopped at 6.0 GB, still in symbolic execution).  Root cause (measured,
//    see the note at the end of contracts/kani/core/pn_map.rs): every "is this slot occupied" read of the sent-packet
//    ring is symbolic for CBMC because Option<SentPacketInfo> is niche-encoded, so every loop over
//    `sent_packets.iter()` / `remove_range()` is unrolled to the unwind bound (12 x 12), and process_acks walks the
//    ring 4-6 times.  The occupancy-oracle stub for Iter::next / RemoveIter::next that would cure this cannot be
//    installed: Kani 0.68 cannot resolve trait-impl methods of generic types as #[kani::stub] targets.
//  * Instead the two branches those scenarios were written for are covered by FUNCTION-LEVEL harnesses on the real
//    private functions, from the manager state process_acks hands them (bottom of this file):
//      vq_c09_manager_new_acked_{same_path,two_paths}        process_new_acked_packets, `new_largest_packet` symbolic
//                                                            (291 s / 189 s; reviewer change (a) caught in 84 s / 101 s)
//      vq_c09_manager_detect_lost_{fast,slow}_path_packet    detect_lost_packets, threshold of the packet's own path
//                                                            (91 s / 166 s; reviewer change (b) caught in 18 s / 34 s)
//    What they do NOT cover: the glue inside process_acks between process_ack_range, update_congestion_control and
//    these two functions (that newly_acked_packets is exactly what remove_range returned; that largest_acked_packet is
//    updated before the call).
use super::*;
use s2n_quic_core::{
    connection, connection::limits::ANTI_AMPLIFICATION_MULTIPLIER, frame::ack_elicitation::AckElicitation, path::mtu,
    random, recovery::RttEstimator, varint::VarInt,
};

// ---- recording congestion controller ---------------------------------------------------------------------------
#[derive(Clone, Debug, Default)]
struct RecCc {
    bif: u64,
    sent_bytes: u64,
    acked_bytes: u64,
    ack_calls: u32,
    lost_bytes: u64,
    lost_calls: u32,
    discarded_bytes: u64,
    discard_calls: u32,
    underflow: bool,
}
impl RecCc {
    fn resolve(&mut self, n: u64) {
        if n > self.bif {
            self.underflow = true;
            self.bif = 0;
        } else {
            self.bif -= n;
        }
    }
}
impl CongestionController for RecCc {
    type PacketInfo = ();
    fn congestion_window(&self) -> u32 {
        u32::MAX
    }
    fn bytes_in_flight(&self) -> u32 {
        self.bif as u32
    }
    fn is_congestion_limited(&self) -> bool {
        false
    }
    fn requires_fast_retransmission(&self) -> bool {
        false
    }
    fn on_packet_sent<Pub: congestion_controller::Publisher>(&mut self, _t: Timestamp, sent_bytes: usize, _a: Option<bool>, _r: &RttEstimator, _p: &mut Pub) {
        self.bif += sent_bytes as u64;
        self.sent_bytes += sent_bytes as u64;
    }
    fn on_rtt_update<Pub: congestion_controller::Publisher>(&mut self, _t: Timestamp, _n: Timestamp, _r: &RttEstimator, _p: &mut Pub) {}
    fn on_ack<Pub: congestion_controller::Publisher>(&mut self, _t: Timestamp, bytes: usize, _i: (), _r: &RttEstimator, _g: &mut dyn random::Generator, _n: Timestamp, _p: &mut Pub) {
        self.acked_bytes += bytes as u64;
        self.ack_calls += 1;
        self.resolve(bytes as u64);
    }
    fn on_packet_lost<Pub: congestion_controller::Publisher>(&mut self, lost_bytes: u32, _i: (), _pc: bool, _b: bool, _g: &mut dyn random::Generator, _n: Timestamp, _p: &mut Pub) {
        self.lost_bytes += lost_bytes as u64;
        self.lost_calls += 1;
        self.resolve(lost_bytes as u64);
    }
    fn on_explicit_congestion<Pub: congestion_controller::Publisher>(&mut self, _c: u64, _t: Timestamp, _p: &mut Pub) {}
    fn on_mtu_update<Pub: congestion_controller::Publisher>(&mut self, _m: u16, _p: &mut Pub) {}
    fn on_packet_discarded<Pub: congestion_controller::Publisher>(&mut self, bytes_sent: usize, _p: &mut Pub) {
        self.discarded_bytes += bytes_sent as u64;
        self.discard_calls += 1;
        self.resolve(bytes_sent as u64);
    }
    fn earliest_departure_time(&self) -> Option<Timestamp> {
        None
    }
}
#[derive(Debug, Default)]
struct RecEndpoint;
impl congestion_controller::Endpoint for RecEndpoint {
    type CongestionController = RecCc;
    fn new_congestion_controller(&mut self, _path_info: congestion_controller::PathInfo) -> RecCc {
        RecCc::default()
    }
}

// ---- endpoint configs: the crate's testing Server / Client with the recording controller -----------------------
macro_rules! verif_config {
    ($name:ident, $base:ty, $ty:expr) => {
        #[derive(Debug)]
        struct $name;
        impl endpoint::Config for $name {
            type CongestionControllerEndpoint = RecEndpoint;
            type TLSEndpoint = <$base as endpoint::Config>::TLSEndpoint;
            type PathHandle = <$base as endpoint::Config>::PathHandle;
            type Connection = crate::connection::Implementation<Self>;
            type ConnectionLock = std::sync::Mutex<Self::Connection>;
            type EndpointLimits = <$base as endpoint::Config>::EndpointLimits;
            type ConnectionIdFormat = <$base as endpoint::Config>::ConnectionIdFormat;
            type StatelessResetTokenGenerator = <$base as endpoint::Config>::StatelessResetTokenGenerator;
            type RandomGenerator = random::testing::Generator;
            type TokenFormat = <$base as endpoint::Config>::TokenFormat;
            type ConnectionLimits = <$base as endpoint::Config>::ConnectionLimits;
            type Mtu = <$base as endpoint::Config>::Mtu;
            type StreamManager = <$base as endpoint::Config>::StreamManager;
            type ConnectionCloseFormatter = <$base as endpoint::Config>::ConnectionCloseFormatter;
            type EventSubscriber = <$base as endpoint::Config>::EventSubscriber;
            type PathMigrationValidator = <$base as endpoint::Config>::PathMigrationValidator;
            type PacketInterceptor = <$base as endpoint::Config>::PacketInterceptor;
            type DatagramEndpoint = <$base as endpoint::Config>::DatagramEndpoint;
            type DcEndpoint = <$base as endpoint::Config>::DcEndpoint;
            fn context(&mut self) -> endpoint::Context<'_, Self> {
                unimplemented!()
            }
            const ENDPOINT_TYPE: endpoint::Type = $ty;
        }
    };
}
verif_config!(VServer, crate::endpoint::testing::Server, endpoint::Type::Server);
verif_config!(VClient, crate::endpoint::testing::Client, endpoint::Type::Client);

/// no-op event sink (the event subscriber is outside the contract); generated from the ConnectionPublisher trait
struct NoPub;
impl event::ConnectionPublisher for NoPub {
    fn on_application_protocol_information(&mut self, _event: event::builder::ApplicationProtocolInformation) {}
    fn on_server_name_information(&mut self, _event: event::builder::ServerNameInformation) {}
    fn on_key_exchange_group(&mut self, _event: event::builder::KeyExchangeGroup) {}
    fn on_signature_scheme(&mut self, _event: event::builder::SignatureScheme) {}
    fn on_packet_skipped(&mut self, _event: event::builder::PacketSkipped) {}
    fn on_packet_sent(&mut self, _event: event::builder::PacketSent) {}
    fn on_packet_received(&mut self, _event: event::builder::PacketReceived) {}
    fn on_active_path_updated(&mut self, _event: event::builder::ActivePathUpdated) {}
    fn on_path_created(&mut self, _event: event::builder::PathCreated) {}
    fn on_frame_sent(&mut self, _event: event::builder::FrameSent) {}
    fn on_frame_received(&mut self, _event: event::builder::FrameReceived) {}
    fn on_connection_close_frame_received(&mut self, _event: event::builder::ConnectionCloseFrameReceived) {}
    fn on_packet_lost(&mut self, _event: event::builder::PacketLost) {}
    fn on_recovery_metrics(&mut self, _event: event::builder::RecoveryMetrics) {}
    fn on_congestion(&mut self, _event: event::builder::Congestion) {}
    fn on_ack_processed(&mut self, _event: event::builder::AckProcessed) {}
    fn on_rx_ack_range_dropped(&mut self, _event: event::builder::RxAckRangeDropped) {}
    fn on_ack_range_received(&mut self, _event: event::builder::AckRangeReceived) {}
    fn on_ack_range_sent(&mut self, _event: event::builder::AckRangeSent) {}
    fn on_packet_dropped(&mut self, _event: event::builder::PacketDropped) {}
    fn on_packet_buffered(&mut self, _event: event::builder::PacketBuffered) {}
    fn on_packet_buffer_drained(&mut self, _event: event::builder::PacketBufferDrained) {}
    fn on_packet_buffer_error(&mut self, _event: event::builder::PacketBufferError) {}
    fn on_key_update(&mut self, _event: event::builder::KeyUpdate) {}
    fn on_key_space_discarded(&mut self, _event: event::builder::KeySpaceDiscarded) {}
    fn on_connection_started(&mut self, _event: event::builder::ConnectionStarted) {}
    fn on_duplicate_packet(&mut self, _event: event::builder::DuplicatePacket) {}
    fn on_transport_parameters_received(&mut self, _event: event::builder::TransportParametersReceived) {}
    fn on_datagram_sent(&mut self, _event: event::builder::DatagramSent) {}
    fn on_datagram_received(&mut self, _event: event::builder::DatagramReceived) {}
    fn on_datagram_dropped(&mut self, _event: event::builder::DatagramDropped) {}
    fn on_handshake_remote_address_change_observed(&mut self, _event: event::builder::HandshakeRemoteAddressChangeObserved) {}
    fn on_connection_id_updated(&mut self, _event: event::builder::ConnectionIdUpdated) {}
    fn on_ecn_state_changed(&mut self, _event: event::builder::EcnStateChanged) {}
    fn on_connection_migration_denied(&mut self, _event: event::builder::ConnectionMigrationDenied) {}
    fn on_handshake_status_updated(&mut self, _event: event::builder::HandshakeStatusUpdated) {}
    fn on_tls_exporter_ready(&mut self, _event: event::builder::TlsExporterReady) {}
    fn on_tls_handshake_failed(&mut self, _event: event::builder::TlsHandshakeFailed) {}
    fn on_path_challenge_updated(&mut self, _event: event::builder::PathChallengeUpdated) {}
    fn on_tls_client_hello(&mut self, _event: event::builder::TlsClientHello) {}
    fn on_tls_server_hello(&mut self, _event: event::builder::TlsServerHello) {}
    fn on_rx_stream_progress(&mut self, _event: event::builder::RxStreamProgress) {}
    fn on_tx_stream_progress(&mut self, _event: event::builder::TxStreamProgress) {}
    fn on_keep_alive_timer_expired(&mut self, _event: event::builder::KeepAliveTimerExpired) {}
    fn on_mtu_updated(&mut self, _event: event::builder::MtuUpdated) {}
    fn on_mtu_probing_complete_received(&mut self, _event: event::builder::MtuProbingCompleteReceived) {}
    fn on_slow_start_exited(&mut self, _event: event::builder::SlowStartExited) {}
    fn on_delivery_rate_sampled(&mut self, _event: event::builder::DeliveryRateSampled) {}
    fn on_pacing_rate_updated(&mut self, _event: event::builder::PacingRateUpdated) {}
    fn on_bbr_state_changed(&mut self, _event: event::builder::BbrStateChanged) {}
    fn on_dc_state_changed(&mut self, _event: event::builder::DcStateChanged) {}
    fn on_dc_path_created(&mut self, _event: event::builder::DcPathCreated) {}
    fn on_dc_state_incomplete(&mut self, _event: event::builder::DcStateIncomplete) {}
    fn on_connection_closed(&mut self, _event: event::builder::ConnectionClosed) {}
    fn quic_version(&self) -> u32 {
        1
    }
    fn subject(&self) -> event::api::Subject {
        event::builder::Subject::Connection { id: 0 }.into_event()
    }
}

// ---- harness-side recovery::Context with two paths ---------------------------------------------------------------
struct Ctx<C: endpoint::Config> {
    paths: [Path<C>; 2],
    /// the path the packet being processed was received / is sent on
    current: u8,
    handshake_confirmed: bool,
    loss_calls: u32,
    last_lost: Option<PacketNumber>,
    new_ack_calls: u32,
}
fn pid(i: u8) -> path::Id {
    unsafe { path::Id::new(i) }
}
impl<C: endpoint::Config> Context<C> for Ctx<C> {
    const ENDPOINT_TYPE: endpoint::Type = C::ENDPOINT_TYPE;
    fn is_handshake_confirmed(&self) -> bool {
        self.handshake_confirmed
    }
    fn active_path(&self) -> &Path<C> {
        &self.paths[0]
    }
    fn active_path_mut(&mut self) -> &mut Path<C> {
        &mut self.paths[0]
    }
    fn path(&self) -> &Path<C> {
        &self.paths[self.current as usize]
    }
    fn path_mut(&mut self) -> &mut Path<C> {
        &mut self.paths[self.current as usize]
    }
    fn path_by_id(&self, path_id: path::Id) -> &Path<C> {
        &self.paths[path_id.as_u8() as usize]
    }
    fn path_mut_by_id(&mut self, path_id: path::Id) -> &mut Path<C> {
        &mut self.paths[path_id.as_u8() as usize]
    }
    fn path_id(&self) -> path::Id {
        pid(self.current)
    }
    fn validate_packet_ack(&mut self, _t: Timestamp, _r: &PacketNumberRange, _l: PacketNumber) -> Result<(), transport::Error> {
        Ok(())
    }
    fn on_new_packet_ack<Pub: event::ConnectionPublisher>(&mut self, _r: &PacketNumberRange, _p: &mut Pub) {
        self.new_ack_calls += 1;
    }
    fn on_packet_ack(&mut self, _t: Timestamp, _r: &PacketNumberRange) {}
    fn on_packet_loss<Pub: event::ConnectionPublisher>(&mut self, r: &PacketNumberRange, _p: &mut Pub) {
        self.loss_calls += 1;
        self.last_lost = Some(r.start());
    }
    fn on_rtt_update(&mut self, _now: Timestamp) {}
    fn on_mtu_update(&mut self, _m: u16) {}
}

fn new_path<C: endpoint::Config<CongestionControllerEndpoint = RecEndpoint, PathHandle = s2n_quic_core::path::RemoteAddress>>(rtt_ms: u64, active: bool) -> Path<C> {
    // same recipe as path::testing::helper_path_server / helper_path_client
    let mut p = Path::new(
        Default::default(),
        connection::PeerId::try_from_bytes(&[]).unwrap(),
        connection::LocalId::TEST_ID,
        RttEstimator::new(Duration::from_millis(rtt_ms)),
        RecCc::default(),
        true,
        mtu::Config::default(),
        ANTI_AMPLIFICATION_MULTIPLIER,
        0,
    );
    p.verif_set_active(active);
    p
}
fn new_ctx<C: endpoint::Config<CongestionControllerEndpoint = RecEndpoint, PathHandle = s2n_quic_core::path::RemoteAddress>>(rtt0_ms: u64, rtt1_ms: u64) -> Ctx<C> {
    Ctx { paths: [new_path(rtt0_ms, true), new_path(rtt1_ms, false)], current: 0, handshake_confirmed: true, loss_calls: 0, last_lost: None, new_ack_calls: 0 }
}
fn ts(us: u64) -> Timestamp {
    unsafe { Timestamp::from_duration(Duration::from_micros(us)) }
}
fn pn(space: PacketNumberSpace, v: u8) -> PacketNumber {
    space.new_packet_number(VarInt::from_u8(v))
}
fn any_size() -> u16 {
    let b: u16 = kani::any();
    kani::assume(b >= 1 && b <= 1500);
    b
}
fn send<C: endpoint::Config, P: event::ConnectionPublisher>(m: &mut Manager<C>, ctx: &mut Ctx<C>, publisher: &mut P, number: PacketNumber, bytes: u16, on_path: u8, at: Timestamp) {
    ctx.current = on_path;
    let outcome = transmission::Outcome {
        ack_elicitation: if bytes > 0 { AckElicitation::Eliciting } else { AckElicitation::NonEliciting },
        is_congestion_controlled: bytes > 0,
        bytes_sent: bytes as usize,
        bytes_progressed: 0,
    };
    m.on_packet_sent(number, outcome, at, Default::default(), transmission::Mode::Normal, None, ctx, publisher);
}

const T0: u64 = 1_000_000;

// NOT REGISTERED (no result within 3000 s on the loaded machine; kept for a run on an idle machine):
//@-unregistered harness props=C09,C10 tier=thorough level=bounded timeout=3000 bound="single path; 2 packets (pn 1, 2) sent at one instant, acknowledged by two ACK frames in reverse order (the second ACK is not a new largest); sizes 1..=1500 symbolic; RTT 30 ms, concrete times"
//@ fn recovery::Manager::process_acks
//@ fn recovery::Manager::process_ack_range
//@ fn recovery::Manager::process_new_acked_packets
//@ fn recovery::Manager::on_packet_sent
#[kani::proof]
#[kani::unwind(12)]
fn vq_c09_manager_reordered_ack_same_path() {
    // obligations of the shared body `reordered_ack_resolves_every_packet_once` (listed here for the registry):
    //   "C09/manager.on_packet_sent/bytes_in_flight_is_sum_of_sent_per_path"
    //   "C09/manager.process_acks/ack_of_sent_packet_accepted"
    //   "C09/manager.process_acks/newly_acked_bytes_go_to_the_sending_paths_controller"
    //   "C09/manager.process_acks/packet_within_both_thresholds_not_declared_lost"
    //   "C09/manager.process_acks/reordered_ack_accepted"
    //   "C09/manager.process_acks/largest_acked_is_monotone"
    //   "C09/manager.process_acks/every_newly_acked_packet_reaches_on_ack_regardless_of_new_largest"
    //   "C09/manager.process_acks/bytes_in_flight_zero_after_everything_acked_no_leak"
    //   "C09/manager.process_acks/no_packet_resolved_twice"
    //   "C09/manager.process_acks/acked_packets_not_also_lost_or_discarded"
    //   "C09/manager.process_acks/acked_packets_leave_sent_packets"
    reordered_ack_resolves_every_packet_once(0, 0, 0, 0);
}

// NOT REGISTERED (no result within 3000 s on the loaded machine; kept for a run on an idle machine):
//@-unregistered harness props=C09,C10 tier=thorough level=bounded timeout=3000 bound="two paths: pn 1 sent on path 1, pn 2 on path 0, both ACK frames received on path 0, in reverse order; sizes 1..=1500 symbolic; RTT 30 ms, concrete times"
//@ fn recovery::Manager::process_acks
//@ fn recovery::Manager::process_new_acked_packets
#[kani::proof]
#[kani::unwind(12)]
fn vq_c09_manager_reordered_ack_other_path() {
    reordered_ack_resolves_every_packet_once(1, 0, 0, 0);
}

/// p1 / p2: path pn 1 / pn 2 was sent on; q1 / q2: path the first / second ACK frame arrives on.  Concrete per harness:
/// a symbolic index into the two (large) Path structs did not finish within 30 min.
fn reordered_ack_resolves_every_packet_once(p1: u8, p2: u8, q1: u8, q2: u8) {
    let space = PacketNumberSpace::ApplicationData;
    let mut ctx: Ctx<VServer> = new_ctx(30, 30);
    let mut m: Manager<VServer> = Manager::new(space);
    let mut publisher = NoPub;
    let mut rng = random::testing::Generator(0);
    let (b1, b2) = (any_size(), any_size());
    send(&mut m, &mut ctx, &mut publisher, pn(space, 1), b1, p1, ts(T0));
    send(&mut m, &mut ctx, &mut publisher, pn(space, 2), b2, p2, ts(T0));
    m.on_transmit_burst_complete(ctx.active_path(), ts(T0), true, &mut rng);
    let in_flight = |ctx: &Ctx<VServer>, i: usize| ctx.paths[i].congestion_controller.bif;
    let sent_on = |i: u8| (if p1 == i { b1 as u64 } else { 0 }) + (if p2 == i { b2 as u64 } else { 0 });
    assert!(in_flight(&ctx, 0) == sent_on(0) && in_flight(&ctx, 1) == sent_on(1), "C09/manager.on_packet_sent/bytes_in_flight_is_sum_of_sent_per_path");

    // ACK #1 acknowledges pn 2 only (10 ms later)
    ctx.current = q1;
    let r = m.process_acks(ts(T0 + 10_000), core::iter::once(PacketNumberRange::new(pn(space, 2), pn(space, 2))), pn(space, 2), Duration::ZERO, None, pn(space, 7), &mut rng, &mut ctx, &mut publisher);
    assert!(r.is_ok(), "C09/manager.process_acks/ack_of_sent_packet_accepted");
    let acked = |ctx: &Ctx<VServer>, i: usize| ctx.paths[i].congestion_controller.acked_bytes;
    assert!(acked(&ctx, p2 as usize) == b2 as u64 && acked(&ctx, 1 - p2 as usize) == 0, "C09/manager.process_acks/newly_acked_bytes_go_to_the_sending_paths_controller");
    assert!(ctx.loss_calls == 0, "C09/manager.process_acks/packet_within_both_thresholds_not_declared_lost");

    // ACK #2 is older: it acknowledges pn 1 and its largest acknowledged (1) is below the one already seen (2)
    ctx.current = q2;
    let r = m.process_acks(ts(T0 + 12_000), core::iter::once(PacketNumberRange::new(pn(space, 1), pn(space, 1))), pn(space, 1), Duration::ZERO, None, pn(space, 8), &mut rng, &mut ctx, &mut publisher);
    assert!(r.is_ok(), "C09/manager.process_acks/reordered_ack_accepted");
    assert!(m.largest_acked_packet == Some(pn(space, 2)), "C09/manager.process_acks/largest_acked_is_monotone");
    // every sent packet resolved exactly once: acknowledged bytes per path == sent bytes per path, nothing in flight
    assert!(acked(&ctx, 0) == sent_on(0) && acked(&ctx, 1) == sent_on(1), "C09/manager.process_acks/every_newly_acked_packet_reaches_on_ack_regardless_of_new_largest");
    assert!(in_flight(&ctx, 0) == 0 && in_flight(&ctx, 1) == 0, "C09/manager.process_acks/bytes_in_flight_zero_after_everything_acked_no_leak");
    let cc0 = &ctx.paths[0].congestion_controller;
    let cc1 = &ctx.paths[1].congestion_controller;
    assert!(!cc0.underflow && !cc1.underflow, "C09/manager.process_acks/no_packet_resolved_twice");
    assert!(cc0.lost_bytes + cc1.lost_bytes + cc0.discarded_bytes + cc1.discarded_bytes == 0, "C09/manager.process_acks/acked_packets_not_also_lost_or_discarded");
    assert!(m.sent_packets.is_empty(), "C09/manager.process_acks/acked_packets_leave_sent_packets");
    kani::cover!(b1 == 1500 && b2 == 1, "reach:sizes");
    kani::cover!(true, "reach:end");
}

// NOT REGISTERED (no result within 3000 s on the loaded machine; kept for a run on an idle machine):
//@-unregistered harness props=C09 tier=thorough level=bounded timeout=3000 bound="pn 1 (1..=1500 bytes) sent on path 0 (RTT 30 ms), pn 2 (ACK-only) acknowledged 100 ms later on path 1 (RTT 300 ms); concrete times"
//@ fn recovery::Manager::detect_lost_packets
//@ fn recovery::Manager::remove_lost_packets
#[kani::proof]
#[kani::unwind(12)]
fn vq_c09_manager_loss_threshold_fast_path_packet() {
    // obligations of the shared body `loss_threshold_of_the_packets_own_path` (listed here for the registry):
    //   "C09/manager.process_acks/ack_of_sent_packet_accepted"
    //   "C09/manager.detect_lost_packets/time_threshold_is_that_of_the_path_the_packet_was_sent_on"
    //   "C09/manager.detect_lost_packets/lost_packet_reported"
    //   "C09/manager.remove_lost_packets/lost_bytes_leave_flight_on_the_sending_path_once"
    //   "C09/manager.remove_lost_packets/lost_packet_leaves_sent_packets"
    //   "C09/manager.detect_lost_packets/not_lost_packet_stays_in_flight"
    //   "C09/manager.detect_lost_packets/loss_timer_at_time_sent_plus_own_paths_threshold"
    //   "C09/manager.detect_lost_packets/not_lost_packet_stays_tracked"
    //   "C09/manager.remove_lost_packets/other_path_untouched"
    loss_threshold_of_the_packets_own_path(0, 1);
}

// NOT REGISTERED (no result within 3000 s on the loaded machine; kept for a run on an idle machine):
//@-unregistered harness props=C09 tier=thorough level=bounded timeout=3000 bound="pn 1 (1..=1500 bytes) sent on path 1 (RTT 300 ms), pn 2 (ACK-only) acknowledged 100 ms later on path 0 (RTT 30 ms); concrete times"
//@ fn recovery::Manager::detect_lost_packets
#[kani::proof]
#[kani::unwind(12)]
fn vq_c09_manager_loss_threshold_slow_path_packet() {
    loss_threshold_of_the_packets_own_path(1, 0);
}

/// p1: path pn 1 was sent on; rx: path the ACK arrives on (pn 2 is sent on rx as well)
fn loss_threshold_of_the_packets_own_path(p1: u8, rx: u8) {
    let space = PacketNumberSpace::ApplicationData;
    let mut ctx: Ctx<VServer> = new_ctx(30, 300);
    let mut m: Manager<VServer> = Manager::new(space);
    let mut publisher = NoPub;
    let mut rng = random::testing::Generator(0);
    let b1 = any_size();
    send(&mut m, &mut ctx, &mut publisher, pn(space, 1), b1, p1, ts(T0));
    // pn 2 carries only an ACK: not ack-eliciting, not congestion controlled => its acknowledgement is no RTT sample
    send(&mut m, &mut ctx, &mut publisher, pn(space, 2), 0, rx, ts(T0));
    m.on_transmit_burst_complete(ctx.active_path(), ts(T0), true, &mut rng);

    ctx.current = rx;
    let now = T0 + 100_000;
    let r = m.process_acks(ts(now), core::iter::once(PacketNumberRange::new(pn(space, 2), pn(space, 2))), pn(space, 2), Duration::ZERO, None, pn(space, 7), &mut rng, &mut ctx, &mut publisher);
    assert!(r.is_ok(), "C09/manager.process_acks/ack_of_sent_packet_accepted");
    // RFC 9002 6.1.2 with the estimator of the path the packet was SENT on: 9/8 * 30 ms = 33.75 ms (<= 100 ms: lost),
    // 9/8 * 300 ms = 337.5 ms (> 100 ms: not lost yet, timer at time_sent + 337.5 ms); distance 1 < kPacketThreshold
    let expect_lost = p1 == 0;
    assert!((ctx.loss_calls == 1) == expect_lost && (ctx.loss_calls == 0) == !expect_lost, "C09/manager.detect_lost_packets/time_threshold_is_that_of_the_path_the_packet_was_sent_on");
    let cc = &ctx.paths[p1 as usize].congestion_controller;
    let other = &ctx.paths[1 - p1 as usize].congestion_controller;
    // (implications rather than branches: with the concrete path choice of each harness one side is vacuous, not unreachable)
    let lost = expect_lost;
    assert!(!lost || ctx.last_lost == Some(pn(space, 1)), "C09/manager.detect_lost_packets/lost_packet_reported");
    assert!(!lost || (cc.lost_bytes == b1 as u64 && cc.lost_calls == 1 && cc.bif == 0), "C09/manager.remove_lost_packets/lost_bytes_leave_flight_on_the_sending_path_once");
    assert!(!lost || (m.sent_packets.is_empty() && !m.loss_timer.is_armed()), "C09/manager.remove_lost_packets/lost_packet_leaves_sent_packets");
    assert!(lost || (cc.lost_bytes == 0 && cc.bif == b1 as u64), "C09/manager.detect_lost_packets/not_lost_packet_stays_in_flight");
    assert!(lost || m.loss_timer.next_expiration() == Some(ts(T0 + 337_500)), "C09/manager.detect_lost_packets/loss_timer_at_time_sent_plus_own_paths_threshold");
    assert!(lost || m.sent_packets.get(pn(space, 1)).is_some(), "C09/manager.detect_lost_packets/not_lost_packet_stays_tracked");
    assert!(other.lost_bytes == 0 && other.acked_bytes == 0 && !cc.underflow && !other.underflow, "C09/manager.remove_lost_packets/other_path_untouched");
    kani::cover!(b1 == 1500, "reach:full_size_packet");
    kani::cover!(true, "reach:end");
}

//@ harness props=C09,C10 tier=thorough level=bounded timeout=3000 bound="client, 2 Initial packets (pn 0, 1) of 1..=1500 bytes in flight when the Retry arrives"
//@ fn recovery::Manager::on_retry_packet
#[kani::proof]
#[kani::unwind(12)]
fn vq_c09_manager_retry_discards_all_sent_initial_bytes() {
    let space = PacketNumberSpace::Initial;
    let mut ctx: Ctx<VClient> = new_ctx(30, 30);
    let mut m: Manager<VClient> = Manager::new(space);
    let mut publisher = NoPub;
    let (b0, b1) = (any_size(), any_size());
    send(&mut m, &mut ctx, &mut publisher, pn(space, 0), b0, 0, ts(T0));
    send(&mut m, &mut ctx, &mut publisher, pn(space, 1), b1, 0, ts(T0 + 1000));
    assert!(ctx.paths[0].congestion_controller.bif == b0 as u64 + b1 as u64, "C09/manager.on_packet_sent/bytes_in_flight_is_sum_of_sent_per_path");
    m.on_retry_packet(&mut ctx.paths[0], pid(0), &mut publisher);
    let cc = &ctx.paths[0].congestion_controller;
    assert!(cc.discarded_bytes == b0 as u64 + b1 as u64, "C09/manager.on_retry_packet/discards_exactly_the_sum_of_sent_initial_bytes");
    assert!(cc.discard_calls == 1 && cc.bif == 0 && !cc.underflow, "C09/manager.on_retry_packet/nothing_left_in_flight");
    assert!(cc.acked_bytes == 0 && cc.lost_bytes == 0, "C09/manager.on_retry_packet/discarded_packets_not_acked_or_lost");
    assert!(m.sent_packets.is_empty() && m.largest_acked_packet.is_none() && !m.pto.is_armed() && !m.loss_timer.is_armed() && m.space == space, "C09/manager.on_retry_packet/manager_reset_to_new");
    kani::cover!(b0 == 1500 && b1 == 1, "reach:sizes");
    kani::cover!(true, "reach:end");
}

// =====================================================================================================================
// Function-level harnesses for the two branches the ACK scenarios above were written for (reviewer changes (a), (b)).
// The whole-`process_acks` scenarios do not finish because every read of a slot of the sent-packet ring is symbolic
// for CBMC (niche-encoded Option<SentPacketInfo>, see contracts/kani/core/pn_map.rs) and `process_acks` walks the ring
// 4-6 times.  The functions below are the REAL private functions of recovery::Manager, called directly on the manager
// state that `process_acks` hands them.

//@ harness props=C09,C10 tier=thorough level=bounded timeout=900 bound="single path; 2 newly acknowledged packets (1..=1500 bytes), nothing else outstanding; new_largest_packet symbolic"
//@ fn recovery::Manager::process_new_acked_packets
#[kani::proof]
#[kani::unwind(12)]
fn vq_c09_manager_new_acked_same_path() {
    new_acked_packets_reach_on_ack(0, 0, 0);
}

fn acked_info(bytes: u16, on_path: u8) -> SentPacketInfo<()> {
    SentPacketInfo::new(true, bytes as usize, ts(T0), AckElicitation::Eliciting, pid(on_path), Default::default(), transmission::Mode::Normal, ())
}

/// State handed to process_new_acked_packets by process_acks when the ACK covered everything outstanding:
/// `newly_acked_packets` = the packets process_ack_range just removed from sent_packets (pn 1 on path p1, pn 3 on path
/// p3), sent_packets empty, largest_acked = 5 already recorded.  `new_largest_packet` SYMBOLIC: the ACK may or may not
/// carry a new largest acknowledged (reordered ACK frames).
fn new_acked_packets_reach_on_ack(p1: u8, p3: u8, rx: u8) {
    let space = PacketNumberSpace::ApplicationData;
    let mut ctx: Ctx<VServer> = new_ctx(30, 30);
    let mut m: Manager<VServer> = Manager::new(space);
    let mut publisher = NoPub;
    let mut rng = random::testing::Generator(0);
    let (b1, b3) = (any_size(), any_size());
    // the controllers counted these bytes in flight when the packets were sent
    ctx.paths[p1 as usize].congestion_controller.bif += b1 as u64;
    ctx.paths[p3 as usize].congestion_controller.bif += b3 as u64;
    m.largest_acked_packet = Some(pn(space, 5));
    m.time_of_last_ack_eliciting_packet = Some(ts(T0));
    let mut newly_acked = SmallVec::<[PacketDetails<()>; ACKED_PACKETS_INITIAL_CAPACITY]>::new();
    newly_acked.push((pn(space, 1), acked_info(b1, p1)));
    newly_acked.push((pn(space, 3), acked_info(b3, p3)));
    let new_largest_packet: bool = kani::any();
    ctx.current = rx;
    m.process_new_acked_packets(&newly_acked, new_largest_packet, ts(T0 + 12_000), None, &mut rng, &mut ctx, &mut publisher);

    let sent_on = |i: u8| (if p1 == i { b1 as u64 } else { 0 }) + (if p3 == i { b3 as u64 } else { 0 });
    let cc0 = &ctx.paths[0].congestion_controller;
    let cc1 = &ctx.paths[1].congestion_controller;
    assert!(cc0.acked_bytes == sent_on(0) && cc1.acked_bytes == sent_on(1), "C09/manager.process_new_acked_packets/every_newly_acked_packet_reaches_on_ack_regardless_of_new_largest");
    assert!(cc0.bif == 0 && cc1.bif == 0 && !cc0.underflow && !cc1.underflow, "C09/manager.process_new_acked_packets/bytes_in_flight_zero_after_everything_acked_no_leak_no_double_count");
    // the receiving path's packets are acknowledged in one on_ack call, every other path's packet in a call of its own
    let on_rx = (p1 == rx) as u32 + (p3 == rx) as u32;
    let rx_cc = &ctx.paths[rx as usize].congestion_controller;
    let other_cc = &ctx.paths[1 - rx as usize].congestion_controller;
    assert!(rx_cc.ack_calls == (on_rx > 0) as u32 && other_cc.ack_calls == 2 - on_rx, "C09/manager.process_new_acked_packets/on_ack_called_once_per_packet_or_once_for_the_receiving_path");
    assert!(cc0.lost_bytes + cc1.lost_bytes + cc0.discarded_bytes + cc1.discarded_bytes == 0 && ctx.loss_calls == 0, "C09/manager.process_new_acked_packets/acked_packets_not_also_lost_or_discarded");
    kani::cover!(new_largest_packet, "reach:ack_is_new_largest");
    kani::cover!(!new_largest_packet, "reach:reordered_ack_not_new_largest");
    kani::cover!(b1 == 1500 && b3 == 1, "reach:sizes");
    kani::cover!(true, "reach:end");
}

//@ harness props=C09,C10 tier=quick level=bounded timeout=900 bound="two paths: pn 1 sent on path 1, pn 3 on path 0, ACK received on path 0; 2 newly acknowledged packets (1..=1500 bytes), nothing else outstanding; new_largest_packet symbolic"
//@ fn recovery::Manager::process_new_acked_packets
#[kani::proof]
#[kani::unwind(12)]
fn vq_c09_manager_new_acked_two_paths() {
    //   "C09/manager.process_new_acked_packets/every_newly_acked_packet_reaches_on_ack_regardless_of_new_largest"
    //   "C09/manager.process_new_acked_packets/bytes_in_flight_zero_after_everything_acked_no_leak_no_double_count"
    //   "C09/manager.process_new_acked_packets/on_ack_called_once_per_packet_or_once_for_the_receiving_path"
    //   "C09/manager.process_new_acked_packets/acked_packets_not_also_lost_or_discarded"
    // obligations: those of `new_acked_packets_reach_on_ack` above
    new_acked_packets_reach_on_ack(1, 0, 0);
}

//@ harness props=C09 tier=quick level=bounded timeout=900 bound="pn 1 (1..=1500 bytes) sent on path 0 (RTT 30 ms), ACK processed on path 1 (RTT 300 ms) 100 ms later; concrete times"
//@ fn recovery::Manager::detect_lost_packets
#[kani::proof]
#[kani::unwind(12)]
fn vq_c09_manager_detect_lost_fast_path_packet() {
    detect_lost_uses_own_paths_threshold(0, 1);
}

/// State handed to detect_lost_packets: pn 1 (sent at T0 on path p1) still outstanding, pn 2 acknowledged (largest
/// acked), the ACK is being processed on path rx, 100 ms after pn 1 was sent.  Path 0: RTT 30 ms, path 1: RTT 300 ms.
fn detect_lost_uses_own_paths_threshold(p1: u8, rx: u8) {
    let space = PacketNumberSpace::ApplicationData;
    let mut ctx: Ctx<VServer> = new_ctx(30, 300);
    let mut m: Manager<VServer> = Manager::new(space);
    let mut publisher = NoPub;
    let b1 = any_size();
    send(&mut m, &mut ctx, &mut publisher, pn(space, 1), b1, p1, ts(T0));
    m.largest_acked_packet = Some(pn(space, 2));
    ctx.current = rx;
    let (_persistent_congestion_duration, lost) = m.detect_lost_packets(ts(T0 + 100_000), &mut ctx, &mut publisher);
    // RFC 9002 6.1.2 with the estimator of the path the packet was SENT on: 9/8 * 30 ms = 33.75 ms (<= 100 ms: lost),
    // 9/8 * 300 ms = 337.5 ms (> 100 ms: not lost yet, timer at time_sent + 337.5 ms); distance 1 < kPacketThreshold
    let expect_lost = p1 == 0;
    assert!(lost.is_some() == expect_lost, "C09/manager.detect_lost_packets/time_threshold_is_that_of_the_path_the_packet_was_sent_on");
    assert!((ctx.loss_calls == 1) == expect_lost && (ctx.loss_calls == 0) == !expect_lost, "C09/manager.detect_lost_packets/loss_reported_iff_lost");
    assert!(!expect_lost || (ctx.last_lost == Some(pn(space, 1)) && lost.map(|r| (r.start(), r.end())) == Some((pn(space, 1), pn(space, 1)))), "C09/manager.detect_lost_packets/lost_range_is_the_lost_packet");
    assert!(expect_lost || m.loss_timer.next_expiration() == Some(ts(T0 + 337_500)), "C09/manager.detect_lost_packets/loss_timer_at_time_sent_plus_own_paths_threshold");
    assert!(!expect_lost || !m.loss_timer.is_armed(), "C09/manager.detect_lost_packets/no_loss_timer_when_everything_older_is_lost");
    let cc = &ctx.paths[p1 as usize].congestion_controller;
    assert!(cc.bif == b1 as u64 && cc.lost_bytes == 0, "C09/manager.detect_lost_packets/detection_alone_does_not_touch_bytes_in_flight");
    kani::cover!(b1 == 1500, "reach:full_size_packet");
    kani::cover!(true, "reach:end");
}

//@ harness props=C09 tier=thorough level=bounded timeout=900 bound="pn 1 (1..=1500 bytes) sent on path 1 (RTT 300 ms), ACK processed on path 0 (RTT 30 ms) 100 ms later; concrete times"
//@ fn recovery::Manager::detect_lost_packets
#[kani::proof]
#[kani::unwind(12)]
fn vq_c09_manager_detect_lost_slow_path_packet() {
    //   "C09/manager.detect_lost_packets/time_threshold_is_that_of_the_path_the_packet_was_sent_on"
    //   "C09/manager.detect_lost_packets/loss_reported_iff_lost"
    //   "C09/manager.detect_lost_packets/lost_range_is_the_lost_packet"
    //   "C09/manager.detect_lost_packets/loss_timer_at_time_sent_plus_own_paths_threshold"
    //   "C09/manager.detect_lost_packets/no_loss_timer_when_everything_older_is_lost"
    //   "C09/manager.detect_lost_packets/detection_alone_does_not_touch_bytes_in_flight"
    // obligations: those of `detect_lost_uses_own_paths_threshold` above
    detect_lost_uses_own_paths_threshold(1, 0);
}
