//@ inject crate=transport src=quic/s2n-quic-transport/src/sync/incremental_value_sync.rs
// Contract harnesses for IncrementalValueSync (property C04): the component that turns the receiver's
// "latest advertised limit" into MAX_DATA / MAX_STREAM_DATA / MAX_STREAMS frames.
// Predicates: contracts/spec/flow_in.rs (shared with verus/lemmas/C04.rs).
//
// This file also provides the `verif_*` builder/abstraction methods used by the harness modules of the
// controllers that embed an IncrementalValueSync (its fields are private to this module):
// icfc.rs, rsfc.rs, remote_initiated.rs.
use super::*;
use crate::sync::{DeliveryState, InFlightDelivery, InflightPacketInfo};
use s2n_quic_core::{
    frame::MaxData,
    packet::number::{PacketNumber, PacketNumberSpace},
    varint::VarInt,
};
#[allow(dead_code, unused_variables)]
mod spec {
    include!("../../spec/flow_out.rs");
    include!("../../spec/flow_in.rs");
}
use spec::*;
include!("_miniwriter.rs"); // at module level: `kani` must resolve to the replay shim in native replays

const MAXV: u64 = s2n_quic_core::varint::MAX_VARINT_VALUE;

fn v(x: u64) -> VarInt {
    VarInt::new(x).unwrap()
}

fn pn(x: u64) -> PacketNumber {
    PacketNumberSpace::ApplicationData.new_packet_number(v(x))
}

impl<S: ValueToFrameWriter<VarInt>> IncrementalValueSync<VarInt, S> {
    /// IncrementalValueSync whose latest value is `latest`, built from caller-supplied nondeterministic values
    /// `nd = [acked, threshold, x, p]` and `kind`, restricted to the representation invariant `ivs_inv`:
    /// acked <= latest, in-flight value x <= latest; any threshold; any delivery state.
    /// The values are drawn by the *calling* harness module (fn any_sync_with_latest there), not here, so that a
    /// native replay consumes Kani's concrete values in the reported order (each replay module has its own reader).
    pub(crate) fn verif_build(latest: u64, nd: [u64; 4], kind: u8) -> Self {
        let [acked, threshold, x, p] = nd;
        kani::assume(latest <= MAXV && acked <= latest && threshold <= MAXV && x <= latest && p <= MAXV);
        let delivery = match kind % 7 {
            0 => DeliveryState::NotRequested,
            1 => DeliveryState::Requested(v(x)),
            2 => DeliveryState::Lost(v(x)),
            3 => DeliveryState::InFlight(InFlightDelivery {
                value: v(x),
                packet: InflightPacketInfo { packet_nr: pn(p), timestamp: s2n_quic_core::time::clock::testing::now() },
            }),
            4 => DeliveryState::Delivered(v(x)),
            5 => DeliveryState::Cancelled(None),
            _ => DeliveryState::Cancelled(Some(v(x))),
        };
        IncrementalValueSync { latest_value: v(latest), value_ackd_up_to: v(acked), threshold: v(threshold), delivery, writer: S::default() }
    }

    /// (latest, acked, in-flight value or -1, cancelled)
    pub(crate) fn verif_abs(&self) -> (u64, u64, i128, bool) {
        let inflight = match &self.delivery {
            DeliveryState::InFlight(f) => f.value.as_u64() as i128,
            _ => -1,
        };
        (self.latest_value.as_u64(), self.value_ackd_up_to.as_u64(), inflight, self.delivery.is_cancelled())
    }

    /// 0 NotRequested, 1 Requested, 2 Lost, 3 InFlight, 4 Delivered, 5 Cancelled
    pub(crate) fn verif_delivery_kind(&self) -> u8 {
        match &self.delivery {
            DeliveryState::NotRequested => 0,
            DeliveryState::Requested(_) => 1,
            DeliveryState::Lost(_) => 2,
            DeliveryState::InFlight(_) => 3,
            DeliveryState::Delivered(_) => 4,
            DeliveryState::Cancelled(_) => 5,
        }
    }

    pub(crate) fn verif_inflight_packet(&self) -> Option<PacketNumber> {
        match &self.delivery {
            DeliveryState::InFlight(f) => Some(f.packet.packet_nr),
            _ => None,
        }
    }
}

/// harness-side writer: hands the value to the write context as a MAX_DATA frame
#[derive(Default, Debug)]
struct W;
impl ValueToFrameWriter<VarInt> for W {
    fn write_value_as_frame<C: WriteContext>(&self, value: VarInt, _s: StreamId, context: &mut C) -> Option<PacketNumber> {
        context.write_frame(&MaxData { maximum_data: value })
    }
}

type Sync = IncrementalValueSync<VarInt, W>;

fn any_sync() -> Sync {
    let latest: u64 = kani::any();
    kani::assume(latest <= MAXV);
    let nd: [u64; 4] = kani::any();
    let kind: u8 = kani::any();
    Sync::verif_build(latest, nd, kind)
}

fn abs(s: &Sync) -> Ivs {
    let (latest, acked, inflight, cancelled) = s.verif_abs();
    Ivs { latest: latest as i128, acked: acked as i128, inflight, cancelled }
}

//@ harness props=C04 tier=quick level=full timeout=300
//@ fn IncrementalValueSync::update_latest_value
//@ fn IncrementalValueSync::latest_value
#[kani::proof]
#[kani::unwind(3)]
fn vq_c04_ivs_update_latest_value() {
    let mut s = any_sync();
    let old = abs(&s);
    let kind_old = s.verif_delivery_kind();
    assert!(ivs_inv(old), "C04/ivs.builder/inv");
    let val: u64 = kani::any();
    kani::assume(ivs_update_pre(old, val as i128)); // caller obligation (debug_assert in the code); established by icfc/rsfc/ri harnesses
    s.update_latest_value(v(val));
    let new = abs(&s);
    assert!(ivs_update_latest_is_value(old, val as i128, new), "C04/ivs.update_latest_value/latest_is_value");
    assert!(s.latest_value().as_u64() == val, "C04/ivs.latest_value/is_latest");
    assert!(ivs_update_monotone(old, val as i128, new), "C04/ivs.update_latest_value/monotone");
    assert!(ivs_update_frame(old, val as i128, new), "C04/ivs.update_latest_value/frame_acked_inflight_cancelled");
    assert!(ivs_inv(new), "C04/ivs.update_latest_value/inv_preserved");
    // a pending (re)transmission request is never dropped by an update
    let kind_new = s.verif_delivery_kind();
    assert!(!(kind_old == 1 || kind_old == 2) || (kind_new == 1 || kind_new == 2), "C04/ivs.update_latest_value/pending_request_kept");
    kani::cover!(val as i128 > old.latest && kind_new == 1 && kind_old == 0, "reach:update_requests_delivery");
    kani::cover!(val as i128 > old.latest && kind_new == 0, "reach:update_below_threshold");
    kani::cover!(val == MAXV, "reach:max_value");
    kani::cover!(old.cancelled, "reach:cancelled");
    kani::cover!(old.inflight >= 0 && kind_new == 1, "reach:supersedes_inflight");
}

//@ harness props=C04 tier=quick level=full timeout=300
//@ fn IncrementalValueSync::on_transmit
#[kani::proof]
#[kani::unwind(10)]
fn vq_c04_ivs_on_transmit() {
    let mut s = any_sync();
    let old = abs(&s);
    let kind_old = s.verif_delivery_kind();
    let mut context = MiniWriter::any();
    let can_tx = context.constraint.can_transmit();
    let can_retx = context.constraint.can_retransmit();
    let r = s.on_transmit(StreamId::from_varint(VarInt::from_u32(0)), &mut context);
    let new = abs(&s);
    let wrote = context.frames == 1;
    assert!(context.frames <= 1, "C04/ivs.on_transmit/at_most_one_frame");
    let (tag, wire) = if wrote { context.tag_and_varint() } else { (0, 0) };
    assert!(ivs_transmit_wire_value_is_latest(old, new, wrote, wire as i128), "C04/ivs.on_transmit/wire_value_is_latest");
    assert!(!wrote || tag == 0x10, "C04/ivs.on_transmit/frame_is_the_writers");
    assert!(ivs_transmit_latest_unchanged(old, new), "C04/ivs.on_transmit/latest_acked_unchanged");
    assert!(ivs_transmit_nothing_written_frame(old, new, wrote), "C04/ivs.on_transmit/nothing_written_nothing_changes");
    assert!(ivs_transmit_never_when_cancelled(old, wrote), "C04/ivs.on_transmit/never_when_cancelled");
    // a frame is attempted exactly when a delivery is requested (and allowed) or lost (and retransmittable)
    let wanted = (kind_old == 1 && can_tx) || (kind_old == 2 && can_retx);
    assert!(!wrote || wanted, "C04/ivs.on_transmit/writes_only_when_requested");
    assert!(r.is_ok() == (!wanted || wrote), "C04/ivs.on_transmit/err_iff_frame_did_not_fit");
    assert!(wrote || s.verif_delivery_kind() == kind_old, "C04/ivs.on_transmit/failed_write_keeps_request");
    assert!(!wrote || s.verif_inflight_packet() == Some(pn(context.pn)), "C04/ivs.on_transmit/records_packet_number");
    assert!(ivs_inv(new), "C04/ivs.on_transmit/inv_preserved");
    kani::cover!(wrote && wire == MAXV, "reach:wrote_max");
    kani::cover!(wrote && wire == 0, "reach:wrote_zero");
    kani::cover!(wrote && kind_old == 2, "reach:retransmit");
    kani::cover!(r.is_err(), "reach:did_not_fit");
    kani::cover!(!wanted, "reach:no_interest");
}

//@ harness props=C04 tier=quick level=full timeout=300
//@ fn IncrementalValueSync::on_packet_ack
//@ fn IncrementalValueSync::on_packet_loss
#[kani::proof]
#[kani::unwind(3)]
fn vq_c04_ivs_on_packet_ack_loss() {
    let mut s = any_sync();
    let old = abs(&s);
    let p: u64 = kani::any();
    kani::assume(p <= MAXV);
    let set = pn(p);
    let hit = s.verif_inflight_packet() == Some(set);
    if kani::any() {
        s.on_packet_ack(&set);
        let new = abs(&s);
        assert!(ivs_ack_post(old, new, hit), "C04/ivs.on_packet_ack/post");
        assert!(ivs_inv(new), "C04/ivs.on_packet_ack/inv_preserved");
        kani::cover!(hit && new.acked > old.acked, "reach:acked_advances");
    } else {
        s.on_packet_loss(&set);
        let new = abs(&s);
        assert!(ivs_loss_post(old, new, hit), "C04/ivs.on_packet_loss/post");
        assert!(!hit || s.verif_delivery_kind() == 2, "C04/ivs.on_packet_loss/lost_is_retransmitted");
        assert!(ivs_inv(new), "C04/ivs.on_packet_loss/inv_preserved");
        kani::cover!(hit, "reach:lost");
    }
    kani::cover!(!hit && old.inflight >= 0, "reach:other_packet");
}
