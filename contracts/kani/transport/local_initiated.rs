//@ inject crate=transport src=quic/s2n-quic-transport/src/stream/controller/local_initiated.rs
// Contract harnesses for the LocalInitiated stream-count controller (property C03): the local endpoint never
// opens a stream beyond the largest MAX_STREAMS limit received, nor more concurrent streams than configured.
// Predicates: `Lic`, `lic_*` of contracts/spec/flow_out.rs; the lemma steps step_max_streams / step_open /
// step_close of verus/lemmas/C03.rs assume exactly these.
use super::*;
use s2n_quic_core::stream::{limits::LocalBidirectional, StreamType};
#[allow(dead_code, unused_variables)]
mod spec {
    include!("../../spec/flow_out.rs");
}
use spec::*;

const MAXV: u64 = s2n_quic_core::varint::MAX_VARINT_VALUE;
const MAX_STREAMS: u64 = 1 << 60;

type Ctl = LocalInitiated<LocalBidirectional, OpenNotifyBidirectional>;

fn v(x: u64) -> VarInt {
    VarInt::new(x).unwrap()
}

/// Arbitrary controller satisfying `lic_inv` and the concurrency invariant that `check_integrity()` asserts
/// (open streams <= local limit): closed <= opened <= peer_max <= 2^60, opened - closed <= local_max_open.
/// `blocked` callers are parked (waker list of that concrete length; each waker is the no-op waker).
/// Only blocked == 0 is used: with one parked waker `wake_unblocked()` (SmallVec::drain + Waker::wake through the
/// RawWaker vtable function pointer) did not finish within 400 s under Kani, so the harnesses that run
/// `wake_unblocked` are labelled bounded("parked wakers=0").  The stream counters do not depend on the wakers.
fn any_lic(blocked: usize) -> Ctl {
    let peer_max: u64 = kani::any();
    let local_max: u64 = kani::any();
    let opened: u64 = kani::any();
    let closed: u64 = kani::any();
    kani::assume(closed <= opened && opened <= peer_max && peer_max <= MAX_STREAMS);
    kani::assume(local_max <= MAXV && opened - closed <= local_max);
    let mut c: Ctl = LocalInitiated::new(v(peer_max), LocalBidirectional::try_from(local_max).unwrap());
    c.opened_streams = v(opened);
    c.closed_streams = v(closed);
    let mut i = 0;
    while i < blocked {
        c.wakers.push(Waker::noop().clone());
        let _ = c.token_counter.next();
        i += 1;
    }
    c
}

fn abs(c: &Ctl) -> Lic {
    Lic {
        peer_max: c.peer_cumulative_stream_limit.as_u64() as i128,
        opened: c.opened_streams.as_u64() as i128,
        closed: c.closed_streams.as_u64() as i128,
        local_max_open: c.max_local_limit.as_varint().as_u64() as i128,
    }
}

fn concurrency_ok(s: Lic) -> bool {
    s.opened - s.closed <= s.local_max_open
}

//@ harness props=C03 tier=quick level=bounded timeout=300 bound="parked wakers=0"
//@ fn LocalInitiated::on_max_streams
//@ fn LocalInitiated::wake_unblocked
#[kani::proof]
#[kani::unwind(4)]
fn vq_c03_lic_on_max_streams() {
    let blocked: usize = 0;
    let mut c = any_lic(blocked);
    let old = abs(&c);
    assert!(lic_inv(old) && concurrency_ok(old), "C03/lic.builder/inv");
    let m: u64 = kani::any();
    // frame-decode fact (core frame/max_streams.rs, harness vq_c04_max_streams_decode): a decoded MAX_STREAMS value is <= 2^60
    kani::assume(m <= MAX_STREAMS);
    let stream_type = if kani::any() { StreamType::Bidirectional } else { StreamType::Unidirectional };
    c.on_max_streams(&MaxStreams { stream_type, maximum_streams: v(m) });
    let new = abs(&c);
    // RFC 9000 4.6: "MAX_STREAMS frames that do not increase the stream limit MUST be ignored"
    assert!(lic_on_max_streams_is_max(old, m as i128, new), "C03/lic.on_max_streams/limit_is_max_of_old_and_frame");
    assert!(new.local_max_open == old.local_max_open, "C03/lic.on_max_streams/local_limit_unchanged");
    assert!(lic_inv(new) && concurrency_ok(new), "C03/lic.on_max_streams/inv_preserved");
    assert!(c.wakers.len() <= blocked, "C03/lic.on_max_streams/no_new_waiters");
    kani::cover!(m as i128 > old.peer_max, "reach:increase");
    kani::cover!(m as i128 <= old.peer_max, "reach:ignored");
    kani::cover!(new.peer_max == MAX_STREAMS as i128, "reach:two_pow_60");
}

//@ harness props=C03 tier=quick level=bounded timeout=300 bound="parked wakers=0"
//@ fn LocalInitiated::poll_open_stream
//@ fn LocalInitiated::available_stream_capacity
//@ fn LocalInitiated::peer_capacity
#[kani::proof]
#[kani::unwind(4)]
fn vq_c03_lic_poll_open_stream() {
    let mut c = any_lic(0);
    let old = abs(&c);
    let cap = c.available_stream_capacity().as_u64() as i128;
    assert!(cap == lic_capacity(old), "C03/lic.available_stream_capacity/is_min_of_local_and_peer_capacity");
    let mut token = open_token::Token::new();
    let cx = Context::from_waker(Waker::noop());
    let r = c.poll_open_stream(&mut token, &cx);
    let new = abs(&c);
    let ready = r.is_ready();
    // C03: a stream may only be opened below the largest MAX_STREAMS received and below the local concurrency limit
    assert!(!ready || lic_open_allowed(old), "C03/lic.poll_open_stream/ready_implies_open_allowed");
    // ... and the application is not blocked without reason
    assert!(ready || !lic_open_allowed(old), "C03/lic.poll_open_stream/pending_implies_a_limit_is_reached");
    assert!(new.peer_max == old.peer_max && new.opened == old.opened && new.closed == old.closed && new.local_max_open == old.local_max_open,
        "C03/lic.poll_open_stream/counters_unchanged");
    assert!(ready == (c.wakers.len() == 0), "C03/lic.poll_open_stream/pending_parks_the_caller");
    kani::cover!(ready, "reach:ready");
    kani::cover!(!ready && old.opened == old.peer_max, "reach:blocked_by_peer_limit");
    kani::cover!(!ready && old.opened < old.peer_max, "reach:blocked_by_local_limit");
    kani::cover!(ready && old.opened + 1 == old.peer_max, "reach:last_stream_of_peer_limit");
}

//@ harness props=C03 tier=quick level=full timeout=300
//@ fn LocalInitiated::on_open_stream
//@ fn LocalInitiated::open_stream_count
//@ fn LocalInitiated::total_open_stream_count
#[kani::proof]
#[kani::unwind(3)]
fn vq_c03_lic_on_open_stream() {
    let mut c = any_lic(0);
    let old = abs(&c);
    // caller obligation (stream/controller.rs:111-129 poll_open_local_stream): poll_open_stream returned Ready,
    // which by vq_c03_lic_poll_open_stream implies lic_open_allowed
    kani::assume(lic_open_allowed(old));
    c.on_open_stream();
    let new = abs(&c);
    assert!(lic_on_open_counts(old, new), "C03/lic.on_open_stream/counts_one_stream");
    assert!(new.local_max_open == old.local_max_open, "C03/lic.on_open_stream/local_limit_unchanged");
    assert!(new.opened <= new.peer_max, "C03/lic.on_open_stream/opened_le_peer_limit");
    assert!(lic_inv(new) && concurrency_ok(new), "C03/lic.on_open_stream/inv_preserved");
    assert!(c.open_stream_count().as_u64() as i128 == new.opened - new.closed, "C03/lic.open_stream_count/is_opened_minus_closed");
    assert!(c.total_open_stream_count().as_u64() as i128 == new.opened, "C03/lic.total_open_stream_count/is_opened");
    kani::cover!(new.opened == new.peer_max, "reach:peer_limit_reached");
    kani::cover!(new.opened - new.closed == new.local_max_open, "reach:local_limit_reached");
}

//@ harness props=C03 tier=quick level=bounded timeout=300 bound="parked wakers=0"
//@ fn LocalInitiated::on_close_stream
//@ fn LocalInitiated::wake_unblocked
#[kani::proof]
#[kani::unwind(4)]
fn vq_c03_lic_on_close_stream() {
    let blocked: usize = 0;
    let mut c = any_lic(blocked);
    let old = abs(&c);
    // caller obligation: only an open stream can be closed
    kani::assume(old.closed < old.opened);
    c.on_close_stream();
    let new = abs(&c);
    assert!(lic_on_close_counts(old, new), "C03/lic.on_close_stream/counts_one_stream");
    assert!(new.local_max_open == old.local_max_open, "C03/lic.on_close_stream/local_limit_unchanged");
    assert!(lic_inv(new) && concurrency_ok(new), "C03/lic.on_close_stream/inv_preserved");
    assert!(c.wakers.len() <= blocked, "C03/lic.on_close_stream/no_new_waiters");
    kani::cover!(new.closed == new.opened, "reach:all_closed");
}
