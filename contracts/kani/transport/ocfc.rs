//@ inject crate=transport src=quic/s2n-quic-transport/src/stream/outgoing_connection_flow_controller.rs
// Contract harnesses for OutgoingConnectionFlowControllerImpl (property C03).
// Predicates: contracts/spec/flow_out.rs (shared with the Verus lemmas).
use super::*;
#[allow(dead_code, unused_variables)]
mod spec {
    include!("../../spec/flow_out.rs");
}
use spec::*;

const MAXV: u64 = s2n_quic_core::varint::MAX_VARINT_VALUE;

fn v(x: u64) -> VarInt {
    VarInt::new(x).unwrap()
}

/// arbitrary state satisfying ocfc_inv (the only code that touches private fields)
fn any_ocfc() -> OutgoingConnectionFlowControllerImpl {
    let total: u64 = kani::any();
    let avail: u64 = kani::any();
    kani::assume(total <= MAXV && avail <= total);
    let mut fc = OutgoingConnectionFlowControllerImpl::new(v(total));
    fc.available_window = v(avail);
    fc
}

fn abs(fc: &OutgoingConnectionFlowControllerImpl) -> Ocfc {
    Ocfc { total: fc.total_available_window.as_u64() as i128, avail: fc.available_window.as_u64() as i128 }
}

//@ harness props=C03 tier=quick level=full timeout=120
//@ fn OutgoingConnectionFlowControllerImpl::acquire_window
#[kani::proof]
#[kani::unwind(3)]
fn vq_c03_ocfc_acquire_window() {
    let mut fc = any_ocfc();
    let old = abs(&fc);
    assert!(ocfc_inv(old), "C03/ocfc.builder/inv");
    let desired: u64 = kani::any();
    kani::assume(desired <= MAXV);
    let r = fc.acquire_window(v(desired)).as_u64() as i128;
    let new = abs(&fc);
    let d = desired as i128;
    assert!(ocfc_acquire_grant_le_desired(old, d, new, r), "C03/ocfc.acquire_window/grant_le_desired");
    assert!(ocfc_acquire_grant_le_avail(old, d, new, r), "C03/ocfc.acquire_window/grant_le_avail");
    assert!(ocfc_acquire_grant_is_min(old, d, new, r), "C03/ocfc.acquire_window/grant_is_min");
    assert!(ocfc_acquire_avail_decreases(old, d, new, r), "C03/ocfc.acquire_window/avail_decreases_by_grant");
    assert!(ocfc_acquire_total_unchanged(old, d, new, r), "C03/ocfc.acquire_window/total_unchanged");
    assert!(ocfc_inv(new), "C03/ocfc.acquire_window/inv_preserved");
    kani::cover!(r < d, "reach:blocked");
    kani::cover!(r == d && d > 0, "reach:granted_in_full");
    kani::cover!(old.total == MAXV as i128, "reach:max_total");
}

//@ harness props=C03 tier=quick level=full timeout=120
//@ fn OutgoingConnectionFlowControllerImpl::on_max_data
#[kani::proof]
#[kani::unwind(3)]
fn vq_c03_ocfc_on_max_data() {
    let mut fc = any_ocfc();
    let old = abs(&fc);
    let m: u64 = kani::any();
    kani::assume(m <= MAXV);
    fc.on_max_data(MaxData { maximum_data: v(m) });
    let new = abs(&fc);
    assert!(ocfc_max_data_total_is_max(old, m as i128, new), "C03/ocfc.on_max_data/total_is_max");
    assert!(ocfc_max_data_granted_unchanged(old, m as i128, new), "C03/ocfc.on_max_data/granted_unchanged");
    assert!(ocfc_inv(new), "C03/ocfc.on_max_data/inv_preserved");
    kani::cover!(m as i128 > old.total, "reach:increase");
    kani::cover!(m as i128 <= old.total, "reach:ignored");
}

//@ harness props=C03 tier=quick level=full timeout=120
//@ fn OutgoingConnectionFlowController::acquire_window
//@ fn OutgoingConnectionFlowController::on_max_data
//@ fn OutgoingConnectionFlowController::acquired_window
#[kani::proof]
#[kani::unwind(3)]
fn vq_c03_ocfc_shared_handle() {
    // the Rc<RefCell<..>> wrapper forwards to the contracted implementation and clones share state
    let total: u64 = kani::any();
    kani::assume(total <= MAXV);
    let mut a = OutgoingConnectionFlowController::new(v(total));
    let mut b = a.clone();
    let d1: u64 = kani::any();
    let d2: u64 = kani::any();
    let m: u64 = kani::any();
    kani::assume(d1 <= MAXV && d2 <= MAXV && m <= MAXV);
    let r1 = a.acquire_window(v(d1)).as_u64();
    b.on_max_data(MaxData { maximum_data: v(m) });
    let r2 = b.acquire_window(v(d2)).as_u64();
    let limit = core::cmp::max(total, m);
    assert!(r1 as u128 + r2 as u128 <= limit as u128, "C03/ocfc.handle/sum_of_grants_le_largest_limit");
    assert!(a.acquired_window().as_u64() == r1 + r2, "C03/ocfc.handle/acquired_is_sum_of_grants");
    assert!(a.total_window().as_u64() == limit, "C03/ocfc.handle/total_is_largest_limit");
    assert!(a.available_window() == b.available_window(), "C03/ocfc.handle/clones_share_state");
    kani::cover!(r1 > 0 && r2 > 0, "reach:two_grants");
}
