//@ inject crate=transport src=quic/s2n-quic-transport/src/sync/data_sender/buffer.rs
// Contract harnesses for data_sender::Buffer::{push, release, release_all, clear} and
// Viewer::next_view / View / ViewIter (property C12: "bytes retransmitted for an offset are identical
// to the bytes first sent there").
//
// Ghost: S = the 4 symbolic bytes ever pushed.  For an interval [a, e) inside [head, total) the bytes a
// View iterates are S[a..e) -- whatever the chunking and however much was released before -- so a
// retransmission (a second view of the same offsets, typically after a partial release and in a
// different segmentation) carries the same bytes as the first transmission.
//
// Shape is concrete (DESIGN 7; the probe with symbolic split points / release point / interval did not
// finish in 15 min): concrete chunking, release point and intervals per harness, bytes symbolic.
use super::*;

const N: usize = 4;

fn stream() -> &'static [u8; N] {
    // 'static so that Bytes::from_static can be used (no reference counting, DESIGN 7)
    Box::leak(Box::new(kani::any()))
}

fn v(x: usize) -> VarInt {
    VarInt::new(x as u64).unwrap()
}

fn iv(a: usize, e: usize) -> Interval<VarInt> {
    (v(a)..v(e)).into()
}

/// pushes S in the given chunk lengths (sum == N) and checks the push contract
fn fill(b: &mut Buffer, s: &'static [u8; N], cuts: &[usize]) {
    let mut off = 0;
    let mut i = 0;
    while i < cuts.len() {
        let len = cuts[i];
        let r = b.push(Bytes::from_static(&s[off..off + len]));
        assert!(
            r.start_inclusive().as_u64() == off as u64 && r.end_exclusive().as_u64() == (off + len) as u64,
            "C12/buffer.push/returns_interval_of_new_bytes"
        );
        off += len;
        assert!(b.total_len().as_u64() == off as u64, "C12/buffer.push/total_len_grows_by_len");
        i += 1;
    }
}

/// reads [a, e) through `viewer` and checks it against S
fn check_view(viewer: &mut Viewer, b: &Buffer, s: &[u8; N], a: usize, e: usize, has_fin: bool) {
    let view = viewer.next_view(iv(a, e), has_fin);
    assert!(view.len().as_u64() == (e - a) as u64, "C12/buffer.view/len_is_interval_len");
    assert!(view.is_fin() == (has_fin && e as u64 == b.total_len().as_u64()), "C12/buffer.view/fin_iff_has_fin_and_reaches_total");
    let mut got = 0usize;
    for chunk in view.iter::<&[u8]>() {
        let mut j = 0;
        while j < chunk.len() {
            assert!(a + got + j < e, "C12/buffer.view/never_more_than_interval");
            assert!(chunk[j] == s[a + got + j], "C12/buffer.view/bytes_eq_stream");
            j += 1;
        }
        got += chunk.len();
    }
    assert!(got == e - a, "C12/buffer.view/iterates_exactly_interval_len");
    // trimming from the end (what the frame writer does to fit a packet) clears the FIN flag
    let mut t = view;
    if e - a >= 1 {
        assert!(t.trim_off(1).is_ok() && t.len().as_u64() == (e - a - 1) as u64 && !t.is_fin(), "C12/buffer.view/trim_off_shortens_and_clears_fin");
    }
    assert!(t.trim_off(N + 1).is_err(), "C12/buffer.view/trim_off_more_than_len_is_error");
}

fn check_release(b: &mut Buffer, up_to: usize) {
    let head0 = b.head().as_u64();
    let total0 = b.total_len().as_u64();
    b.release(v(up_to));
    let want = core::cmp::max(head0, up_to as u64);
    assert!(b.head().as_u64() == want, "C12/buffer.release/head_is_max_of_head_and_offset");
    assert!(b.total_len().as_u64() == total0, "C12/buffer.release/total_len_unchanged");
    assert!(b.enqueued_len().as_u64() == total0 - want, "C12/buffer.release/enqueued_is_total_minus_head");
    assert!(b.is_empty() == (want == total0), "C12/buffer.release/empty_iff_everything_released");
}

/// first transmission of everything, partial acknowledgement, retransmission of a range that
/// overlaps what was released / the chunk boundary
fn scenario(cuts: &[usize], first_from: usize, release_at: usize, ra: usize, re: usize) {
    let s = stream();
    let mut b = Buffer::default();
    assert!(b.is_empty() && b.total_len().as_u64() == 0 && b.head().as_u64() == 0, "C12/buffer.default/empty");
    fill(&mut b, s, cuts);
    {
        let mut viewer = b.viewer();
        // first transmission starts inside a chunk (non-zero offset into the chunk) and runs to the end
        check_view(&mut viewer, &b, s, first_from, N, true);
    }
    check_release(&mut b, release_at);
    {
        let mut viewer = b.viewer();
        check_view(&mut viewer, &b, s, ra, re, true);
    }
    kani::cover!(true, "reach:end_of_scenario");
}

// Measured (16-core machine shared by 8 jobs, 16 GB cap per harness):
//   * first version (6 bytes; chunkings 2+2+2 / 1+5 / 6; seven views and four releases per harness,
//     everything but the bytes concrete): all four harnesses ran into the 1800 s timeout or the memory
//     cap (single chunk: 1373 s then out of memory) -- like the design-phase probe with symbolic shape.
//   * this version: one push sequence, one full view, one release, one retransmission view per harness.
//@ harness props=C12 tier=thorough level=bounded timeout=2700 bound="4 symbolic bytes in chunks 2+2; first view [1,4); release at 1; retransmit [1,4)"
//@ fn Buffer::push
//@ fn Buffer::release
//@ fn Viewer::next_view
//@ fn View::new
//@ fn View::trim_off
//@ fn ViewIter::next
#[kani::proof]
#[kani::unwind(6)]
fn vq_c12_buffer_view_chunks_2_2() {
    scenario(&[2, 2], 1, 1, 1, N);
}

//@ harness props=C12 tier=thorough level=bounded timeout=2700 bound="4 symbolic bytes in chunks 1+3; first view [2,4); release at 2; retransmit [2,3)"
//@ fn Buffer::push
//@ fn Buffer::release
//@ fn Viewer::next_view
#[kani::proof]
#[kani::unwind(6)]
fn vq_c12_buffer_view_chunks_1_3() {
    scenario(&[1, 3], 2, 2, 2, 3);
}

//@ harness props=C12 tier=thorough level=bounded timeout=1800 bound="4 symbolic bytes: release_all / push after release_all / clear"
//@ fn Buffer::release_all
//@ fn Buffer::clear
//@ fn Buffer::push
//@ fn Buffer::capacity
#[kani::proof]
#[kani::unwind(6)]
fn vq_c12_buffer_release_all_and_clear() {
    let s = stream();
    let mut b = Buffer::default();
    fill(&mut b, s, &[2]);
    b.release_all();
    assert!(b.head().as_u64() == 2 && b.total_len().as_u64() == 2 && b.is_empty(), "C12/buffer.release_all/head_is_total_and_empty");
    // offsets continue after everything was acknowledged: the next push starts at the old total
    let r = b.push(Bytes::from_static(&s[2..N]));
    assert!(r.start_inclusive().as_u64() == 2 && r.end_exclusive().as_u64() == N as u64, "C12/buffer.push/offsets_continue_after_release_all");
    assert!(b.capacity().as_u64() == s2n_quic_core::varint::MAX_VARINT_VALUE - N as u64, "C12/buffer.capacity/is_varint_max_minus_total");
    {
        let mut viewer = b.viewer();
        check_view(&mut viewer, &b, s, 3, N, true);
    }
    // clear (stream reset): everything forgotten
    b.clear();
    assert!(b.head().as_u64() == 0 && b.total_len().as_u64() == 0 && b.enqueued_len().as_u64() == 0 && b.is_empty(), "C12/buffer.clear/resets_everything");
    kani::cover!(true, "reach:end");
}
