//@ inject crate=transport src=quic/s2n-quic-transport/src/stream/stream_impl.rs
// Contract harnesses for the direction checks of `StreamImpl` (property C04): "frames for a stream it may not
// use" -- the stream manager routes every stream frame to the stream object (manager.rs handle_stream_frame,
// under contract in mgr_manager.rs); whether the frame is permitted on a unidirectional stream of that direction
// is decided HERE (stream_impl.rs `has_send` / ReceiveStream::new(is_closed) / SendStream::new(is_closed)).
// RFC 9000: 19.8  STREAM on a send-only stream              => STREAM_STATE_ERROR (MUST)
//           19.4  RESET_STREAM on a send-only stream        => STREAM_STATE_ERROR (MUST)
//           19.13 STREAM_DATA_BLOCKED on a send-only stream => STREAM_STATE_ERROR (MUST)
//           19.10 MAX_STREAM_DATA on a receive-only stream  => STREAM_STATE_ERROR (MUST)
//           19.5  STOP_SENDING on a receive-only stream     => STREAM_STATE_ERROR (MUST)
// Predicates: contracts/spec/stream_wiring.rs (class_receives / class_sends).
use super::*;
use s2n_quic_core::stream::StreamType;
#[allow(dead_code, unused_variables)]
mod spec {
    include!("../../spec/stream_wiring.rs");
}
use spec::*;

const MAXV: u64 = s2n_quic_core::varint::MAX_VARINT_VALUE;

fn v(x: u64) -> VarInt {
    VarInt::new(x).unwrap()
}

fn etype(is_server: bool) -> endpoint::Type {
    if is_server {
        endpoint::Type::Server
    } else {
        endpoint::Type::Client
    }
}

struct Built {
    s: StreamImpl,
    local_is_server: bool,
    id: i128,
    in_fc: IncomingConnectionFlowController,
    out_fc: OutgoingConnectionFlowController,
}

/// A freshly created unidirectional `StreamImpl` for the given role / initiator / index and arbitrary windows,
/// configured the way StreamManagerState::insert_stream does (manager.rs:241-250: desired == initial receive
/// window <= u32::MAX).  Role, initiator and index are CONCRETE at each call site (the harness enumerates them)
/// so that CBMC resolves `receive_is_closed` / `send_is_closed` by constant propagation and never enters the
/// reassembler / data sender of the half that exists; the windows stay symbolic.
fn uni_stream(local_is_server: bool, initiator_is_server: bool, n: u64) -> Built {
    let id = StreamId::nth(etype(initiator_is_server), StreamType::Unidirectional, n).unwrap();
    let w: [u64; 4] = kani::any(); // conn receive, stream receive, conn send, stream send
    kani::assume(w[0] <= u32::MAX as u64 && w[1] <= u32::MAX as u64 && w[2] <= MAXV && w[3] <= MAXV);
    let in_fc = IncomingConnectionFlowController::new(v(w[0]), w[0] as u32);
    let out_fc = OutgoingConnectionFlowController::new(v(w[2]));
    let s = StreamImpl::new(StreamConfig {
        stream_id: id,
        local_endpoint_type: etype(local_is_server),
        incoming_connection_flow_controller: in_fc.clone(),
        outgoing_connection_flow_controller: out_fc.clone(),
        initial_receive_window: v(w[1]),
        desired_flow_control_window: w[1] as u32,
        initial_send_window: v(w[3]),
        max_send_buffer_size: 4096,
    });
    Built { s, local_is_server, id: id.as_varint().as_u64() as i128, in_fc, out_fc }
}

/// `core::panic::Location::caller()` (the `caller_location` intrinsic) is not supported by Kani; the s2n-quic error
/// constructors (`StreamError::stream_reset`, `connection::Error::from(transport::Error)`) store it for
/// diagnostics only.  The stub returns a Location evaluated at compile time.
const FAKE_LOCATION: &core::panic::Location<'static> = core::panic::Location::caller();
#[allow(unused_lifetimes, clippy::extra_unused_lifetimes)]
fn stub_location_caller<'a>() -> &'static core::panic::Location<'a> {
    FAKE_LOCATION
}

fn is_stream_state_error(r: &Result<(), transport::Error>) -> bool {
    match r {
        Err(e) => e.code == transport::Error::STREAM_STATE_ERROR.code,
        Ok(()) => false,
    }
}

/// everything observable from outside the stream object
fn observe(b: &Built) -> (StreamInterests, [u64; 4]) {
    (
        b.s.get_stream_interests(),
        [
            b.in_fc.verif_view()[0],
            b.out_fc.acquired_window().as_u64(),
            b.out_fc.total_window().as_u64(),
            b.in_fc.verif_view()[2],
        ],
    )
}

/// one wrong-direction frame (MAX_STREAM_DATA or STOP_SENDING, symbolic fields) on the peer-initiated -- hence
/// receive-only -- unidirectional stream of index n
fn receive_only_case(local_is_server: bool, n: u64) {
    let initiator_is_server = !local_is_server;
    let mut b = uni_stream(local_is_server, initiator_is_server, n);
    let id = b.id;
    let sid = v(id as u64);
    let before = observe(&b);
    assert!(id == sid_nth(initiator_is_server, true, n as i128), "C12/stream_id.nth/is_first_plus_4n");
    let receives = class_receives(b.local_is_server, initiator_is_server, true);
    let sends = class_sends(b.local_is_server, initiator_is_server, true);
    assert!(receives && !sends, "C04/stream_impl.builder/peer_initiated_uni_stream_is_receive_only");
    let x: u64 = kani::any();
    kani::assume(x <= MAXV);
    let mut events = StreamEvents::new();
    let stop: bool = kani::any();
    // frames the peer may only send on a stream it RECEIVES on: MAX_STREAM_DATA (3), STOP_SENDING (4)
    let (kind, r) = if stop {
        (4u8, b.s.on_stop_sending(&StopSending { stream_id: sid, application_error_code: v(x) }, &mut events))
    } else {
        (3u8, b.s.on_max_stream_data(&MaxStreamData { stream_id: sid, maximum_stream_data: v(x) }, &mut events))
    };
    let after = observe(&b);
    // RESIDUAL: the same claim outside the recorded input class {STREAM, RESET_STREAM, STREAM_DATA_BLOCKED on a
    // send-only stream; STOP_SENDING on a receive-only stream}, i.e. for MAX_STREAM_DATA on a receive-only stream
    assert!(kind != 3 || is_stream_state_error(&r), "C04/stream_impl.wrong_direction_frame/rejected_with_stream_state_error#outside-known");
    // whatever the verdict, a frame for the absent half has no effect: nothing reaches the application
    // (no waker is produced, the stream reports the same interests) and no flow-control credit moves
    assert!(events.waker_count() == 0, "C04/stream_impl.wrong_direction_frame/wakes_nobody");
    assert!(before.0 == after.0, "C04/stream_impl.wrong_direction_frame/stream_interests_unchanged");
    assert!(before.1[0] == after.1[0] && before.1[1] == after.1[1] && before.1[2] == after.1[2] && before.1[3] == after.1[3],
        "C04/stream_impl.wrong_direction_frame/connection_flow_control_untouched");
    // and the only error ever produced is the prescribed one
    assert!(r.is_ok() || is_stream_state_error(&r), "C04/stream_impl.wrong_direction_frame/no_other_error_code");
    kani::cover!(kind == 3, "reach:max_stream_data_on_receive_only");
    kani::cover!(kind == 4, "reach:stop_sending_on_receive_only");
    kani::cover!(r.is_err(), "reach:rejected");
    kani::cover!(r.is_ok(), "reach:tolerated");
    // STRICT, LAST (Kani's assert also assumes).  RFC 9000 19.10, 19.5: MUST terminate the connection with
    // STREAM_STATE_ERROR.  Kept although it fails on the unchanged tree for STOP_SENDING.
    assert!(is_stream_state_error(&r), "C04/stream_impl.wrong_direction_frame/rejected_with_stream_state_error");
    core::mem::forget(b);
}

/// Fallback for the send-only direction (see STRENGTH-mgr.md / the report: a `StreamImpl` with an OPEN send half
/// did not finish in 30 min, and `ReceiveStream::on_data` makes CBMC walk the reassembler even in the closed
/// state): the receiving half exactly as `StreamImpl::new` builds it for a locally initiated unidirectional
/// stream, `ReceiveStream::new(receive_is_closed = true, ..)`, to which `StreamImpl::{on_reset,
/// on_stream_data_blocked}` forward unconditionally (stream_impl.rs:234-250).
//@ harness props=C04 tier=quick level=full timeout=900
//@ fn ReceiveStream::new
//@ fn ReceiveStream::on_reset
//@ fn ReceiveStream::on_stream_data_blocked
#[kani::proof]
#[kani::unwind(4)]
#[kani::stub(core::panic::Location::caller, stub_location_caller)]
fn vq_c04_mgr_closed_receive_half_frames() {
    let w: [u64; 2] = kani::any();
    kani::assume(w[0] <= u32::MAX as u64 && w[1] <= u32::MAX as u64);
    let in_fc = IncomingConnectionFlowController::new(v(w[0]), w[0] as u32);
    let mut rs = ReceiveStream::new(true, in_fc.clone(), v(w[1]), w[1] as u32);
    let raw: u64 = kani::any();
    kani::assume(raw <= MAXV);
    let sid = v(raw);
    let x: [u64; 2] = kani::any();
    kani::assume(x[0] <= MAXV && x[1] <= MAXV);
    let mut events = StreamEvents::new();
    let mut before = StreamInterests::default();
    rs.stream_interests(&mut before);
    let fc_before = in_fc.verif_view();
    let blocked: bool = kani::any();
    let (kind, r) = if blocked {
        (2u8, rs.on_stream_data_blocked(&StreamDataBlocked { stream_id: sid, stream_data_limit: v(x[0]) }, &mut events))
    } else {
        (1u8, rs.on_reset(&ResetStream { stream_id: sid, application_error_code: v(x[0]), final_size: v(x[1]) }, &mut events))
    };
    let mut after = StreamInterests::default();
    rs.stream_interests(&mut after);
    let fc_after = in_fc.verif_view();
    // the tolerated frame has no effect: nobody is woken, the stream reports the same interests, no credit moves
    assert!(events.waker_count() == 0, "C04/stream_impl.wrong_direction_frame/wakes_nobody");
    assert!(before == after, "C04/stream_impl.wrong_direction_frame/stream_interests_unchanged");
    assert!(fc_before[0] == fc_after[0] && fc_before[1] == fc_after[1] && fc_before[2] == fc_after[2],
        "C04/stream_impl.wrong_direction_frame/connection_flow_control_untouched");
    assert!(r.is_ok() || is_stream_state_error(&r), "C04/stream_impl.wrong_direction_frame/no_other_error_code");
    // RESIDUAL of the strict obligation below: the recorded input class {RESET_STREAM, STREAM_DATA_BLOCKED (and STREAM)
    // on a send-only stream} is this harness's whole domain, so nothing of the claim is left here (the residual
    // with content is in receive_only_case); it is stated so that the strict/residual pair is decided in one run
    assert!(kind == 1 || kind == 2 || is_stream_state_error(&r), "C04/stream_impl.wrong_direction_frame/rejected_with_stream_state_error#outside-known");
    kani::cover!(kind == 1 && x[1] > w[1], "reach:reset_beyond_window_on_send_only");
    kani::cover!(kind == 2, "reach:data_blocked_on_send_only");
    kani::cover!(r.is_ok(), "reach:tolerated");
    // STRICT, LAST (RFC 9000 19.4, 19.13: MUST terminate the connection with STREAM_STATE_ERROR) -- fails on the
    // unchanged tree: the closed receiving half silently ignores both frames (and STREAM frames, 19.8, by the same
    // `ReceiveStreamState::DataRead => {}` arm of on_data, which could not be put under Kani)
    assert!(is_stream_state_error(&r), "C04/stream_impl.wrong_direction_frame/rejected_with_stream_state_error");
    core::mem::forget(rs);
}

//@ harness props=C04 tier=quick level=bounded timeout=900 bound="stream index 0 (role, initiator, index concrete; frame kind, frame fields and windows symbolic)"
//@ fn StreamImpl::new
//@ fn StreamImpl::on_max_stream_data
//@ fn StreamImpl::on_stop_sending
#[kani::proof]
#[kani::unwind(10)] // packet::number::Map::default() fills 8 slots in a loop (DataSender's transmission map)
#[kani::stub(core::panic::Location::caller, stub_location_caller)]
fn vq_c04_mgr_stream_impl_client_receive_only_uni() {
    receive_only_case(false, 0);
    kani::cover!(true, "reach:end");
}

//@ harness props=C04 tier=thorough level=bounded timeout=1800 bound="stream index 2^60-1 (role, initiator, index concrete; frame kind, frame fields and windows symbolic)"
//@ fn StreamImpl::new
//@ fn StreamImpl::on_max_stream_data
//@ fn StreamImpl::on_stop_sending
#[kani::proof]
#[kani::unwind(10)] // packet::number::Map::default() fills 8 slots in a loop (DataSender's transmission map)
#[kani::stub(core::panic::Location::caller, stub_location_caller)]
fn vq_c04_mgr_stream_impl_server_receive_only_uni_last_id() {
    receive_only_case(true, (1 << 60) - 1);
    kani::cover!(true, "reach:end");
}
