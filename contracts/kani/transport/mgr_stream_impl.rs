//@ inject crate=transport src=quic/s2n-quic-transport/src/stream/stream_impl.rs
// Contract harnesses for the direction checks of `StreamImpl` (property C04): "frames for a stream it may not
// use" -- the stream manager routes every stream frame to the stream object (manager.rs handle_stream_frame,
// under contract in mgr_manager.rs); whether the frame is permitted on a unidirectional stream of that direction
// is decided HERE (stream_impl.rs `has_send` / ReceiveStream::new(is_closed) / SendStream::new(is_closed)).
// RFC 9000: 19.8  STREAM on a send-only stream              => STREAM_STATE_ERROR (MUST)
//           19.4  RESET_STREAM on a send-only stream        => STREAM_STATE_ERROR (MUST)
//           19.13 STREAM_DATA_BLOCKED on a send-only stream => STREAM_STATE_ERROR (MUST)
//           19.10 MAX_STREAM_DATA on a receive-only stream  => STREAM_STATE_ERROR (MUST)
//           19.5  STOP_SENDING on a receive-only stream     => STREAM_STATE_ERROR (MUST)
// Predicates: contracts/spec/stream_wiring.rs (class_receives / class_sends).
use super::*;
use s2n_quic_core::stream::StreamType;
#[allow(dead_code, unused_variables)]
mod spec {
    include!("../../spec/stream_wiring.rs");
}
use spec::*;

const MAXV: u64 = s2n_quic_core::varint::MAX_VARINT_VALUE;

fn v(x: u64) -> VarInt {
    VarInt::new(x).unwrap()
}

fn etype(is_server: bool) -> endpoint::Type {
    if is_server {
        endpoint::Type::Server
    } else {
        endpoint::Type::Client
    }
}

struct Built {
    s: StreamImpl,
    local_is_server: bool,
    id: i128,
    in_fc: IncomingConnectionFlowController,
    out_fc: OutgoingConnectionFlowController,
}

/// A freshly created unidirectional `StreamImpl` for the given role / initiator / index and arbitrary windows,
/// configured the way StreamManagerState::insert_stream does (manager.rs:241-250: desired == initial receive
/// window <= u32::MAX).  Role, initiator and index are CONCRETE at each call site (the harness enumerates them)
/// so that CBMC resolves `receive_is_closed` / `send_is_closed` by constant propagation and never enters the
/// reassembler / data sender of the half that exists; the windows stay symbolic.
fn uni_stream(local_is_server: bool, initiator_is_server: bool, n: u64) -> Built {
    let id = StreamId::nth(etype(initiator_is_server), StreamType::Unidirectional, n).unwrap();
    let w: [u64; 4] = kani::any(); // conn receive, stream receive, conn send, stream send
    kani::assume(w[0] <= u32::MAX as u64 && w[1] <= u32::MAX as u64 && w[2] <= MAXV && w[3] <= MAXV);
    let in_fc = IncomingConnectionFlowController::new(v(w[0]), w[0] as u32);
    let out_fc = OutgoingConnectionFlowController::new(v(w[2]));
    let s = StreamImpl::new(StreamConfig {
        stream_id: id,
        local_endpoint_type: etype(local_is_server),
        incoming_connection_flow_controller: in_fc.clone(),
        outgoing_connection_flow_controller: out_fc.clone(),
        initial_receive_window: v(w[1]),
        desired_flow_control_window: w[1] as u32,
        initial_send_window: v(w[3]),
        max_send_buffer_size: 4096,
    });
    Built { s, local_is_server, id: id.as_varint().as_u64() as i128, in_fc, out_fc }
}

fn is_stream_state_error(r: &Result<(), transport::Error>) -> bool {
    match r {
        Err(e) => e.code == transport::Error::STREAM_STATE_ERROR.code,
        Ok(()) => false,
    }
}

/// everything observable from outside the stream object
fn observe(b: &Built) -> (StreamInterests, [u64; 4]) {
    (
        b.s.get_stream_interests(),
        [
            b.in_fc.verif_view()[0],
            b.out_fc.acquired_window().as_u64(),
            b.out_fc.total_window().as_u64(),
            b.in_fc.verif_view()[2],
        ],
    )
}

/// one wrong-direction frame of kind `kind` on the unidirectional stream (role, initiator, index)
fn wrong_direction_case(local_is_server: bool, initiator_is_server: bool, n: u64, kind: u8) {
    let mut b = uni_stream(local_is_server, initiator_is_server, n);
    let id = b.id;
    let sid = v(id as u64);
    let before = observe(&b);
    assert!(id == sid_nth(initiator_is_server, true, n as i128), "C12/stream_id.nth/is_first_plus_4n");
    let receives = class_receives(b.local_is_server, initiator_is_server, true);
    let sends = class_sends(b.local_is_server, initiator_is_server, true);
    assert!(receives != sends, "C04/stream_impl.builder/uni_stream_has_exactly_one_direction");
    assert!(receives == (initiator_is_server != local_is_server), "C04/stream_impl.builder/receive_only_iff_peer_initiated");
    // frames the peer may only send on a stream it sends on (=> we receive): STREAM, RESET_STREAM,
    // STREAM_DATA_BLOCKED; frames it may only send on a stream it receives on (=> we send): MAX_STREAM_DATA,
    // STOP_SENDING
    let needs_receive_side = kind <= 2;
    let wrong_direction = if needs_receive_side { !receives } else { !sends };
    if !wrong_direction {
        return;
    }
    let x: [u64; 2] = kani::any();
    kani::assume(x[0] <= MAXV && x[1] <= MAXV);
    let fin: bool = kani::any();
    let mut events = StreamEvents::new();
    let payload = [0u8; 1];
    let r = match kind {
        0 => b.s.on_data(
            &StreamRef { stream_id: sid, offset: v(x[0]), is_last_frame: false, is_fin: fin, data: &payload[..] },
            &mut events,
        ),
        1 => b.s.on_reset(&ResetStream { stream_id: sid, application_error_code: v(x[0]), final_size: v(x[1]) }, &mut events),
        2 => b.s.on_stream_data_blocked(&StreamDataBlocked { stream_id: sid, stream_data_limit: v(x[0]) }, &mut events),
        3 => b.s.on_max_stream_data(&MaxStreamData { stream_id: sid, maximum_stream_data: v(x[0]) }, &mut events),
        _ => b.s.on_stop_sending(&StopSending { stream_id: sid, application_error_code: v(x[0]) }, &mut events),
    };
    let after = observe(&b);
    // STRICT (RFC 9000 19.4/19.5/19.8/19.10/19.13, all MUST): kept although it fails on the unchanged tree
    assert!(is_stream_state_error(&r), "C04/stream_impl.wrong_direction_frame/rejected_with_stream_state_error");
    // RESIDUAL: the same claim outside the recorded input class {STREAM, RESET_STREAM, STREAM_DATA_BLOCKED on a
    // send-only stream; STOP_SENDING on a receive-only stream}, i.e. for MAX_STREAM_DATA on a receive-only stream
    assert!(kind != 3 || is_stream_state_error(&r), "C04/stream_impl.wrong_direction_frame/rejected_with_stream_state_error#outside-known");
    // whatever the verdict, a frame for the absent half has no effect: nothing reaches the application
    // (no waker is produced, the stream reports the same interests) and no flow-control credit moves
    assert!(events.waker_count() == 0, "C04/stream_impl.wrong_direction_frame/wakes_nobody");
    assert!(before.0 == after.0, "C04/stream_impl.wrong_direction_frame/stream_interests_unchanged");
    assert!(before.1[0] == after.1[0] && before.1[1] == after.1[1] && before.1[2] == after.1[2] && before.1[3] == after.1[3], "C04/stream_impl.wrong_direction_frame/connection_flow_control_untouched");
    // and the only error ever produced is the prescribed one
    assert!(r.is_ok() || is_stream_state_error(&r), "C04/stream_impl.wrong_direction_frame/no_other_error_code");
    kani::cover!(kind == 0, "reach:stream_on_send_only");
    kani::cover!(kind == 1, "reach:reset_on_send_only");
    kani::cover!(kind == 2, "reach:data_blocked_on_send_only");
    kani::cover!(kind == 3, "reach:max_stream_data_on_receive_only");
    kani::cover!(kind == 4, "reach:stop_sending_on_receive_only");
    kani::cover!(r.is_err(), "reach:rejected");
    kani::cover!(r.is_ok(), "reach:tolerated");
    core::mem::forget(b);
}

//@ harness props=C04 tier=quick level=bounded timeout=600 bound="stream index in {0, 2^60-1} (role, initiator, index enumerated concretely; frame fields and windows symbolic)"
//@ fn StreamImpl::new
//@ fn StreamImpl::on_data
//@ fn StreamImpl::on_reset
//@ fn StreamImpl::on_stream_data_blocked
//@ fn StreamImpl::on_max_stream_data
//@ fn StreamImpl::on_stop_sending
#[kani::proof]
#[kani::unwind(4)]
fn vq_c04_mgr_stream_impl_wrong_direction() {
    let local_is_server: bool = kani::any();
    let initiator_is_server: bool = kani::any();
    let last: bool = kani::any();
    let kind: u8 = kani::any();
    kani::assume(kind < 5);
    const LAST: u64 = (1 << 60) - 1;
    // enumerate the discrete parameters so that every call site has concrete arguments
    macro_rules! kinds {
        ($l:expr, $i:expr, $n:expr) => {
            match kind {
                0 => wrong_direction_case($l, $i, $n, 0),
                1 => wrong_direction_case($l, $i, $n, 1),
                2 => wrong_direction_case($l, $i, $n, 2),
                3 => wrong_direction_case($l, $i, $n, 3),
                _ => wrong_direction_case($l, $i, $n, 4),
            }
        };
    }
    match (local_is_server, initiator_is_server, last) {
        (false, false, false) => kinds!(false, false, 0),
        (false, true, false) => kinds!(false, true, 0),
        (true, false, false) => kinds!(true, false, 0),
        (true, true, false) => kinds!(true, true, 0),
        (false, false, true) => kinds!(false, false, LAST),
        (false, true, true) => kinds!(false, true, LAST),
        (true, false, true) => kinds!(true, false, LAST),
        (true, true, true) => kinds!(true, true, LAST),
    }
    kani::cover!(true, "reach:end");
}
