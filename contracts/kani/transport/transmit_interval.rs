//@ inject crate=transport src=quic/s2n-quic-transport/src/sync/data_sender/transmissions.rs
// Contract harness for Transmissions::transmit_interval (properties C03: "a sender never exceeds the
// flow-control credit", C12: "no stream data is sent at or beyond the final size").
// Recording flow controller, recording/trimming frame writer and stack-only write context are shared
// with contracts/kani/transport/data_sender.rs (_data_sender_mocks.rs).
use super::*;
use crate::sync::data_sender::{buffer::Buffer, View};
use crate::transmission;
use bytes::Bytes;
include!("_data_sender_mocks.rs");

const N: u64 = 4;

// First version additionally acknowledged the packet through on_ack_signal(): 11.7 GB, no result in 1344 s.
//@ harness props=C03,C12 tier=thorough level=bounded timeout=1800 bound="one 4-byte chunk; requested interval, capacity, window, writer trim symbolic (u8)"
//@ fn Transmissions::transmit_interval
#[kani::proof]
#[kani::unwind(10)] // packet::number::Map::default() fills 8 slots in a loop
fn vq_c03_transmissions_transmit_interval() {
    let mut buffer = Buffer::default();
    let _ = buffer.push(Bytes::from_static(&[1, 2, 3, 4]));
    let window: u8 = kani::any();
    let mut t: Transmissions<Fc, Fw> = Transmissions::new(Fc { window: VarInt::from_u8(window), blocked: false, finished: false, cleared: 0, last_end: None });
    let a: u64 = kani::any();
    let e: u64 = kani::any();
    kani::assume(a < e && e <= N);
    let finishing: bool = kani::any();
    let mut state = if finishing { State::Finishing(FinState::Pending) } else { State::Sending };
    let cap: u8 = kani::any();
    let q: u64 = kani::any();
    kani::assume(q <= MAXV);
    let trim: u8 = kani::any();
    kani::assume(trim <= 4);
    unsafe {
        REC = Rec { chunks: 0, fins: 0, last_offset: 0, last_len: 0, last_chunk_is_fin: false, fin_offset: 0, trim: trim as usize };
    }
    let mut ctx = Ctx { cap: cap as usize, constraint: transmission::Constraint::None, pn: q };
    let mut viewer = buffer.viewer();
    let requested: Interval<VarInt> = (VarInt::new(a).unwrap()..VarInt::new(e).unwrap()).into();
    let r = t.transmit_interval(&mut viewer, requested, &mut state, (), &mut ctx);
    let rcd = rec();
    let asked_end = t.flow_controller.last_end;
    match r {
        Ok(sent) => {
            let s0 = sent.start_inclusive().as_u64();
            let s1 = sent.end_exclusive().as_u64();
            assert!(s0 == a && s0 < s1, "C12/transmissions.transmit_interval/starts_at_requested_start_and_non_empty");
            assert!(s1 <= e, "C12/transmissions.transmit_interval/within_requested_interval");
            assert!(s1 <= N, "C12/transmissions.transmit_interval/within_buffered_data");
            assert!(s1 <= window as u64, "C03/transmissions.transmit_interval/end_within_window_returned_by_flow_controller");
            assert!(s1 - s0 <= cap as u64, "C12/transmissions.transmit_interval/len_within_capacity");
            // the credit asked for is exactly the end of what could be written, never beyond the request
            assert!(asked_end == Some(core::cmp::min(e, a + cap as u64)), "C03/transmissions.transmit_interval/asks_credit_up_to_min_of_request_and_capacity");
            // exact length: min(request, capacity, window - start) minus what the writer trimmed
            let offered = core::cmp::min(core::cmp::min(e - a, cap as u64), window as u64 - a);
            assert!(s1 - s0 == offered - trim as u64, "C12/transmissions.transmit_interval/len_is_min_of_request_capacity_window_minus_trim");
            // exactly this was handed to the frame writer and recorded as in flight under the packet number
            assert!(rcd.chunks == 1 && rcd.last_offset == s0 && rcd.last_len == s1 - s0, "C12/transmissions.transmit_interval/writer_got_the_returned_interval");
            assert!(!t.is_empty(), "C12/transmissions.transmit_interval/recorded_in_flight");
            // FIN bit: only when finishing, reaching the end of the data and not trimmed
            assert!(rcd.last_chunk_is_fin == (finishing && s1 == N), "C12/transmissions.transmit_interval/fin_iff_finishing_and_reaches_total_len");
            let fin_inflight = matches!(state, State::Finishing(FinState::InFlight(p)) if p.as_u64() == q);
            assert!(fin_inflight == rcd.last_chunk_is_fin, "C12/transmissions.transmit_interval/fin_state_inflight_iff_fin_sent");
        }
        Err(_) => {
            // independent reading of when nothing can be sent
            let window_closed = (window as u64) <= a;
            let trimmed_away = !window_closed && cap > 0 && (trim as u64) >= core::cmp::min(core::cmp::min(e - a, cap as u64), window as u64 - a);
            assert!(cap == 0 || window_closed || trimmed_away, "C12/transmissions.transmit_interval/err_only_without_capacity_window_or_fit");
            assert!(t.is_empty(), "C12/transmissions.transmit_interval/err_records_nothing_in_flight");
            assert!(matches!(state, State::Sending) == !finishing && !matches!(state, State::Finishing(FinState::InFlight(_))), "C12/transmissions.transmit_interval/err_leaves_fin_state");
            assert!(cap != 0 || (rcd.chunks == 0 && asked_end.is_none()), "C03/transmissions.transmit_interval/no_capacity_asks_no_credit");
        }
    }
    kani::cover!(r.is_ok() && trim > 0, "reach:trimmed");
    kani::cover!(r.is_ok() && rec().last_chunk_is_fin, "reach:fin");
    kani::cover!(r.is_err() && cap > 0 && (window as u64) <= a, "reach:window_closed");
    kani::cover!(r.is_ok() && (window as u64) < e && (cap as u64) >= e - a, "reach:clamped_by_window");
    kani::cover!(r.is_ok() && (cap as u64) < e - a, "reach:clamped_by_capacity");
    kani::cover!(r.is_err() && cap == 0, "reach:no_capacity");
}
