// Shared by contracts/kani/transport/data_sender.rs and transmit_interval.rs (include!d, not injected on
// its own): recording flow controller, recording / trimming FrameWriter, stack-only write context.
use s2n_quic_core::{
    endpoint,
    event::{self, IntoEvent},
    frame::{ack_elicitation::AckElicitation, FrameTrait},
    packet::number::PacketNumberSpace,
    time::Timestamp,
};

const MAXV: u64 = s2n_quic_core::varint::MAX_VARINT_VALUE;

fn pn(v: u64) -> PacketNumber {
    PacketNumberSpace::ApplicationData.new_packet_number(VarInt::new(v).unwrap())
}

// ---- recording flow controller ------------------------------------------------------------------
#[derive(Debug, Default)]
struct Fc {
    window: VarInt,
    blocked: bool,
    finished: bool,
    cleared: u8,
    /// the end offset of the last acquire_flow_control_window() call
    last_end: Option<u64>,
}
impl OutgoingDataFlowController for Fc {
    fn acquire_flow_control_window(&mut self, end_offset: VarInt) -> VarInt {
        self.last_end = Some(end_offset.as_u64());
        self.window
    }
    fn is_blocked(&self) -> bool {
        self.blocked
    }
    fn clear_blocked(&mut self) {
        self.blocked = false;
        self.cleared += 1;
    }
    fn finish(&mut self) {
        self.finished = true;
    }
}

// ---- recording frame writer (FrameWriter: Default, `&self` methods => the record is a static) ------
#[derive(Clone, Copy)]
struct Rec {
    chunks: u8,
    fins: u8,
    last_offset: u64,
    last_len: u64,
    last_chunk_is_fin: bool,
    fin_offset: u64,
    /// bytes the writer trims off the end of every chunk (the real StreamChunkToFrameWriter trims a
    /// chunk to what fits the packet; an empty result is a FitError)
    trim: usize,
}
static mut REC: Rec = Rec { chunks: 0, fins: 0, last_offset: 0, last_len: 0, last_chunk_is_fin: false, fin_offset: 0, trim: 0 };
fn rec() -> Rec {
    unsafe { REC }
}

#[derive(Debug, Default)]
struct Fw;
impl FrameWriter for Fw {
    type Context = ();
    const MIN_WRITE_SIZE: usize = 1;
    fn write_chunk<W: WriteContext>(&self, offset: VarInt, payload: &mut View, _c: (), _context: &mut W) -> Result<(), FitError> {
        let trim = unsafe { REC.trim };
        payload.trim_off(trim)?;
        if payload.len().as_u64() == 0 {
            return Err(FitError);
        }
        unsafe {
            REC.chunks += 1;
            REC.last_offset = offset.as_u64();
            REC.last_len = payload.len().as_u64();
            REC.last_chunk_is_fin = payload.is_fin();
        }
        Ok(())
    }
    fn write_fin<W: WriteContext>(&self, offset: VarInt, _c: (), _context: &mut W) -> Result<(), FitError> {
        unsafe {
            REC.fins += 1;
            REC.fin_offset = offset.as_u64();
        }
        Ok(())
    }
}
use s2n_quic_core::frame::FitError;

/// CRYPTO-like writer: no FIN on the wire
#[derive(Debug, Default)]
struct FwNoFin;
impl FrameWriter for FwNoFin {
    type Context = ();
    const WRITES_FIN: bool = false;
    fn write_chunk<W: WriteContext>(&self, _o: VarInt, _p: &mut View, _c: (), _context: &mut W) -> Result<(), FitError> {
        Ok(())
    }
    fn write_fin<W: WriteContext>(&self, _o: VarInt, _c: (), _context: &mut W) -> Result<(), FitError> {
        Ok(())
    }
}

// ---- stack-only write context -----------------------------------------------------------------------
struct Ctx {
    cap: usize,
    constraint: transmission::Constraint,
    pn: u64,
}
impl transmission::Writer for Ctx {
    fn current_time(&self) -> Timestamp {
        s2n_quic_core::time::clock::testing::now()
    }
    fn transmission_constraint(&self) -> transmission::Constraint {
        self.constraint
    }
    fn transmission_mode(&self) -> transmission::Mode {
        transmission::Mode::Normal
    }
    fn remaining_capacity(&self) -> usize {
        self.cap
    }
    fn write_frame<Frame>(&mut self, _frame: &Frame) -> Option<PacketNumber>
    where
        Frame: s2n_codec::EncoderValue + FrameTrait,
        for<'f> &'f Frame: IntoEvent<event::builder::Frame>,
    {
        None
    }
    fn write_fitted_frame<Frame>(&mut self, _frame: &Frame) -> PacketNumber
    where
        Frame: s2n_codec::EncoderValue + FrameTrait,
        for<'f> &'f Frame: IntoEvent<event::builder::Frame>,
    {
        self.packet_number()
    }
    fn write_frame_forced<Frame>(&mut self, _frame: &Frame) -> Option<PacketNumber>
    where
        Frame: s2n_codec::EncoderValue + FrameTrait,
        for<'f> &'f Frame: IntoEvent<event::builder::Frame>,
    {
        None
    }
    fn ack_elicitation(&self) -> AckElicitation {
        AckElicitation::Eliciting
    }
    fn packet_number(&self) -> PacketNumber {
        pn(self.pn)
    }
    fn local_endpoint_type(&self) -> endpoint::Type {
        endpoint::Type::Server
    }
    fn header_len(&self) -> usize {
        0
    }
    fn tag_len(&self) -> usize {
        0
    }
}

fn any_constraint() -> transmission::Constraint {
    match kani::any::<u8>() % 4 {
        0 => transmission::Constraint::None,
        1 => transmission::Constraint::RetransmissionOnly,
        2 => transmission::Constraint::CongestionLimited,
        _ => transmission::Constraint::AmplificationLimited,
    }
}

