//@ inject crate=transport src=quic/s2n-quic-transport/src/space/tx_packet_numbers.rs
// Contract harnesses for TxPacketNumbers -- property C08 ("Packet numbers on the wire strictly increase within a
// space"; the basis `largest_sent_acked` used for truncation only ever names a packet that was sent).
// Predicates: contracts/spec/packet_number.rs (shared with verus/lemmas/C08.rs).
use super::*;
use core::time::Duration;
use s2n_quic_core::packet::number::PacketNumberRange;
#[allow(dead_code, unused_variables)]
mod spec {
    include!("../../spec/packet_number.rs");
}
use spec::*;

const MAXV: u64 = s2n_quic_core::varint::MAX_VARINT_VALUE;

fn any_space() -> PacketNumberSpace {
    let s: u8 = kani::any();
    kani::assume(s < 3);
    match s {
        0 => PacketNumberSpace::Initial,
        1 => PacketNumberSpace::Handshake,
        _ => PacketNumberSpace::ApplicationData,
    }
}

fn pn_of(space: PacketNumberSpace, x: u64) -> PacketNumber {
    space.new_packet_number(VarInt::new(x).unwrap())
}

fn ts(ms: u64) -> Timestamp {
    unsafe { Timestamp::from_duration(Duration::from_millis(ms)) }
}

/// Arbitrary state satisfying txpn_inv (the only code that writes private fields).
/// `skip < next`: call-site fact -- `set_skip_packet_number` is only called from
/// ApplicationSpace::on_transmit (space/application.rs:328-330) with a number that was skipped *below* the packet
/// just transmitted, i.e. after `on_transmit(pn)` made `next == pn + 1 > skip`; it is only used in the
/// ApplicationData space (the code's own debug_assert).
fn any_txpn(space: PacketNumberSpace) -> TxPacketNumbers {
    let next: u64 = kani::any();
    let acked: u64 = kani::any();
    let has_skip: bool = kani::any();
    let skip: u64 = kani::any();
    kani::assume(next <= MAXV && acked <= next && (acked < next || acked == 0));
    kani::assume(!has_skip || (skip < next && space == PacketNumberSpace::ApplicationData));
    let mut t = TxPacketNumbers::new(space, ts(10));
    t.next = pn_of(space, next);
    t.largest_sent_acked = (pn_of(space, acked), ts(10));
    t.skip_packet_number = if has_skip { Some(pn_of(space, skip)) } else { None };
    t
}

fn abs(t: &TxPacketNumbers) -> TxPn {
    TxPn {
        next: t.next.as_u64() as i128,
        acked: t.largest_sent_acked.0.as_u64() as i128,
        has_skip: t.skip_packet_number.is_some(),
        skip: match t.skip_packet_number {
            Some(s) => s.as_u64() as i128,
            None => 0,
        },
    }
}

//@ harness props=C08 tier=quick level=full timeout=240
//@ fn TxPacketNumbers::new
//@ fn TxPacketNumbers::on_transmit
//@ fn TxPacketNumbers::next
#[kani::proof]
#[kani::unwind(2)]
fn vq_c08_txpn_on_transmit() {
    let space = any_space();
    let fresh = TxPacketNumbers::new(space, ts(10));
    assert!(txpn_inv(abs(&fresh)) && abs(&fresh).next == 0 && !abs(&fresh).has_skip, "C08/tx_packet_numbers.new/starts_at_zero");
    let mut t = any_txpn(space);
    let old = abs(&t);
    assert!(txpn_inv(old), "C08/tx_packet_numbers.builder/inv");
    assert!(t.next().as_u64() as i128 == old.next, "C08/tx_packet_numbers.next/is_next");
    // call sites (transmission/mod.rs:123 via space/{initial,handshake,application}.rs) pass `next()`, or `next()` advanced
    // by the skipped numbers: pn >= next.  The last number 2^62-1 makes the code panic by design ("packet number
    // overflowed", RFC 9000 12.3: the sender MUST close the connection), hence pn < 2^62-1 here.
    let pn: u64 = kani::any();
    kani::assume(pn < MAXV);
    let ts_before = t.largest_sent_acked.1;
    t.on_transmit(pn_of(space, pn));
    let new = abs(&t);
    let p = pn as i128;
    assert!(txpn_on_transmit_next_is_pn_plus_one(old, p, new), "C08/tx_packet_numbers.on_transmit/next_is_pn_plus_one");
    assert!(txpn_on_transmit_strictly_increasing(old, p, new), "C08/tx_packet_numbers.on_transmit/strictly_increasing");
    assert!(txpn_on_transmit_frame(old, p, new) && t.largest_sent_acked.1 == ts_before, "C08/tx_packet_numbers.on_transmit/frame");
    assert!(p < old.next || txpn_inv(new), "C08/tx_packet_numbers.on_transmit/inv_preserved");
    assert!(t.next.space() == space, "C08/tx_packet_numbers.on_transmit/space_preserved");
    kani::cover!(p == old.next, "reach:in_sequence");
    kani::cover!(p == old.next + 1, "reach:one_skipped");
    kani::cover!(pn == MAXV - 1, "reach:last_before_overflow");
    kani::cover!(old.next == 0 && p == 0, "reach:first_packet");
    kani::cover!(true, "reach:end");
}

//@ harness props=C08 tier=quick level=full timeout=240
//@ fn TxPacketNumbers::on_packet_ack
//@ fn TxPacketNumbers::largest_sent_packet_number_acked
#[kani::proof]
#[kani::unwind(2)]
fn vq_c08_txpn_on_packet_ack() {
    let space = any_space();
    let mut t = any_txpn(space);
    let old = abs(&t);
    let lo: u64 = kani::any();
    let hi: u64 = kani::any();
    let lowest_tracking: u64 = kani::any();
    kani::assume(lo <= hi && hi <= MAXV && lowest_tracking <= MAXV);
    let range = PacketNumberRange::new(pn_of(space, lo), pn_of(space, hi));
    let r = t.on_packet_ack(ts(20), &range, pn_of(space, lowest_tracking));
    let new = abs(&t);
    let (l, h) = (lo as i128, hi as i128);
    // RFC 9000 13.1 / 21.4
    assert!(txpn_on_ack_ok_iff_only_sent(old, l, h, r.is_ok()), "C08/tx_packet_numbers.on_packet_ack/ok_iff_only_sent_packets_named");
    if let Err(e) = r {
        assert!(e.code == transport::Error::PROTOCOL_VIOLATION.code, "C08/tx_packet_numbers.on_packet_ack/unsent_is_protocol_violation");
        assert!(new.next == old.next && new.acked == old.acked && new.has_skip == old.has_skip && new.skip == old.skip
            && t.largest_sent_acked.1 == ts(10), "C08/tx_packet_numbers.on_packet_ack/error_leaves_state_unchanged");
    }
    assert!(txpn_on_ack_largest_is_max(old, h, r.is_ok(), new), "C08/tx_packet_numbers.on_packet_ack/largest_is_max_monotone");
    assert!(txpn_on_ack_largest_below_next(old, r.is_ok(), new), "C08/tx_packet_numbers.on_packet_ack/largest_acked_below_next");
    assert!(txpn_on_ack_next_unchanged(old, new), "C08/tx_packet_numbers.on_packet_ack/next_unchanged");
    assert!(txpn_on_ack_skip(old, r.is_ok(), lowest_tracking as i128, new), "C08/tx_packet_numbers.on_packet_ack/skip_cleared_only_when_verified");
    assert!(t.largest_sent_acked.1 == (if r.is_ok() && h > old.acked { ts(20) } else { ts(10) }), "C08/tx_packet_numbers.on_packet_ack/timestamp_follows_largest");
    assert!(t.largest_sent_packet_number_acked().as_u64() as i128 == new.acked, "C08/tx_packet_numbers.largest_sent_packet_number_acked/is_field");
    assert!(txpn_inv(new), "C08/tx_packet_numbers.on_packet_ack/inv_preserved");
    kani::cover!(r.is_ok() && h > old.acked, "reach:new_largest");
    kani::cover!(r.is_ok() && h <= old.acked, "reach:old_ack");
    kani::cover!(r.is_err() && h == old.next, "reach:ack_of_next_unsent");
    kani::cover!(r.is_err() && h < old.next, "reach:ack_of_skipped");
    kani::cover!(r.is_ok() && old.has_skip && !new.has_skip, "reach:skip_cleared");
    kani::cover!(r.is_ok() && old.has_skip && new.has_skip, "reach:skip_kept");
    kani::cover!(old.next == 0, "reach:nothing_sent");
    kani::cover!(true, "reach:end");
}
