//@ inject crate=transport src=quic/s2n-quic-transport/src/endpoint/version.rs
// Contract harness for endpoint::version::Negotiator::on_packet (property C11: "Version Negotiation is
// sent only for datagrams of at least 1200 bytes and never in reply to Version Negotiation").
// The packet argument is produced by the real decoder (`ProtectedPacket::decode`) from bytes laid out
// by hand after RFC 9000 17.2 (long header: first byte, version, DCID len+DCID, SCID len+SCID, then the
// type-specific part) with a symbolic version field; the expected Version Negotiation bytes are an
// independent transcription of RFC 9000 17.2.1.
//
// RECORD (what was tried, what happened; 16-core machine shared by 8 jobs, 16 GB cap per harness):
//   * vq_c11_version_negotiator_client_never_negotiates (client endpoint: real decoder + on_packet):
//     discharged, 97 s.  So building the packet / publisher arguments under Kani is feasible.
//   * server side, one harness with symbolic packet kind (5 decoders) and symbolic "queue already full"
//     prefix: no result in 1500 s.
//   * server side split by kind (the three functions below, queue capacity 1): `on_initial` died after
//     547 s without reporting a single check (out of memory); `on_other_packets` (1351 s) and
//     `at_capacity` (798 s) ended with CBMC status "Error" on ~420 checks and every named obligation
//     "undetermined".  What is expensive is not the decoder but `Transmission::new`: a 1200-byte array
//     filled through EncoderBuffer and moved into a `VecDeque<Transmission>` (1224-byte elements).
//   The server-side contract is therefore NOT DECIDED by this framework.  The three harness functions
//   are kept (not registered: their `//@ harness` lines are disabled, `#[kani::proof]` commented out) so
//   that the contract text is on file: VN queued iff unsupported-version Initial with payload_len >= 1200
//   and the queue not full; never for Version Negotiation / 0-RTT / Handshake / short packets; Err
//   exactly for unsupported-version Initial / 0-RTT; reply bytes per RFC 9000 17.2.1.
use super::*;
use s2n_codec::DecoderBufferMut;
use s2n_quic_core::{connection::id::ConnectionInfo, inet::SocketAddress, path::RemoteAddress};

type ServerNegotiator = Negotiator<endpoint::testing::Server>;
type ClientNegotiator = Negotiator<endpoint::testing::Client>;

const DCID: [u8; 3] = [0xD1, 0xD2, 0xD3];
const SCID: [u8; 4] = [0x51, 0x52, 0x53, 0x54];

#[derive(Clone, Copy, PartialEq, Eq)]
enum Kind {
    Initial,
    ZeroRtt,
    Handshake,
    VersionNegotiation,
    Short,
}

/// writes one packet of the given kind into `buf`, returns its length
fn build(kind: Kind, version: u32, buf: &mut [u8; 64]) -> usize {
    let mut n = 0;
    let mut put = |b: u8, n: &mut usize| {
        buf[*n] = b;
        *n += 1;
    };
    if kind == Kind::Short {
        // 17.3.1: 0b01xx_xxxx, DCID (length known to the receiver: 3), protected payload
        put(0x40, &mut n);
        for b in DCID {
            put(b, &mut n);
        }
        let mut i = 0;
        while i < 24 {
            put(0xEE, &mut n);
            i += 1;
        }
        return n;
    }
    let first = match kind {
        Kind::Initial => 0xC0,
        Kind::ZeroRtt => 0xD0,
        Kind::Handshake => 0xE0,
        _ => 0x80,
    };
    put(first, &mut n);
    let v = if kind == Kind::VersionNegotiation { 0 } else { version };
    for b in v.to_be_bytes() {
        put(b, &mut n);
    }
    put(DCID.len() as u8, &mut n);
    for b in DCID {
        put(b, &mut n);
    }
    put(SCID.len() as u8, &mut n);
    for b in SCID {
        put(b, &mut n);
    }
    match kind {
        Kind::VersionNegotiation => {
            // 17.2.1: list of 32-bit supported versions
            for b in [0u8, 0, 0, 1, 0xfa, 0xce, 0xb0, 0x0c] {
                put(b, &mut n);
            }
        }
        _ => {
            if kind == Kind::Initial {
                put(0, &mut n); // token length
            }
            put(24, &mut n); // length (varint, 1 byte): packet number + payload
            let mut i = 0;
            while i < 24 {
                put(0xEE, &mut n);
                i += 1;
            }
        }
    }
    n
}

fn path() -> RemoteAddress {
    RemoteAddress::from(SocketAddress::default())
}

// First version: one harness with a symbolic packet kind (5 decoders) and a symbolic "queue already
// full" prefix: no result in 1500 s.  Split by kind; the at-capacity case is its own harness.
//@-not-registered harness props=C11 tier=thorough level=bounded timeout=1800 bound="Initial packet with fixed 3/4-byte connection ids; version and datagram length symbolic; empty queue of capacity 1"
//@-not-registered fn Negotiator::on_packet
//@-not-registered fn Transmission::new
// #[kani::proof] #[kani::unwind(66)]   (not registered: see the record at the top of this file)
#[allow(dead_code)]
fn vq_c11_version_negotiator_on_initial() {
    let mut n = ServerNegotiator::new(1);
    let version: u32 = kani::any();
    kani::assume(version != 0); // version 0 in a long header *is* a Version Negotiation packet
    let payload_len: usize = kani::any();
    server_contract(&mut n, Kind::Initial, version, payload_len, false);
    let queued = n.transmissions.len() == 1;
    kani::cover!(queued, "reach:queued");
    kani::cover!(!queued && version != 1 && payload_len == 1199, "reach:just_too_small");
    kani::cover!(queued && payload_len == 1200, "reach:exactly_1200");
    kani::cover!(version == 1, "reach:supported_initial");
}

/// the contract of on_packet for a server, for one decoded packet of a known kind
fn server_contract(n: &mut ServerNegotiator, kind: Kind, version: u32, payload_len: usize, full: bool) {
    let mut publisher = s2n_quic_core::event::testing::Publisher::no_snapshot();
    let remote = SocketAddress::default();
    let info = ConnectionInfo::new(&remote);
    let before = n.transmissions.len();
    let mut buf = [0u8; 64];
    let len = build(kind, version, &mut buf);
    let (packet, _) = ProtectedPacket::decode(DecoderBufferMut::new(&mut buf[..len]), &info, &3).unwrap();
    assert!(
        matches!(packet, ProtectedPacket::VersionNegotiation(_)) == (kind == Kind::VersionNegotiation)
            && matches!(packet, ProtectedPacket::Initial(_)) == (kind == Kind::Initial),
        "C11/version.on_packet/builder_decodes_as_intended_kind"
    );

    let r = n.on_packet(&path(), payload_len, &packet, &mut publisher);
    let after = n.transmissions.len();

    let supported = version == 1;
    // RFC 9000 5.2.2 / 6.1 / 14.1: a server answers an Initial of an unsupported version with Version
    // Negotiation only if the datagram is at least 1200 bytes; it never answers Version Negotiation
    let must_negotiate = kind == Kind::Initial && !supported && payload_len >= 1200;
    assert!((after == before + 1) == (must_negotiate && !full), "C11/version.on_packet/queued_iff_unsupported_initial_of_at_least_1200_bytes");
    assert!(after == before || after == before + 1, "C11/version.on_packet/at_most_one_reply");
    assert!(kind != Kind::VersionNegotiation || (after == before && r.is_ok()), "C11/version.on_packet/never_replies_to_version_negotiation");
    assert!(payload_len >= 1200 || after == before, "C11/version.on_packet/no_reply_to_datagrams_below_1200");
    // dropped (Err) exactly for unsupported-version Initial / 0-RTT packets
    let drop = (kind == Kind::Initial || kind == Kind::ZeroRtt) && !supported;
    assert!(r.is_err() == drop, "C11/version.on_packet/err_iff_unsupported_initial_or_zero_rtt");
    assert!(after <= 1, "C11/version.on_packet/queue_bounded_by_max_peers");
    if after == before + 1 {
        let t = n.transmissions.back().unwrap();
        let out: &[u8] = t.as_ref();
        // RFC 9000 17.2.1: header form 1, version 0, DCID = client's SCID, SCID = client's DCID, our versions
        assert!(out.len() == 1 + 4 + 1 + SCID.len() + 1 + DCID.len() + 4, "C11/version.on_packet/reply_length");
        assert!(out.len() < payload_len, "C11/version.on_packet/reply_smaller_than_trigger");
        assert!(out[0] & 0x80 == 0x80, "C11/version.on_packet/reply_long_header");
        assert!(out[1] == 0 && out[2] == 0 && out[3] == 0 && out[4] == 0, "C11/version.on_packet/reply_version_zero");
        assert!(out[5] == SCID.len() as u8 && out[6] == SCID[0] && out[9] == SCID[3], "C11/version.on_packet/reply_dcid_is_client_scid");
        assert!(out[10] == DCID.len() as u8 && out[11] == DCID[0] && out[13] == DCID[2], "C11/version.on_packet/reply_scid_is_client_dcid");
        assert!(out[14] == 0 && out[15] == 0 && out[16] == 0 && out[17] == 1, "C11/version.on_packet/reply_lists_version_1");
        assert!(t.path == path(), "C11/version.on_packet/reply_goes_to_sender");
    }
    core::mem::forget(publisher);
}

//@-not-registered harness props=C11 tier=thorough level=bounded timeout=1800 bound="0-RTT / Handshake / Version Negotiation / short packets with fixed connection ids; version and datagram length symbolic"
//@-not-registered fn Negotiator::on_packet
// #[kani::proof] #[kani::unwind(66)]   (not registered: see the record at the top of this file)
#[allow(dead_code)]
fn vq_c11_version_negotiator_on_other_packets() {
    let mut n = ServerNegotiator::new(1);
    let kind = match kani::any::<u8>() % 4 {
        0 => Kind::ZeroRtt,
        1 => Kind::Handshake,
        2 => Kind::VersionNegotiation,
        _ => Kind::Short,
    };
    let version: u32 = kani::any();
    kani::assume(version != 0);
    let payload_len: usize = kani::any();
    server_contract(&mut n, kind, version, payload_len, false);
    assert!(n.transmissions.is_empty(), "C11/version.on_packet/only_initial_packets_are_answered");
    kani::cover!(kind == Kind::ZeroRtt && version != 1, "reach:unsupported_zero_rtt");
    kani::cover!(kind == Kind::ZeroRtt && version == 1, "reach:supported_zero_rtt");
    kani::cover!(kind == Kind::VersionNegotiation && payload_len >= 1200, "reach:version_negotiation");
    kani::cover!(kind == Kind::Short, "reach:short");
    kani::cover!(kind == Kind::Handshake && version != 1, "reach:handshake");
}

//@-not-registered harness props=C11 tier=thorough level=bounded timeout=1800 bound="two Initial packets of unsupported versions, queue capacity 1"
//@-not-registered fn Negotiator::on_packet
// #[kani::proof] #[kani::unwind(66)]   (not registered: see the record at the top of this file)
#[allow(dead_code)]
fn vq_c11_version_negotiator_at_capacity() {
    let mut n = ServerNegotiator::new(1);
    server_contract(&mut n, Kind::Initial, 0x0a0a0a0a, 1200, false);
    assert!(n.transmissions.len() == 1, "C11/version.on_packet/builder_queue_full");
    let version: u32 = kani::any();
    kani::assume(version != 0 && version != 1);
    let payload_len: usize = kani::any();
    kani::assume(payload_len >= 1200);
    server_contract(&mut n, Kind::Initial, version, payload_len, true);
    assert!(n.transmissions.len() == 1, "C11/version.on_packet/never_more_than_max_peers_replies_pending");
    kani::cover!(true, "reach:end");
}

//@ harness props=C11 tier=thorough level=bounded timeout=1500 bound="one Initial packet with fixed connection ids; version and datagram length symbolic"
//@ fn Negotiator::on_packet
#[kani::proof]
#[kani::unwind(66)]
fn vq_c11_version_negotiator_client_never_negotiates() {
    let mut publisher = s2n_quic_core::event::testing::Publisher::no_snapshot();
    let remote = SocketAddress::default();
    let info = ConnectionInfo::new(&remote);
    let mut n = ClientNegotiator::new(1);
    let version: u32 = kani::any();
    kani::assume(version != 0);
    let mut buf = [0u8; 64];
    let len = build(Kind::Initial, version, &mut buf);
    let (packet, _) = ProtectedPacket::decode(DecoderBufferMut::new(&mut buf[..len]), &info, &3).unwrap();
    let r = n.on_packet(&path(), kani::any(), &packet, &mut publisher);
    assert!(r.is_ok() && n.transmissions.is_empty(), "C11/version.on_packet/client_never_sends_version_negotiation");
    core::mem::forget(publisher);
    kani::cover!(version != 1, "reach:unsupported");
}
