//@ inject crate=transport src=quic/s2n-quic-transport/src/connection/close_sender.rs
// Contract harnesses for CloseSender / Limiter / Transmission (property C12: "once an endpoint has
// sent CONNECTION_CLOSE it sends nothing but further copies of that close packet, and those only in
// response to incoming packets"; property C11: close packets count towards the amplification limit).
//
// Time: timestamps and durations are arbitrary (any microsecond value below ~126,000 years, any
// duration below 2^32 s).  Expected timer values are written with core's own `Timestamp + Duration` and
// `Timestamp::has_elapsed` on the *same* operands the function receives (those operators belong to
// s2n-quic-core's time module and are not under contract here), which keeps every equality
// syntactic: going through independent millisecond arithmetic made CBMC compare chains of 64-bit
// divisions (Duration <-> micros) and three of the harnesses below did not finish in 300 s.
use super::*;
use crate::connection::finalization::Provider as _;

fn any_ts() -> Timestamp {
    let secs: u64 = kani::any();
    let nanos: u32 = kani::any();
    kani::assume(secs <= 4_000_000_000_000 && nanos < 1_000_000_000);
    unsafe { Timestamp::from_duration(Duration::new(secs, nanos)) }
}

fn any_duration() -> Duration {
    let secs: u32 = kani::any();
    let nanos: u32 = kani::any();
    kani::assume(nanos < 1_000_000_000);
    Duration::new(secs as u64, nanos)
}

/// For the operations that compute `now + duration` (close, Limiter::on_datagram_received): a symbolic
/// instant makes `Timestamp + Duration` a chain of 64-bit divisions (micros -> Duration -> micros) that
/// CBMC has to prove equal to the harness's own copy (no result in 300 s).  `now` is therefore one of
/// two concrete instants and the duration a symbolic number of whole seconds plus one of three
/// concrete sub-second parts; the code under contract does not look at either value.
fn concrete_now() -> Timestamp {
    let base = s2n_quic_core::time::clock::testing::now();
    if kani::any() {
        base
    } else {
        base + Duration::new(1_000_000, 999_999_000)
    }
}

fn whole_seconds_duration() -> Duration {
    let secs: u32 = kani::any();
    let nanos = match kani::any::<u8>() % 3 {
        0 => 0,
        1 => 1_000,
        _ => 999_999_000,
    };
    Duration::new(secs as u64, nanos)
}

fn timer_at(t: Option<Timestamp>) -> Timer {
    Timer::from(t)
}

const PKT: usize = 5;

fn leak_packet(bytes: [u8; PKT]) -> Bytes {
    // `Bytes::from_static` avoids the reference-counted representation (DESIGN 7: BytesMut/Bytes
    // promotion is what makes CBMC slow); the content stays symbolic
    Bytes::from_static(Box::leak(Box::new(bytes)))
}

/// abstract view of the whole CloseSender state
#[derive(Clone, Copy, PartialEq, Eq)]
struct Abs {
    tag: u8, // 0 Idle, 1 Closing, 2 Closed
    transmitting: bool,
    factor: u8,
    received: u8,
    packet: [u8; PKT],
    packet_len: usize,
}

fn abs(s: &CloseSender) -> Abs {
    match &s.state {
        State::Idle => Abs { tag: 0, transmitting: false, factor: 0, received: 0, packet: [0; PKT], packet_len: 0 },
        State::Closed => Abs { tag: 2, transmitting: false, factor: 0, received: 0, packet: [0; PKT], packet_len: 0 },
        State::Closing { packet, limiter, transmission, .. } => {
            let mut p = [0u8; PKT];
            let mut i = 0;
            while i < PKT {
                if i < packet.len() {
                    p[i] = packet[i];
                }
                i += 1;
            }
            Abs {
                tag: 1,
                transmitting: matches!(transmission, TransmissionState::Transmitting),
                factor: *limiter.factor,
                received: *limiter.received,
                packet: p,
                packet_len: packet.len(),
            }
        }
    }
}

fn timers_of(s: &CloseSender) -> (Timer, Timer) {
    match &s.state {
        State::Closing { close_timer, limiter, .. } => (close_timer.clone(), limiter.debounce.clone()),
        _ => (Timer::default(), Timer::default()),
    }
}

/// arbitrary Closing state: any packet content, any transmission state, any limiter satisfying its
/// invariant (factor >= 1, received < factor: established by Limiter::default and re-established by
/// on_datagram_received, asserted below), close timer armed (CloseSender::close), debounce armed or not
fn any_closing(packet: [u8; PKT], close_at: Timestamp, debounce_at: Option<Timestamp>) -> CloseSender {
    let factor: u8 = kani::any();
    let received: u8 = kani::any();
    kani::assume(factor >= 1 && received < factor);
    let transmitting: bool = kani::any();
    CloseSender {
        state: State::Closing {
            packet: leak_packet(packet),
            limiter: Limiter { factor: Counter::new(factor), received: Counter::new(received), debounce: timer_at(debounce_at) },
            transmission: if transmitting { TransmissionState::Transmitting } else { TransmissionState::Idle },
            close_timer: timer_at(Some(close_at)),
        },
    }
}

fn any_opt_ts() -> Option<Timestamp> {
    if kani::any() {
        Some(any_ts())
    } else {
        None
    }
}

//@ harness props=C12 tier=quick level=bounded timeout=200 bound="now: 2 concrete instants; timeout: any whole seconds < 2^32 + 3 concrete sub-second parts"
//@ fn CloseSender::close
#[kani::proof]
#[kani::unwind(7)]
fn vq_c12_close_sender_close() {
    let mut s = CloseSender::default();
    assert!(abs(&s).tag == 0 && !s.has_transmission_interest(), "C12/close_sender.default/idle_without_interest");
    assert!(matches!(s.finalization_status(), finalization::Status::Idle), "C12/close_sender.default/finalization_idle");
    let bytes: [u8; PKT] = kani::any();
    let now = concrete_now();
    let timeout = whole_seconds_duration();
    s.close(leak_packet(bytes), timeout, now);
    let a = abs(&s);
    assert!(a.tag == 1, "C12/close_sender.close/enters_closing");
    assert!(a.packet == bytes && a.packet_len == PKT, "C12/close_sender.close/stores_exactly_the_close_packet");
    assert!(a.transmitting, "C12/close_sender.close/first_copy_may_be_sent");
    assert!(a.factor == 1 && a.received == 0, "C12/close_sender.close/limiter_starts_at_one");
    let (close_timer, debounce) = timers_of(&s);
    assert!(close_timer == timer_at(Some(now + timeout)), "C12/close_sender.close/close_timer_is_now_plus_timeout");
    assert!(!debounce.is_armed(), "C12/close_sender.close/debounce_not_armed");
    assert!(s.has_transmission_interest(), "C12/close_sender.close/has_transmission_interest");
    assert!(matches!(s.finalization_status(), finalization::Status::Draining), "C12/close_sender.close/finalization_draining");
    kani::cover!(timeout == Duration::ZERO, "reach:zero_timeout");
    kani::cover!(timeout.as_secs() == u32::MAX as u64, "reach:largest_timeout");
}

//@ harness props=C12,C11 tier=quick level=bounded timeout=300 bound="close packet of 5 symbolic bytes, 16-byte tx buffer"
//@ fn Transmission::write_payload
//@ fn CloseSender::transmission
//@ fn Path::on_bytes_transmitted
#[kani::proof]
#[kani::unwind(18)]
fn vq_c12_close_sender_write_payload() {
    let bytes: [u8; PKT] = kani::any();
    let mut s = any_closing(bytes, any_ts(), any_opt_ts());
    // CloseSender::transmission's precondition (debug_assert): interest was expressed
    kani::assume(abs(&s).transmitting);
    let old = abs(&s);
    let old_timers = timers_of(&s);

    // an unvalidated server path with arbitrary credit > 0, or a validated one (ConnectionImpl only
    // polls the close sender when the path's transmission_constraint() is not AmplificationLimited)
    let mut path = crate::path::testing::helper_path_server();
    let credit: u16 = kani::any();
    kani::assume(credit >= 1);
    let validated: bool = kani::any();
    let _ = path.on_bytes_received(credit as usize);
    if validated {
        path.on_handshake_packet();
    }
    assert!(!path.at_amplification_limit(), "C12/close_sender.write_payload/builder_path_not_limited");
    let mut publisher = s2n_quic_core::event::testing::Publisher::no_snapshot();

    let orig: [u8; 16] = kani::any();
    let mut buf = orig;
    let r = {
        let mut t = s.transmission(&mut path, s2n_quic_core::time::clock::testing::now(), &mut publisher);
        assert!(tx::Message::can_gso(&t, PKT, 1) && !tx::Message::can_gso(&t, PKT - 1, 1), "C12/close_sender.transmission/gso_segment_must_hold_packet");
        tx::Message::write_payload(&mut t, tx::PayloadBuffer::new(&mut buf), 0)
    };
    let new = abs(&s);
    assert!(matches!(r, Ok(PKT)), "C12/close_sender.write_payload/returns_packet_len");
    let k: usize = kani::any();
    kani::assume(k < 16);
    assert!(k >= PKT || buf[k] == bytes[k], "C12/close_sender.write_payload/payload_is_the_close_packet");
    assert!(k < PKT || buf[k] == orig[k], "C12/close_sender.write_payload/nothing_but_the_close_packet_written");
    assert!(!new.transmitting && new.tag == 1, "C12/close_sender.write_payload/transmitting_to_idle");
    assert!(new.packet == old.packet && new.packet_len == old.packet_len, "C12/close_sender.write_payload/packet_unchanged");
    assert!(new.factor == old.factor && new.received == old.received && timers_of(&s) == old_timers, "C12/close_sender.write_payload/limiter_and_timers_unchanged");
    assert!(!s.has_transmission_interest(), "C12/close_sender.write_payload/no_interest_after_send");
    assert!(publisher.datagram_sent == 1, "C12/close_sender.write_payload/one_datagram_sent_event");
    // C11: the close packet is accounted against the amplification credit like any other datagram
    // (credit was 3 * `credit` bytes: the path is at the limit afterwards iff the packet used it up)
    assert!(
        path.at_amplification_limit() == (!validated && 3 * (credit as u32) <= PKT as u32),
        "C11/close_sender.write_payload/close_packet_counts_towards_amplification"
    );
    core::mem::forget(publisher);
    kani::cover!(path.at_amplification_limit(), "reach:close_packet_exhausts_credit");
    kani::cover!(!validated && !path.at_amplification_limit(), "reach:credit_left");
    kani::cover!(validated, "reach:validated_path");
}

//@ harness props=C12 tier=quick level=full timeout=300
//@ fn CloseSender::on_timeout
//@ fn State::on_timeout
//@ fn Limiter::on_timeout
#[kani::proof]
#[kani::unwind(7)]
fn vq_c12_close_sender_on_timeout() {
    let bytes: [u8; PKT] = kani::any();
    let close_at = any_ts();
    let debounce_at = any_opt_ts();
    let mut s = any_closing(bytes, close_at, debounce_at);
    let old = abs(&s);
    let now = any_ts();
    let r = s.on_timeout(now);
    let new = abs(&s);
    let close_expired = close_at.has_elapsed(now);
    let debounce_expired = matches!(debounce_at, Some(d) if d.has_elapsed(now));
    // has_elapsed: in the past, or less than the 1 ms timer granularity in the future
    assert!(!(close_at <= now) || close_expired, "C12/close_sender.on_timeout/oracle_past_deadline_has_elapsed");
    if close_expired {
        assert!(r.is_ready() && new.tag == 2, "C12/close_sender.on_timeout/close_timer_expiry_ends_closing");
        assert!(!s.has_transmission_interest(), "C12/close_sender.on_timeout/closed_has_no_interest");
        assert!(matches!(s.finalization_status(), finalization::Status::Final), "C12/close_sender.on_timeout/closed_is_final");
    } else {
        assert!(r.is_pending() && new.tag == 1, "C12/close_sender.on_timeout/stays_closing_until_close_timer");
        // the only way back to Transmitting: the debounce timer, armed by on_datagram_received only
        assert!(
            new.transmitting == (old.transmitting || debounce_expired),
            "C12/close_sender.on_timeout/transmitting_again_iff_debounce_expired"
        );
        assert!(!(new.transmitting && !old.transmitting) || debounce_at.is_some(), "C12/close_sender.on_timeout/copy_only_after_datagram_armed_debounce");
        let (close_timer, debounce) = timers_of(&s);
        assert!(close_timer == timer_at(Some(close_at)), "C12/close_sender.on_timeout/close_timer_unchanged");
        assert!(
            debounce == if debounce_expired { Timer::default() } else { timer_at(debounce_at) },
            "C12/close_sender.on_timeout/expired_debounce_is_consumed"
        );
        assert!(new.packet == old.packet && new.packet_len == old.packet_len, "C12/close_sender.on_timeout/packet_unchanged");
        assert!(new.factor == old.factor && new.received == old.received, "C12/close_sender.on_timeout/limiter_counters_unchanged");
    }
    kani::cover!(close_expired, "reach:closed");
    kani::cover!(!close_expired && debounce_expired && !old.transmitting, "reach:idle_to_transmitting");
    kani::cover!(!close_expired && !debounce_expired && debounce_at.is_some(), "reach:debounce_pending");
    kani::cover!(!close_expired && debounce_at.is_none() && !old.transmitting, "reach:stays_idle");
    kani::cover!(close_at == now, "reach:exactly_at_expiry");
    kani::cover!(close_expired && close_at > now, "reach:within_timer_granularity");
}

//@ harness props=C12 tier=quick level=bounded timeout=300 bound="now: 2 concrete instants; rtt: any whole seconds < 2^32 + 3 concrete sub-second parts; state fully symbolic"
//@ fn CloseSender::on_datagram_received
//@ fn Limiter::on_datagram_received
#[kani::proof]
#[kani::unwind(7)]
fn vq_c12_close_sender_on_datagram_received() {
    let bytes: [u8; PKT] = kani::any();
    let close_at = any_ts();
    let debounce_at = any_opt_ts();
    let mut s = any_closing(bytes, close_at, debounce_at);
    let old = abs(&s);
    let now = concrete_now();
    let rtt = whole_seconds_duration();
    s.on_datagram_received(rtt, now);
    let new = abs(&s);
    let (close_timer, debounce) = timers_of(&s);
    // an incoming datagram never enables a copy by itself: that takes a later on_timeout
    assert!(new.tag == 1 && new.transmitting == old.transmitting, "C12/close_sender.on_datagram_received/transmission_state_unchanged");
    assert!(new.packet == old.packet && new.packet_len == old.packet_len, "C12/close_sender.on_datagram_received/packet_unchanged");
    assert!(close_timer == timer_at(Some(close_at)), "C12/close_sender.on_datagram_received/close_timer_unchanged");
    if debounce_at.is_some() {
        assert!(new.factor == old.factor && new.received == old.received && debounce == timer_at(debounce_at), "C12/limiter.on_datagram_received/ignored_while_debounce_armed");
    } else if old.received + 1 >= old.factor {
        // RFC 9000 10.2.1: "wait for a progressively increasing number of received packets"
        assert!(new.received == 0, "C12/limiter.on_datagram_received/threshold_resets_count");
        assert!(new.factor == old.factor.saturating_mul(2), "C12/limiter.on_datagram_received/threshold_doubles_saturating");
        assert!(debounce == timer_at(Some(now + rtt)), "C12/limiter.on_datagram_received/debounce_armed_for_one_rtt");
    } else {
        assert!(new.received == old.received + 1 && new.factor == old.factor && !debounce.is_armed(), "C12/limiter.on_datagram_received/counts_below_threshold");
    }
    assert!(new.factor >= 1 && new.received < new.factor, "C12/limiter.on_datagram_received/inv_preserved");
    kani::cover!(debounce_at.is_none() && new.received == 0 && old.factor == 128, "reach:factor_saturates");
    kani::cover!(debounce_at.is_none() && new.received == 0 && old.factor == 255, "reach:factor_saturated");
    kani::cover!(debounce_at.is_none() && new.received > 0, "reach:counting");
    kani::cover!(debounce_at.is_some(), "reach:ignored");
}

//@ harness props=C12 tier=quick level=full timeout=200
//@ fn CloseSender::on_timeout
//@ fn CloseSender::on_datagram_received
#[kani::proof]
#[kani::unwind(7)]
fn vq_c12_close_sender_idle_and_closed_are_inert() {
    let closed: bool = kani::any();
    let mut s = CloseSender { state: if closed { State::Closed } else { State::Idle } };
    let now = any_ts();
    let rtt = any_duration();
    let first: bool = kani::any();
    let r;
    if first {
        r = s.on_timeout(now);
        s.on_datagram_received(rtt, now);
    } else {
        s.on_datagram_received(rtt, now);
        r = s.on_timeout(now);
    }
    assert!(abs(&s).tag == if closed { 2 } else { 0 }, "C12/close_sender.closed/terminal_and_idle_inert");
    assert!(r.is_ready() == closed, "C12/close_sender.on_timeout/ready_iff_closed");
    assert!(!s.has_transmission_interest(), "C12/close_sender.closed/never_transmits");
    assert!(!timer::Provider::is_armed(&s), "C12/close_sender.closed/no_timers");
    kani::cover!(closed, "reach:closed");
    kani::cover!(!closed, "reach:idle");
}

// Bounded history: after close(), over any sequence of <= 5 events {timeout, incoming datagram, poll for
// transmission} on a fixed 500 ms time grid (event i happens at i * 500 ms; close timeout and rtt are
// chosen from small concrete sets so that expiry before / at / after every grid point occurs), every
// copy of the close packet after the first one consumes one arming of the debounce timer, and the
// debounce timer is armed by incoming datagrams only ("those only in response to incoming packets"):
// copies <= 1 + armings <= 1 + datagrams received.  No copy is sent once Closed.
//@ harness props=C12 tier=thorough level=bounded timeout=1200 bound="history of <= 5 events after close() on a 500 ms grid; rtt in {0, 400 ms, 1100 ms}; close timeout in {900 ms, 1600 ms, 60 s}"
//@ fn CloseSender::on_timeout
//@ fn CloseSender::on_datagram_received
//@ fn CloseSender::close
#[kani::proof]
#[kani::unwind(7)]
fn vq_c12_close_sender_history() {
    let t0 = s2n_quic_core::time::clock::testing::now();
    let mut s = CloseSender::default();
    let close_timeout = match kani::any::<u8>() % 3 {
        0 => Duration::from_millis(900),
        1 => Duration::from_millis(1600),
        _ => Duration::from_secs(60),
    };
    s.close(Bytes::from_static(&[1, 2, 3]), close_timeout, t0);
    let mut copies: u32 = 0;
    let mut datagrams: u32 = 0;
    let mut armings: u32 = 0;
    let mut i: u64 = 0;
    while i < 5 {
        let now = t0 + Duration::from_millis(500 * i);
        match kani::any::<u8>() % 3 {
            0 => {
                let _ = s.on_timeout(now);
            }
            1 => {
                let rtt = match kani::any::<u8>() % 3 {
                    0 => Duration::ZERO,
                    1 => Duration::from_millis(400),
                    _ => Duration::from_millis(1100),
                };
                let was_armed = timers_of(&s).1.is_armed();
                s.on_datagram_received(rtt, now);
                datagrams += 1;
                if !was_armed && timers_of(&s).1.is_armed() {
                    armings += 1;
                }
            }
            _ => {
                // ConnectionImpl::on_transmit: a copy goes out iff interest is expressed; the effect of
                // Transmission::write_payload on the state is Transmitting -> Idle
                // (C12/close_sender.write_payload/transmitting_to_idle)
                if s.has_transmission_interest() {
                    if let State::Closing { transmission, .. } = &mut s.state {
                        *transmission = TransmissionState::Idle;
                    }
                    copies += 1;
                }
            }
        }
        assert!(copies <= 1 + armings, "C12/close_sender.history/every_further_copy_consumes_a_debounce_arming");
        assert!(armings <= datagrams, "C12/close_sender.history/debounce_armed_only_by_incoming_datagrams");
        assert!(copies <= 1 + datagrams, "C12/close_sender.history/copies_le_one_plus_datagrams_received");
        assert!(abs(&s).tag != 0, "C12/close_sender.history/never_back_to_idle");
        assert!(abs(&s).tag != 2 || !s.has_transmission_interest(), "C12/close_sender.history/closed_never_transmits");
        i += 1;
    }
    kani::cover!(copies == 2, "reach:second_copy");
    kani::cover!(abs(&s).tag == 2, "reach:closed");
    kani::cover!(abs(&s).tag == 1 && datagrams == 5, "reach:five_datagrams");
    kani::cover!(true, "reach:end");
}
