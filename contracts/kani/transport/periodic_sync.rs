//@ inject crate=transport src=quic/s2n-quic-transport/src/sync/periodic_sync.rs
// Contract harnesses for PeriodicSync, the component that (re)sends DATA_BLOCKED / STREAM_DATA_BLOCKED /
// STREAMS_BLOCKED frames.  Property C12 ("no STREAM_DATA_BLOCKED frame for the stream follows its
// RESET_STREAM") rests on `stop_sync()` making the synchroniser inert until delivery is requested again:
// no transmission interest, no armed timer, and neither a timeout nor an ack/loss report can revive it.
use super::*;
use s2n_quic_core::{
    packet::number::{PacketNumber, PacketNumberSpace},
    time::{clock::testing as time, timer::Provider as _},
    varint::VarInt,
};
use crate::transmission::interest::Provider as _;

#[derive(Debug, Default)]
struct NoWriter;
impl ValueToFrameWriter<VarInt> for NoWriter {
    fn write_value_as_frame<W: WriteContext>(&self, _value: VarInt, _stream_id: StreamId, _context: &mut W) -> Option<PacketNumber> {
        None
    }
}

fn ts(ms: u16) -> Timestamp {
    time::now() + Duration::from_millis(ms as u64)
}

/// arbitrary PeriodicSync: any delivery state, timer armed at an arbitrary time or not, any backoff
fn any_sync() -> PeriodicSync<VarInt, NoWriter> {
    let mut s: PeriodicSync<VarInt, NoWriter> = PeriodicSync::new();
    let latest: u32 = kani::any();
    let val: u32 = kani::any();
    kani::assume(val <= latest);
    s.latest_value = VarInt::from_u32(latest);
    let v = VarInt::from_u32(val);
    s.delivery = match kani::any::<u8>() % 7 {
        0 => DeliveryState::NotRequested,
        1 => DeliveryState::Requested(v),
        2 => DeliveryState::Lost(v),
        3 => DeliveryState::InFlight(InFlightDelivery {
            value: v,
            packet: InflightPacketInfo {
                packet_nr: PacketNumberSpace::ApplicationData.new_packet_number(VarInt::from_u8(kani::any())),
                timestamp: ts(kani::any()),
            },
        }),
        4 => DeliveryState::Delivered(v),
        5 => DeliveryState::Cancelled(Some(v)),
        _ => DeliveryState::Cancelled(None),
    };
    if kani::any() {
        s.delivery_timer.set(ts(kani::any()));
    }
    s.delivered = kani::any();
    s.transmission_backoff.set(kani::any());
    s
}

fn inert(s: &PeriodicSync<VarInt, NoWriter>) -> bool {
    !s.has_transmission_interest() && !s.delivery_timer.is_armed() && s.delivery.is_cancelled()
}

//@ harness props=C12 tier=quick level=full timeout=240
//@ fn PeriodicSync::stop_sync
//@ fn PeriodicSync::on_timeout
//@ fn PeriodicSync::on_packet_ack
//@ fn PeriodicSync::on_packet_loss
//@ fn PeriodicSync::skip_delivery
#[kani::proof]
#[kani::unwind(3)]
fn vq_c12_periodic_sync_stop_is_final() {
    let mut s = any_sync();
    let latest = s.latest_value;
    s.stop_sync();
    assert!(!s.has_transmission_interest(), "C12/periodic_sync.stop_sync/no_transmission_interest");
    assert!(!s.delivery_timer.is_armed(), "C12/periodic_sync.stop_sync/timer_cancelled");
    assert!(s.delivery.is_cancelled(), "C12/periodic_sync.stop_sync/delivery_cancelled");
    assert!(!s.has_delivered(), "C12/periodic_sync.stop_sync/delivered_flag_cleared");
    assert!(s.latest_value == latest, "C12/periodic_sync.stop_sync/latest_value_unchanged");
    // no later event except a new request_delivery can revive it
    let now = ts(kani::any());
    let pn = PacketNumberSpace::ApplicationData.new_packet_number(VarInt::from_u8(kani::any()));
    match kani::any::<u8>() % 4 {
        0 => s.on_timeout(now),
        1 => s.on_packet_ack(&pn),
        2 => s.on_packet_loss(&pn),
        _ => s.skip_delivery(now),
    }
    assert!(inert(&s), "C12/periodic_sync.stop_sync/stays_inert_under_timeout_ack_loss_skip");
    kani::cover!(true, "reach:end");
}

//@ harness props=C12,C03 tier=quick level=full timeout=240
//@ fn PeriodicSync::request_delivery
//@ fn PeriodicSync::on_timeout
#[kani::proof]
#[kani::unwind(3)]
fn vq_c12_periodic_sync_request_and_timeout() {
    let mut s = any_sync();
    let old_cancelled_or_idle = matches!(s.delivery, DeliveryState::NotRequested | DeliveryState::Cancelled(_));
    let val: u32 = kani::any();
    kani::assume(VarInt::from_u32(val) >= s.latest_value); // debug_assert!(value >= latest_value): caller obligation
    s.request_delivery(VarInt::from_u32(val));
    assert!(s.latest_value == VarInt::from_u32(val), "C03/periodic_sync.request_delivery/latest_is_value");
    assert!(!old_cancelled_or_idle || s.has_transmission_interest(), "C03/periodic_sync.request_delivery/idle_or_cancelled_becomes_requested");
    // a timeout only has an effect when the timer was armed and has expired; it then requests the latest value
    let mut t = any_sync();
    let armed = t.delivery_timer.is_armed();
    let before_interest = t.has_transmission_interest();
    let before_cancelled = t.delivery.is_cancelled();
    let now = ts(kani::any());
    t.on_timeout(now);
    assert!(armed || (t.has_transmission_interest() == before_interest && t.delivery.is_cancelled() == before_cancelled),
        "C12/periodic_sync.on_timeout/no_effect_without_armed_timer");
    kani::cover!(armed && !before_interest && t.has_transmission_interest(), "reach:timer_rearms_delivery");
    kani::cover!(true, "reach:end");
}
