//@ inject crate=transport src=quic/s2n-quic-transport/src/sync/data_sender.rs
// Contract harnesses for the State / FinState machine of DataSender (property C12: "no stream data is
// sent at or beyond the final size once a FIN or RESET_STREAM has announced it, the announced final
// size never changes ..., no STREAM ... frame for the stream follows its RESET_STREAM").
//
// DataSender is generic: the harness instantiates it with a recording flow controller and a recording
// FrameWriter (what `write_chunk` / `write_fin` are asked to put on the wire is exactly what the
// StreamChunkToFrameWriter of stream/send_stream.rs turns into STREAM frames) and a stack-only write
// context.  IntervalSets / the chunk queue are kept empty or at one element (DESIGN 7).
use super::*;
#[allow(dead_code, unused_variables)]
mod spec {
    include!("../../spec/stream_send.rs");
}
use spec::*;
use crate::transmission::interest::Provider as _;
include!("_data_sender_mocks.rs");

/// `StreamError::stream_reset()` records `core::panic::Location::caller()`; Kani does not support the
/// `caller_location` intrinsic ("caller_location is not currently supported by Kani").  The harnesses
/// that need a `State::Cancelled(StreamError)` value stub exactly that one std function by a location
/// evaluated at compile time (assumption A-loc: the recorded source location is irrelevant to DataSender).
fn location_stub<'a>() -> &'static core::panic::Location<'static>
where
    'a: 'a, // early-bound, to match the generics of `impl<'a> Location<'a> { fn caller() }`
{
    const HERE: &core::panic::Location<'static> = core::panic::Location::caller();
    HERE
}

// ---- states -----------------------------------------------------------------------------------------
/// 0 Pending, 1 InFlight(p), 2 Lost, 3 Acknowledged
fn any_fin_state(p: u64) -> FinState {
    match kani::any::<u8>() % 4 {
        0 => FinState::Pending,
        1 => FinState::InFlight(pn(p)),
        2 => FinState::Lost,
        _ => FinState::Acknowledged,
    }
}

fn fin_code(f: FinState) -> (u8, u64) {
    match f {
        FinState::Pending => (0, 0),
        FinState::InFlight(p) => (1, p.as_u64()),
        FinState::Lost => (2, 0),
        FinState::Acknowledged => (3, 0),
    }
}

/// 0 Sending, 1 Finishing(f), 2 Finished, 3 Cancelled
fn any_state(p: u64) -> State {
    match kani::any::<u8>() % 4 {
        0 => State::Sending,
        1 => State::Finishing(any_fin_state(p)),
        2 => State::Finished,
        _ => State::Cancelled(StreamError::stream_reset(VarInt::from_u8(7).into())),
    }
}

fn state_code(s: State) -> (u8, u8, u64) {
    match s {
        State::Sending => (0, 0, 0),
        State::Finishing(f) => (1, fin_code(f).0, fin_code(f).1),
        State::Finished => (2, 0, 0),
        State::Cancelled(_) => (3, 0, 0),
    }
}

type Sender = DataSender<Fc, Fw>;

/// a sender without buffered data in an arbitrary state (the representation invariant
/// `check_integrity` for empty `pending`: nothing lost, nothing in flight, head == total_len ==
/// transmission_offset); `Finished` / `Cancelled` have a finished flow controller (stop_sending /
/// on_packet_ack establish it, asserted below)
fn any_empty_sender(p: u64) -> Sender {
    let mut s = Sender::new(Fc { window: VarInt::MAX, blocked: kani::any(), finished: false, cleared: 0, last_end: None }, 1024);
    s.state = any_state(p);
    if matches!(s.state, State::Finished | State::Cancelled(_)) {
        s.transmissions.flow_controller.finished = true;
    }
    s
}

/// abstraction for contracts/spec/stream_send.rs
fn snd<W: FrameWriter>(s: &DataSender<Fc, W>) -> Snd {
    Snd { st: state_code(s.state()).0 as i128, total: s.total_enqueued_len().as_u64() as i128 }
}

/// what none of the fin-bit operations may change on an empty sender
fn data_frame(s: &Sender) -> (u64, u64, bool, bool, u64, bool) {
    (
        s.buffer.total_len().as_u64(),
        s.buffer.head().as_u64(),
        s.pending.is_empty(),
        s.lost.is_empty(),
        s.transmission_offset.as_u64(),
        s.transmissions.is_empty(),
    )
}

//@ harness props=C12 tier=quick level=full timeout=120
//@ fn FinState::on_packet_ack
//@ fn FinState::on_packet_loss
//@ fn FinState::on_transmit
#[kani::proof]
#[kani::unwind(4)]
fn vq_c12_data_sender_fin_state_machine() {
    let p: u64 = kani::any();
    let lo: u64 = kani::any();
    let hi: u64 = kani::any();
    let q: u64 = kani::any();
    kani::assume(p <= MAXV && lo <= hi && hi <= MAXV && q <= MAXV);
    let old = any_fin_state(p);
    let set = s2n_quic_core::packet::number::PacketNumberRange::new(pn(lo), pn(hi));
    let in_set = lo <= p && p <= hi;
    let (oc, op) = fin_code(old);

    let mut a = old;
    a.on_packet_ack(&set);
    let expect_ack = if oc == 1 && in_set { (3, 0) } else { (oc, op) };
    assert!(fin_code(a) == expect_ack, "C12/fin_state.on_packet_ack/inflight_and_acked_becomes_acknowledged_else_unchanged");

    let mut l = old;
    let lost = l.on_packet_loss(&set);
    let expect_loss = if oc == 1 && in_set { (2, 0) } else { (oc, op) };
    assert!(fin_code(l) == expect_loss, "C12/fin_state.on_packet_loss/inflight_and_lost_becomes_lost_else_unchanged");
    assert!(lost == (oc == 1 && in_set), "C12/fin_state.on_packet_loss/returns_true_iff_fin_lost");

    let mut t = old;
    t.on_transmit(pn(q));
    let expect_tx = if oc == 0 || oc == 2 { (1, q) } else { (oc, op) };
    assert!(fin_code(t) == expect_tx, "C12/fin_state.on_transmit/pending_or_lost_becomes_inflight_else_unchanged");
    // an acknowledged FIN is final: nothing moves it
    assert!(oc != 3 || (fin_code(a).0 == 3 && fin_code(l).0 == 3 && fin_code(t).0 == 3), "C12/fin_state/acknowledged_is_terminal");
    assert!(old.is_acknowledged() == (oc == 3), "C12/fin_state.is_acknowledged/iff");
    kani::cover!(oc == 1 && in_set, "reach:inflight_in_set");
    kani::cover!(oc == 1 && !in_set, "reach:inflight_not_in_set");
    kani::cover!(oc == 2, "reach:lost");
    kani::cover!(p == MAXV && hi == MAXV, "reach:largest_pn");
}

//@ harness props=C12 tier=quick level=full timeout=300
//@ fn DataSender::finish
//@ fn DataSender::new
//@ fn DataSender::new_finished
#[kani::proof]
#[kani::unwind(10)] // packet::number::Map::default() fills 8 slots in a loop
#[kani::stub(core::panic::Location::caller, location_stub)]
fn vq_c12_data_sender_finish() {
    let p: u64 = kani::any();
    kani::assume(p <= MAXV);
    let mut s = any_empty_sender(p);
    let old = state_code(s.state);
    let f0 = data_frame(&s);
    let fc_finished = s.flow_controller().finished;
    let a0 = snd(&s);
    assert!(snd_inv(a0), "C12/data_sender.builder/inv");
    s.finish();
    assert!(snd_finish_post(a0, snd(&s)) && snd_inv(snd(&s)), "C12/data_sender.finish/spec_post");
    let new = state_code(s.state);
    // Sending -> Finishing(Pending): the final size is now total_enqueued_len(); every other state is left alone
    let expect = if old.0 == 0 { (1, 0, 0) } else { old };
    assert!(new == expect, "C12/data_sender.finish/sending_becomes_finishing_pending_else_unchanged");
    assert!(data_frame(&s) == f0, "C12/data_sender.finish/total_len_and_data_unchanged");
    assert!(s.flow_controller().finished == fc_finished, "C12/data_sender.finish/flow_controller_untouched");
    // push()'s precondition (`debug_assert_eq!(state, Sending)`) can never hold again: the final size is frozen
    assert!(s.state != State::Sending, "C12/data_sender.finish/push_precondition_no_longer_holds");
    s.finish();
    assert!(state_code(s.state) == new, "C12/data_sender.finish/idempotent");
    // fresh senders
    let n = Sender::new(Fc::default(), 7);
    assert!(state_code(n.state()) == (0, 0, 0) && n.total_enqueued_len().as_u64() == 0 && n.is_empty(), "C12/data_sender.new/sending_and_empty");
    let nf = Sender::new_finished(Fc::default(), 7);
    assert!(state_code(nf.state()) == (2, 0, 0), "C12/data_sender.new_finished/finished");
    // a writer without FIN on the wire (CRYPTO): finish() needs no acknowledgement of a FIN
    let mut c: DataSender<Fc, FwNoFin> = DataSender::new(Fc::default(), 7);
    c.finish();
    assert!(state_code(c.state()) == (1, 3, 0), "C12/data_sender.finish/without_fin_frames_is_acknowledged_at_once");
    kani::cover!(old.0 == 0, "reach:sending");
    kani::cover!(old.0 == 1 && old.1 == 1, "reach:finishing_inflight");
    kani::cover!(old.0 == 3, "reach:cancelled");
}

//@ harness props=C12 tier=quick level=full timeout=300
//@ fn DataSender::on_packet_ack
//@ fn DataSender::on_packet_loss
#[kani::proof]
#[kani::unwind(10)] // packet::number::Map::default() fills 8 slots in a loop
#[kani::stub(core::panic::Location::caller, location_stub)]
fn vq_c12_data_sender_fin_ack_and_loss() {
    let p: u64 = kani::any();
    let lo: u64 = kani::any();
    let hi: u64 = kani::any();
    kani::assume(p <= MAXV && lo <= hi && hi <= MAXV);
    let set = s2n_quic_core::packet::number::PacketNumberRange::new(pn(lo), pn(hi));
    let in_set = lo <= p && p <= hi;
    let is_ack: bool = kani::any();
    let mut s = any_empty_sender(p);
    let old = state_code(s.state);
    let f0 = data_frame(&s);
    let blocked0 = s.flow_controller().blocked;
    let finished0 = s.flow_controller().finished;
    let a0 = snd(&s);
    if is_ack {
        s.on_packet_ack(&set);
        let new = state_code(s.state);
        // with no data outstanding: FIN in flight and acknowledged, or already acknowledged => Finished
        let expect = if old.0 == 1 && ((old.1 == 1 && in_set) || old.1 == 3) { (2, 0, 0) } else { old };
        assert!(new == expect, "C12/data_sender.on_packet_ack/finished_iff_fin_acknowledged_and_no_data_outstanding");
        assert!(s.flow_controller().finished == (finished0 || new != old), "C12/data_sender.on_packet_ack/flow_controller_finished_with_stream");
        assert!(s.flow_controller().cleared == 0 && s.flow_controller().blocked == blocked0, "C12/data_sender.on_packet_ack/blocked_flag_untouched");
    } else {
        s.on_packet_loss(&set);
        let new = state_code(s.state);
        let fin_lost = old.0 == 1 && old.1 == 1 && in_set;
        let expect = if fin_lost { (1, 2, 0) } else { old };
        assert!(new == expect, "C12/data_sender.on_packet_loss/fin_lost_iff_inflight_and_in_set");
        // a lost FIN is retransmitted: no longer blocked on flow control, interest = lost data
        assert!(s.flow_controller().cleared == (if fin_lost { 1 } else { 0 }), "C12/data_sender.on_packet_loss/clears_blocked_iff_lost");
        assert!(!fin_lost || s.get_transmission_interest() == transmission::Interest::LostData, "C12/data_sender.on_packet_loss/lost_fin_wants_retransmission");
        assert!(s.flow_controller().finished == finished0, "C12/data_sender.on_packet_loss/flow_controller_not_finished");
    }
    assert!(snd_ack_loss_post(a0, snd(&s)) && snd_inv(snd(&s)), "C12/data_sender.fin_ack_loss/spec_post");
    assert!(data_frame(&s) == f0, "C12/data_sender.fin_ack_loss/total_len_and_data_unchanged");
    // Finished and Cancelled are terminal for acknowledgements and losses
    assert!(!(old.0 == 2 || old.0 == 3) || state_code(s.state) == old, "C12/data_sender.fin_ack_loss/finished_and_cancelled_are_terminal");
    kani::cover!(is_ack && old.0 == 1 && old.1 == 1 && in_set, "reach:fin_acked");
    kani::cover!(is_ack && old.0 == 1 && old.1 == 1 && !in_set, "reach:other_packet_acked");
    kani::cover!(!is_ack && old.0 == 1 && old.1 == 1 && in_set, "reach:fin_lost");
    kani::cover!(old.0 == 3, "reach:cancelled");
    kani::cover!(old.0 == 0, "reach:sending");
}

//@ harness props=C12 tier=quick level=full timeout=300
//@ fn DataSender::stop_sending
#[kani::proof]
#[kani::unwind(10)] // packet::number::Map::default() fills 8 slots in a loop
#[kani::stub(core::panic::Location::caller, location_stub)]
fn vq_c12_data_sender_stop_sending() {
    // sender without buffered data, any state
    let p: u64 = kani::any();
    kani::assume(p <= MAXV);
    let s = any_empty_sender(p);
    let was_finished = state_code(s.state).0 == 2;
    let f0 = data_frame(&s);
    let s = stop_sending_contract(s);
    assert!(!was_finished || (state_code(s.state).0 == 2 && data_frame(&s) == f0), "C12/data_sender.stop_sending/finished_is_unchanged");
    kani::cover!(was_finished, "reach:finished");
}

fn stop_sending_contract(mut s: Sender) -> Sender {
    let old = state_code(s.state);
    let f0 = data_frame(&s);
    let a0 = snd(&s);
    s.stop_sending(StreamError::stream_reset(VarInt::from_u8(9).into()));
    assert!(snd_stop_post(a0, snd(&s)) && snd_inv(snd(&s)), "C12/data_sender.stop_sending/spec_post");
    let new = state_code(s.state);
    let _ = f0;
    if old.0 != 2 {
        assert!(new.0 == 3, "C12/data_sender.stop_sending/becomes_cancelled");
        assert!(matches!(s.state(), State::Cancelled(StreamError::StreamReset { .. })), "C12/data_sender.stop_sending/keeps_the_error");
        // Cancelled => nothing left that could become a STREAM frame
        assert!(s.is_empty() && s.buffer.enqueued_len().as_u64() == 0 && s.buffer.head().as_u64() == 0, "C12/data_sender.stop_sending/buffer_empty");
        assert!(s.pending.is_empty() && s.lost.is_empty(), "C12/data_sender.stop_sending/pending_and_lost_empty");
        assert!(s.transmissions.is_empty() && !s.is_inflight(), "C12/data_sender.stop_sending/nothing_in_flight");
        assert!(s.transmission_offset.as_u64() == 0 && s.total_enqueued_len().as_u64() == 0, "C12/data_sender.stop_sending/offsets_reset");
        assert!(s.flow_controller().finished, "C12/data_sender.stop_sending/flow_controller_finished");
        assert!(!s.has_transmission_interest(), "C12/data_sender.stop_sending/no_transmission_interest");
    }
    kani::cover!(old.0 == 0, "reach:sending");
    s
}

//@ harness props=C12 tier=thorough level=bounded timeout=2400 bound="1 buffered chunk of 2 bytes, 1 pending interval"
//@ fn DataSender::stop_sending
//@ fn DataSender::push
#[kani::proof]
#[kani::unwind(10)] // packet::number::Map::default() fills 8 slots in a loop
#[kani::stub(core::panic::Location::caller, location_stub)]
fn vq_c12_data_sender_with_data_stop_sending() {
    // some enqueued, untransmitted data (only legal while Sending): measured > 300 s, hence thorough
    let mut s = Sender::new(Fc { window: VarInt::MAX, blocked: kani::any(), finished: false, cleared: 0, last_end: None }, 1024);
    let b0 = snd(&s);
    assert!(snd_push_pre(b0), "C12/data_sender.push/only_while_sending");
    s.push(Bytes::from_static(&[0xAA, 0xBB]));
    assert!(snd_push_post(b0, 2, snd(&s)), "C12/data_sender.push/spec_post");
    assert!(s.total_enqueued_len().as_u64() == 2 && !s.is_empty(), "C12/data_sender.push/enqueues");
    assert!(!s.pending.is_empty(), "C12/data_sender.push/pending_tracks_data");
    let s = stop_sending_contract(s);
    assert!(s.is_empty(), "C12/data_sender.stop_sending/data_dropped");
    kani::cover!(true, "reach:end_with_data");
}

//@ harness props=C12 tier=quick level=bounded timeout=300 bound="no buffered data; FIN-only transmission"
//@ fn DataSender::on_transmit
//@ fn Transmissions::transmit_fin
//@ fn State::can_transmit_fin
#[kani::proof]
#[kani::unwind(10)] // packet::number::Map::default() fills 8 slots in a loop
#[kani::stub(core::panic::Location::caller, location_stub)]
fn vq_c12_data_sender_transmit_fin_only() {
    let p: u64 = kani::any();
    let q: u64 = kani::any();
    kani::assume(p <= MAXV && q <= MAXV);
    let mut s = any_empty_sender(p);
    let old = state_code(s.state);
    let blocked = s.flow_controller().blocked;
    let f0 = data_frame(&s);
    unsafe { REC.chunks = 0; REC.fins = 0; REC.fin_offset = u64::MAX; }
    let constraint = any_constraint();
    let mut ctx = Ctx { cap: 100, constraint, pn: q };
    let a0 = snd(&s);
    let r = s.on_transmit((), &mut ctx);
    assert!(snd_transmit_post(a0, snd(&s)), "C12/data_sender.on_transmit/spec_state_class_and_total_unchanged");
    assert!(rec().fins == 0 || snd_fin_frame_ok(a0, rec().fin_offset as i128), "C12/data_sender.on_transmit/spec_fin_frame_ok");
    let new = state_code(s.state);
    // independent reading: a FIN frame goes out iff one is owed (Pending: new data, needs flow-control
    // not blocked and constraint None; Lost: a retransmission, allowed unless amplification/congestion limited)
    let owed_new = old.0 == 1 && old.1 == 0 && !blocked && constraint == transmission::Constraint::None;
    let owed_lost = old.0 == 1 && old.1 == 2 && !blocked
        && (constraint == transmission::Constraint::None || constraint == transmission::Constraint::RetransmissionOnly);
    let lost_but_blocked = old.0 == 1 && old.1 == 2 && blocked
        && (constraint == transmission::Constraint::None || constraint == transmission::Constraint::RetransmissionOnly);
    assert!(rec().chunks == 0, "C12/data_sender.on_transmit/no_data_no_stream_data");
    assert!((rec().fins == 1) == (owed_new || owed_lost) && rec().fins <= 1, "C12/data_sender.on_transmit/fin_written_iff_owed");
    assert!(rec().fins == 0 || rec().fin_offset == f0.0, "C12/data_sender.on_transmit/fin_offset_is_total_len");
    let expect = if owed_new || owed_lost { (1, 1, q) } else { old };
    assert!(new == expect, "C12/data_sender.on_transmit/fin_inflight_with_packet_number_iff_written");
    assert!(r.is_ok() || lost_but_blocked, "C12/data_sender.on_transmit/error_only_for_blocked_lost_fin");
    assert!(data_frame(&s) == f0, "C12/data_sender.on_transmit/total_len_and_data_unchanged");
    // Sending (no final size yet), Finished, Cancelled, FIN in flight or acknowledged: nothing is written
    assert!(!(old.0 != 1 || old.1 == 1 || old.1 == 3) || rec().fins == 0, "C12/data_sender.on_transmit/no_fin_unless_pending_or_lost");
    kani::cover!(owed_new, "reach:first_fin");
    kani::cover!(owed_lost, "reach:retransmitted_fin");
    kani::cover!(lost_but_blocked, "reach:lost_fin_blocked");
    kani::cover!(old.0 == 1 && old.1 == 0 && constraint == transmission::Constraint::CongestionLimited, "reach:pending_but_congestion_limited");
    kani::cover!(old.0 == 3, "reach:cancelled");
}

//@ harness props=C12,C03 tier=thorough level=bounded timeout=1200 bound="one buffered chunk of 2 bytes; capacity and flow-control window symbolic (u8)"
//@ fn DataSender::on_transmit
//@ fn DataSender::push
//@ fn DataSender::finish
//@ fn Transmissions::transmit_interval
#[kani::proof]
#[kani::unwind(10)] // packet::number::Map::default() fills 8 slots in a loop
fn vq_c12_data_sender_transmit_data_then_fin() {
    // push 2 bytes, optionally finish, transmit once with symbolic capacity / flow-control window
    let q: u64 = kani::any();
    kani::assume(q <= MAXV);
    let window: u8 = kani::any();
    let mut s = Sender::new(Fc { window: VarInt::from_u8(window), blocked: false, finished: false, cleared: 0, last_end: None }, 1024);
    s.push(Bytes::from_static(&[0xAA, 0xBB]));
    let finished: bool = kani::any();
    if finished {
        s.finish();
    }
    let total = s.total_enqueued_len().as_u64();
    assert!(total == 2, "C12/data_sender.push/total_len_counts_bytes");
    unsafe { REC.chunks = 0; REC.fins = 0; REC.fin_offset = u64::MAX; REC.last_chunk_is_fin = false; REC.trim = 0; }
    let cap: u8 = kani::any();
    let mut ctx = Ctx { cap: cap as usize, constraint: transmission::Constraint::None, pn: q };
    let a0 = snd(&s);
    let r = s.on_transmit((), &mut ctx);
    let rcd = rec();
    assert!(snd_transmit_post(a0, snd(&s)), "C12/data_sender.on_transmit/spec_state_class_and_total_unchanged_with_data");
    assert!(rcd.chunks == 0 || snd_chunk_ok(a0, rcd.last_offset as i128, rcd.last_len as i128, rcd.last_chunk_is_fin), "C12/data_sender.on_transmit/spec_chunk_ok");
    assert!(rcd.fins == 0 || snd_fin_frame_ok(a0, rcd.fin_offset as i128), "C12/data_sender.on_transmit/spec_fin_frame_ok_with_data");
    // what may be written: at most one chunk starting at 0, inside [0, total), inside the window and the capacity
    assert!(rcd.chunks <= 1, "C12/data_sender.on_transmit/one_chunk_for_one_interval");
    if rcd.chunks == 1 {
        assert!(rcd.last_offset == 0 && rcd.last_len >= 1, "C12/data_sender.on_transmit/chunk_starts_at_transmission_offset");
        assert!(rcd.last_offset + rcd.last_len <= total, "C12/data_sender.on_transmit/no_data_beyond_total_len");
        assert!(rcd.last_offset + rcd.last_len <= window as u64, "C03/data_sender.on_transmit/chunk_end_within_flow_control_window");
        assert!(rcd.last_len <= cap as u64, "C12/data_sender.on_transmit/chunk_fits_capacity");
        assert!(rcd.last_len == core::cmp::min(2, core::cmp::min(cap as u64, window as u64)), "C12/data_sender.on_transmit/chunk_len_is_min_of_data_capacity_window");
        // FIN bit on a data frame only when the sender is finishing and the frame ends at total_len
        assert!(rcd.last_chunk_is_fin == (finished && rcd.last_offset + rcd.last_len == total), "C12/data_sender.on_transmit/fin_bit_iff_finishing_and_ends_at_total_len");
        assert!(s.transmission_offset.as_u64() == rcd.last_len, "C12/data_sender.on_transmit/transmission_offset_advances_by_len");
        assert!(s.is_inflight(), "C12/data_sender.on_transmit/in_flight_after_write");
    } else {
        assert!(cap == 0 || window == 0, "C12/data_sender.on_transmit/nothing_written_only_without_capacity_or_window");
        assert!(s.transmission_offset.as_u64() == 0, "C12/data_sender.on_transmit/transmission_offset_unchanged_without_write");
    }
    // a separate FIN-only frame: only when finishing, only at total_len, only after all data went out in this or an earlier call
    assert!(rcd.fins <= 1 && (rcd.fins == 0 || (finished && rcd.fin_offset == total)), "C12/data_sender.on_transmit/fin_only_at_total_len");
    assert!(rcd.fins == 0 || !rcd.last_chunk_is_fin, "C12/data_sender.on_transmit/fin_sent_once_per_packet");
    if finished {
        let fin_sent = rcd.fins == 1 || (rcd.chunks == 1 && rcd.last_chunk_is_fin);
        assert!(state_code(s.state) == if fin_sent { (1, 1, q) } else { (1, 0, 0) }, "C12/data_sender.on_transmit/fin_inflight_iff_fin_sent");
    } else {
        assert!(state_code(s.state) == (0, 0, 0) && rcd.fins == 0 && !rcd.last_chunk_is_fin, "C12/data_sender.on_transmit/no_fin_while_sending");
    }
    assert!(s.total_enqueued_len().as_u64() == total, "C12/data_sender.on_transmit/total_len_unchanged");
    let _ = r;
    kani::cover!(rcd.chunks == 1 && rcd.last_len == 1, "reach:partial_chunk");
    kani::cover!(rcd.chunks == 1 && rcd.last_chunk_is_fin, "reach:fin_on_data_frame");
    kani::cover!(rcd.chunks == 1 && finished && !rcd.last_chunk_is_fin, "reach:finishing_but_partial");
    kani::cover!(rcd.chunks == 0 && window == 0, "reach:blocked_by_window");
    kani::cover!(rcd.fins == 1, "reach:separate_fin_frame");
}

//@ harness props=C12 tier=thorough level=bounded timeout=1200 bound="sender without buffered data; one operation after stop_sending"
//@ fn DataSender::on_transmit
//@ fn DataSender::stop_sending
//@ fn DataSender::on_packet_ack
//@ fn DataSender::on_packet_loss
//@ fn DataSender::finish
#[kani::proof]
#[kani::unwind(10)] // packet::number::Map::default() fills 8 slots in a loop
#[kani::stub(core::panic::Location::caller, location_stub)]
fn vq_c12_data_sender_cancelled_is_inert() {
    // after RESET_STREAM (stop_sending) nothing is written and nothing moves the sender again
    let p: u64 = kani::any();
    kani::assume(p <= MAXV);
    let mut s = any_empty_sender(p);
    kani::assume(state_code(s.state).0 != 2);
    s.stop_sending(StreamError::stream_reset(VarInt::from_u8(9).into()));
    assert!(state_code(s.state).0 == 3, "C12/data_sender.cancelled/builder");
    let f0 = data_frame(&s);
    unsafe { REC.chunks = 0; REC.fins = 0; }
    let which: u8 = kani::any();
    kani::assume(which < 5);
    match which {
        0 => {
            let mut ctx = Ctx { cap: 100, constraint: any_constraint(), pn: 3 };
            let r = s.on_transmit((), &mut ctx);
            assert!(r.is_ok(), "C12/data_sender.on_transmit/cancelled_ok");
        }
        1 => s.stop_sending(StreamError::stream_reset(VarInt::from_u8(1).into())),
        2 => s.on_packet_ack(&pn(p)),
        3 => s.on_packet_loss(&pn(p)),
        _ => s.finish(),
    }
    assert!(rec().chunks == 0 && rec().fins == 0, "C12/data_sender.on_transmit/cancelled_writes_no_stream_frame");
    assert!(state_code(s.state).0 == 3 && s.is_empty() && data_frame(&s) == f0, "C12/data_sender.stop_sending/cancelled_is_terminal");
    assert!(!s.has_transmission_interest(), "C12/data_sender.cancelled/never_has_transmission_interest");
    kani::cover!(which == 0, "reach:on_transmit");
    kani::cover!(which == 4, "reach:finish");
}
