//@ inject crate=transport src=quic/s2n-quic-transport/src/stream/controller/local_initiated.rs
// Accessors for the stream-manager glue harnesses (mgr_controller.rs, mgr_manager.rs): the counters of
// `LocalInitiated` are private to this module.  No harness here.
use super::*;

impl<L: LocalLimits, OpenNotify: OpenNotifyBehavior> LocalInitiated<L, OpenNotify> {
    /// [opened, closed, peer cumulative limit, local concurrency limit, parked wakers]
    pub(crate) fn verif_view(&self) -> [u64; 5] {
        [
            self.opened_streams.as_u64(),
            self.closed_streams.as_u64(),
            self.peer_cumulative_stream_limit.as_u64(),
            self.max_local_limit.as_varint().as_u64(),
            self.wakers.len() as u64,
        ]
    }
    /// builder access for arbitrary-state harnesses (callers establish closed <= opened <= peer limit and
    /// opened - closed <= local limit, i.e. `check_integrity()` plus the C03 invariant)
    pub(crate) fn verif_set_counts(&mut self, opened: u64, closed: u64) {
        self.opened_streams = VarInt::new(opened).unwrap();
        self.closed_streams = VarInt::new(closed).unwrap();
        self.check_integrity();
    }
}
