// NOT ACHIEVED -- kept for whoever continues (this file is neither injected nor included: names starting with
// `_` are skipped by lib/registry.py).
//
// Attempted thorough-tier harnesses for ReceiveStream::{on_data, on_reset} (C04 error mapping:
// InvalidFin -> FINAL_SIZE_ERROR, OutOfRange / offset overflow / limits -> FLOW_CONTROL_ERROR, RESET_STREAM final
// size check).  They were appended to contracts/kani/transport/rsfc.rs (host: stream/receive_stream.rs) and use its
// helpers (v, MAXV, spec::*).  The payloads are empty so that the Reassembler never allocates a slot.
//
// Result: all three ran into their timeout without reporting a single check -- 1500 s each (no result, CBMC still in
// symbolic execution), and the smallest one (vq_c04_rs_on_data_offset_overflow, which returns before the buffer is
// touched) again 700 s after adding mem::forget() for the stream and the events (to keep Waker/BytesMut drop glue,
// i.e. vtable function-pointer calls, out of the program).  The cost is therefore in ReceiveStream itself
// (ReceiveStream::new + on_data pull in Reassembler/VecDeque<Slot>/BytesMut, OnceSync, Option<(Waker, usize)>,
// StreamEvents), not in the checks under contract.  What IS discharged instead: the flow-control checks on the real
// ReceiveStreamFlowController (rsfc.rs), the final-size rules on the real Cursors (core/cursors.rs), the error-code
// constants; the two match arms that map buffer::Error to transport::Error in on_data are glue that stays unverified.

// ---- ReceiveStream::on_data / on_reset: mapping of the contracted checks to transport error codes -------------
// Thorough tier, bounded: every frame carries an EMPTY payload so that the Reassembler never allocates a slot
// (DESIGN 7: the reassembler on real 4096-byte slots is out of Kani's reach); what is exercised is the real
// control flow of on_data/on_reset/init_reset: offset arithmetic, flow-controller calls, Cursors final-size
// checks inside the real Reassembler, and the error mapping.

fn fresh_stream() -> (IncomingConnectionFlowController, ReceiveStream, u64, u64) {
    // call-site facts: stream/manager.rs:582 (connection) and :222-247 (stream): initial == desired <= u32::MAX
    let cw: u32 = kani::any();
    let w: u32 = kani::any();
    let conn = IncomingConnectionFlowController::new(VarInt::from_u32(cw), cw);
    let rs = ReceiveStream::new(false, conn.clone(), VarInt::from_u32(w), w);
    (conn, rs, cw as u64, w as u64)
}

fn data_frame<'a>(off: u64, fin: bool, data: &'a [u8]) -> StreamRef<'a> {
    s2n_quic_core::frame::Stream { stream_id: VarInt::from_u8(0), offset: v(off), is_last_frame: false, is_fin: fin, data }
}

fn code_of(r: &Result<(), transport::Error>) -> i128 {
    match r {
        Ok(()) => -1,
        Err(e) => e.code.as_u64() as i128,
    }
}

//@ harness props=C04 tier=thorough level=bounded timeout=1500 bound="2 STREAM frames, payload 0 bytes (reassembler stays empty)"
//@ fn ReceiveStream::on_data
#[kani::proof]
#[kani::unwind(4)]
fn vq_c04_rs_on_data_error_mapping() {
    let (conn, mut rs, cw, w) = fresh_stream();
    let mut events = StreamEvents::new();
    let o1: u64 = kani::any();
    let o2: u64 = kani::any();
    let fin1: bool = kani::any();
    let fin2: bool = kani::any();
    kani::assume(o1 <= MAXV && o2 <= MAXV);
    let empty: [u8; 0] = [];
    // ---- first frame: only the flow-control limits can be violated
    let r1 = rs.on_data(&data_frame(o1, fin1, &empty), &mut events);
    let within1 = o1 <= w && o1 <= cw;
    assert!(r1.is_ok() == within1, "C04/rs.on_data/first_frame_ok_iff_within_stream_and_connection_limit");
    assert!(r1.is_ok() || code_of(&r1) == code_flow_control_error(), "C04/rs.on_data/beyond_limit_is_flow_control_error");
    if r1.is_err() {
        assert!(conn.acquired_window().as_u64() == 0 && rs.receive_buffer.final_size().is_none() && rs.state == ReceiveStreamState::Receiving,
            "C04/rs.on_data/rejected_frame_changes_nothing");
    } else {
        assert!(conn.acquired_window().as_u64() == o1, "C04/rs.on_data/connection_charged_up_to_data_end");
        // ---- second frame
        let finished = fin1 && o1 == 0; // everything (nothing) was received and read: later frames are ignored
        let r2 = rs.on_data(&data_frame(o2, fin2, &empty), &mut events);
        let c2 = code_of(&r2);
        let expect = if finished {
            -1
        } else if fin1 {
            // RFC 9000 4.5: final size known = o1: it cannot change, and no data beyond it
            let contradiction = if fin2 { o2 != o1 } else { o2 > o1 };
            if contradiction { code_final_size_error() } else { -1 }
        } else {
            // final size unknown: flow control first (RFC 9000 4.1), then a final size below received data (4.5)
            let need = if o2 > o1 { o2 - o1 } else { 0 };
            if o2 > w || need > cw - o1 {
                code_flow_control_error()
            } else if fin2 && o1 > o2 {
                code_final_size_error()
            } else {
                -1
            }
        };
        assert!(c2 == expect, "C04/rs.on_data/second_frame_error_code_per_rfc9000_4_1_and_4_5");
        assert!(rs.receive_buffer.len() == 0, "C04/rs.on_data/nothing_readable_from_empty_frames");
        kani::cover!(c2 == code_final_size_error() && fin1 && fin2, "reach:final_size_changed");
        kani::cover!(c2 == code_final_size_error() && fin1 && !fin2, "reach:data_beyond_final_size");
        kani::cover!(c2 == code_final_size_error() && !fin1, "reach:final_size_below_received");
        kani::cover!(c2 == code_flow_control_error() && o2 > w, "reach:second_over_stream_limit");
        kani::cover!(c2 == code_flow_control_error() && o2 <= w, "reach:second_over_connection_limit");
        kani::cover!(c2 == -1 && !finished && fin1 && fin2, "reach:same_fin_again");
        kani::cover!(finished, "reach:finished_stream_ignores_frames");
    }
    kani::cover!(r1.is_err(), "reach:first_rejected");
    core::mem::forget(rs);
    core::mem::forget(events);
}

//@ harness props=C04 tier=thorough level=bounded timeout=700 bound="1 STREAM frame of 1-2 bytes ending beyond 2^62-1 (rejected before buffering)"
//@ fn ReceiveStream::on_data
#[kani::proof]
#[kani::unwind(4)]
fn vq_c04_rs_on_data_offset_overflow() {
    let (conn, mut rs, _cw, _w) = fresh_stream();
    let mut events = StreamEvents::new();
    let off: u64 = kani::any();
    kani::assume(off <= MAXV);
    let fin: bool = kani::any();
    let byte: [u8; 2] = kani::any();
    let len: usize = if kani::any() { 1 } else { 2 };
    kani::assume(off as u128 + len as u128 > MAXV as u128);
    let r = rs.on_data(&data_frame(off, fin, &byte[..len]), &mut events);
    // RFC 9000 4.1/19.8: the largest offset delivered on a stream cannot exceed 2^62-1
    assert!(r.is_err() && code_of(&r) == code_flow_control_error(), "C04/rs.on_data/offset_overflow_is_flow_control_error");
    assert!(conn.acquired_window().as_u64() == 0 && rs.receive_buffer.is_empty() && rs.receive_buffer.final_size().is_none(),
        "C04/rs.on_data/overflowing_frame_changes_nothing");
    kani::cover!(off == MAXV && len == 1, "reach:one_byte_at_max");
    kani::cover!(off == MAXV - 1 && len == 2, "reach:two_bytes_across_max");
    core::mem::forget(rs);
    core::mem::forget(events);
}

//@ harness props=C04 tier=thorough level=bounded timeout=1500 bound="1 STREAM frame with payload 0 bytes, then RESET_STREAM"
//@ fn ReceiveStream::on_reset
//@ fn ReceiveStream::init_reset
#[kani::proof]
#[kani::unwind(4)]
fn vq_c04_rs_on_reset_final_size() {
    let (conn, mut rs, cw, w) = fresh_stream();
    let mut events = StreamEvents::new();
    let o1: u64 = kani::any();
    let fin1: bool = kani::any();
    let fsz: u64 = kani::any();
    let app_code: u64 = kani::any();
    kani::assume(o1 <= MAXV && fsz <= MAXV && app_code <= MAXV);
    kani::assume(o1 <= w && o1 <= cw && o1 > 0); // the STREAM frame itself is acceptable (see vq_c04_rs_on_data_error_mapping)
    let empty: [u8; 0] = [];
    let r1 = rs.on_data(&data_frame(o1, fin1, &empty), &mut events);
    assert!(r1.is_ok(), "C04/rs.on_reset/setup_frame_accepted");
    let frame = ResetStream { stream_id: VarInt::from_u8(0), application_error_code: v(app_code), final_size: v(fsz) };
    let r = rs.on_reset(&frame, &mut events);
    let c = code_of(&r);
    let expect = if fin1 {
        // RFC 9000 4.5: "If a RESET_STREAM ... is received indicating a change in the final size ... FINAL_SIZE_ERROR"
        if fsz != o1 { code_final_size_error() } else { -1 }
    } else {
        // RFC 9000 4.5: the final size counts against flow control
        let need = if fsz > o1 { fsz - o1 } else { 0 };
        if fsz > w || need > cw - o1 { code_flow_control_error() } else { -1 }
    };
    assert!(c == expect, "C04/rs.on_reset/error_code_per_rfc9000_4_5");
    if c == -1 {
        let total = if fsz > o1 { fsz } else { o1 };
        assert!(matches!(rs.state, ReceiveStreamState::Reset(_)), "C04/rs.on_reset/accepted_reset_enters_reset_state");
        assert!(conn.acquired_window().as_u64() == total, "C04/rs.on_reset/final_size_charged_to_connection");
        let s = conn.verif_abs();
        assert!(s[2] == total && s[0] == cw + total, "C04/rs.on_reset/all_credit_released_and_window_moved");
        assert!(rs.flow_controller.read_window_sync.is_cancelled(), "C04/rs.on_reset/no_more_max_stream_data");
    } else {
        assert!(rs.state == ReceiveStreamState::Receiving && conn.acquired_window().as_u64() == o1, "C04/rs.on_reset/rejected_reset_changes_nothing");
    }
    kani::cover!(c == code_final_size_error(), "reach:final_size_mismatch");
    kani::cover!(c == code_flow_control_error() && fsz > w, "reach:final_size_over_stream_limit");
    kani::cover!(c == code_flow_control_error() && fsz <= w, "reach:final_size_over_connection_limit");
    kani::cover!(c == -1 && fin1, "reach:reset_with_matching_final_size");
    kani::cover!(c == -1 && !fin1 && fsz < o1, "reach:reset_below_received");
    core::mem::forget(rs);
    core::mem::forget(events);
}
