// Shared include file (not injected on its own): a stack-only `transmission::Writer` (= `WriteContext`).
// The crate's own testing writer keeps frames in heap `Vec`s and costs > 13 GB under Kani (DESIGN 7, probe W);
// this one encodes the frame with the real `EncoderValue` impl into a 32-byte array.
//
// `include!("_miniwriter.rs")` inside a harness module; everything is addressed by absolute paths so the
// including module needs no particular `use` lines.

#[allow(dead_code)]
pub(crate) struct MiniWriter {
    pub buf: [u8; 32],
    pub len: usize,
    pub cap: usize,
    pub frames: usize,
    pub now: s2n_quic_core::time::Timestamp,
    pub constraint: s2n_quic_core::transmission::Constraint,
    pub pn: u64,
}

#[allow(dead_code)]
impl MiniWriter {
    /// writer with a symbolic capacity (0..=32 bytes), a symbolic transmission constraint and packet number
    pub(crate) fn any() -> Self {
        let cap: usize = kani::any();
        kani::assume(cap <= 32);
        let pn: u64 = kani::any();
        kani::assume(pn <= s2n_quic_core::varint::MAX_VARINT_VALUE);
        let constraint = match kani::any::<u8>() % 4 {
            0 => s2n_quic_core::transmission::Constraint::None,
            1 => s2n_quic_core::transmission::Constraint::RetransmissionOnly,
            2 => s2n_quic_core::transmission::Constraint::CongestionLimited,
            _ => s2n_quic_core::transmission::Constraint::AmplificationLimited,
        };
        MiniWriter { buf: [0; 32], len: 0, cap, frames: 0, now: s2n_quic_core::time::clock::testing::now(), constraint, pn }
    }

    /// independent decode of the RFC 9000 16 variable-length integer that starts at buf[pos]
    pub(crate) fn varint_at(&self, pos: usize) -> u64 {
        let first = self.buf[pos];
        let n = 1usize << (first >> 6);
        let mut val = (first & 0x3f) as u64;
        let mut i = 1;
        while i < n {
            val = (val << 8) | self.buf[pos + i] as u64;
            i += 1;
        }
        val
    }

    /// independent decode of a "tag byte + one varint" frame (RFC 9000 19.9, 19.11): (tag, value)
    pub(crate) fn tag_and_varint(&self) -> (u8, u64) {
        (self.buf[0], self.varint_at(1))
    }
}

impl s2n_quic_core::transmission::Writer for MiniWriter {
    fn current_time(&self) -> s2n_quic_core::time::Timestamp {
        self.now
    }
    fn transmission_constraint(&self) -> s2n_quic_core::transmission::Constraint {
        self.constraint
    }
    fn transmission_mode(&self) -> s2n_quic_core::transmission::Mode {
        s2n_quic_core::transmission::Mode::Normal
    }
    fn remaining_capacity(&self) -> usize {
        self.cap - self.len
    }
    fn write_frame<Frame>(&mut self, frame: &Frame) -> Option<s2n_quic_core::packet::number::PacketNumber>
    where
        Frame: s2n_codec::EncoderValue + s2n_quic_core::frame::FrameTrait,
        for<'f> &'f Frame: s2n_quic_core::event::IntoEvent<s2n_quic_core::event::builder::Frame>,
    {
        use s2n_codec::Encoder;
        let size = frame.encoding_size();
        if size > self.cap - self.len {
            return None;
        }
        let mut enc = s2n_codec::EncoderBuffer::new(&mut self.buf[self.len..]);
        enc.encode(frame);
        self.len += size;
        self.frames += 1;
        Some(self.packet_number())
    }
    fn write_fitted_frame<Frame>(&mut self, frame: &Frame) -> s2n_quic_core::packet::number::PacketNumber
    where
        Frame: s2n_codec::EncoderValue + s2n_quic_core::frame::FrameTrait,
        for<'f> &'f Frame: s2n_quic_core::event::IntoEvent<s2n_quic_core::event::builder::Frame>,
    {
        self.write_frame(frame).unwrap()
    }
    fn write_frame_forced<Frame>(&mut self, frame: &Frame) -> Option<s2n_quic_core::packet::number::PacketNumber>
    where
        Frame: s2n_codec::EncoderValue + s2n_quic_core::frame::FrameTrait,
        for<'f> &'f Frame: s2n_quic_core::event::IntoEvent<s2n_quic_core::event::builder::Frame>,
    {
        self.write_frame(frame)
    }
    fn ack_elicitation(&self) -> s2n_quic_core::frame::ack_elicitation::AckElicitation {
        s2n_quic_core::frame::ack_elicitation::AckElicitation::NonEliciting
    }
    fn packet_number(&self) -> s2n_quic_core::packet::number::PacketNumber {
        s2n_quic_core::packet::number::PacketNumberSpace::ApplicationData
            .new_packet_number(s2n_quic_core::varint::VarInt::new(self.pn).unwrap())
    }
    fn local_endpoint_type(&self) -> s2n_quic_core::endpoint::Type {
        s2n_quic_core::endpoint::Type::Server
    }
    fn header_len(&self) -> usize {
        0
    }
    fn tag_len(&self) -> usize {
        0
    }
}
