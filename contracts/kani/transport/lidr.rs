//@ inject crate=transport src=quic/s2n-quic-transport/src/connection/local_id_registry.rs
// Contract harnesses for LocalIdRegistry (property C13: connection ids this endpoint issues).
// Predicates: contracts/spec/conn_ids.rs (shared with the Verus lemmas in verus/lemmas/C13.rs).
//
// MODULAR: the registry's own code is the real one (constructor, SmallVec, Memo queries with the
// crate's own check_consistency() as free obligations, Arc<Mutex<..>> shared state).  Only the calls
// into the endpoint-wide hash maps are replaced by contract stubs with a ghost log (_c13_common.rs,
// trusted "hash-map routing").
//
// BOUNDED: every harness fixes the *shape* of the registry (K = number of registered ids, 1..3; ids are
// concrete distinct 4-byte values "id00".."id03").  Everything else is symbolic: sequence numbers,
// statuses with their payloads, retirement times, tokens, next_sequence_number, retire_prior_to,
// active_connection_id_limit, the memo caches (filled or empty), and all arguments.
use super::*;
#[allow(dead_code, unused_variables)]
mod spec {
    include!("../../spec/conn_ids.rs");
}
use spec::*;
include!("_c13_common.rs");

use s2n_quic_core::{packet::number::PacketNumberSpace, varint::VarInt};

const K_MAX: usize = 4;
/// clock values are below 2^62 microseconds (146 000 years): argument range of every timestamp
const TS_MAX: u64 = 1 << 62;
const BUFFER_US: u64 = 30_000_000;
const GRANULARITY_US: u64 = 1_000;

fn idk(k: u8) -> connection::LocalId {
    connection::LocalId::try_from_bytes(&[b'i', b'd', b'0', b'0' + k]).unwrap()
}
fn pn(x: u32) -> PacketNumber {
    PacketNumberSpace::ApplicationData.new_packet_number(VarInt::from_u32(x))
}
fn any_ts() -> Timestamp {
    let m: u64 = kani::any();
    kani::assume(m >= 1 && m <= TS_MAX);
    ts(m)
}
fn any_opt_ts() -> Option<Timestamp> {
    if kani::any() {
        Some(any_ts())
    } else {
        None
    }
}
fn any_token() -> stateless_reset::Token {
    let b: [u8; 16] = kani::any();
    stateless_reset::Token::from(b)
}
fn any_status() -> LocalIdStatus {
    let k: u8 = kani::any();
    kani::assume(k < 6);
    match k {
        0 => PendingIssuance,
        1 => PendingReissue,
        2 => PendingAcknowledgement(pn(kani::any())),
        3 => Active,
        4 => PendingRetirementConfirmation(any_opt_ts()),
        _ => PendingRemoval(any_ts()),
    }
}

/// value copy of one LocalIdInfo (LocalIdStatus is not Clone)
#[derive(Clone, Copy)]
struct Snap {
    id: connection::LocalId,
    seq: u32,
    rt: Option<Timestamp>,
    tok: stateless_reset::Token,
    st: u8,
    st_pn: Option<PacketNumber>,
    st_time: Option<Timestamp>,
}
fn snap(e: &LocalIdInfo) -> Snap {
    let (st, st_pn, st_time) = match e.status {
        PendingIssuance => (0, None, None),
        PendingReissue => (1, None, None),
        PendingAcknowledgement(p) => (2, Some(p), None),
        Active => (3, None, None),
        PendingRetirementConfirmation(t) => (4, None, t),
        PendingRemoval(t) => (5, None, Some(t)),
    };
    Snap { id: e.id, seq: e.sequence_number, rt: e.retirement_time, tok: e.stateless_reset_token, st, st_pn, st_time }
}
fn opt_ts_eq(a: Option<Timestamp>, b: Option<Timestamp>) -> bool {
    match (a, b) {
        (None, None) => true,
        (Some(x), Some(y)) => ts_micros(x) == ts_micros(y),
        _ => false,
    }
}
/// every field equal (frame condition), payloads of the status included
fn snap_eq(a: &Snap, b: &Snap) -> bool {
    a.id == b.id
        && a.seq == b.seq
        && opt_ts_eq(a.rt, b.rt)
        && tok_bits(&a.tok) == tok_bits(&b.tok)
        && a.st == b.st
        && a.st_pn == b.st_pn
        && opt_ts_eq(a.st_time, b.st_time)
}
/// every field except the status equal
fn snap_eq_but_status(a: &Snap, b: &Snap) -> bool {
    a.id == b.id && a.seq == b.seq && opt_ts_eq(a.rt, b.rt) && tok_bits(&a.tok) == tok_bits(&b.tok)
}
fn abs_entry(e: &Snap) -> LidEntry {
    let b = e.id.as_bytes();
    LidEntry {
        seq: e.seq as i128,
        id_len: b.len() as i128,
        id_a: be10(b, 0),
        id_b: be10(b, 10),
        tok_a: tok_a(&e.tok),
        tok_b: tok_b(&e.tok),
        status: e.st as i128,
        retire_at: match e.rt {
            None => -1,
            Some(t) => ts_micros(t) as i128,
        },
    }
}

/// the whole observable state of a registry of concrete shape
#[derive(Clone, Copy)]
struct View {
    n: usize,
    e: [Option<Snap>; K_MAX],
    s: Lidr,
    rotate: bool,
}
fn view(reg: &LocalIdRegistry) -> View {
    let n = reg.registered_ids.len();
    assert!(n <= K_MAX);
    let mut e: [Option<Snap>; K_MAX] = [None; K_MAX];
    let mut active = 0;
    let mut i = 0;
    while i < K_MAX {
        if i < n {
            let s = snap(&reg.registered_ids[i]);
            if s.st != 4 && s.st != 5 {
                active += 1;
            }
            e[i] = Some(s);
        }
        i += 1;
    }
    View {
        n,
        e,
        s: Lidr {
            next_seq: reg.next_sequence_number as i128,
            retire_prior_to: reg.retire_prior_to as i128,
            limit: reg.active_connection_id_limit as i128,
            len: n as i128,
            active,
        },
        rotate: reg.rotate_handshake_connection_id,
    }
}
impl View {
    fn at(&self, i: usize) -> Snap {
        self.e[i].unwrap()
    }
    fn abs(&self, i: usize) -> LidEntry {
        abs_entry(&self.at(i))
    }
}

/// representation invariant over a view; `discipline` adds the conditional part (spec file)
fn inv(v: &View, discipline: bool) -> bool {
    let mut ok = lidr_inv(v.s);
    let mut i = 0;
    while i < K_MAX {
        if i < v.n {
            let a = v.abs(i);
            ok = ok && lid_entry_inv(v.s, a);
            if discipline {
                ok = ok && lid_entry_rpt_inv(v.s, a);
            }
            let mut j = i + 1;
            while j < K_MAX {
                if j < v.n {
                    let b = v.abs(j);
                    ok = ok && lid_pair_inv(a, b);
                    if discipline {
                        ok = ok && lid_pair_monotone(a, b);
                    }
                }
                j += 1;
            }
        }
        i += 1;
    }
    ok
}

/// routing: the ids this connection holds in the shared map are exactly the registered ids
fn map_is_registered_ids(v: &View) -> bool {
    let l = log();
    let mut ok = l.held_count() == v.n && l.wrong_internal == 0;
    let mut i = 0;
    while i < K_MAX {
        if i < v.n {
            ok = ok && l.holds(&v.at(i).id);
        }
        i += 1;
    }
    ok
}

/// Arbitrary registry with exactly `n` (1..=3) registered ids satisfying the representation invariant.
/// Built through the real constructors (ConnectionIdMapper::new, create_local_id_registry); the only
/// code that writes private fields.
fn any_lidr(n: usize, discipline: bool) -> LocalIdRegistry {
    let internal = the_internal_id();
    {
        let l = log();
        l.building = true;
        l.internal = Some(internal);
    }
    let mut mapper = new_mapper();
    let rotate: bool = kani::any();
    let mut reg = mapper.create_local_id_registry(internal, &idk(0), None, any_token(), rotate);
    // the endpoint-wide maps are never dropped in a harness (hashbrown's drop is out of reach, and no
    // contracted function drops them)
    core::mem::forget(mapper);

    {
        let e = &mut reg.registered_ids[0];
        e.sequence_number = kani::any();
        e.retirement_time = any_opt_ts();
        e.status = any_status();
    }
    let mut i = 1;
    while i < K_MAX {
        if i < n {
            reg.registered_ids.push(LocalIdInfo {
                id: idk(i as u8),
                sequence_number: kani::any(),
                retirement_time: any_opt_ts(),
                stateless_reset_token: any_token(),
                status: any_status(),
            });
            log().hold(idk(i as u8));
        }
        i += 1;
    }
    reg.next_sequence_number = kani::any();
    reg.retire_prior_to = kani::any();
    reg.active_connection_id_limit = kani::any();

    // memo caches: empty or holding the value of their query (the crate's check_consistency() states
    // exactly this)
    reg.next_expiration.clear();
    reg.ack_interest.clear();
    reg.transmission_interest.clear();
    reg.active_id_count.clear();
    if kani::any() {
        let _ = reg.next_expiration.get(&reg.registered_ids);
    }
    if kani::any() {
        let _ = reg.ack_interest.get(&reg.registered_ids);
    }
    if kani::any() {
        let _ = reg.transmission_interest.get(&reg.registered_ids);
    }
    if kani::any() {
        let _ = reg.active_id_count.get(&reg.registered_ids);
    }

    let v = view(&reg);
    kani::assume(inv(&v, discipline));
    {
        let l = log();
        l.building = false;
        l.ins_calls = 0;
        l.ins_ok = 0;
        l.rem_calls = 0;
        l.rem_missing = 0;
    }
    reg
}

/// The registry is not dropped at the end of a harness: dropping the last `Arc` of the shared state would
/// run hashbrown's table drop (out of reach, see _c13_common.rs); `Drop for LocalIdRegistry` has its own
/// harness.
fn finish(reg: LocalIdRegistry) {
    core::mem::forget(reg);
}

// ================================================================================================
// register_connection_id
// ================================================================================================
// Caller obligations (debug assertions in validate_new_connection_id, i.e. not enforced in release):
//   * active < limit            -- established at the only production call site
//                                  connection_impl.rs:988-1010 (registers exactly `connection_id_interest()`
//                                  ids) and in LocalIdRegistry::new (limit 1, no id yet)
//   * token not among the registered tokens -- the token generator is keyed by the (fresh) id
//   * next_sequence_number < u32::MAX       -- 2^32 registrations on one connection
//   * expiration >= 30 s after the clock epoch (expiration - EXPIRATION_BUFFER must not underflow):
//     expiration = now + lifetime with lifetime >= connection::id::MIN_LIFETIME = 60 s
//   * retirement times monotone in issue order (only for the retire-prior-to discipline):
//     expiration = now + Generator::lifetime() with a constant lifetime and a monotone clock
fn register_body(n: usize, mode: u8) {
    let g1 = mode & 0x10 != 0;
    let g2 = mode & 0x20 != 0;
    let g3 = mode & 0x40 != 0;
    let g4 = mode & 0x80 != 0;
    let mut reg = any_lidr(n, true);
    let old = view(&reg);
    assert!(inv(&old, true), "C13/lidr.builder/inv");

    let sel: u8 = kani::any();
    kani::assume(sel <= 3);
    let id = idk(sel);
    let token = any_token();
    // Argument range: expiration <= 30 s + 2^22 us after the clock epoch (`expiration - EXPIRATION_BUFFER` is a
    // Duration::from_micros / as_micros round trip whose 64-bit divisions CBMC cannot decide for a full-range
    // value: no result after 19 min); the retirement times already in the registry stay arbitrary.
    let exp = any_opt_ts();
    if let Some(t) = exp {
        kani::assume(ts_micros(t) <= BUFFER_US + (1 << 22));
    }

    kani::assume(old.s.active < old.s.limit);
    kani::assume(old.s.next_seq < u32_max());
    if let Some(t) = exp {
        kani::assume(ts_micros(t) >= BUFFER_US + 1);
    }
    let new_retire_at: i128 = match exp {
        None => -1,
        Some(t) => (ts_micros(t) - BUFFER_US) as i128,
    };
    let probe = LidEntry { seq: old.s.next_seq, id_len: 4, id_a: 0, id_b: 0, tok_a: tok_a(&token), tok_b: tok_b(&token), status: 0, retire_at: new_retire_at };
    let mut i = 0;
    while i < K_MAX {
        if i < old.n {
            kani::assume(!lid_same_token(old.abs(i), probe));
            kani::assume(lid_pair_monotone(old.abs(i), probe));
        }
        i += 1;
    }

    let r = reg.register_connection_id(&id, exp, token);
    let new = view(&reg);
    let l = log();

    match r {
        Ok(()) => {
            assert!(new.n == old.n + 1, "C13/lidr.register/ok_appends_one_entry");
            assert!(lidr_register_ok_counters(old.s, new.s), "C13/lidr.register/ok_counters_next_seq_plus_one");
            // (`!gN ||`: the obligations of the other harness of the pair are trivially true here)
            let e = new.abs(old.n);
            assert!(!g1 || lidr_register_ok_entry(old.s, e), "C13/lidr.register/ok_sequence_number_is_old_next");
            let es = new.at(old.n);
            assert!(!g1 || (es.id == id && tok_bits(&es.tok) == tok_bits(&token)), "C13/lidr.register/ok_entry_is_argument");
            assert!(!g1 || e.retire_at == new_retire_at, "C13/lidr.register/ok_retirement_time_is_expiration_minus_buffer");
            let mut i = 0;
            while i < K_MAX {
                if i < old.n {
                    assert!(!g1 || lidr_register_ok_fresh(old.abs(i), e), "C13/lidr.register/ok_id_and_token_fresh");
                    assert!(!g2 || snap_eq(&old.at(i), &new.at(i)), "C13/lidr.register/ok_frame_other_entries");
                }
                i += 1;
            }
            assert!(sel as usize >= old.n, "C13/lidr.register/ok_only_for_unregistered_id");
            assert!(l.ins_calls == 1 && l.ins_ok == 1 && l.rem_calls == 0, "C13/lidr.register/ok_map_insert_once");
        }
        Err(err) => {
            assert!(err == LocalIdRegistrationError::ConnectionIdInUse, "C13/lidr.register/err_is_connection_id_in_use");
            assert!(lidr_unchanged(old.s, new.s) && new.n == old.n, "C13/lidr.register/err_counters_unchanged");
            let mut i = 0;
            while i < K_MAX {
                if i < old.n {
                    assert!(!g2 || snap_eq(&old.at(i), &new.at(i)), "C13/lidr.register/err_entries_unchanged");
                }
                i += 1;
            }
            assert!(
                (sel as usize) < old.n || (l.ins_calls == 1 && l.ins_ok == 0),
                "C13/lidr.register/err_only_if_duplicate_or_map_occupied"
            );
            assert!(l.ins_ok == 0 && l.rem_calls == 0, "C13/lidr.register/err_map_untouched");
        }
    }
    assert!(new.rotate == old.rotate, "C13/lidr.register/frame_rotate_flag");
    assert!(!g3 || map_is_registered_ids(&new), "C13/lidr.register/map_holds_exactly_registered_ids");
    assert!(!g4 || inv(&new, true), "C13/lidr.register/inv_preserved");

    kani::cover!(r.is_ok(), "reach:registered");
    kani::cover!(r.is_ok() && exp.is_some(), "reach:registered_with_expiration");
    kani::cover!(r.is_ok() && exp.is_none(), "reach:registered_without_expiration");
    kani::cover!(r.is_err() && (sel as usize) < old.n, "reach:duplicate_id");
    kani::cover!(r.is_err() && (sel as usize) >= old.n, "reach:map_occupied");
    kani::cover!(true, "reach:end");
    finish(reg);
}


// ================================================================================================
// set_active_connection_id_limit + connection_id_interest
// ================================================================================================
// Caller obligations of set_active_connection_id_limit(l):
//   * l >= 2: RFC 9000 18.2 "The value of the active_connection_id_limit parameter MUST be at least 2",
//     enforced by the transport-parameter validator (property C14) before session_context.rs:423 is reached
//   * active <= min(l, 3): the only call site (session_context.rs:423) runs once, while the limit is still the
//     initial 1, hence active <= 1.  (A later, lower limit would make `limit - active` underflow in
//     connection_id_interest.)
fn limit_interest_body(n: usize) {
    let mut reg = any_lidr(n, true);
    let old = view(&reg);
    assert!(inv(&old, true), "C13/lidr.builder/inv");
    let l: u64 = kani::any();
    kani::assume(l >= 2);
    kani::assume(old.s.active <= imin2(l as i128, 3));

    reg.set_active_connection_id_limit(l);
    let mid = view(&reg);
    assert!(lidr_set_limit_post(old.s, l as i128, mid.s), "C13/lidr.set_limit/limit_is_min_of_peer_limit_and_3");
    assert!(mid.s.limit <= l as i128, "C13/lidr.set_limit/limit_le_peer_limit");
    let mut i = 0;
    while i < K_MAX {
        if i < old.n {
            assert!(snap_eq(&old.at(i), &mid.at(i)), "C13/lidr.set_limit/frame_entries");
        }
        i += 1;
    }
    assert!(mid.n == old.n && mid.rotate == old.rotate, "C13/lidr.set_limit/frame_shape");
    assert!(inv(&mid, true), "C13/lidr.set_limit/inv_preserved");

    let k: i128 = match reg.connection_id_interest() {
        connection::id::Interest::None => 0,
        connection::id::Interest::New(k) => k as i128,
    };
    let new = view(&reg);
    assert!(lidr_interest_exact(new.s, k), "C13/lidr.interest/requests_exactly_limit_minus_active");
    assert!(lidr_interest_within_limit(new.s, k), "C13/lidr.interest/active_plus_requested_le_limit");
    assert!(new.s.active + k <= l as i128, "C13/lidr.interest/never_more_unretired_ids_than_peer_limit");
    assert!(lidr_unchanged(mid.s, new.s) && new.n == mid.n, "C13/lidr.interest/frame_counters");
    let mut i = 0;
    while i < K_MAX {
        if i < mid.n {
            assert!(snap_eq(&mid.at(i), &new.at(i)), "C13/lidr.interest/frame_entries");
        }
        i += 1;
    }
    let lg = log();
    assert!(lg.ins_calls == 0 && lg.rem_calls == 0, "C13/lidr.interest/map_untouched");

    if n >= 2 {
        kani::cover!(k == 0, "reach:no_interest");
    }
    kani::cover!(k == 2 || n >= 2, "reach:two_requested");
    kani::cover!(l == 2, "reach:smallest_peer_limit");
    kani::cover!(l == u64::MAX, "reach:largest_peer_limit");
    kani::cover!(true, "reach:end");
    finish(reg);
}

// ================================================================================================
// on_retire_connection_id
// ================================================================================================
// Argument ranges: rtt <= 4 s (smoothed RTT; `rtt * 3` and `timestamp + ..` must not overflow), clock < 2^62 us.
fn retire_body(n: usize) {
    let mut reg = any_lidr(n, true);
    let old = view(&reg);
    let seq: u32 = kani::any();
    let sel: u8 = kani::any();
    kani::assume(sel <= 3);
    let dcid = idk(sel);
    let rtt_s: u8 = kani::any();
    let rtt_ns: u32 = kani::any();
    kani::assume(rtt_s <= 3 && rtt_ns < 1_000_000_000);
    let rtt = Duration::new(rtt_s as u64, rtt_ns);
    let now = any_ts();

    let r = reg.on_retire_connection_id(seq, &dcid, rtt, now);
    let new = view(&reg);

    // independent reading of RFC 9000 19.16
    let never_issued = lidr_retire_never_issued(old.s, seq as i128);
    let mut target: usize = K_MAX;
    let mut i = 0;
    while i < K_MAX {
        if i < old.n && lid_retire_target(old.abs(i), seq as i128) {
            target = i;
        }
        i += 1;
    }
    let refers_to_packet_dcid = target < K_MAX && old.at(target).id == dcid;
    let target_counted = target < K_MAX && lid_counts(old.abs(target));

    assert!(
        r.is_err() == (never_issued || refers_to_packet_dcid),
        "C13/lidr.on_retire/err_iff_never_issued_or_refers_to_packet_destination_id"
    );
    match r {
        Err(err) => {
            assert!(err == LocalIdRegistrationError::InvalidSequenceNumber, "C13/lidr.on_retire/err_is_invalid_sequence_number");
            assert!(lidr_unchanged(old.s, new.s) && new.n == old.n, "C13/lidr.on_retire/err_counters_unchanged");
            let mut i = 0;
            while i < K_MAX {
                if i < old.n {
                    assert!(snap_eq(&old.at(i), &new.at(i)), "C13/lidr.on_retire/err_entries_unchanged");
                }
                i += 1;
            }
        }
        Ok(()) => {
            assert!(new.n == old.n, "C13/lidr.on_retire/ok_no_entry_added_or_removed");
            assert!(lidr_retire_counters(old.s, new.s, target_counted), "C13/lidr.on_retire/ok_counters");
            let mut i = 0;
            while i < K_MAX {
                if i < old.n {
                    assert!(lid_retire_entry_post(old.abs(i), seq as i128, new.abs(i)), "C13/lidr.on_retire/ok_only_target_becomes_pending_removal");
                    if i == target {
                        assert!(snap_eq_but_status(&old.at(i), &new.at(i)), "C13/lidr.on_retire/ok_target_other_fields_unchanged");
                    } else {
                        assert!(snap_eq(&old.at(i), &new.at(i)), "C13/lidr.on_retire/ok_frame_other_entries");
                    }
                }
                i += 1;
            }
        }
    }
    let lg = log();
    assert!(lg.ins_calls == 0 && lg.rem_calls == 0, "C13/lidr.on_retire/map_untouched");
    assert!(new.rotate == old.rotate, "C13/lidr.on_retire/frame_rotate_flag");
    assert!(inv(&new, true), "C13/lidr.on_retire/inv_preserved");

    kani::cover!(r.is_err() && never_issued, "reach:never_issued");
    kani::cover!(r.is_err() && !never_issued, "reach:refers_to_packet_destination_id");
    kani::cover!(r.is_ok() && target < K_MAX, "reach:retired");
    kani::cover!(r.is_ok() && target == K_MAX, "reach:already_retired_or_removed");
    kani::cover!(true, "reach:end");
    finish(reg);
}

// ================================================================================================
// on_timeout
// ================================================================================================
fn elapsed(t: Timestamp, now: Timestamp) -> bool {
    // Timestamp::has_elapsed: K_GRANULARITY (1 ms) rounding
    ts_micros(t) < ts_micros(now) + GRANULARITY_US
}
// Argument range: `now` <= 2^22 us.  The retirement/removal times of the registered ids are arbitrary, so every
// ordering between them and `now` is covered; `now` itself only enters `now + EXPIRATION_BUFFER`, a
// Duration::from_micros / as_micros round trip (64-bit divisions) that CBMC cannot reason about for a full-range
// value (9 GB, no result after 17 min).
fn timeout_body(n: usize) {
    let mut reg = any_lidr(n, true);
    let old = view(&reg);
    let now_us: u64 = kani::any();
    kani::assume(now_us >= 1 && now_us <= (1 << 22));
    let now = ts(now_us);

    reg.on_timeout(now);
    let new = view(&reg);

    let mut j = 0; // position in the new registry
    let mut contrib: i128 = 0;
    let mut removed: i128 = 0;
    let mut newly_retired: i128 = 0;
    let mut i = 0;
    while i < K_MAX {
        if i < old.n {
            let o = old.at(i);
            let counted = o.st != 4 && o.st != 5;
            let ready = counted && o.rt.is_some_and(|t| elapsed(t, now));
            let expired = !counted && o.st_time.is_some_and(|t| elapsed(t, now));
            if expired {
                removed += 1;
            } else {
                assert!(j < new.n, "C13/lidr.on_timeout/unexpired_entries_are_kept");
                if j < new.n {
                    let e = new.at(j);
                    assert!(lid_timeout_entry_post(old.abs(i), ready, new.abs(j)), "C13/lidr.on_timeout/retire_ready_ids_become_pending_retirement_confirmation");
                    assert!(snap_eq_but_status(&o, &e), "C13/lidr.on_timeout/kept_entry_other_fields_unchanged");
                    if !ready {
                        assert!(snap_eq(&o, &e), "C13/lidr.on_timeout/frame_not_ready_entries");
                    }
                }
                j += 1;
            }
            if ready {
                newly_retired += 1;
            }
            contrib = imax2(contrib, lid_timeout_rpt_of(old.abs(i), ready));
        }
        i += 1;
    }
    assert!(j == new.n, "C13/lidr.on_timeout/exactly_the_expired_entries_are_removed");
    assert!(lidr_timeout_counters(old.s, new.s, contrib, removed, newly_retired), "C13/lidr.on_timeout/counters_and_retire_prior_to");
    assert!(new.s.retire_prior_to <= new.s.next_seq, "C13/lidr.on_timeout/retire_prior_to_le_next_sequence_number");
    let lg = log();
    assert!(lg.ins_calls == 0 && lg.rem_calls as i128 == removed && lg.rem_missing == 0, "C13/lidr.on_timeout/map_remove_once_per_expired_id");
    assert!(map_is_registered_ids(&new), "C13/lidr.on_timeout/map_holds_exactly_registered_ids");
    assert!(new.rotate == old.rotate, "C13/lidr.on_timeout/frame_rotate_flag");
    assert!(inv(&new, true), "C13/lidr.on_timeout/inv_preserved");

    kani::cover!(removed > 0, "reach:expired_id_removed");
    kani::cover!(newly_retired > 0, "reach:id_retired");
    kani::cover!(new.s.retire_prior_to > old.s.retire_prior_to, "reach:retire_prior_to_advanced");
    kani::cover!(removed == 0 && newly_retired == 0, "reach:nothing_due");
    kani::cover!(true, "reach:end");
    finish(reg);
}

// ================================================================================================
// on_transmit: NEW_CONNECTION_ID frames (RFC 9000 19.15)
// ================================================================================================
use s2n_codec::{Encoder, EncoderBuffer, EncoderValue};
use s2n_quic_core::{
    endpoint,
    event::{self, IntoEvent},
    frame::{ack_elicitation::AckElicitation, FrameTrait},
};

const FRAME_CAP: usize = 40; // 1 + 8 + 8 + 1 + 4 + 16 = 38 bytes at most for a 4-byte id
/// minimal stack-only transmission::Writer (probes/kani_injected_ivs_miniwriter.rs): keeps the bytes of up
/// to K_MAX frames, accepts `room` frames and then reports "no capacity"
struct MiniWriter {
    frames: [[u8; FRAME_CAP]; K_MAX],
    lens: [usize; K_MAX],
    written: usize,
    room: usize,
    constraint: transmission::Constraint,
    now: Timestamp,
    pn: PacketNumber,
}
impl transmission::Writer for MiniWriter {
    fn current_time(&self) -> Timestamp {
        self.now
    }
    fn transmission_constraint(&self) -> transmission::Constraint {
        self.constraint
    }
    fn transmission_mode(&self) -> transmission::Mode {
        transmission::Mode::Normal
    }
    fn remaining_capacity(&self) -> usize {
        (self.room - self.written) * FRAME_CAP
    }
    fn write_frame<Frame>(&mut self, frame: &Frame) -> Option<PacketNumber>
    where
        Frame: EncoderValue + FrameTrait,
        for<'f> &'f Frame: IntoEvent<event::builder::Frame>,
    {
        if self.written >= self.room {
            return None;
        }
        let size = frame.encoding_size();
        assert!(size <= FRAME_CAP);
        let mut enc = EncoderBuffer::new(&mut self.frames[self.written]);
        enc.encode(frame);
        self.lens[self.written] = size;
        self.written += 1;
        Some(self.pn)
    }
    fn write_fitted_frame<Frame>(&mut self, frame: &Frame) -> PacketNumber
    where
        Frame: EncoderValue + FrameTrait,
        for<'f> &'f Frame: IntoEvent<event::builder::Frame>,
    {
        self.write_frame(frame).unwrap()
    }
    fn write_frame_forced<Frame>(&mut self, frame: &Frame) -> Option<PacketNumber>
    where
        Frame: EncoderValue + FrameTrait,
        for<'f> &'f Frame: IntoEvent<event::builder::Frame>,
    {
        self.write_frame(frame)
    }
    fn ack_elicitation(&self) -> AckElicitation {
        AckElicitation::Eliciting
    }
    fn packet_number(&self) -> PacketNumber {
        self.pn
    }
    fn local_endpoint_type(&self) -> endpoint::Type {
        endpoint::Type::Server
    }
    fn header_len(&self) -> usize {
        0
    }
    fn tag_len(&self) -> usize {
        0
    }
}

/// Independent RFC 9000 16 variable-length integer reader (loop-free): (value, encoded length)
fn rd_varint(b: &[u8; FRAME_CAP], at: usize) -> (i128, usize) {
    let first = b[at];
    let v0 = (first & 0x3f) as i128;
    match first >> 6 {
        0 => (v0, 1),
        1 => (v0 * 256 + b[at + 1] as i128, 2),
        2 => (((v0 * 256 + b[at + 1] as i128) * 256 + b[at + 2] as i128) * 256 + b[at + 3] as i128, 4),
        _ => {
            let mut v = v0;
            v = v * 256 + b[at + 1] as i128;
            v = v * 256 + b[at + 2] as i128;
            v = v * 256 + b[at + 3] as i128;
            v = v * 256 + b[at + 4] as i128;
            v = v * 256 + b[at + 5] as i128;
            v = v * 256 + b[at + 6] as i128;
            v = v * 256 + b[at + 7] as i128;
            (v, 8)
        }
    }
}
/// Independent RFC 9000 19.15 reader of one NEW_CONNECTION_ID frame carrying a 4-byte connection id
fn rd_ncid(b: &[u8; FRAME_CAP], len: usize) -> Option<NcidFrame> {
    if b[0] != 0x18 {
        return None;
    }
    let (seq, l1) = rd_varint(b, 1);
    let (rpt, l2) = rd_varint(b, 1 + l1);
    let at = 1 + l1 + l2;
    let id_len = b[at] as usize;
    if id_len != 4 || at + 1 + 4 + 16 != len {
        return None;
    }
    let id = [b[at + 1], b[at + 2], b[at + 3], b[at + 4]];
    let t = at + 5;
    let tok: [u8; 16] = [
        b[t], b[t + 1], b[t + 2], b[t + 3], b[t + 4], b[t + 5], b[t + 6], b[t + 7], b[t + 8], b[t + 9], b[t + 10], b[t + 11], b[t + 12],
        b[t + 13], b[t + 14], b[t + 15],
    ];
    let tk = stateless_reset::Token::from(tok);
    Some(NcidFrame { seq, retire_prior_to: rpt, id_len: 4, id_a: be10(&id, 0), id_b: 0, tok_a: tok_a(&tk), tok_b: tok_b(&tk) })
}

/// `discipline`: whether the state satisfies the conditional retire-prior-to discipline
/// Argument range: next_sequence_number <= 63, so that sequence number and retire_prior_to are 1-byte varints and
/// every offset in the encoded frame is concrete (with symbolic varint lengths CBMC needs > 10 GB).
fn transmit_body(n: usize, discipline: bool) {
    let mut reg = any_lidr(n, discipline);
    let old = view(&reg);
    kani::assume(old.s.next_seq <= 63);
    let c: u8 = kani::any();
    kani::assume(c < 4);
    let constraint = match c {
        0 => transmission::Constraint::None,
        1 => transmission::Constraint::RetransmissionOnly,
        2 => transmission::Constraint::CongestionLimited,
        _ => transmission::Constraint::AmplificationLimited,
    };
    let room: usize = kani::any();
    kani::assume(room <= K_MAX);
    let packet_number = pn(kani::any());
    let mut w = MiniWriter { frames: [[0; FRAME_CAP]; K_MAX], lens: [0; K_MAX], written: 0, room, constraint, now: any_ts(), pn: packet_number };

    reg.on_transmit(&mut w);
    let new = view(&reg);

    let mut f = 0; // frames accounted for
    let mut i = 0;
    while i < K_MAX {
        if i < old.n {
            let o = old.abs(i);
            // independent reading of transmission::Interest::can_transmit
            let wants = (o.status == lst_pending_issuance() && c == 0) || (o.status == lst_pending_reissue() && c <= 1);
            let written = wants && f < room;
            assert!(lid_transmit_entry_post(o, written, new.abs(i)), "C13/lidr.on_transmit/written_ids_become_pending_acknowledgement");
            assert!(snap_eq_but_status(&old.at(i), &new.at(i)), "C13/lidr.on_transmit/entry_other_fields_unchanged");
            if written {
                assert!(new.at(i).st_pn == Some(packet_number), "C13/lidr.on_transmit/tracks_packet_number_of_frame");
                assert!(f < w.written, "C13/lidr.on_transmit/one_frame_per_id");
                if f < w.written {
                    let parsed = rd_ncid(&w.frames[f], w.lens[f]);
                    assert!(parsed.is_some(), "C13/lidr.on_transmit/frame_is_wellformed_new_connection_id");
                    if let Some(fr) = parsed {
                        assert!(ncid_frame_is_entry(fr, o), "C13/lidr.on_transmit/frame_carries_sequence_number_id_and_token_of_entry");
                        assert!(ncid_frame_rpt_is_registry(fr, old.s), "C13/lidr.on_transmit/frame_retire_prior_to_is_registry_value");
                        assert!(ncid_frame_rpt_le_issued(fr, old.s), "C13/lidr.on_transmit/frame_retires_only_issued_ids");
                        // RFC 9000 19.15: Retire Prior To <= Sequence Number, claimed for states that satisfy the
                        // retire-prior-to discipline (caller obligation: monotone retirement times)
                        assert!(!discipline || ncid_frame_rpt_le_seq(fr), "C13/lidr.on_transmit/frame_retire_prior_to_le_sequence_number");
                        // FINDING (see STRENGTH-c13.md / report): without that caller obligation the public API can
                        // reach a state in which the frame asks the peer to retire the very id it announces.
                        // (both obligations are trivially true in the harnesses that assume the discipline)
                        assert!(
                            discipline || ncid_frame_rpt_le_seq(fr),
                            "C13/lidr.on_transmit/frame_retire_prior_to_le_sequence_number_without_caller_obligation"
                        );
                        // residual: outside the class of states violating the discipline the claim holds
                        assert!(
                            discipline || !inv(&old, true) || ncid_frame_rpt_le_seq(fr),
                            "C13/lidr.on_transmit/frame_retire_prior_to_le_sequence_number_without_caller_obligation#outside-known"
                        );
                    }
                }
                f += 1;
            } else {
                assert!(snap_eq(&old.at(i), &new.at(i)), "C13/lidr.on_transmit/frame_other_entries");
            }
        }
        i += 1;
    }
    assert!(f == w.written, "C13/lidr.on_transmit/no_other_frames");
    assert!(lidr_unchanged(old.s, new.s) && new.n == old.n && new.rotate == old.rotate, "C13/lidr.on_transmit/frame_counters");
    let lg = log();
    assert!(lg.ins_calls == 0 && lg.rem_calls == 0, "C13/lidr.on_transmit/map_untouched");
    assert!(inv(&new, discipline), "C13/lidr.on_transmit/inv_preserved");

    kani::cover!(w.written == 1, "reach:one_frame");
    kani::cover!(w.written > 0 && c == 1, "reach:retransmission_only");
    kani::cover!(w.written == 0 && room == 0, "reach:no_capacity");
    kani::cover!(true, "reach:end");
    finish(reg);
}

// ================================================================================================
// on_packet_ack / on_packet_loss / on_handshake_confirmed
// ================================================================================================
fn ack_loss_body(n: usize, loss: bool) {
    let mut reg = any_lidr(n, true);
    let old = view(&reg);
    let lo: u32 = kani::any();
    let hi: u32 = kani::any();
    kani::assume(lo <= hi);
    let set = pn(lo)..=pn(hi);
    if loss {
        reg.on_packet_loss(&set);
    } else {
        reg.on_packet_ack(&set);
    }
    let new = view(&reg);
    let mut hit = false;
    let mut i = 0;
    while i < K_MAX {
        if i < old.n {
            let o = old.at(i);
            let inside = match o.st_pn {
                Some(p) => pn(lo) <= p && p <= pn(hi),
                None => false,
            };
            hit = hit || inside;
            // (each of the two is trivially true in the harness of the other function)
            assert!(!loss || lid_loss_entry_post(old.abs(i), inside, new.abs(i)), "C13/lidr.on_packet_loss/lost_ids_become_pending_reissue");
            assert!(loss || lid_ack_entry_post(old.abs(i), inside, new.abs(i)), "C13/lidr.on_packet_ack/acked_ids_become_active_and_forget_token");
            if !inside {
                assert!(snap_eq(&o, &new.at(i)), "C13/lidr.on_packet_ack_loss/frame_other_entries");
            }
        }
        i += 1;
    }
    assert!(lidr_unchanged(old.s, new.s) && new.n == old.n && new.rotate == old.rotate, "C13/lidr.on_packet_ack_loss/frame_counters");
    let lg = log();
    assert!(lg.ins_calls == 0 && lg.rem_calls == 0, "C13/lidr.on_packet_ack_loss/map_untouched");
    assert!(inv(&new, true), "C13/lidr.on_packet_ack_loss/inv_preserved");
    kani::cover!(hit, "reach:packet_in_set");
    kani::cover!(!hit, "reach:nothing_in_set");
    kani::cover!(true, "reach:end");
    finish(reg);
}

fn rotate_body(n: usize) {
    let mut reg = any_lidr(n, true);
    let old = view(&reg);
    reg.on_handshake_confirmed();
    let new = view(&reg);
    let mut retired = false;
    let mut i = 0;
    while i < K_MAX {
        if i < old.n {
            let o = old.abs(i);
            if old.rotate && lid_rotate_target(o) {
                retired = true;
                assert!(snap_eq_but_status(&old.at(i), &new.at(i)), "C13/lidr.on_handshake_confirmed/target_other_fields_unchanged");
            } else {
                assert!(snap_eq(&old.at(i), &new.at(i)), "C13/lidr.on_handshake_confirmed/frame_other_entries");
            }
            assert!(lid_rotate_entry_post(o, old.rotate, new.abs(i)), "C13/lidr.on_handshake_confirmed/handshake_id_is_retired");
        }
        i += 1;
    }
    assert!(lidr_rotate_counters(old.s, new.s, retired) && new.n == old.n && new.rotate == old.rotate, "C13/lidr.on_handshake_confirmed/retire_prior_to_at_least_one");
    let lg = log();
    assert!(lg.ins_calls == 0 && lg.rem_calls == 0, "C13/lidr.on_handshake_confirmed/map_untouched");
    assert!(inv(&new, true), "C13/lidr.on_handshake_confirmed/inv_preserved");
    kani::cover!(retired, "reach:handshake_id_retired");
    kani::cover!(!retired && old.rotate, "reach:no_handshake_id_left");
    kani::cover!(!old.rotate, "reach:rotation_disabled");
    kani::cover!(true, "reach:end");
    finish(reg);
}

// ================================================================================================
// harnesses (one per function and registry shape; obligations of register_connection_id are split over
// two harnesses because the conjunction of all of them is one SAT instance CBMC does not finish)
// ================================================================================================
//@ harness props=C13 tier=thorough level=bounded bound="K=1 registered id before the call, 4-byte concrete distinct id values; shared hash maps replaced by contract stubs; expiration <= 30 s + 2^22 us" timeout=2400 mem=12
// obligations (asserted in register_body):
//   "C13/lidr.builder/inv"
//   "C13/lidr.register/err_counters_unchanged"
//   "C13/lidr.register/err_entries_unchanged"
//   "C13/lidr.register/err_is_connection_id_in_use"
//   "C13/lidr.register/err_map_untouched"
//   "C13/lidr.register/err_only_if_duplicate_or_map_occupied"
//   "C13/lidr.register/frame_rotate_flag"
//   "C13/lidr.register/ok_appends_one_entry"
//   "C13/lidr.register/ok_counters_next_seq_plus_one"
//   "C13/lidr.register/ok_entry_is_argument"
//   "C13/lidr.register/ok_frame_other_entries"
//   "C13/lidr.register/ok_id_and_token_fresh"
//   "C13/lidr.register/ok_map_insert_once"
//   "C13/lidr.register/ok_only_for_unregistered_id"
//   "C13/lidr.register/ok_retirement_time_is_expiration_minus_buffer"
//   "C13/lidr.register/ok_sequence_number_is_old_next"
//@ fn LocalIdRegistry::register_connection_id
//@ fn LocalIdRegistry::new
#[kani::proof]
#[kani::unwind(6)]
#[kani::stub(crate::connection::connection_id_mapper::LocalIdMap::try_insert, stub_local_try_insert)]
#[kani::stub(crate::connection::connection_id_mapper::LocalIdMap::remove, stub_local_remove)]
#[kani::stub(crate::connection::connection_id_mapper::InitialIdMap::remove, stub_initial_remove)]
#[kani::stub(crate::connection::connection_id_mapper::OpenRequestMap::new, crate::connection::connection_id_mapper::OpenRequestMap::verif_new_with_fixed_seed)]
#[kani::stub(<[u8] as s2n_quic_core::ct::ConstantTimeEq>::ct_eq, stub_ct_eq)]
fn vq_c13_lidr_register_post_k1() {
    register_body(1, 0x30);
}

//@ harness props=C13 tier=thorough level=bounded bound="K=1 registered id before the call, 4-byte concrete distinct id values; shared hash maps replaced by contract stubs; expiration <= 30 s + 2^22 us" timeout=2400 mem=12
// obligations (asserted in register_body):
//   "C13/lidr.builder/inv"
//   "C13/lidr.register/err_counters_unchanged"
//   "C13/lidr.register/err_is_connection_id_in_use"
//   "C13/lidr.register/err_map_untouched"
//   "C13/lidr.register/err_only_if_duplicate_or_map_occupied"
//   "C13/lidr.register/frame_rotate_flag"
//   "C13/lidr.register/inv_preserved"
//   "C13/lidr.register/map_holds_exactly_registered_ids"
//   "C13/lidr.register/ok_appends_one_entry"
//   "C13/lidr.register/ok_counters_next_seq_plus_one"
//   "C13/lidr.register/ok_map_insert_once"
//   "C13/lidr.register/ok_only_for_unregistered_id"
//@ fn LocalIdRegistry::register_connection_id
#[kani::proof]
#[kani::unwind(6)]
#[kani::stub(crate::connection::connection_id_mapper::LocalIdMap::try_insert, stub_local_try_insert)]
#[kani::stub(crate::connection::connection_id_mapper::LocalIdMap::remove, stub_local_remove)]
#[kani::stub(crate::connection::connection_id_mapper::InitialIdMap::remove, stub_initial_remove)]
#[kani::stub(crate::connection::connection_id_mapper::OpenRequestMap::new, crate::connection::connection_id_mapper::OpenRequestMap::verif_new_with_fixed_seed)]
#[kani::stub(<[u8] as s2n_quic_core::ct::ConstantTimeEq>::ct_eq, stub_ct_eq)]
fn vq_c13_lidr_register_inv_k1() {
    register_body(1, 0xc0);
}

//@ harness props=C13 tier=thorough level=bounded bound="K=1 registered id before the call, 4-byte concrete distinct id values; shared hash maps replaced by contract stubs" timeout=2400 mem=12
// obligations (asserted in limit_interest_body):
//   "C13/lidr.builder/inv"
//   "C13/lidr.interest/active_plus_requested_le_limit"
//   "C13/lidr.interest/frame_counters"
//   "C13/lidr.interest/frame_entries"
//   "C13/lidr.interest/map_untouched"
//   "C13/lidr.interest/never_more_unretired_ids_than_peer_limit"
//   "C13/lidr.interest/requests_exactly_limit_minus_active"
//   "C13/lidr.set_limit/frame_entries"
//   "C13/lidr.set_limit/frame_shape"
//   "C13/lidr.set_limit/inv_preserved"
//   "C13/lidr.set_limit/limit_is_min_of_peer_limit_and_3"
//   "C13/lidr.set_limit/limit_le_peer_limit"
//@ fn LocalIdRegistry::set_active_connection_id_limit
//@ fn LocalIdRegistry::connection_id_interest
#[kani::proof]
#[kani::unwind(6)]
#[kani::stub(crate::connection::connection_id_mapper::LocalIdMap::try_insert, stub_local_try_insert)]
#[kani::stub(crate::connection::connection_id_mapper::LocalIdMap::remove, stub_local_remove)]
#[kani::stub(crate::connection::connection_id_mapper::InitialIdMap::remove, stub_initial_remove)]
#[kani::stub(crate::connection::connection_id_mapper::OpenRequestMap::new, crate::connection::connection_id_mapper::OpenRequestMap::verif_new_with_fixed_seed)]
#[kani::stub(<[u8] as s2n_quic_core::ct::ConstantTimeEq>::ct_eq, stub_ct_eq)]
fn vq_c13_lidr_limit_interest_k1() {
    limit_interest_body(1);
}

//@ harness props=C13 tier=thorough level=bounded bound="K=1 registered id before the call, 4-byte concrete distinct id values; shared hash maps replaced by contract stubs; rtt <= 4 s" timeout=2400 mem=12
// obligations (asserted in retire_body):
//   "C13/lidr.on_retire/err_counters_unchanged"
//   "C13/lidr.on_retire/err_entries_unchanged"
//   "C13/lidr.on_retire/err_iff_never_issued_or_refers_to_packet_destination_id"
//   "C13/lidr.on_retire/err_is_invalid_sequence_number"
//   "C13/lidr.on_retire/frame_rotate_flag"
//   "C13/lidr.on_retire/inv_preserved"
//   "C13/lidr.on_retire/map_untouched"
//   "C13/lidr.on_retire/ok_counters"
//   "C13/lidr.on_retire/ok_frame_other_entries"
//   "C13/lidr.on_retire/ok_no_entry_added_or_removed"
//   "C13/lidr.on_retire/ok_only_target_becomes_pending_removal"
//   "C13/lidr.on_retire/ok_target_other_fields_unchanged"
//@ fn LocalIdRegistry::on_retire_connection_id
#[kani::proof]
#[kani::unwind(6)]
#[kani::stub(crate::connection::connection_id_mapper::LocalIdMap::try_insert, stub_local_try_insert)]
#[kani::stub(crate::connection::connection_id_mapper::LocalIdMap::remove, stub_local_remove)]
#[kani::stub(crate::connection::connection_id_mapper::InitialIdMap::remove, stub_initial_remove)]
#[kani::stub(crate::connection::connection_id_mapper::OpenRequestMap::new, crate::connection::connection_id_mapper::OpenRequestMap::verif_new_with_fixed_seed)]
#[kani::stub(<[u8] as s2n_quic_core::ct::ConstantTimeEq>::ct_eq, stub_ct_eq)]
fn vq_c13_lidr_on_retire_k1() {
    retire_body(1);
}

//@ harness props=C13 tier=thorough level=bounded bound="K=1 registered id before the call, 4-byte concrete distinct id values; shared hash maps replaced by contract stubs; now <= 2^22 us" timeout=2400 mem=12
// obligations (asserted in timeout_body):
//   "C13/lidr.on_timeout/counters_and_retire_prior_to"
//   "C13/lidr.on_timeout/exactly_the_expired_entries_are_removed"
//   "C13/lidr.on_timeout/frame_not_ready_entries"
//   "C13/lidr.on_timeout/frame_rotate_flag"
//   "C13/lidr.on_timeout/inv_preserved"
//   "C13/lidr.on_timeout/kept_entry_other_fields_unchanged"
//   "C13/lidr.on_timeout/map_holds_exactly_registered_ids"
//   "C13/lidr.on_timeout/map_remove_once_per_expired_id"
//   "C13/lidr.on_timeout/retire_prior_to_le_next_sequence_number"
//   "C13/lidr.on_timeout/retire_ready_ids_become_pending_retirement_confirmation"
//   "C13/lidr.on_timeout/unexpired_entries_are_kept"
//@ fn LocalIdRegistry::on_timeout
#[kani::proof]
#[kani::unwind(6)]
#[kani::stub(crate::connection::connection_id_mapper::LocalIdMap::try_insert, stub_local_try_insert)]
#[kani::stub(crate::connection::connection_id_mapper::LocalIdMap::remove, stub_local_remove)]
#[kani::stub(crate::connection::connection_id_mapper::InitialIdMap::remove, stub_initial_remove)]
#[kani::stub(crate::connection::connection_id_mapper::OpenRequestMap::new, crate::connection::connection_id_mapper::OpenRequestMap::verif_new_with_fixed_seed)]
#[kani::stub(<[u8] as s2n_quic_core::ct::ConstantTimeEq>::ct_eq, stub_ct_eq)]
fn vq_c13_lidr_on_timeout_k1() {
    timeout_body(1);
}

//@ harness props=C13 tier=thorough level=bounded bound="K=1 registered id before the call, 4-byte concrete distinct id values; shared hash maps replaced by contract stubs; sequence numbers < 64" timeout=2400 mem=12
// obligations (asserted in transmit_body):
//   "C13/lidr.on_transmit/entry_other_fields_unchanged"
//   "C13/lidr.on_transmit/frame_carries_sequence_number_id_and_token_of_entry"
//   "C13/lidr.on_transmit/frame_counters"
//   "C13/lidr.on_transmit/frame_is_wellformed_new_connection_id"
//   "C13/lidr.on_transmit/frame_other_entries"
//   "C13/lidr.on_transmit/frame_retire_prior_to_is_registry_value"
//   "C13/lidr.on_transmit/frame_retire_prior_to_le_sequence_number"
//   "C13/lidr.on_transmit/frame_retires_only_issued_ids"
//   "C13/lidr.on_transmit/inv_preserved"
//   "C13/lidr.on_transmit/map_untouched"
//   "C13/lidr.on_transmit/no_other_frames"
//   "C13/lidr.on_transmit/one_frame_per_id"
//   "C13/lidr.on_transmit/tracks_packet_number_of_frame"
//   "C13/lidr.on_transmit/written_ids_become_pending_acknowledgement"
//@ fn LocalIdRegistry::on_transmit
#[kani::proof]
#[kani::unwind(6)]
#[kani::stub(crate::connection::connection_id_mapper::LocalIdMap::try_insert, stub_local_try_insert)]
#[kani::stub(crate::connection::connection_id_mapper::LocalIdMap::remove, stub_local_remove)]
#[kani::stub(crate::connection::connection_id_mapper::InitialIdMap::remove, stub_initial_remove)]
#[kani::stub(crate::connection::connection_id_mapper::OpenRequestMap::new, crate::connection::connection_id_mapper::OpenRequestMap::verif_new_with_fixed_seed)]
#[kani::stub(<[u8] as s2n_quic_core::ct::ConstantTimeEq>::ct_eq, stub_ct_eq)]
fn vq_c13_lidr_on_transmit_k1() {
    transmit_body(1, true);
}

//@ harness props=C13 tier=thorough level=bounded bound="K=1 registered id before the call, 4-byte concrete distinct id values; shared hash maps replaced by contract stubs" timeout=2400 mem=12
// obligations (asserted in ack_loss_body):
//   "C13/lidr.on_packet_ack/acked_ids_become_active_and_forget_token"
//   "C13/lidr.on_packet_ack_loss/frame_counters"
//   "C13/lidr.on_packet_ack_loss/frame_other_entries"
//   "C13/lidr.on_packet_ack_loss/inv_preserved"
//   "C13/lidr.on_packet_ack_loss/map_untouched"
//@ fn LocalIdRegistry::on_packet_ack
#[kani::proof]
#[kani::unwind(6)]
#[kani::stub(crate::connection::connection_id_mapper::LocalIdMap::try_insert, stub_local_try_insert)]
#[kani::stub(crate::connection::connection_id_mapper::LocalIdMap::remove, stub_local_remove)]
#[kani::stub(crate::connection::connection_id_mapper::InitialIdMap::remove, stub_initial_remove)]
#[kani::stub(crate::connection::connection_id_mapper::OpenRequestMap::new, crate::connection::connection_id_mapper::OpenRequestMap::verif_new_with_fixed_seed)]
#[kani::stub(<[u8] as s2n_quic_core::ct::ConstantTimeEq>::ct_eq, stub_ct_eq)]
fn vq_c13_lidr_on_packet_ack_k1() {
    ack_loss_body(1, false);
}

//@ harness props=C13 tier=thorough level=bounded bound="K=1 registered id before the call, 4-byte concrete distinct id values; shared hash maps replaced by contract stubs" timeout=2400 mem=12
// obligations (asserted in ack_loss_body):
//   "C13/lidr.on_packet_ack_loss/frame_counters"
//   "C13/lidr.on_packet_ack_loss/frame_other_entries"
//   "C13/lidr.on_packet_ack_loss/inv_preserved"
//   "C13/lidr.on_packet_ack_loss/map_untouched"
//   "C13/lidr.on_packet_loss/lost_ids_become_pending_reissue"
//@ fn LocalIdRegistry::on_packet_loss
#[kani::proof]
#[kani::unwind(6)]
#[kani::stub(crate::connection::connection_id_mapper::LocalIdMap::try_insert, stub_local_try_insert)]
#[kani::stub(crate::connection::connection_id_mapper::LocalIdMap::remove, stub_local_remove)]
#[kani::stub(crate::connection::connection_id_mapper::InitialIdMap::remove, stub_initial_remove)]
#[kani::stub(crate::connection::connection_id_mapper::OpenRequestMap::new, crate::connection::connection_id_mapper::OpenRequestMap::verif_new_with_fixed_seed)]
#[kani::stub(<[u8] as s2n_quic_core::ct::ConstantTimeEq>::ct_eq, stub_ct_eq)]
fn vq_c13_lidr_on_packet_loss_k1() {
    ack_loss_body(1, true);
}

//@ harness props=C13 tier=thorough level=bounded bound="K=1 registered id before the call, 4-byte concrete distinct id values; shared hash maps replaced by contract stubs" timeout=2400 mem=12
// obligations (asserted in rotate_body):
//   "C13/lidr.on_handshake_confirmed/frame_other_entries"
//   "C13/lidr.on_handshake_confirmed/handshake_id_is_retired"
//   "C13/lidr.on_handshake_confirmed/inv_preserved"
//   "C13/lidr.on_handshake_confirmed/map_untouched"
//   "C13/lidr.on_handshake_confirmed/retire_prior_to_at_least_one"
//   "C13/lidr.on_handshake_confirmed/target_other_fields_unchanged"
//@ fn LocalIdRegistry::on_handshake_confirmed
#[kani::proof]
#[kani::unwind(6)]
#[kani::stub(crate::connection::connection_id_mapper::LocalIdMap::try_insert, stub_local_try_insert)]
#[kani::stub(crate::connection::connection_id_mapper::LocalIdMap::remove, stub_local_remove)]
#[kani::stub(crate::connection::connection_id_mapper::InitialIdMap::remove, stub_initial_remove)]
#[kani::stub(crate::connection::connection_id_mapper::OpenRequestMap::new, crate::connection::connection_id_mapper::OpenRequestMap::verif_new_with_fixed_seed)]
#[kani::stub(<[u8] as s2n_quic_core::ct::ConstantTimeEq>::ct_eq, stub_ct_eq)]
fn vq_c13_lidr_on_handshake_confirmed_k1() {
    rotate_body(1);
}

//@ harness props=C13 tier=thorough level=bounded bound="K=2 registered ids before the call, 4-byte concrete distinct id values; shared hash maps replaced by contract stubs; expiration <= 30 s + 2^22 us" timeout=2400 mem=12
// obligations (asserted in register_body):
//   "C13/lidr.builder/inv"
//   "C13/lidr.register/err_counters_unchanged"
//   "C13/lidr.register/err_entries_unchanged"
//   "C13/lidr.register/err_is_connection_id_in_use"
//   "C13/lidr.register/err_map_untouched"
//   "C13/lidr.register/err_only_if_duplicate_or_map_occupied"
//   "C13/lidr.register/frame_rotate_flag"
//   "C13/lidr.register/ok_appends_one_entry"
//   "C13/lidr.register/ok_counters_next_seq_plus_one"
//   "C13/lidr.register/ok_entry_is_argument"
//   "C13/lidr.register/ok_frame_other_entries"
//   "C13/lidr.register/ok_id_and_token_fresh"
//   "C13/lidr.register/ok_map_insert_once"
//   "C13/lidr.register/ok_only_for_unregistered_id"
//   "C13/lidr.register/ok_retirement_time_is_expiration_minus_buffer"
//   "C13/lidr.register/ok_sequence_number_is_old_next"
//@ fn LocalIdRegistry::register_connection_id
//@ fn LocalIdRegistry::new
#[kani::proof]
#[kani::unwind(6)]
#[kani::stub(crate::connection::connection_id_mapper::LocalIdMap::try_insert, stub_local_try_insert)]
#[kani::stub(crate::connection::connection_id_mapper::LocalIdMap::remove, stub_local_remove)]
#[kani::stub(crate::connection::connection_id_mapper::InitialIdMap::remove, stub_initial_remove)]
#[kani::stub(crate::connection::connection_id_mapper::OpenRequestMap::new, crate::connection::connection_id_mapper::OpenRequestMap::verif_new_with_fixed_seed)]
#[kani::stub(<[u8] as s2n_quic_core::ct::ConstantTimeEq>::ct_eq, stub_ct_eq)]
fn vq_c13_lidr_register_post_k2() {
    register_body(2, 0x30);
}

//@ harness props=C13 tier=thorough level=bounded bound="K=2 registered ids before the call, 4-byte concrete distinct id values; shared hash maps replaced by contract stubs; expiration <= 30 s + 2^22 us" timeout=2400 mem=12
// obligations (asserted in register_body):
//   "C13/lidr.builder/inv"
//   "C13/lidr.register/err_counters_unchanged"
//   "C13/lidr.register/err_is_connection_id_in_use"
//   "C13/lidr.register/err_map_untouched"
//   "C13/lidr.register/err_only_if_duplicate_or_map_occupied"
//   "C13/lidr.register/frame_rotate_flag"
//   "C13/lidr.register/inv_preserved"
//   "C13/lidr.register/map_holds_exactly_registered_ids"
//   "C13/lidr.register/ok_appends_one_entry"
//   "C13/lidr.register/ok_counters_next_seq_plus_one"
//   "C13/lidr.register/ok_map_insert_once"
//   "C13/lidr.register/ok_only_for_unregistered_id"
//@ fn LocalIdRegistry::register_connection_id
#[kani::proof]
#[kani::unwind(6)]
#[kani::stub(crate::connection::connection_id_mapper::LocalIdMap::try_insert, stub_local_try_insert)]
#[kani::stub(crate::connection::connection_id_mapper::LocalIdMap::remove, stub_local_remove)]
#[kani::stub(crate::connection::connection_id_mapper::InitialIdMap::remove, stub_initial_remove)]
#[kani::stub(crate::connection::connection_id_mapper::OpenRequestMap::new, crate::connection::connection_id_mapper::OpenRequestMap::verif_new_with_fixed_seed)]
#[kani::stub(<[u8] as s2n_quic_core::ct::ConstantTimeEq>::ct_eq, stub_ct_eq)]
fn vq_c13_lidr_register_inv_k2() {
    register_body(2, 0xc0);
}

//@ harness props=C13 tier=thorough level=bounded bound="K=2 registered ids before the call, 4-byte concrete distinct id values; shared hash maps replaced by contract stubs" timeout=2400 mem=12
// obligations (asserted in limit_interest_body):
//   "C13/lidr.builder/inv"
//   "C13/lidr.interest/active_plus_requested_le_limit"
//   "C13/lidr.interest/frame_counters"
//   "C13/lidr.interest/frame_entries"
//   "C13/lidr.interest/map_untouched"
//   "C13/lidr.interest/never_more_unretired_ids_than_peer_limit"
//   "C13/lidr.interest/requests_exactly_limit_minus_active"
//   "C13/lidr.set_limit/frame_entries"
//   "C13/lidr.set_limit/frame_shape"
//   "C13/lidr.set_limit/inv_preserved"
//   "C13/lidr.set_limit/limit_is_min_of_peer_limit_and_3"
//   "C13/lidr.set_limit/limit_le_peer_limit"
//@ fn LocalIdRegistry::set_active_connection_id_limit
//@ fn LocalIdRegistry::connection_id_interest
#[kani::proof]
#[kani::unwind(6)]
#[kani::stub(crate::connection::connection_id_mapper::LocalIdMap::try_insert, stub_local_try_insert)]
#[kani::stub(crate::connection::connection_id_mapper::LocalIdMap::remove, stub_local_remove)]
#[kani::stub(crate::connection::connection_id_mapper::InitialIdMap::remove, stub_initial_remove)]
#[kani::stub(crate::connection::connection_id_mapper::OpenRequestMap::new, crate::connection::connection_id_mapper::OpenRequestMap::verif_new_with_fixed_seed)]
#[kani::stub(<[u8] as s2n_quic_core::ct::ConstantTimeEq>::ct_eq, stub_ct_eq)]
fn vq_c13_lidr_limit_interest_k2() {
    limit_interest_body(2);
}

//@ harness props=C13 tier=thorough level=bounded bound="K=2 registered ids before the call, 4-byte concrete distinct id values; shared hash maps replaced by contract stubs; rtt <= 4 s" timeout=2400 mem=12
// obligations (asserted in retire_body):
//   "C13/lidr.on_retire/err_counters_unchanged"
//   "C13/lidr.on_retire/err_entries_unchanged"
//   "C13/lidr.on_retire/err_iff_never_issued_or_refers_to_packet_destination_id"
//   "C13/lidr.on_retire/err_is_invalid_sequence_number"
//   "C13/lidr.on_retire/frame_rotate_flag"
//   "C13/lidr.on_retire/inv_preserved"
//   "C13/lidr.on_retire/map_untouched"
//   "C13/lidr.on_retire/ok_counters"
//   "C13/lidr.on_retire/ok_frame_other_entries"
//   "C13/lidr.on_retire/ok_no_entry_added_or_removed"
//   "C13/lidr.on_retire/ok_only_target_becomes_pending_removal"
//   "C13/lidr.on_retire/ok_target_other_fields_unchanged"
//@ fn LocalIdRegistry::on_retire_connection_id
#[kani::proof]
#[kani::unwind(6)]
#[kani::stub(crate::connection::connection_id_mapper::LocalIdMap::try_insert, stub_local_try_insert)]
#[kani::stub(crate::connection::connection_id_mapper::LocalIdMap::remove, stub_local_remove)]
#[kani::stub(crate::connection::connection_id_mapper::InitialIdMap::remove, stub_initial_remove)]
#[kani::stub(crate::connection::connection_id_mapper::OpenRequestMap::new, crate::connection::connection_id_mapper::OpenRequestMap::verif_new_with_fixed_seed)]
#[kani::stub(<[u8] as s2n_quic_core::ct::ConstantTimeEq>::ct_eq, stub_ct_eq)]
fn vq_c13_lidr_on_retire_k2() {
    retire_body(2);
}

//@ harness props=C13 tier=thorough level=bounded bound="K=2 registered ids before the call, 4-byte concrete distinct id values; shared hash maps replaced by contract stubs; now <= 2^22 us" timeout=2400 mem=12
// obligations (asserted in timeout_body):
//   "C13/lidr.on_timeout/counters_and_retire_prior_to"
//   "C13/lidr.on_timeout/exactly_the_expired_entries_are_removed"
//   "C13/lidr.on_timeout/frame_not_ready_entries"
//   "C13/lidr.on_timeout/frame_rotate_flag"
//   "C13/lidr.on_timeout/inv_preserved"
//   "C13/lidr.on_timeout/kept_entry_other_fields_unchanged"
//   "C13/lidr.on_timeout/map_holds_exactly_registered_ids"
//   "C13/lidr.on_timeout/map_remove_once_per_expired_id"
//   "C13/lidr.on_timeout/retire_prior_to_le_next_sequence_number"
//   "C13/lidr.on_timeout/retire_ready_ids_become_pending_retirement_confirmation"
//   "C13/lidr.on_timeout/unexpired_entries_are_kept"
//@ fn LocalIdRegistry::on_timeout
#[kani::proof]
#[kani::unwind(6)]
#[kani::stub(crate::connection::connection_id_mapper::LocalIdMap::try_insert, stub_local_try_insert)]
#[kani::stub(crate::connection::connection_id_mapper::LocalIdMap::remove, stub_local_remove)]
#[kani::stub(crate::connection::connection_id_mapper::InitialIdMap::remove, stub_initial_remove)]
#[kani::stub(crate::connection::connection_id_mapper::OpenRequestMap::new, crate::connection::connection_id_mapper::OpenRequestMap::verif_new_with_fixed_seed)]
#[kani::stub(<[u8] as s2n_quic_core::ct::ConstantTimeEq>::ct_eq, stub_ct_eq)]
fn vq_c13_lidr_on_timeout_k2() {
    timeout_body(2);
}

//@ harness props=C13 tier=thorough level=bounded bound="K=2 registered ids before the call, 4-byte concrete distinct id values; shared hash maps replaced by contract stubs; sequence numbers < 64" timeout=2400 mem=12
// obligations (asserted in transmit_body):
//   "C13/lidr.on_transmit/entry_other_fields_unchanged"
//   "C13/lidr.on_transmit/frame_carries_sequence_number_id_and_token_of_entry"
//   "C13/lidr.on_transmit/frame_counters"
//   "C13/lidr.on_transmit/frame_is_wellformed_new_connection_id"
//   "C13/lidr.on_transmit/frame_other_entries"
//   "C13/lidr.on_transmit/frame_retire_prior_to_is_registry_value"
//   "C13/lidr.on_transmit/frame_retire_prior_to_le_sequence_number"
//   "C13/lidr.on_transmit/frame_retires_only_issued_ids"
//   "C13/lidr.on_transmit/inv_preserved"
//   "C13/lidr.on_transmit/map_untouched"
//   "C13/lidr.on_transmit/no_other_frames"
//   "C13/lidr.on_transmit/one_frame_per_id"
//   "C13/lidr.on_transmit/tracks_packet_number_of_frame"
//   "C13/lidr.on_transmit/written_ids_become_pending_acknowledgement"
//@ fn LocalIdRegistry::on_transmit
#[kani::proof]
#[kani::unwind(6)]
#[kani::stub(crate::connection::connection_id_mapper::LocalIdMap::try_insert, stub_local_try_insert)]
#[kani::stub(crate::connection::connection_id_mapper::LocalIdMap::remove, stub_local_remove)]
#[kani::stub(crate::connection::connection_id_mapper::InitialIdMap::remove, stub_initial_remove)]
#[kani::stub(crate::connection::connection_id_mapper::OpenRequestMap::new, crate::connection::connection_id_mapper::OpenRequestMap::verif_new_with_fixed_seed)]
#[kani::stub(<[u8] as s2n_quic_core::ct::ConstantTimeEq>::ct_eq, stub_ct_eq)]
fn vq_c13_lidr_on_transmit_k2() {
    transmit_body(2, true);
}

//@ harness props=C13 tier=thorough level=bounded bound="K=2 registered ids before the call, 4-byte concrete distinct id values; shared hash maps replaced by contract stubs" timeout=2400 mem=12
// obligations (asserted in ack_loss_body):
//   "C13/lidr.on_packet_ack/acked_ids_become_active_and_forget_token"
//   "C13/lidr.on_packet_ack_loss/frame_counters"
//   "C13/lidr.on_packet_ack_loss/frame_other_entries"
//   "C13/lidr.on_packet_ack_loss/inv_preserved"
//   "C13/lidr.on_packet_ack_loss/map_untouched"
//@ fn LocalIdRegistry::on_packet_ack
#[kani::proof]
#[kani::unwind(6)]
#[kani::stub(crate::connection::connection_id_mapper::LocalIdMap::try_insert, stub_local_try_insert)]
#[kani::stub(crate::connection::connection_id_mapper::LocalIdMap::remove, stub_local_remove)]
#[kani::stub(crate::connection::connection_id_mapper::InitialIdMap::remove, stub_initial_remove)]
#[kani::stub(crate::connection::connection_id_mapper::OpenRequestMap::new, crate::connection::connection_id_mapper::OpenRequestMap::verif_new_with_fixed_seed)]
#[kani::stub(<[u8] as s2n_quic_core::ct::ConstantTimeEq>::ct_eq, stub_ct_eq)]
fn vq_c13_lidr_on_packet_ack_k2() {
    ack_loss_body(2, false);
}

//@ harness props=C13 tier=thorough level=bounded bound="K=2 registered ids before the call, 4-byte concrete distinct id values; shared hash maps replaced by contract stubs" timeout=2400 mem=12
// obligations (asserted in ack_loss_body):
//   "C13/lidr.on_packet_ack_loss/frame_counters"
//   "C13/lidr.on_packet_ack_loss/frame_other_entries"
//   "C13/lidr.on_packet_ack_loss/inv_preserved"
//   "C13/lidr.on_packet_ack_loss/map_untouched"
//   "C13/lidr.on_packet_loss/lost_ids_become_pending_reissue"
//@ fn LocalIdRegistry::on_packet_loss
#[kani::proof]
#[kani::unwind(6)]
#[kani::stub(crate::connection::connection_id_mapper::LocalIdMap::try_insert, stub_local_try_insert)]
#[kani::stub(crate::connection::connection_id_mapper::LocalIdMap::remove, stub_local_remove)]
#[kani::stub(crate::connection::connection_id_mapper::InitialIdMap::remove, stub_initial_remove)]
#[kani::stub(crate::connection::connection_id_mapper::OpenRequestMap::new, crate::connection::connection_id_mapper::OpenRequestMap::verif_new_with_fixed_seed)]
#[kani::stub(<[u8] as s2n_quic_core::ct::ConstantTimeEq>::ct_eq, stub_ct_eq)]
fn vq_c13_lidr_on_packet_loss_k2() {
    ack_loss_body(2, true);
}

//@ harness props=C13 tier=thorough level=bounded bound="K=2 registered ids before the call, 4-byte concrete distinct id values; shared hash maps replaced by contract stubs" timeout=2400 mem=12
// obligations (asserted in rotate_body):
//   "C13/lidr.on_handshake_confirmed/frame_other_entries"
//   "C13/lidr.on_handshake_confirmed/handshake_id_is_retired"
//   "C13/lidr.on_handshake_confirmed/inv_preserved"
//   "C13/lidr.on_handshake_confirmed/map_untouched"
//   "C13/lidr.on_handshake_confirmed/retire_prior_to_at_least_one"
//   "C13/lidr.on_handshake_confirmed/target_other_fields_unchanged"
//@ fn LocalIdRegistry::on_handshake_confirmed
#[kani::proof]
#[kani::unwind(6)]
#[kani::stub(crate::connection::connection_id_mapper::LocalIdMap::try_insert, stub_local_try_insert)]
#[kani::stub(crate::connection::connection_id_mapper::LocalIdMap::remove, stub_local_remove)]
#[kani::stub(crate::connection::connection_id_mapper::InitialIdMap::remove, stub_initial_remove)]
#[kani::stub(crate::connection::connection_id_mapper::OpenRequestMap::new, crate::connection::connection_id_mapper::OpenRequestMap::verif_new_with_fixed_seed)]
#[kani::stub(<[u8] as s2n_quic_core::ct::ConstantTimeEq>::ct_eq, stub_ct_eq)]
fn vq_c13_lidr_on_handshake_confirmed_k2() {
    rotate_body(2);
}


// The same contract WITHOUT the caller obligation "retirement times monotone in issue order": the strict RFC 9000
// 19.15 obligation fails on the unchanged tree (finding), the residual one excludes exactly the states that violate
// the retire-prior-to discipline.
//@ harness props=C13 tier=thorough level=bounded bound="K=2 registered ids before the call, 4-byte concrete distinct id values; shared hash maps replaced by contract stubs; sequence numbers < 64" timeout=2400 mem=12
//@ fn LocalIdRegistry::on_transmit
// obligations (asserted in transmit_body):
//   "C13/lidr.on_transmit/frame_retire_prior_to_le_sequence_number_without_caller_obligation"
//   "C13/lidr.on_transmit/frame_retire_prior_to_le_sequence_number_without_caller_obligation#outside-known"
#[kani::proof]
#[kani::unwind(6)]
#[kani::stub(crate::connection::connection_id_mapper::LocalIdMap::try_insert, stub_local_try_insert)]
#[kani::stub(crate::connection::connection_id_mapper::LocalIdMap::remove, stub_local_remove)]
#[kani::stub(crate::connection::connection_id_mapper::InitialIdMap::remove, stub_initial_remove)]
#[kani::stub(crate::connection::connection_id_mapper::OpenRequestMap::new, crate::connection::connection_id_mapper::OpenRequestMap::verif_new_with_fixed_seed)]
#[kani::stub(<[u8] as s2n_quic_core::ct::ConstantTimeEq>::ct_eq, stub_ct_eq)]
fn vq_c13_lidr_on_transmit_any_state_k2() {
    transmit_body(2, false);
}
