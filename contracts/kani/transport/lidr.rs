//@ inject crate=transport src=quic/s2n-quic-transport/src/connection/local_id_registry.rs
// Contract harnesses for LocalIdRegistry (property C13: connection ids this endpoint issues).
// Predicates: contracts/spec/conn_ids.rs (shared with the Verus lemmas in verus/lemmas/C13.rs).
//
// MODULAR: the registry's own code is the real one (constructor, SmallVec, Memo queries with the
// crate's own check_consistency() as free obligations, Arc<Mutex<..>> shared state).  Only the calls
// into the endpoint-wide hash maps are replaced by contract stubs with a ghost log (_c13_common.rs,
// trusted "hash-map routing").
//
// BOUNDED: every harness fixes the *shape* of the registry (K = number of registered ids, 1..3; ids are
// concrete distinct 4-byte values "id00".."id03").  Everything else is symbolic: sequence numbers,
// statuses with their payloads, retirement times, tokens, next_sequence_number, retire_prior_to,
// active_connection_id_limit, the memo caches (filled or empty), and all arguments.
use super::*;
#[allow(dead_code, unused_variables)]
mod spec {
    include!("../../spec/conn_ids.rs");
}
use spec::*;
include!("_c13_common.rs");

use s2n_quic_core::{packet::number::PacketNumberSpace, varint::VarInt};

const K_MAX: usize = 4;
/// clock values are below 2^62 microseconds (146 000 years): argument range of every timestamp
const TS_MAX: u64 = 1 << 62;
const BUFFER_US: u64 = 30_000_000;
const GRANULARITY_US: u64 = 1_000;

fn idk(k: u8) -> connection::LocalId {
    connection::LocalId::try_from_bytes(&[b'i', b'd', b'0', b'0' + k]).unwrap()
}
fn pn(x: u32) -> PacketNumber {
    PacketNumberSpace::ApplicationData.new_packet_number(VarInt::from_u32(x))
}
fn any_ts() -> Timestamp {
    let m: u64 = kani::any();
    kani::assume(m >= 1 && m <= TS_MAX);
    ts(m)
}
fn any_opt_ts() -> Option<Timestamp> {
    if kani::any() {
        Some(any_ts())
    } else {
        None
    }
}
fn any_token() -> stateless_reset::Token {
    let b: [u8; 16] = kani::any();
    stateless_reset::Token::from(b)
}
fn any_status() -> LocalIdStatus {
    let k: u8 = kani::any();
    kani::assume(k < 6);
    match k {
        0 => PendingIssuance,
        1 => PendingReissue,
        2 => PendingAcknowledgement(pn(kani::any())),
        3 => Active,
        4 => PendingRetirementConfirmation(any_opt_ts()),
        _ => PendingRemoval(any_ts()),
    }
}

/// value copy of one LocalIdInfo (LocalIdStatus is not Clone)
#[derive(Clone, Copy)]
struct Snap {
    id: connection::LocalId,
    seq: u32,
    rt: Option<Timestamp>,
    tok: stateless_reset::Token,
    st: u8,
    st_pn: Option<PacketNumber>,
    st_time: Option<Timestamp>,
}
fn snap(e: &LocalIdInfo) -> Snap {
    let (st, st_pn, st_time) = match e.status {
        PendingIssuance => (0, None, None),
        PendingReissue => (1, None, None),
        PendingAcknowledgement(p) => (2, Some(p), None),
        Active => (3, None, None),
        PendingRetirementConfirmation(t) => (4, None, t),
        PendingRemoval(t) => (5, None, Some(t)),
    };
    Snap { id: e.id, seq: e.sequence_number, rt: e.retirement_time, tok: e.stateless_reset_token, st, st_pn, st_time }
}
fn opt_ts_eq(a: Option<Timestamp>, b: Option<Timestamp>) -> bool {
    match (a, b) {
        (None, None) => true,
        (Some(x), Some(y)) => ts_micros(x) == ts_micros(y),
        _ => false,
    }
}
/// every field equal (frame condition), payloads of the status included
fn snap_eq(a: &Snap, b: &Snap) -> bool {
    a.id == b.id
        && a.seq == b.seq
        && opt_ts_eq(a.rt, b.rt)
        && tok_bits(&a.tok) == tok_bits(&b.tok)
        && a.st == b.st
        && a.st_pn == b.st_pn
        && opt_ts_eq(a.st_time, b.st_time)
}
/// every field except the status equal
fn snap_eq_but_status(a: &Snap, b: &Snap) -> bool {
    a.id == b.id && a.seq == b.seq && opt_ts_eq(a.rt, b.rt) && tok_bits(&a.tok) == tok_bits(&b.tok)
}
fn abs_entry(e: &Snap) -> LidEntry {
    let b = e.id.as_bytes();
    LidEntry {
        seq: e.seq as i128,
        id_len: b.len() as i128,
        id_a: be10(b, 0),
        id_b: be10(b, 10),
        tok_a: tok_a(&e.tok),
        tok_b: tok_b(&e.tok),
        status: e.st as i128,
        retire_at: match e.rt {
            None => -1,
            Some(t) => ts_micros(t) as i128,
        },
    }
}

/// the whole observable state of a registry of concrete shape
#[derive(Clone, Copy)]
struct View {
    n: usize,
    e: [Option<Snap>; K_MAX],
    s: Lidr,
    rotate: bool,
}
fn view(reg: &LocalIdRegistry) -> View {
    let n = reg.registered_ids.len();
    assert!(n <= K_MAX);
    let mut e: [Option<Snap>; K_MAX] = [None; K_MAX];
    let mut active = 0;
    let mut i = 0;
    while i < K_MAX {
        if i < n {
            let s = snap(&reg.registered_ids[i]);
            if s.st != 4 && s.st != 5 {
                active += 1;
            }
            e[i] = Some(s);
        }
        i += 1;
    }
    View {
        n,
        e,
        s: Lidr {
            next_seq: reg.next_sequence_number as i128,
            retire_prior_to: reg.retire_prior_to as i128,
            limit: reg.active_connection_id_limit as i128,
            len: n as i128,
            active,
        },
        rotate: reg.rotate_handshake_connection_id,
    }
}
impl View {
    fn at(&self, i: usize) -> Snap {
        self.e[i].unwrap()
    }
    fn abs(&self, i: usize) -> LidEntry {
        abs_entry(&self.at(i))
    }
}

/// representation invariant over a view; `discipline` adds the conditional part (spec file)
fn inv(v: &View, discipline: bool) -> bool {
    let mut ok = lidr_inv(v.s);
    let mut i = 0;
    while i < K_MAX {
        if i < v.n {
            let a = v.abs(i);
            ok = ok && lid_entry_inv(v.s, a);
            if discipline {
                ok = ok && lid_entry_rpt_inv(v.s, a);
            }
            let mut j = i + 1;
            while j < K_MAX {
                if j < v.n {
                    let b = v.abs(j);
                    ok = ok && lid_pair_inv(a, b);
                    if discipline {
                        ok = ok && lid_pair_monotone(a, b);
                    }
                }
                j += 1;
            }
        }
        i += 1;
    }
    ok
}

/// routing: the ids this connection holds in the shared map are exactly the registered ids
fn map_is_registered_ids(v: &View) -> bool {
    let l = log();
    let mut ok = l.held_count() == v.n && l.wrong_internal == 0;
    let mut i = 0;
    while i < K_MAX {
        if i < v.n {
            ok = ok && l.holds(&v.at(i).id);
        }
        i += 1;
    }
    ok
}

/// Arbitrary registry with exactly `n` (1..=3) registered ids satisfying the representation invariant.
/// Built through the real constructors (ConnectionIdMapper::new, create_local_id_registry); the only
/// code that writes private fields.
fn any_lidr(n: usize, discipline: bool) -> LocalIdRegistry {
    let internal = the_internal_id();
    {
        let l = log();
        l.building = true;
        l.internal = Some(internal);
    }
    let mut mapper = new_mapper();
    let rotate: bool = kani::any();
    let mut reg = mapper.create_local_id_registry(internal, &idk(0), None, any_token(), rotate);
    // the endpoint-wide maps are never dropped in a harness (hashbrown's drop is out of reach, and no
    // contracted function drops them)
    core::mem::forget(mapper);

    {
        let e = &mut reg.registered_ids[0];
        e.sequence_number = kani::any();
        e.retirement_time = any_opt_ts();
        e.status = any_status();
    }
    let mut i = 1;
    while i < K_MAX {
        if i < n {
            reg.registered_ids.push(LocalIdInfo {
                id: idk(i as u8),
                sequence_number: kani::any(),
                retirement_time: any_opt_ts(),
                stateless_reset_token: any_token(),
                status: any_status(),
            });
            log().hold(idk(i as u8));
        }
        i += 1;
    }
    reg.next_sequence_number = kani::any();
    reg.retire_prior_to = kani::any();
    reg.active_connection_id_limit = kani::any();

    // memo caches: empty or holding the value of their query (the crate's check_consistency() states
    // exactly this)
    reg.next_expiration.clear();
    reg.ack_interest.clear();
    reg.transmission_interest.clear();
    reg.active_id_count.clear();
    if kani::any() {
        let _ = reg.next_expiration.get(&reg.registered_ids);
    }
    if kani::any() {
        let _ = reg.ack_interest.get(&reg.registered_ids);
    }
    if kani::any() {
        let _ = reg.transmission_interest.get(&reg.registered_ids);
    }
    if kani::any() {
        let _ = reg.active_id_count.get(&reg.registered_ids);
    }

    let v = view(&reg);
    kani::assume(inv(&v, discipline));
    {
        let l = log();
        l.building = false;
        l.ins_calls = 0;
        l.ins_ok = 0;
        l.rem_calls = 0;
        l.rem_missing = 0;
    }
    reg
}

/// The registry is not dropped at the end of a harness: dropping the last `Arc` of the shared state would
/// run hashbrown's table drop (out of reach, see _c13_common.rs); `Drop for LocalIdRegistry` has its own
/// harness.
fn finish(reg: LocalIdRegistry) {
    core::mem::forget(reg);
}

// ================================================================================================
// register_connection_id
// ================================================================================================
// Caller obligations (debug assertions in validate_new_connection_id, i.e. not enforced in release):
//   * active < limit            -- established at the only production call site
//                                  connection_impl.rs:988-1010 (registers exactly `connection_id_interest()`
//                                  ids) and in LocalIdRegistry::new (limit 1, no id yet)
//   * token not among the registered tokens -- the token generator is keyed by the (fresh) id
//   * next_sequence_number < u32::MAX       -- 2^32 registrations on one connection
//   * expiration >= 30 s after the clock epoch (expiration - EXPIRATION_BUFFER must not underflow):
//     expiration = now + lifetime with lifetime >= connection::id::MIN_LIFETIME = 60 s
//   * retirement times monotone in issue order (only for the retire-prior-to discipline):
//     expiration = now + Generator::lifetime() with a constant lifetime and a monotone clock
fn register_body(n: usize, mode: u8) {
    let g1 = mode & 0x10 != 0;
    let g2 = mode & 0x20 != 0;
    let g3 = mode & 0x40 != 0;
    let g4 = mode & 0x80 != 0;
    let mut reg = any_lidr(n, true);
    let old = view(&reg);
    assert!(inv(&old, true), "C13/lidr.builder/inv");

    let sel: u8 = kani::any();
    kani::assume(sel <= 3);
    let id = idk(sel);
    let token = any_token();
    let exp = any_opt_ts();
    if mode & 3 == 1 {
        kani::assume(exp.is_none());
    }

    kani::assume(old.s.active < old.s.limit);
    kani::assume(old.s.next_seq < u32_max());
    if let Some(t) = exp {
        kani::assume(ts_micros(t) >= BUFFER_US + 1);
    }
    let new_retire_at: i128 = match exp {
        None => -1,
        Some(t) => (ts_micros(t) - BUFFER_US) as i128,
    };
    let probe = LidEntry { seq: old.s.next_seq, id_len: 4, id_a: 0, id_b: 0, tok_a: tok_a(&token), tok_b: tok_b(&token), status: 0, retire_at: new_retire_at };
    let mut i = 0;
    while i < K_MAX {
        if i < old.n {
            kani::assume(!lid_same_token(old.abs(i), probe));
            kani::assume(lid_pair_monotone(old.abs(i), probe));
        }
        i += 1;
    }

    let r = reg.register_connection_id(&id, exp, token);
    let new = view(&reg);
    let l = log();

    match r {
        Ok(()) => {
            assert!(new.n == old.n + 1, "C13/lidr.register/ok_appends_one_entry");
            assert!(lidr_register_ok_counters(old.s, new.s), "C13/lidr.register/ok_counters_next_seq_plus_one");
            if g1 {
                let e = new.abs(old.n);
                assert!(lidr_register_ok_entry(old.s, e), "C13/lidr.register/ok_sequence_number_is_old_next");
                let es = new.at(old.n);
                assert!(es.id == id && tok_bits(&es.tok) == tok_bits(&token), "C13/lidr.register/ok_entry_is_argument");
                assert!(e.retire_at == new_retire_at, "C13/lidr.register/ok_retirement_time_is_expiration_minus_buffer");
                let mut i = 0;
                while i < K_MAX {
                    if i < old.n {
                        assert!(lidr_register_ok_fresh(old.abs(i), e), "C13/lidr.register/ok_id_and_token_fresh");
                    }
                    i += 1;
                }
            }
            if g2 {
                let mut i = 0;
                while i < K_MAX {
                    if i < old.n {
                        assert!(snap_eq(&old.at(i), &new.at(i)), "C13/lidr.register/ok_frame_other_entries");
                    }
                    i += 1;
                }
            }
            assert!(sel as usize >= old.n, "C13/lidr.register/ok_only_for_unregistered_id");
            assert!(l.ins_calls == 1 && l.ins_ok == 1 && l.rem_calls == 0, "C13/lidr.register/ok_map_insert_once");
        }
        Err(err) => {
            assert!(err == LocalIdRegistrationError::ConnectionIdInUse, "C13/lidr.register/err_is_connection_id_in_use");
            assert!(lidr_unchanged(old.s, new.s) && new.n == old.n, "C13/lidr.register/err_counters_unchanged");
            if g2 {
                let mut i = 0;
                while i < K_MAX {
                    if i < old.n {
                        assert!(snap_eq(&old.at(i), &new.at(i)), "C13/lidr.register/err_entries_unchanged");
                    }
                    i += 1;
                }
            }
            assert!(
                (sel as usize) < old.n || (l.ins_calls == 1 && l.ins_ok == 0),
                "C13/lidr.register/err_only_if_duplicate_or_map_occupied"
            );
            assert!(l.ins_ok == 0 && l.rem_calls == 0, "C13/lidr.register/err_map_untouched");
        }
    }
    assert!(new.rotate == old.rotate, "C13/lidr.register/frame_rotate_flag");
    if g3 {
        assert!(map_is_registered_ids(&new), "C13/lidr.register/map_holds_exactly_registered_ids");
    }
    if g4 {
        assert!(inv(&new, true), "C13/lidr.register/inv_preserved");
    }

    kani::cover!(r.is_ok(), "reach:registered");
    kani::cover!(r.is_err() && (sel as usize) < old.n, "reach:duplicate_id");
    kani::cover!(r.is_err() && (sel as usize) >= old.n, "reach:map_occupied");
    kani::cover!(true, "reach:end");
    finish(reg);
}

//@ harness props=C13 tier=thorough level=bounded bound="K=1 registered id (4-byte concrete ids)" timeout=1200 mem=12
//@ fn LocalIdRegistry::register_connection_id
//@ fn LocalIdRegistry::new
#[kani::proof]
#[kani::unwind(6)]
#[kani::stub(crate::connection::connection_id_mapper::LocalIdMap::try_insert, stub_local_try_insert)]
#[kani::stub(crate::connection::connection_id_mapper::LocalIdMap::remove, stub_local_remove)]
#[kani::stub(crate::connection::connection_id_mapper::InitialIdMap::remove, stub_initial_remove)]
#[kani::stub(crate::connection::connection_id_mapper::OpenRequestMap::new, crate::connection::connection_id_mapper::OpenRequestMap::verif_new_with_fixed_seed)]
#[kani::stub(<[u8] as s2n_quic_core::ct::ConstantTimeEq>::ct_eq, stub_ct_eq)]
fn vq_c13_lidr_register_k1_va() {
    register_body(1, 0x11);
}

//@ harness props=C13 tier=thorough level=bounded bound="K=1 registered id (4-byte concrete ids)" timeout=1200 mem=12
//@ fn LocalIdRegistry::register_connection_id
//@ fn LocalIdRegistry::new
#[kani::proof]
#[kani::unwind(6)]
#[kani::stub(crate::connection::connection_id_mapper::LocalIdMap::try_insert, stub_local_try_insert)]
#[kani::stub(crate::connection::connection_id_mapper::LocalIdMap::remove, stub_local_remove)]
#[kani::stub(crate::connection::connection_id_mapper::InitialIdMap::remove, stub_initial_remove)]
#[kani::stub(crate::connection::connection_id_mapper::OpenRequestMap::new, crate::connection::connection_id_mapper::OpenRequestMap::verif_new_with_fixed_seed)]
#[kani::stub(<[u8] as s2n_quic_core::ct::ConstantTimeEq>::ct_eq, stub_ct_eq)]
fn vq_c13_lidr_register_k1_vb() {
    register_body(1, 0x21);
}

//@ harness props=C13 tier=thorough level=bounded bound="K=1 registered id (4-byte concrete ids)" timeout=1200 mem=12
//@ fn LocalIdRegistry::register_connection_id
//@ fn LocalIdRegistry::new
#[kani::proof]
#[kani::unwind(6)]
#[kani::stub(crate::connection::connection_id_mapper::LocalIdMap::try_insert, stub_local_try_insert)]
#[kani::stub(crate::connection::connection_id_mapper::LocalIdMap::remove, stub_local_remove)]
#[kani::stub(crate::connection::connection_id_mapper::InitialIdMap::remove, stub_initial_remove)]
#[kani::stub(crate::connection::connection_id_mapper::OpenRequestMap::new, crate::connection::connection_id_mapper::OpenRequestMap::verif_new_with_fixed_seed)]
#[kani::stub(<[u8] as s2n_quic_core::ct::ConstantTimeEq>::ct_eq, stub_ct_eq)]
fn vq_c13_lidr_register_k1_vc() {
    register_body(1, 0x41);
}

//@ harness props=C13 tier=thorough level=bounded bound="K=1 registered id (4-byte concrete ids)" timeout=1200 mem=12
//@ fn LocalIdRegistry::register_connection_id
//@ fn LocalIdRegistry::new
#[kani::proof]
#[kani::unwind(6)]
#[kani::stub(crate::connection::connection_id_mapper::LocalIdMap::try_insert, stub_local_try_insert)]
#[kani::stub(crate::connection::connection_id_mapper::LocalIdMap::remove, stub_local_remove)]
#[kani::stub(crate::connection::connection_id_mapper::InitialIdMap::remove, stub_initial_remove)]
#[kani::stub(crate::connection::connection_id_mapper::OpenRequestMap::new, crate::connection::connection_id_mapper::OpenRequestMap::verif_new_with_fixed_seed)]
#[kani::stub(<[u8] as s2n_quic_core::ct::ConstantTimeEq>::ct_eq, stub_ct_eq)]
fn vq_c13_lidr_register_k1_vd() {
    register_body(1, 0x81);
}

