//@ inject crate=transport src=quic/s2n-quic-transport/src/connection/local_id_registry.rs
// Contract harnesses for LocalIdRegistry (property C13: connection ids this endpoint issues).
// Predicates: contracts/spec/conn_ids.rs (shared with the Verus lemmas in verus/lemmas/C13.rs).
//
// MODULAR: the registry's own code is the real one (constructor, SmallVec, Memo queries with the
// crate's own check_consistency() as free obligations, Arc<Mutex<..>> shared state).  Only the calls
// into the endpoint-wide hash maps are replaced by contract stubs with a ghost log (_c13_common.rs,
// trusted "hash-map routing").
//
// BOUNDED: every harness fixes the *shape* of the registry (K = number of registered ids before the call; ids are
// concrete distinct 4-byte values "id00".."id03").  Only K=1 is registered as a harness: with K=2 the same bodies
// (`*_body(2)`) need > 8 GB and > 25 min (on_retire, on_handshake_confirmed; killed), see STRENGTH-c13.md.  Everything else is symbolic: sequence numbers,
// statuses with their payloads, retirement times, tokens, next_sequence_number, retire_prior_to,
// active_connection_id_limit, the memo caches (filled or empty), and all arguments.
use super::*;
#[allow(dead_code, unused_variables)]
mod spec {
    include!("../../spec/conn_ids.rs");
}
use spec::*;
include!("_c13_common.rs");

use s2n_quic_core::{packet::number::PacketNumberSpace, varint::VarInt};

const K_MAX: usize = 4;
/// clock values are below 2^62 microseconds (146 000 years): argument range of every timestamp
const TS_MAX: u64 = 1 << 62;
const BUFFER_US: u64 = 30_000_000;
const GRANULARITY_US: u64 = 1_000;

fn idk(k: u8) -> connection::LocalId {
    connection::LocalId::try_from_bytes(&[b'i', b'd', b'0', b'0' + k]).unwrap()
}
fn pn(x: u32) -> PacketNumber {
    PacketNumberSpace::ApplicationData.new_packet_number(VarInt::from_u32(x))
}
fn any_ts() -> Timestamp {
    let m: u64 = kani::any();
    kani::assume(m >= 1 && m <= TS_MAX);
    ts(m)
}
fn any_opt_ts() -> Option<Timestamp> {
    if kani::any() {
        Some(any_ts())
    } else {
        None
    }
}
fn any_token() -> stateless_reset::Token {
    let b: [u8; 16] = kani::any();
    stateless_reset::Token::from(b)
}
fn any_status() -> LocalIdStatus {
    let k: u8 = kani::any();
    kani::assume(k < 6);
    match k {
        0 => PendingIssuance,
        1 => PendingReissue,
        2 => PendingAcknowledgement(pn(kani::any())),
        3 => Active,
        4 => PendingRetirementConfirmation(any_opt_ts()),
        _ => PendingRemoval(any_ts()),
    }
}

/// value copy of one LocalIdInfo (LocalIdStatus is not Clone)
#[derive(Clone, Copy)]
struct Snap {
    id: connection::LocalId,
    seq: u32,
    rt: Option<Timestamp>,
    tok: stateless_reset::Token,
    st: u8,
    st_pn: Option<PacketNumber>,
    st_time: Option<Timestamp>,
}
fn snap(e: &LocalIdInfo) -> Snap {
    let (st, st_pn, st_time) = match e.status {
        PendingIssuance => (0, None, None),
        PendingReissue => (1, None, None),
        PendingAcknowledgement(p) => (2, Some(p), None),
        Active => (3, None, None),
        PendingRetirementConfirmation(t) => (4, None, t),
        PendingRemoval(t) => (5, None, Some(t)),
    };
    Snap { id: e.id, seq: e.sequence_number, rt: e.retirement_time, tok: e.stateless_reset_token, st, st_pn, st_time }
}
fn opt_ts_eq(a: Option<Timestamp>, b: Option<Timestamp>) -> bool {
    match (a, b) {
        (None, None) => true,
        (Some(x), Some(y)) => ts_micros(x) == ts_micros(y),
        _ => false,
    }
}
/// every field equal (frame condition), payloads of the status included
fn snap_eq(a: &Snap, b: &Snap) -> bool {
    a.id == b.id
        && a.seq == b.seq
        && opt_ts_eq(a.rt, b.rt)
        && tok_bits(&a.tok) == tok_bits(&b.tok)
        && a.st == b.st
        && a.st_pn == b.st_pn
        && opt_ts_eq(a.st_time, b.st_time)
}
/// every field except the status equal
fn snap_eq_but_status(a: &Snap, b: &Snap) -> bool {
    a.id == b.id && a.seq == b.seq && opt_ts_eq(a.rt, b.rt) && tok_bits(&a.tok) == tok_bits(&b.tok)
}
fn abs_entry(e: &Snap) -> LidEntry {
    let b = e.id.as_bytes();
    LidEntry {
        seq: e.seq as i128,
        id_len: b.len() as i128,
        id_a: be10(b, 0),
        id_b: be10(b, 10),
        tok_a: tok_a(&e.tok),
        tok_b: tok_b(&e.tok),
        status: e.st as i128,
        retire_at: match e.rt {
            None => -1,
            Some(t) => ts_micros(t) as i128,
        },
    }
}

/// the whole observable state of a registry of concrete shape
#[derive(Clone, Copy)]
struct View {
    n: usize,
    e: [Option<Snap>; K_MAX],
    s: Lidr,
    rotate: bool,
}
fn view(reg: &LocalIdRegistry) -> View {
    let n = reg.registered_ids.len();
    assert!(n <= K_MAX);
    let mut e: [Option<Snap>; K_MAX] = [None; K_MAX];
    let mut active = 0;
    let mut i = 0;
    while i < K_MAX {
        if i < n {
            let s = snap(&reg.registered_ids[i]);
            if s.st != 4 && s.st != 5 {
                active += 1;
            }
            e[i] = Some(s);
        }
        i += 1;
    }
    View {
        n,
        e,
        s: Lidr {
            next_seq: reg.next_sequence_number as i128,
            retire_prior_to: reg.retire_prior_to as i128,
            limit: reg.active_connection_id_limit as i128,
            len: n as i128,
            active,
        },
        rotate: reg.rotate_handshake_connection_id,
    }
}
impl View {
    fn at(&self, i: usize) -> Snap {
        self.e[i].unwrap()
    }
    fn abs(&self, i: usize) -> LidEntry {
        abs_entry(&self.at(i))
    }
}

/// representation invariant over a view; `discipline` adds the conditional part (spec file)
fn inv(v: &View, discipline: bool) -> bool {
    let mut ok = lidr_inv(v.s);
    let mut i = 0;
    while i < K_MAX {
        if i < v.n {
            let a = v.abs(i);
            ok = ok && lid_entry_inv(v.s, a);
            if discipline {
                ok = ok && lid_entry_rpt_inv(v.s, a);
            }
            let mut j = i + 1;
            while j < K_MAX {
                if j < v.n {
                    let b = v.abs(j);
                    ok = ok && lid_pair_inv(a, b);
                    if discipline {
                        ok = ok && lid_pair_monotone(a, b);
                    }
                }
                j += 1;
            }
        }
        i += 1;
    }
    ok
}

/// routing: the ids this connection holds in the shared map are exactly the registered ids
fn map_is_registered_ids(v: &View) -> bool {
    let l = log();
    let mut ok = l.held_count() == v.n && l.wrong_internal == 0;
    let mut i = 0;
    while i < K_MAX {
        if i < v.n {
            ok = ok && l.holds(&v.at(i).id);
        }
        i += 1;
    }
    ok
}

/// Arbitrary registry with exactly `n` (1..=3) registered ids satisfying the representation invariant.
/// Built through the real constructors (ConnectionIdMapper::new, create_local_id_registry); the only
/// code that writes private fields.
fn any_lidr(n: usize, discipline: bool) -> LocalIdRegistry {
    let internal = the_internal_id();
    {
        let l = log();
        l.building = true;
        l.internal = Some(internal);
    }
    let mut mapper = new_mapper();
    let rotate: bool = kani::any();
    let mut reg = mapper.create_local_id_registry(internal, &idk(0), None, any_token(), rotate);
    // the endpoint-wide maps are never dropped in a harness (hashbrown's drop is out of reach, and no
    // contracted function drops them)
    core::mem::forget(mapper);

    {
        let e = &mut reg.registered_ids[0];
        e.sequence_number = kani::any();
        e.retirement_time = any_opt_ts();
        e.status = any_status();
    }
    let mut i = 1;
    while i < K_MAX {
        if i < n {
            reg.registered_ids.push(LocalIdInfo {
                id: idk(i as u8),
                sequence_number: kani::any(),
                retirement_time: any_opt_ts(),
                stateless_reset_token: any_token(),
                status: any_status(),
            });
            log().hold(idk(i as u8));
        }
        i += 1;
    }
    reg.next_sequence_number = kani::any();
    reg.retire_prior_to = kani::any();
    reg.active_connection_id_limit = kani::any();

    // memo caches: empty or holding the value of their query (the crate's check_consistency() states
    // exactly this)
    reg.next_expiration.clear();
    reg.ack_interest.clear();
    reg.transmission_interest.clear();
    reg.active_id_count.clear();
    if kani::any() {
        let _ = reg.next_expiration.get(&reg.registered_ids);
    }
    if kani::any() {
        let _ = reg.ack_interest.get(&reg.registered_ids);
    }
    if kani::any() {
        let _ = reg.transmission_interest.get(&reg.registered_ids);
    }
    if kani::any() {
        let _ = reg.active_id_count.get(&reg.registered_ids);
    }

    let v = view(&reg);
    kani::assume(inv(&v, discipline));
    {
        let l = log();
        l.building = false;
        l.ins_calls = 0;
        l.ins_ok = 0;
        l.rem_calls = 0;
        l.rem_missing = 0;
    }
    reg
}

/// The registry is not dropped at the end of a harness: dropping the last `Arc` of the shared state would
/// run hashbrown's table drop (out of reach, see _c13_common.rs); `Drop for LocalIdRegistry` has its own
/// harness.
fn finish(reg: LocalIdRegistry) {
    core::mem::forget(reg);
}

// ================================================================================================
// register_connection_id
// ================================================================================================
// Caller obligations (debug assertions in validate_new_connection_id, i.e. not enforced in release):
//   * active < limit            -- established at the only production call site
//                                  connection_impl.rs:988-1010 (registers exactly `connection_id_interest()`
//                                  ids) and in LocalIdRegistry::new (limit 1, no id yet)
//   * token not among the registered tokens -- the token generator is keyed by the (fresh) id
//   * next_sequence_number < u32::MAX       -- 2^32 registrations on one connection
//   * expiration >= 30 s after the clock epoch (expiration - EXPIRATION_BUFFER must not underflow):
//     expiration = now + lifetime with lifetime >= connection::id::MIN_LIFETIME = 60 s
//   * retirement times monotone in issue order (only for the retire-prior-to discipline):
//     expiration = now + Generator::lifetime() with a constant lifetime and a monotone clock
fn register_body(n: usize, mode: u8) {
    let g1 = mode & 0x10 != 0;
    let g2 = mode & 0x20 != 0;
    let g3 = mode & 0x40 != 0;
    let g4 = mode & 0x80 != 0;
    let mut reg = any_lidr(n, true);
    let old = view(&reg);
    assert!(inv(&old, true), "C13/lidr.builder/inv");

    let sel: u8 = kani::any();
    kani::assume(sel <= 3);
    let id = idk(sel);
    let token = any_token();
    // Argument range: expiration <= 30 s + 2^22 us after the clock epoch (`expiration - EXPIRATION_BUFFER` is a
    // Duration::from_micros / as_micros round trip whose 64-bit divisions CBMC cannot decide for a full-range
    // value: no result after 19 min); the retirement times already in the registry stay arbitrary.
    let exp = any_opt_ts();
    if let Some(t) = exp {
        kani::assume(ts_micros(t) <= BUFFER_US + (1 << 22));
    }

    kani::assume(old.s.active < old.s.limit);
    kani::assume(old.s.next_seq < u32_max());
    if let Some(t) = exp {
        kani::assume(ts_micros(t) >= BUFFER_US + 1);
    }
    let new_retire_at: i128 = match exp {
        None => -1,
        Some(t) => (ts_micros(t) - BUFFER_US) as i128,
    };
    let probe = LidEntry { seq: old.s.next_seq, id_len: 4, id_a: 0, id_b: 0, tok_a: tok_a(&token), tok_b: tok_b(&token), status: 0, retire_at: new_retire_at };
    let mut i = 0;
    while i < K_MAX {
        if i < old.n {
            kani::assume(!lid_same_token(old.abs(i), probe));
            kani::assume(lid_pair_monotone(old.abs(i), probe));
        }
        i += 1;
    }

    let r = reg.register_connection_id(&id, exp, token);
    let new = view(&reg);
    let l = log();

    match r {
        Ok(()) => {
            assert!(new.n == old.n + 1, "C13/lidr.register/ok_appends_one_entry");
            assert!(lidr_register_ok_counters(old.s, new.s), "C13/lidr.register/ok_counters_next_seq_plus_one");
            // (`!gN ||`: the obligations of the other harness of the pair are trivially true here)
            let e = new.abs(old.n);
            assert!(!g1 || lidr_register_ok_entry(old.s, e), "C13/lidr.register/ok_sequence_number_is_old_next");
            let es = new.at(old.n);
            assert!(!g1 || (es.id == id && tok_bits(&es.tok) == tok_bits(&token)), "C13/lidr.register/ok_entry_is_argument");
            assert!(!g1 || e.retire_at == new_retire_at, "C13/lidr.register/ok_retirement_time_is_expiration_minus_buffer");
            let mut i = 0;
            while i < K_MAX {
                if i < old.n {
                    assert!(!g1 || lidr_register_ok_fresh(old.abs(i), e), "C13/lidr.register/ok_id_and_token_fresh");
                    assert!(!g2 || snap_eq(&old.at(i), &new.at(i)), "C13/lidr.register/ok_frame_other_entries");
                }
                i += 1;
            }
            assert!(sel as usize >= old.n, "C13/lidr.register/ok_only_for_unregistered_id");
            assert!(l.ins_calls == 1 && l.ins_ok == 1 && l.rem_calls == 0, "C13/lidr.register/ok_map_insert_once");
        }
        Err(err) => {
            assert!(err == LocalIdRegistrationError::ConnectionIdInUse, "C13/lidr.register/err_is_connection_id_in_use");
            assert!(lidr_unchanged(old.s, new.s) && new.n == old.n, "C13/lidr.register/err_counters_unchanged");
            let mut i = 0;
            while i < K_MAX {
                if i < old.n {
                    assert!(!g2 || snap_eq(&old.at(i), &new.at(i)), "C13/lidr.register/err_entries_unchanged");
                }
                i += 1;
            }
            assert!(
                (sel as usize) < old.n || (l.ins_calls == 1 && l.ins_ok == 0),
                "C13/lidr.register/err_only_if_duplicate_or_map_occupied"
            );
            assert!(l.ins_ok == 0 && l.rem_calls == 0, "C13/lidr.register/err_map_untouched");
        }
    }
    assert!(new.rotate == old.rotate, "C13/lidr.register/frame_rotate_flag");
    assert!(!g3 || map_is_registered_ids(&new), "C13/lidr.register/map_holds_exactly_registered_ids");
    assert!(!g4 || inv(&new, true), "C13/lidr.register/inv_preserved");

    kani::cover!(r.is_ok(), "reach:registered");
    kani::cover!(r.is_ok() && exp.is_some(), "reach:registered_with_expiration");
    kani::cover!(r.is_ok() && exp.is_none(), "reach:registered_without_expiration");
    kani::cover!(r.is_err() && (sel as usize) < old.n, "reach:duplicate_id");
    kani::cover!(r.is_err() && (sel as usize) >= old.n, "reach:map_occupied");
    kani::cover!(true, "reach:end");
    finish(reg);
}


// ================================================================================================
// set_active_connection_id_limit + connection_id_interest
// ================================================================================================
// Caller obligations of set_active_connection_id_limit(l):
//   * l >= 2: RFC 9000 18.2 "The value of the active_connection_id_limit parameter MUST be at least 2",
//     enforced by the transport-parameter validator (property C14) before session_context.rs:423 is reached
//   * active <= min(l, 3): the only call site (session_context.rs:423) runs once, while the limit is still the
//     initial 1, hence active <= 1.  (A later, lower limit would make `limit - active` underflow in
//     connection_id_interest.)
fn limit_interest_body(n: usize) {
    let mut reg = any_lidr(n, true);
    let old = view(&reg);
    assert!(inv(&old, true), "C13/lidr.builder/inv");
    let l: u64 = kani::any();
    kani::assume(l >= 2);
    kani::assume(old.s.active <= imin2(l as i128, 3));

    reg.set_active_connection_id_limit(l);
    let mid = view(&reg);
    assert!(lidr_set_limit_post(old.s, l as i128, mid.s), "C13/lidr.set_limit/limit_is_min_of_peer_limit_and_3");
    assert!(mid.s.limit <= l as i128, "C13/lidr.set_limit/limit_le_peer_limit");
    let mut i = 0;
    while i < K_MAX {
        if i < old.n {
            assert!(snap_eq(&old.at(i), &mid.at(i)), "C13/lidr.set_limit/frame_entries");
        }
        i += 1;
    }
    assert!(mid.n == old.n && mid.rotate == old.rotate, "C13/lidr.set_limit/frame_shape");
    assert!(inv(&mid, true), "C13/lidr.set_limit/inv_preserved");

    let k: i128 = match reg.connection_id_interest() {
        connection::id::Interest::None => 0,
        connection::id::Interest::New(k) => k as i128,
    };
    let new = view(&reg);
    assert!(lidr_interest_exact(new.s, k), "C13/lidr.interest/requests_exactly_limit_minus_active");
    assert!(lidr_interest_within_limit(new.s, k), "C13/lidr.interest/active_plus_requested_le_limit");
    assert!(new.s.active + k <= l as i128, "C13/lidr.interest/never_more_unretired_ids_than_peer_limit");
    assert!(lidr_unchanged(mid.s, new.s) && new.n == mid.n, "C13/lidr.interest/frame_counters");
    let mut i = 0;
    while i < K_MAX {
        if i < mid.n {
            assert!(snap_eq(&mid.at(i), &new.at(i)), "C13/lidr.interest/frame_entries");
        }
        i += 1;
    }
    let lg = log();
    assert!(lg.ins_calls == 0 && lg.rem_calls == 0, "C13/lidr.interest/map_untouched");

    // (with a single registered id and a peer limit >= 2 there is always interest)
    kani::cover!(k == 0 || n < 2, "reach:no_interest");
    kani::cover!(k == 2 || n >= 2, "reach:two_requested");
    kani::cover!(l == 2, "reach:smallest_peer_limit");
    kani::cover!(l == u64::MAX, "reach:largest_peer_limit");
    kani::cover!(true, "reach:end");
    finish(reg);
}

// ================================================================================================
// on_retire_connection_id
// ================================================================================================
// Argument ranges: rtt <= 4 s (smoothed RTT; `rtt * 3` and `timestamp + ..` must not overflow), clock < 2^62 us.
fn retire_body(n: usize) {
    let mut reg = any_lidr(n, true);
    let old = view(&reg);
    let seq: u32 = kani::any();
    let sel: u8 = kani::any();
    kani::assume(sel <= 3);
    let dcid = idk(sel);
    let rtt_s: u8 = kani::any();
    let rtt_ns: u32 = kani::any();
    kani::assume(rtt_s <= 3 && rtt_ns < 1_000_000_000);
    let rtt = Duration::new(rtt_s as u64, rtt_ns);
    let now = any_ts();

    let r = reg.on_retire_connection_id(seq, &dcid, rtt, now);
    let new = view(&reg);

    // independent reading of RFC 9000 19.16
    let never_issued = lidr_retire_never_issued(old.s, seq as i128);
    let mut target: usize = K_MAX;
    let mut i = 0;
    while i < K_MAX {
        if i < old.n && lid_retire_target(old.abs(i), seq as i128) {
            target = i;
        }
        i += 1;
    }
    let refers_to_packet_dcid = target < K_MAX && old.at(target).id == dcid;
    let target_counted = target < K_MAX && lid_counts(old.abs(target));

    assert!(
        r.is_err() == (never_issued || refers_to_packet_dcid),
        "C13/lidr.on_retire/err_iff_never_issued_or_refers_to_packet_destination_id"
    );
    match r {
        Err(err) => {
            assert!(err == LocalIdRegistrationError::InvalidSequenceNumber, "C13/lidr.on_retire/err_is_invalid_sequence_number");
            assert!(lidr_unchanged(old.s, new.s) && new.n == old.n, "C13/lidr.on_retire/err_counters_unchanged");
            let mut i = 0;
            while i < K_MAX {
                if i < old.n {
                    assert!(snap_eq(&old.at(i), &new.at(i)), "C13/lidr.on_retire/err_entries_unchanged");
                }
                i += 1;
            }
        }
        Ok(()) => {
            assert!(new.n == old.n, "C13/lidr.on_retire/ok_no_entry_added_or_removed");
            assert!(lidr_retire_counters(old.s, new.s, target_counted), "C13/lidr.on_retire/ok_counters");
            let mut i = 0;
            while i < K_MAX {
                if i < old.n {
                    assert!(lid_retire_entry_post(old.abs(i), seq as i128, new.abs(i)), "C13/lidr.on_retire/ok_only_target_becomes_pending_removal");
                    if i == target {
                        assert!(snap_eq_but_status(&old.at(i), &new.at(i)), "C13/lidr.on_retire/ok_target_other_fields_unchanged");
                    } else {
                        assert!(snap_eq(&old.at(i), &new.at(i)), "C13/lidr.on_retire/ok_frame_other_entries");
                    }
                }
                i += 1;
            }
        }
    }
    let lg = log();
    assert!(lg.ins_calls == 0 && lg.rem_calls == 0, "C13/lidr.on_retire/map_untouched");
    assert!(new.rotate == old.rotate, "C13/lidr.on_retire/frame_rotate_flag");
    assert!(inv(&new, true), "C13/lidr.on_retire/inv_preserved");

    kani::cover!(r.is_err() && never_issued, "reach:never_issued");
    kani::cover!(r.is_err() && !never_issued, "reach:refers_to_packet_destination_id");
    kani::cover!(r.is_ok() && target < K_MAX, "reach:retired");
    kani::cover!(r.is_ok() && target == K_MAX, "reach:already_retired_or_removed");
    kani::cover!(true, "reach:end");
    finish(reg);
}

// ================================================================================================
// on_packet_ack / on_packet_loss / on_handshake_confirmed
// ================================================================================================
fn ack_loss_body(n: usize, loss: bool) {
    let mut reg = any_lidr(n, true);
    let old = view(&reg);
    let lo: u32 = kani::any();
    let hi: u32 = kani::any();
    kani::assume(lo <= hi);
    let set = pn(lo)..=pn(hi);
    if loss {
        reg.on_packet_loss(&set);
    } else {
        reg.on_packet_ack(&set);
    }
    let new = view(&reg);
    let mut hit = false;
    let mut i = 0;
    while i < K_MAX {
        if i < old.n {
            let o = old.at(i);
            let inside = match o.st_pn {
                Some(p) => pn(lo) <= p && p <= pn(hi),
                None => false,
            };
            hit = hit || inside;
            // (each of the two is trivially true in the harness of the other function)
            assert!(!loss || lid_loss_entry_post(old.abs(i), inside, new.abs(i)), "C13/lidr.on_packet_loss/lost_ids_become_pending_reissue");
            assert!(loss || lid_ack_entry_post(old.abs(i), inside, new.abs(i)), "C13/lidr.on_packet_ack/acked_ids_become_active_and_forget_token");
            if !inside {
                assert!(snap_eq(&o, &new.at(i)), "C13/lidr.on_packet_ack_loss/frame_other_entries");
            }
        }
        i += 1;
    }
    assert!(lidr_unchanged(old.s, new.s) && new.n == old.n && new.rotate == old.rotate, "C13/lidr.on_packet_ack_loss/frame_counters");
    let lg = log();
    assert!(lg.ins_calls == 0 && lg.rem_calls == 0, "C13/lidr.on_packet_ack_loss/map_untouched");
    assert!(inv(&new, true), "C13/lidr.on_packet_ack_loss/inv_preserved");
    kani::cover!(hit, "reach:packet_in_set");
    kani::cover!(!hit, "reach:nothing_in_set");
    kani::cover!(true, "reach:end");
    finish(reg);
}

fn rotate_body(n: usize) {
    let mut reg = any_lidr(n, true);
    let old = view(&reg);
    reg.on_handshake_confirmed();
    let new = view(&reg);
    let mut retired = false;
    let mut i = 0;
    while i < K_MAX {
        if i < old.n {
            let o = old.abs(i);
            if old.rotate && lid_rotate_target(o) {
                retired = true;
                assert!(snap_eq_but_status(&old.at(i), &new.at(i)), "C13/lidr.on_handshake_confirmed/target_other_fields_unchanged");
            } else {
                assert!(snap_eq(&old.at(i), &new.at(i)), "C13/lidr.on_handshake_confirmed/frame_other_entries");
            }
            assert!(lid_rotate_entry_post(o, old.rotate, new.abs(i)), "C13/lidr.on_handshake_confirmed/handshake_id_is_retired");
        }
        i += 1;
    }
    assert!(lidr_rotate_counters(old.s, new.s, retired) && new.n == old.n && new.rotate == old.rotate, "C13/lidr.on_handshake_confirmed/retire_prior_to_at_least_one");
    let lg = log();
    assert!(lg.ins_calls == 0 && lg.rem_calls == 0, "C13/lidr.on_handshake_confirmed/map_untouched");
    assert!(inv(&new, true), "C13/lidr.on_handshake_confirmed/inv_preserved");
    kani::cover!(retired, "reach:handshake_id_retired");
    kani::cover!(!retired && old.rotate, "reach:no_handshake_id_left");
    kani::cover!(!old.rotate, "reach:rotation_disabled");
    kani::cover!(true, "reach:end");
    finish(reg);
}

// ================================================================================================
// harnesses (one per function and registry shape; obligations of register_connection_id are split over
// two harnesses because the conjunction of all of them is one SAT instance CBMC does not finish)
// ================================================================================================
//@ harness props=C13 tier=thorough level=bounded bound="K=1 registered id before the call, 4-byte concrete distinct id values; shared hash maps replaced by contract stubs; expiration <= 30 s + 2^22 us" timeout=3600 mem=12
// obligations (asserted in register_body):
//   "C13/lidr.builder/inv"
//   "C13/lidr.register/err_counters_unchanged"
//   "C13/lidr.register/err_entries_unchanged"
//   "C13/lidr.register/err_is_connection_id_in_use"
//   "C13/lidr.register/err_map_untouched"
//   "C13/lidr.register/err_only_if_duplicate_or_map_occupied"
//   "C13/lidr.register/frame_rotate_flag"
//   "C13/lidr.register/ok_appends_one_entry"
//   "C13/lidr.register/ok_counters_next_seq_plus_one"
//   "C13/lidr.register/ok_entry_is_argument"
//   "C13/lidr.register/ok_frame_other_entries"
//   "C13/lidr.register/ok_id_and_token_fresh"
//   "C13/lidr.register/ok_map_insert_once"
//   "C13/lidr.register/ok_only_for_unregistered_id"
//   "C13/lidr.register/ok_retirement_time_is_expiration_minus_buffer"
//   "C13/lidr.register/ok_sequence_number_is_old_next"
//@ fn LocalIdRegistry::register_connection_id
//@ fn LocalIdRegistry::new
#[kani::proof]
#[kani::unwind(6)]
#[kani::stub(crate::connection::connection_id_mapper::LocalIdMap::try_insert, stub_local_try_insert)]
#[kani::stub(crate::connection::connection_id_mapper::LocalIdMap::remove, stub_local_remove)]
#[kani::stub(crate::connection::connection_id_mapper::InitialIdMap::remove, stub_initial_remove)]
#[kani::stub(crate::connection::connection_id_mapper::OpenRequestMap::new, crate::connection::connection_id_mapper::OpenRequestMap::verif_new_with_fixed_seed)]
#[kani::stub(<[u8] as s2n_quic_core::ct::ConstantTimeEq>::ct_eq, stub_ct_eq)]
fn vq_c13_lidr_register_post_k1() {
    register_body(1, 0x30);
}

//@ harness props=C13 tier=thorough level=bounded bound="K=1 registered id before the call, 4-byte concrete distinct id values; shared hash maps replaced by contract stubs; expiration <= 30 s + 2^22 us" timeout=3600 mem=12
// obligations (asserted in register_body):
//   "C13/lidr.builder/inv"
//   "C13/lidr.register/err_counters_unchanged"
//   "C13/lidr.register/err_is_connection_id_in_use"
//   "C13/lidr.register/err_map_untouched"
//   "C13/lidr.register/err_only_if_duplicate_or_map_occupied"
//   "C13/lidr.register/frame_rotate_flag"
//   "C13/lidr.register/inv_preserved"
//   "C13/lidr.register/map_holds_exactly_registered_ids"
//   "C13/lidr.register/ok_appends_one_entry"
//   "C13/lidr.register/ok_counters_next_seq_plus_one"
//   "C13/lidr.register/ok_map_insert_once"
//   "C13/lidr.register/ok_only_for_unregistered_id"
//@ fn LocalIdRegistry::register_connection_id
#[kani::proof]
#[kani::unwind(6)]
#[kani::stub(crate::connection::connection_id_mapper::LocalIdMap::try_insert, stub_local_try_insert)]
#[kani::stub(crate::connection::connection_id_mapper::LocalIdMap::remove, stub_local_remove)]
#[kani::stub(crate::connection::connection_id_mapper::InitialIdMap::remove, stub_initial_remove)]
#[kani::stub(crate::connection::connection_id_mapper::OpenRequestMap::new, crate::connection::connection_id_mapper::OpenRequestMap::verif_new_with_fixed_seed)]
#[kani::stub(<[u8] as s2n_quic_core::ct::ConstantTimeEq>::ct_eq, stub_ct_eq)]
fn vq_c13_lidr_register_inv_k1() {
    register_body(1, 0xc0);
}

//@ harness props=C13 tier=thorough level=bounded bound="K=1 registered id before the call, 4-byte concrete distinct id values; shared hash maps replaced by contract stubs" timeout=3600 mem=12
// obligations (asserted in limit_interest_body):
//   "C13/lidr.builder/inv"
//   "C13/lidr.interest/active_plus_requested_le_limit"
//   "C13/lidr.interest/frame_counters"
//   "C13/lidr.interest/frame_entries"
//   "C13/lidr.interest/map_untouched"
//   "C13/lidr.interest/never_more_unretired_ids_than_peer_limit"
//   "C13/lidr.interest/requests_exactly_limit_minus_active"
//   "C13/lidr.set_limit/frame_entries"
//   "C13/lidr.set_limit/frame_shape"
//   "C13/lidr.set_limit/inv_preserved"
//   "C13/lidr.set_limit/limit_is_min_of_peer_limit_and_3"
//   "C13/lidr.set_limit/limit_le_peer_limit"
//@ fn LocalIdRegistry::set_active_connection_id_limit
//@ fn LocalIdRegistry::connection_id_interest
#[kani::proof]
#[kani::unwind(6)]
#[kani::stub(crate::connection::connection_id_mapper::LocalIdMap::try_insert, stub_local_try_insert)]
#[kani::stub(crate::connection::connection_id_mapper::LocalIdMap::remove, stub_local_remove)]
#[kani::stub(crate::connection::connection_id_mapper::InitialIdMap::remove, stub_initial_remove)]
#[kani::stub(crate::connection::connection_id_mapper::OpenRequestMap::new, crate::connection::connection_id_mapper::OpenRequestMap::verif_new_with_fixed_seed)]
#[kani::stub(<[u8] as s2n_quic_core::ct::ConstantTimeEq>::ct_eq, stub_ct_eq)]
fn vq_c13_lidr_limit_interest_k1() {
    limit_interest_body(1);
}

//@ harness props=C13 tier=thorough level=bounded bound="K=1 registered id before the call, 4-byte concrete distinct id values; shared hash maps replaced by contract stubs; rtt <= 4 s" timeout=3600 mem=12
// obligations (asserted in retire_body):
//   "C13/lidr.on_retire/err_counters_unchanged"
//   "C13/lidr.on_retire/err_entries_unchanged"
//   "C13/lidr.on_retire/err_iff_never_issued_or_refers_to_packet_destination_id"
//   "C13/lidr.on_retire/err_is_invalid_sequence_number"
//   "C13/lidr.on_retire/frame_rotate_flag"
//   "C13/lidr.on_retire/inv_preserved"
//   "C13/lidr.on_retire/map_untouched"
//   "C13/lidr.on_retire/ok_counters"
//   "C13/lidr.on_retire/ok_frame_other_entries"
//   "C13/lidr.on_retire/ok_no_entry_added_or_removed"
//   "C13/lidr.on_retire/ok_only_target_becomes_pending_removal"
//   "C13/lidr.on_retire/ok_target_other_fields_unchanged"
//@ fn LocalIdRegistry::on_retire_connection_id
#[kani::proof]
#[kani::unwind(6)]
#[kani::stub(crate::connection::connection_id_mapper::LocalIdMap::try_insert, stub_local_try_insert)]
#[kani::stub(crate::connection::connection_id_mapper::LocalIdMap::remove, stub_local_remove)]
#[kani::stub(crate::connection::connection_id_mapper::InitialIdMap::remove, stub_initial_remove)]
#[kani::stub(crate::connection::connection_id_mapper::OpenRequestMap::new, crate::connection::connection_id_mapper::OpenRequestMap::verif_new_with_fixed_seed)]
#[kani::stub(<[u8] as s2n_quic_core::ct::ConstantTimeEq>::ct_eq, stub_ct_eq)]
fn vq_c13_lidr_on_retire_k1() {
    retire_body(1);
}

//@ harness props=C13 tier=thorough level=bounded bound="K=1 registered id before the call, 4-byte concrete distinct id values; shared hash maps replaced by contract stubs" timeout=3600 mem=12
// obligations (asserted in ack_loss_body):
//   "C13/lidr.on_packet_ack/acked_ids_become_active_and_forget_token"
//   "C13/lidr.on_packet_ack_loss/frame_counters"
//   "C13/lidr.on_packet_ack_loss/frame_other_entries"
//   "C13/lidr.on_packet_ack_loss/inv_preserved"
//   "C13/lidr.on_packet_ack_loss/map_untouched"
//@ fn LocalIdRegistry::on_packet_ack
#[kani::proof]
#[kani::unwind(6)]
#[kani::stub(crate::connection::connection_id_mapper::LocalIdMap::try_insert, stub_local_try_insert)]
#[kani::stub(crate::connection::connection_id_mapper::LocalIdMap::remove, stub_local_remove)]
#[kani::stub(crate::connection::connection_id_mapper::InitialIdMap::remove, stub_initial_remove)]
#[kani::stub(crate::connection::connection_id_mapper::OpenRequestMap::new, crate::connection::connection_id_mapper::OpenRequestMap::verif_new_with_fixed_seed)]
#[kani::stub(<[u8] as s2n_quic_core::ct::ConstantTimeEq>::ct_eq, stub_ct_eq)]
fn vq_c13_lidr_on_packet_ack_k1() {
    ack_loss_body(1, false);
}

//@ harness props=C13 tier=thorough level=bounded bound="K=1 registered id before the call, 4-byte concrete distinct id values; shared hash maps replaced by contract stubs" timeout=3600 mem=12
// obligations (asserted in ack_loss_body):
//   "C13/lidr.on_packet_ack_loss/frame_counters"
//   "C13/lidr.on_packet_ack_loss/frame_other_entries"
//   "C13/lidr.on_packet_ack_loss/inv_preserved"
//   "C13/lidr.on_packet_ack_loss/map_untouched"
//   "C13/lidr.on_packet_loss/lost_ids_become_pending_reissue"
//@ fn LocalIdRegistry::on_packet_loss
#[kani::proof]
#[kani::unwind(6)]
#[kani::stub(crate::connection::connection_id_mapper::LocalIdMap::try_insert, stub_local_try_insert)]
#[kani::stub(crate::connection::connection_id_mapper::LocalIdMap::remove, stub_local_remove)]
#[kani::stub(crate::connection::connection_id_mapper::InitialIdMap::remove, stub_initial_remove)]
#[kani::stub(crate::connection::connection_id_mapper::OpenRequestMap::new, crate::connection::connection_id_mapper::OpenRequestMap::verif_new_with_fixed_seed)]
#[kani::stub(<[u8] as s2n_quic_core::ct::ConstantTimeEq>::ct_eq, stub_ct_eq)]
fn vq_c13_lidr_on_packet_loss_k1() {
    ack_loss_body(1, true);
}

//@ harness props=C13 tier=thorough level=bounded bound="K=1 registered id before the call, 4-byte concrete distinct id values; shared hash maps replaced by contract stubs" timeout=3600 mem=12
// obligations (asserted in rotate_body):
//   "C13/lidr.on_handshake_confirmed/frame_other_entries"
//   "C13/lidr.on_handshake_confirmed/handshake_id_is_retired"
//   "C13/lidr.on_handshake_confirmed/inv_preserved"
//   "C13/lidr.on_handshake_confirmed/map_untouched"
//   "C13/lidr.on_handshake_confirmed/retire_prior_to_at_least_one"
//   "C13/lidr.on_handshake_confirmed/target_other_fields_unchanged"
//@ fn LocalIdRegistry::on_handshake_confirmed
#[kani::proof]
#[kani::unwind(6)]
#[kani::stub(crate::connection::connection_id_mapper::LocalIdMap::try_insert, stub_local_try_insert)]
#[kani::stub(crate::connection::connection_id_mapper::LocalIdMap::remove, stub_local_remove)]
#[kani::stub(crate::connection::connection_id_mapper::InitialIdMap::remove, stub_initial_remove)]
#[kani::stub(crate::connection::connection_id_mapper::OpenRequestMap::new, crate::connection::connection_id_mapper::OpenRequestMap::verif_new_with_fixed_seed)]
#[kani::stub(<[u8] as s2n_quic_core::ct::ConstantTimeEq>::ct_eq, stub_ct_eq)]
fn vq_c13_lidr_on_handshake_confirmed_k1() {
    rotate_body(1);
}

