//@ inject crate=transport src=quic/s2n-quic-transport/src/sync/once_sync.rs
// Read-only accessor for harnesses of other modules: the value whose delivery was requested
// (the `delivery` field is private to this module).  No harness here.
use super::*;

impl<T: Copy, S> OnceSync<T, S> {
    pub(crate) fn verif_requested(&self) -> Option<T> {
        match &self.delivery {
            DeliveryState::Requested(v) | DeliveryState::Lost(v) | DeliveryState::Delivered(v) => Some(*v),
            DeliveryState::InFlight(d) => Some(d.value),
            DeliveryState::Cancelled(v) => *v,
            DeliveryState::NotRequested => None,
        }
    }
}
