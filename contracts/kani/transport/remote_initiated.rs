//@ inject crate=transport src=quic/s2n-quic-transport/src/stream/controller/remote_initiated.rs
// Contract harnesses for the RemoteInitiated stream-count controller (property C04): the peer may not open
// more streams than advertised (STREAM_LIMIT_ERROR), and the MAX_STREAMS credit we advertise never exceeds
// (streams closed) + (configured concurrency limit), nor 2^60.
// Predicates: contracts/spec/flow_in.rs (shared with verus/lemmas/C04.rs).
use super::*;
#[allow(dead_code, unused_variables)]
mod spec {
    include!("../../spec/flow_out.rs");
    include!("../../spec/flow_in.rs");
}
use spec::*;
include!("_miniwriter.rs"); // at module level: `kani` must resolve to the replay shim in native replays

const MAXV: u64 = s2n_quic_core::varint::MAX_VARINT_VALUE;
const MAX_STREAMS: u64 = 1 << 60;
const MIN_RTT: Duration = Duration::from_millis(100);

fn v(x: u64) -> VarInt {
    VarInt::new(x).unwrap()
}

/// arbitrary IncrementalValueSync with the given latest value (see IncrementalValueSync::verif_build in ivs.rs);
/// the nondeterministic values are drawn here, in the harness's own module
fn any_sync_with_latest<S: ValueToFrameWriter<VarInt>>(latest: u64) -> IncrementalValueSync<VarInt, S> {
    let nd: [u64; 4] = kani::any();
    let kind: u8 = kani::any();
    IncrementalValueSync::verif_build(latest, nd, kind)
}

/// Arbitrary controller satisfying `ri_inv` (the only code that touches private fields):
/// closed <= opened <= advertised, local_limit <= advertised <= min(2^60, closed + local_limit);
/// the MAX_STREAMS synchroniser in any delivery state; the refill token bucket as built by the constructor
/// (full: max = refill amount = local_limit; interval = 100 ms).
fn any_ri() -> RemoteInitiated {
    let limit: u64 = kani::any();
    let advertised: u64 = kani::any();
    let opened: u64 = kani::any();
    let closed: u64 = kani::any();
    kani::assume(limit <= advertised && advertised <= MAX_STREAMS);
    kani::assume(closed <= opened && opened <= advertised);
    kani::assume(advertised as u128 <= closed as u128 + limit as u128);
    // as RemoteInitiated::new builds it (vq_c04_ri_new covers the constructor itself), without the symbolic
    // division `limit / 10` that only sets the synchroniser's threshold (arbitrary here)
    RemoteInitiated {
        max_local_limit: v(limit),
        max_streams_sync: any_sync_with_latest(advertised),
        opened_streams: v(opened),
        closed_streams: v(closed),
        rtt_refill: TokenBucket::builder().with_max(limit).with_refill_interval(MIN_RTT).with_refill_amount(limit).build(),
    }
}

fn abs(ri: &RemoteInitiated) -> Ri {
    Ri {
        advertised: ri.max_streams_sync.latest_value().as_u64() as i128,
        opened: ri.opened_streams.as_u64() as i128,
        closed: ri.closed_streams.as_u64() as i128,
        local_limit: ri.max_local_limit.as_u64() as i128,
    }
}

//@ harness props=C04 tier=quick level=full timeout=300
//@ fn RemoteInitiated::on_remote_open_stream
#[kani::proof]
#[kani::unwind(3)]
fn vq_c04_ri_on_remote_open_stream() {
    let mut ri = any_ri();
    let old = abs(&ri);
    assert!(ri_inv(old), "C04/ri.builder/inv");
    let id: u64 = kani::any();
    kani::assume(id <= MAXV);
    let stream_id = StreamId::from_varint(v(id));
    // RFC 9000 2.1: the two low bits carry initiator and direction; the rest is the ordinal of the stream
    let index = (id >> 2) as i128;
    // RFC 9000 4.6 / 19.11 allow MAX_STREAMS values up to and including 2^60; the builder covers that whole
    // range.  (Before the fix commit 4b04728 the function `.expect()`ed the first stream id beyond the limit,
    // which is not representable for a limit of exactly 2^60, and panicked: the call below then fails the
    // harness' safety obligation.)
    let r = ri.on_remote_open_stream(stream_id);
    let new = abs(&ri);
    let ok = r.is_ok();
    let code = match r {
        Ok(()) => -1,
        Err(e) => e.code.as_u64() as i128,
    };
    // RFC 9000 4.6: "An endpoint that receives a frame with a stream ID exceeding the limit it has sent MUST treat
    // this as a connection error of type STREAM_LIMIT_ERROR"
    assert!(ri_remote_open_err_iff_at_or_over_limit(old, index, ok), "C04/ri.on_remote_open_stream/err_iff_index_at_or_over_advertised");
    assert!(ri_remote_open_err_code(ok, code), "C04/ri.on_remote_open_stream/err_is_stream_limit_error");
    assert!(ri_remote_open_state_unchanged(old, new), "C04/ri.on_remote_open_stream/state_unchanged");
    kani::cover!(ok && index == old.advertised - 1, "reach:last_allowed_stream");
    kani::cover!(!ok && index == old.advertised, "reach:first_forbidden_stream");
    kani::cover!(!ok && old.advertised == 0, "reach:no_streams_allowed");
    kani::cover!(ok && id & 3 == 3, "reach:server_uni");
    kani::cover!(ok && id & 3 == 0, "reach:client_bidi");
    kani::cover!(old.advertised == MAX_STREAMS as i128 - 1, "reach:limit_2_60_minus_1");
    kani::cover!(ok && old.advertised == MAX_STREAMS as i128, "reach:limit_2_60_accepts_every_stream");
}

//@ harness props=C04 tier=quick level=full timeout=300
//@ fn RemoteInitiated::on_open_stream
//@ fn RemoteInitiated::on_close_stream
//@ fn RemoteInitiated::open_stream_count
#[kani::proof]
#[kani::unwind(3)]
fn vq_c04_ri_on_open_close_stream() {
    let mut ri = any_ri();
    let old = abs(&ri);
    if kani::any() {
        // caller obligation (stream/controller.rs:150-163): on_remote_open_stream returned Ok for the largest id
        // being opened, i.e. there is advertised credit left for this stream
        kani::assume(old.opened < old.advertised);
        ri.on_open_stream();
        let new = abs(&ri);
        assert!(ri_open_counts(old, new), "C04/ri.on_open_stream/counts_one_stream");
        assert!(ri_inv(new), "C04/ri.on_open_stream/inv_preserved");
        kani::cover!(new.opened == new.advertised, "reach:limit_reached");
    } else {
        // caller obligation: only an open stream can be closed
        kani::assume(old.closed < old.opened);
        ri.on_close_stream();
        let new = abs(&ri);
        assert!(ri_close_counts(old, new), "C04/ri.on_close_stream/counts_one_stream");
        // closing a stream must not by itself hand out credit: the advertised limit only moves in on_timeout
        assert!(ri_inv(new), "C04/ri.on_close_stream/inv_preserved");
        kani::cover!(new.closed == new.opened, "reach:all_closed");
    }
    let new = abs(&ri);
    assert!(ri.open_stream_count().as_u64() as i128 == new.opened - new.closed, "C04/ri.open_stream_count/is_opened_minus_closed");
    assert!(new.opened - new.closed <= new.local_limit, "C04/ri.open_close/concurrent_streams_le_local_limit");
    kani::cover!(true, "reach:end");
}

/// tokens in the refill bucket at the time of the call, by construction of the harness
fn drain(ri: &mut RemoteInitiated, limit: u64) -> (u64, s2n_quic_core::time::Timestamp) {
    let t0 = s2n_quic_core::time::clock::testing::now();
    let drained: u64 = kani::any();
    kani::assume(drained <= limit);
    let got = ri.rtt_refill.take(drained, t0);
    assert!(got == drained);
    // refill timer (armed iff drained > 0) expires at t0 + 100 ms
    if kani::any() {
        (limit - drained, t0 + Duration::from_millis(50)) // not yet refilled
    } else {
        (limit, t0 + Duration::from_millis(200)) // refill amount == max: full again
    }
}

//@ harness props=C04 tier=quick level=full timeout=300
//@ fn RemoteInitiated::on_timeout
//@ fn RemoteInitiated::synced_closed_streams
#[kani::proof]
#[kani::unwind(4)]
fn vq_c04_ri_on_timeout() {
    let mut ri = any_ri();
    let old = abs(&ri);
    let sync_old = ri.max_streams_sync.verif_abs();
    let (tokens, now) = drain(&mut ri, old.local_limit as u64);
    assert!(ri.synced_closed_streams().as_u64() as i128 == old.advertised - old.local_limit, "C04/ri.synced_closed_streams/is_advertised_minus_limit");
    ri.on_timeout(now);
    let new = abs(&ri);
    // the C04 credit bound for stream counts, RFC 9000 19.11 (<= 2^60) and 4.6 (limits only grow)
    assert!(ri_timeout_post(old, new), "C04/ri.on_timeout/advertised_monotone_and_le_closed_plus_limit_and_2_60");
    assert!(ri_credit_bound(new), "C04/ri.on_timeout/credit_bound");
    // exact rule: hand back min(backlog of closed streams, available tokens)
    let backlog = old.closed + old.local_limit - old.advertised;
    let grant = if backlog <= tokens as i128 { backlog } else { tokens as i128 };
    assert!(new.advertised == imin(max_streams_max(), old.advertised + grant), "C04/ri.on_timeout/advertised_grows_by_min_of_backlog_and_tokens");
    assert!(tokens as i128 != old.local_limit || ri_timeout_full_bucket(old, new), "C04/ri.on_timeout/full_bucket_returns_whole_backlog");
    let sync_new = ri.max_streams_sync.verif_abs();
    assert!(sync_new.1 == sync_old.1 && sync_new.3 == sync_old.3, "C04/ri.on_timeout/frame_acked_cancelled");
    assert!(ri_inv(new), "C04/ri.on_timeout/inv_preserved");
    kani::cover!(new.advertised > old.advertised, "reach:more_credit");
    kani::cover!(new.advertised == old.advertised && backlog > 0, "reach:no_tokens");
    kani::cover!(new.advertised > old.advertised && new.advertised < old.closed + old.local_limit, "reach:partial_refill");
    kani::cover!(new.advertised == MAX_STREAMS as i128 && old.advertised < MAX_STREAMS as i128, "reach:saturates_at_2_60");
    kani::cover!(backlog == 0, "reach:nothing_to_return");
}

//@ harness props=C04 tier=quick level=full timeout=300
//@ fn RemoteInitiated::on_transmit
//@ fn MaxStreamsToFrameWriter::write_value_as_frame
#[kani::proof]
#[kani::unwind(10)]
fn vq_c04_ri_on_transmit() {
    let mut ri = any_ri();
    let old = abs(&ri);
    let mut context = MiniWriter::any();
    let id: u64 = kani::any();
    kani::assume(id <= MAXV);
    let stream_id = StreamId::from_varint(v(id));
    let r = ri.on_transmit(stream_id, &mut context);
    let new = abs(&ri);
    assert!(ri_timeout_post(old, new), "C04/ri.on_transmit/advertised_monotone_and_le_closed_plus_limit_and_2_60");
    assert!(ri_inv(new), "C04/ri.on_transmit/inv_preserved");
    assert!(context.frames <= 1, "C04/ri.on_transmit/at_most_one_frame");
    if context.frames == 1 {
        let (tag, wire) = context.tag_and_varint();
        // RFC 9000 19.11: MAX_STREAMS type 0x12 (bidirectional) / 0x13 (unidirectional), Maximum Streams (i)
        let expect_tag = if id & 2 == 0 { 0x12 } else { 0x13 };
        assert!(tag == expect_tag, "C04/ri.on_transmit/frame_is_max_streams_of_the_stream_type");
        assert!(ri_transmit_wire_is_advertised(new, true, wire as i128), "C04/ri.on_transmit/max_streams_value_is_advertised");
        assert!(wire as i128 <= new.closed + new.local_limit && wire as i128 <= max_streams_max(), "C04/ri.on_transmit/wire_credit_le_closed_plus_limit_and_2_60");
        assert!(r.is_ok(), "C04/ri.on_transmit/ok_when_written");
    }
    kani::cover!(context.frames == 1 && new.advertised > old.advertised, "reach:new_credit_written");
    kani::cover!(context.frames == 1 && id & 2 == 2, "reach:unidirectional");
    kani::cover!(context.frames == 0, "reach:nothing_written");
}

//@ harness props=C04 tier=quick level=full timeout=300
//@ fn RemoteInitiated::new
#[kani::proof]
#[kani::unwind(3)]
fn vq_c04_ri_new() {
    // call sites: stream/controller.rs:77,85 with initial_local_limits.max_open_remote_{bidi,uni}directional_streams,
    // a transport-parameter value validated to be <= 2^60 (core transport/parameters InitialMaxStreams*)
    let limit: u64 = kani::any();
    kani::assume(limit <= MAX_STREAMS);
    let ri = RemoteInitiated::new(v(limit), MIN_RTT);
    let s = abs(&ri);
    assert!(s.advertised == limit as i128 && s.opened == 0 && s.closed == 0 && s.local_limit == limit as i128, "C04/ri.new/initial_credit_is_the_local_limit");
    assert!(ri_inv(s), "C04/ri.new/establishes_inv");
    assert!(ri.max_streams_sync.verif_delivery_kind() == 0, "C04/ri.new/nothing_to_send");
    kani::cover!(limit == 0, "reach:zero");
    kani::cover!(limit == MAX_STREAMS, "reach:two_pow_60");
}
