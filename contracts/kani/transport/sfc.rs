//@ inject crate=transport src=quic/s2n-quic-transport/src/stream/send_stream.rs
// Contract harnesses for StreamFlowController (property C03).
use super::*;
#[allow(dead_code, unused_variables)]
mod spec {
    include!("../../spec/flow_out.rs");
}
use spec::*;

const MAXV: u64 = s2n_quic_core::varint::MAX_VARINT_VALUE;

fn v(x: u64) -> VarInt {
    VarInt::new(x).unwrap()
}

fn any_state() -> StreamFlowControllerState {
    match kani::any::<u8>() % 4 {
        0 => StreamFlowControllerState::Ready,
        1 => StreamFlowControllerState::BlockedOnStreamWindow,
        2 => StreamFlowControllerState::BlockedOnConnectionWindow,
        _ => StreamFlowControllerState::Finished,
    }
}

/// arbitrary connection controller (total, granted) and arbitrary stream controller satisfying sfc_inv
/// whose booked credit does not exceed what the connection handed out
fn any_sfc() -> (OutgoingConnectionFlowController, StreamFlowController) {
    let conn_total: u64 = kani::any();
    let conn_granted: u64 = kani::any();
    kani::assume(conn_total <= MAXV && conn_granted <= conn_total);
    let mut conn = OutgoingConnectionFlowController::new(v(conn_total));
    let got = conn.acquire_window(v(conn_granted));
    assert!(got.as_u64() == conn_granted);
    let msd: u64 = kani::any();
    let acquired: u64 = kani::any();
    let hr: u64 = kani::any();
    kani::assume(msd <= MAXV && acquired <= hr && hr <= MAXV && acquired <= conn_granted);
    let mut fc = StreamFlowController::new(conn.clone(), v(msd));
    fc.acquired_connection_flow_controller_window = v(acquired);
    fc.highest_requested_connection_flow_control_window = v(hr);
    fc.state = any_state();
    // the STREAM_DATA_BLOCKED synchroniser may be idle or have a delivery pending
    if kani::any() {
        fc.stream_data_blocked_sync.request_delivery(v(msd));
    }
    (conn, fc)
}

fn abs(fc: &StreamFlowController) -> Sfc {
    Sfc {
        msd: fc.max_stream_data.as_u64() as i128,
        acquired: fc.acquired_connection_flow_controller_window.as_u64() as i128,
        requested: fc.highest_requested_connection_flow_control_window.as_u64() as i128,
        finished: fc.state == StreamFlowControllerState::Finished,
    }
}

fn abs_conn(c: &OutgoingConnectionFlowController) -> Ocfc {
    Ocfc { total: c.total_window().as_u64() as i128, avail: c.available_window().as_u64() as i128 }
}

//@ harness props=C03 tier=quick level=full timeout=120
//@ fn StreamFlowController::set_max_stream_data
#[kani::proof]
#[kani::unwind(3)]
fn vq_c03_sfc_set_max_stream_data() {
    let (conn, mut fc) = any_sfc();
    let old = abs(&fc);
    let c_old = abs_conn(&conn);
    let m: u64 = kani::any();
    kani::assume(m <= MAXV);
    fc.set_max_stream_data(v(m));
    let new = abs(&fc);
    assert!(sfc_set_msd_is_max(old, m as i128, new), "C03/sfc.set_max_stream_data/is_max");
    assert!(sfc_set_msd_frame(old, m as i128, new), "C03/sfc.set_max_stream_data/frame");
    let c_new = abs_conn(&conn);
    assert!(c_new.total == c_old.total && c_new.avail == c_old.avail, "C03/sfc.set_max_stream_data/connection_untouched");
    assert!(sfc_inv(new), "C03/sfc.set_max_stream_data/inv_preserved");
    kani::cover!(m as i128 > old.msd, "reach:increase");
    kani::cover!(m as i128 <= old.msd, "reach:ignored");
}

//@ harness props=C03 tier=quick level=full timeout=180
//@ fn StreamFlowController::acquire_flow_control_window
//@ fn StreamFlowController::try_acquire_connection_window
//@ fn StreamFlowController::available_window
#[kani::proof]
#[kani::unwind(3)]
fn vq_c03_sfc_acquire_flow_control_window() {
    let (conn, mut fc) = any_sfc();
    kani::assume(fc.state != StreamFlowControllerState::Finished); // debug_assert_ne at entry: caller obligation
    let old = abs(&fc);
    let c_old = abs_conn(&conn);
    assert!(sfc_inv(old) && ocfc_inv(c_old), "C03/sfc.builder/inv");
    let end: u64 = kani::any();
    kani::assume(end <= MAXV);
    let r = fc.acquire_flow_control_window(v(end)).as_u64() as i128;
    let new = abs(&fc);
    let c_new = abs_conn(&conn);
    let e = end as i128;
    assert!(sfc_acquire_result_is_window(old, e, new, r), "C03/sfc.acquire_flow_control_window/result_is_min_of_stream_limit_and_acquired");
    assert!(sfc_acquire_requested_is_max(old, e, new, r), "C03/sfc.acquire_flow_control_window/requested_is_max");
    assert!(sfc_acquire_books_connection_grant(old, new, c_old, c_new), "C03/sfc.acquire_flow_control_window/books_exactly_what_connection_granted");
    assert!(sfc_acquire_never_more_than_requested(old, e, new, r), "C03/sfc.acquire_flow_control_window/never_more_than_requested");
    assert!(sfc_acquire_msd_unchanged(old, e, new, r), "C03/sfc.acquire_flow_control_window/stream_limit_unchanged");
    assert!(c_new.total == c_old.total, "C03/sfc.acquire_flow_control_window/connection_limit_unchanged");
    assert!(sfc_inv(new) && ocfc_inv(c_new), "C03/sfc.acquire_flow_control_window/inv_preserved");
    // blocked-state bookkeeping (STREAM_DATA_BLOCKED / DATA_BLOCKED signalling)
    assert!(fc.is_blocked() == (e > new.msd || e > new.acquired), "C03/sfc.acquire_flow_control_window/blocked_iff_short");
    kani::cover!(r < e, "reach:short");
    kani::cover!(r >= e && e > 0, "reach:enough");
    kani::cover!(new.acquired > old.acquired, "reach:acquired_more");
}

//@ harness props=C03 tier=quick level=full timeout=180
//@ fn StreamFlowController::try_acquire_connection_window
#[kani::proof]
#[kani::unwind(3)]
fn vq_c03_sfc_try_acquire_connection_window() {
    let (conn, mut fc) = any_sfc();
    let old = abs(&fc);
    let c_old = abs_conn(&conn);
    fc.try_acquire_connection_window();
    let new = abs(&fc);
    let c_new = abs_conn(&conn);
    assert!(sfc_acquire_books_connection_grant(old, new, c_old, c_new), "C03/sfc.try_acquire_connection_window/books_exactly_what_connection_granted");
    assert!(new.acquired <= new.requested, "C03/sfc.try_acquire_connection_window/never_more_than_requested");
    assert!(new.msd == old.msd && new.requested == old.requested && new.finished == old.finished, "C03/sfc.try_acquire_connection_window/frame");
    assert!(!old.finished || (new.acquired == old.acquired), "C03/sfc.try_acquire_connection_window/finished_stream_books_nothing");
    assert!(sfc_inv(new) && ocfc_inv(c_new), "C03/sfc.try_acquire_connection_window/inv_preserved");
    kani::cover!(new.acquired > old.acquired, "reach:acquired_more");
    kani::cover!(old.finished, "reach:finished");
}

//@ harness props=C03,C12 tier=quick level=full timeout=180
//@ fn StreamFlowController::finish
//@ fn StreamFlowController::clear_blocked
#[kani::proof]
#[kani::unwind(3)]
fn vq_c03_sfc_finish_and_clear() {
    let (conn, mut fc) = any_sfc();
    let old = abs(&fc);
    let c_old = abs_conn(&conn);
    if kani::any() {
        fc.clear_blocked();
        let new = abs(&fc);
        assert!(new.msd == old.msd && new.acquired == old.acquired && new.requested == old.requested && new.finished == old.finished,
            "C03/sfc.clear_blocked/frame");
        assert!(!fc.is_blocked(), "C03/sfc.clear_blocked/not_blocked");
    } else {
        OutgoingDataFlowController::finish(&mut fc);
        let new = abs(&fc);
        assert!(new.finished && new.msd == old.msd && new.acquired == old.acquired && new.requested == old.requested, "C03/sfc.finish/frame");
        assert!(!fc.is_blocked(), "C03/sfc.finish/not_blocked");
        // C12: after finish() (reset or end of stream) no STREAM_DATA_BLOCKED frame may follow -- whatever
        // blocked state the controller was in
        {
            use s2n_quic_core::time::timer::Provider as _;
            use transmission::interest::Provider as _;
            assert!(!fc.has_transmission_interest(), "C12/sfc.finish/no_stream_data_blocked_pending_after_finish");
            assert!(!fc.is_armed(), "C12/sfc.finish/no_stream_data_blocked_timer_after_finish");
        }
    }
    let c_new = abs_conn(&conn);
    assert!(c_new.total == c_old.total && c_new.avail == c_old.avail, "C03/sfc.finish_clear/connection_untouched");
    kani::cover!(true, "reach:end");
}

// ---- RESET_STREAM final size (C03: "the final size in a RESET_STREAM it sends obeys the same limits") ----
// SendStream::init_reset announces final_size = acquired_connection_flow_controller_window(), i.e. all the
// connection credit the stream has booked.  Obligations: it never exceeds what the connection handed out
// (connection limit), it is never below the highest offset that can have been sent (min(msd, acquired)),
// and -- from the property statement -- it never exceeds the per-stream limit.  The last one FAILS on the
// pinned tree: try_acquire_connection_window books credit up to the highest *requested* offset even beyond
// max_stream_data (known finding KF-C03-reset-final-size); the residual obligation excludes exactly the
// states in which more credit is booked than the stream limit.

// `StreamError::stream_reset` records `panic::Location::caller()`, an intrinsic Kani does not support; it is
// replaced by a location constant evaluated at compile time (the location is diagnostics only).
static VERIF_LOCATION: &core::panic::Location<'static> = core::panic::Location::caller();
fn verif_caller<'a>() -> &'static core::panic::Location<'static> where 'a: 'a {
    VERIF_LOCATION
}

//@ harness props=C03,C12 tier=quick level=full timeout=240
//@ fn SendStream::init_reset
//@ fn StreamFlowController::acquired_connection_flow_controller_window
#[kani::proof]
#[kani::unwind(10)] // Map::default fills 8 slots in a loop
#[kani::stub(core::panic::Location::caller, verif_caller)]
fn vq_c03_send_stream_reset_final_size() {
    let conn_total: u64 = kani::any();
    let conn_granted: u64 = kani::any();
    kani::assume(conn_total <= MAXV && conn_granted <= conn_total);
    let mut conn = OutgoingConnectionFlowController::new(v(conn_total));
    let _ = conn.acquire_window(v(conn_granted));
    let msd: u64 = kani::any();
    let acquired: u64 = kani::any();
    let hr: u64 = kani::any();
    kani::assume(msd <= MAXV && acquired <= hr && hr <= MAXV && acquired <= conn_granted);
    let mut stream = SendStream::new(conn.clone(), false, v(msd), 4096);
    {
        let fc = stream.data_sender.flow_controller_mut();
        fc.acquired_connection_flow_controller_window = v(acquired);
        fc.highest_requested_connection_flow_control_window = v(hr);
    }
    let code: u32 = kani::any();
    let from_peer: bool = kani::any();
    let source = if from_peer { ResetSource::StopSendingFrame } else { ResetSource::LocalApplication };
    let r = stream.init_reset(source, StreamError::stream_reset(VarInt::from_u32(code).into()));
    kani::cover!(acquired > msd, "reach:booked_beyond_stream_limit");
    kani::cover!(acquired <= msd && acquired > 0, "reach:booked_within_stream_limit");
    kani::cover!(from_peer, "reach:stop_sending");
    assert!(r == InitResetResult::ResetInitiated, "C03/send_stream.init_reset/initiated_from_sending");
    let req = stream.reset_sync.verif_requested();
    assert!(req.is_some(), "C03/send_stream.init_reset/reset_frame_requested");
    let final_size = req.unwrap().final_size.as_u64();
    assert!(final_size == acquired, "C03/send_stream.init_reset/final_size_is_booked_connection_credit");
    assert!(final_size <= conn.acquired_window().as_u64() && final_size <= conn_total, "C03/send_stream.init_reset/final_size_le_connection_limit");
    assert!(final_size >= core::cmp::min(msd, acquired), "C12/send_stream.init_reset/final_size_ge_highest_sendable_offset");
    assert!(final_size <= msd, "C03/send_stream.init_reset/final_size_le_stream_limit");
    assert!(acquired > msd || final_size <= msd, "C03/send_stream.init_reset/final_size_le_stream_limit#outside-known");
    // a second reset never changes the announced final size (C12)
    let r2 = stream.init_reset(ResetSource::LocalApplication, StreamError::stream_reset(VarInt::from_u32(code).into()));
    assert!(r2 == InitResetResult::ResetNotNecessary, "C12/send_stream.init_reset/idempotent");
    assert!(stream.reset_sync.verif_requested().unwrap().final_size.as_u64() == final_size, "C12/send_stream.init_reset/final_size_never_changes");
    assert!(stream.data_sender.state() != data_sender::State::Sending, "C12/send_stream.init_reset/data_sender_stopped");
    kani::cover!(true, "reach:end_outside_known");
}

//@ harness props=C03 tier=quick level=full timeout=180
//@ fn StreamFlowController::acquire_flow_control_window
//@ fn StreamFlowController::try_acquire_connection_window
#[kani::proof]
#[kani::unwind(3)]
fn vq_c03_sfc_booked_credit_vs_stream_limit() {
    let (conn, mut fc) = any_sfc();
    kani::assume(fc.state != StreamFlowControllerState::Finished);
    let old = abs(&fc);
    kani::assume(old.acquired <= old.msd); // start from a state in which the booked credit respects the stream limit
    let end: u64 = kani::any();
    kani::assume(end <= MAXV);
    let _ = fc.acquire_flow_control_window(v(end));
    let new = abs(&fc);
    kani::cover!(new.acquired > new.msd, "reach:booked_beyond_stream_limit");
    kani::cover!(new.acquired <= new.msd, "reach:within");
    // strict (property): the credit booked for a stream -- its RESET_STREAM final size -- stays within the stream limit
    assert!(new.acquired <= new.msd, "C03/sfc.acquire_flow_control_window/booked_credit_le_stream_limit");
    // residual: only a request beyond the stream limit can book beyond it
    assert!((end as i128) > new.msd || new.acquired <= new.msd, "C03/sfc.acquire_flow_control_window/booked_credit_le_stream_limit#outside-known");
    let _ = conn;
}
