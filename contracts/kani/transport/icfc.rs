//@ inject crate=transport src=quic/s2n-quic-transport/src/stream/incoming_connection_flow_controller.rs
// Contract harnesses for IncomingConnectionFlowControllerImpl / IncomingConnectionFlowController (property C04).
// Predicates: contracts/spec/flow_in.rs (shared with verus/lemmas/C04.rs).
//
// Also provides `IncomingConnectionFlowController::verif_*` (builder + abstraction) for rsfc.rs: the
// controller's state is private to this module.
use super::*;
#[allow(dead_code, unused_variables)]
mod spec {
    include!("../../spec/flow_out.rs");
    include!("../../spec/flow_in.rs");
}
use spec::*;
include!("_miniwriter.rs"); // at module level: `kani` must resolve to the replay shim in native replays

const MAXV: u64 = s2n_quic_core::varint::MAX_VARINT_VALUE;

fn v(x: u64) -> VarInt {
    VarInt::new(x).unwrap()
}

/// arbitrary IncrementalValueSync with the given latest value (see IncrementalValueSync::verif_build in ivs.rs);
/// the nondeterministic values are drawn here, in the harness's own module
fn any_sync_with_latest<S: ValueToFrameWriter<VarInt>>(latest: u64) -> IncrementalValueSync<VarInt, S> {
    let nd: [u64; 4] = kani::any();
    let kind: u8 = kani::any();
    IncrementalValueSync::verif_build(latest, nd, kind)
}

/// Arbitrary controller satisfying `icfc_inv` (the only code that touches private fields):
/// consumed <= acquired <= advertised <= 2^62-1, window: any u32, advertised <= consumed + window;
/// the embedded IncrementalValueSync in any delivery state.
fn build_icfc(window: u32, advertised: u64, acquired: u64, consumed: u64, sync: IncrementalValueSync<VarInt, MaxDataToFrameWriter>) -> IncomingConnectionFlowControllerImpl {
    kani::assume(consumed <= acquired && acquired <= advertised && advertised <= MAXV);
    kani::assume(advertised as u128 <= consumed as u128 + window as u128);
    kani::assume(sync.latest_value().as_u64() == advertised);
    IncomingConnectionFlowControllerImpl {
        read_window_sync: sync,
        desired_flow_control_window: window,
        acquired_window: v(acquired),
        consumed_window: v(consumed),
    }
}

fn any_icfc() -> IncomingConnectionFlowControllerImpl {
    let window: u32 = kani::any();
    let advertised: u64 = kani::any();
    let acquired: u64 = kani::any();
    let consumed: u64 = kani::any();
    kani::assume(advertised <= MAXV);
    build_icfc(window, advertised, acquired, consumed, any_sync_with_latest(advertised))
}

fn abs(fc: &IncomingConnectionFlowControllerImpl) -> Icfc {
    Icfc {
        advertised: fc.read_window_sync.latest_value().as_u64() as i128,
        acquired: fc.acquired_window.as_u64() as i128,
        consumed: fc.consumed_window.as_u64() as i128,
        window: fc.desired_flow_control_window as i128,
    }
}

impl IncomingConnectionFlowController {
    /// shared controller satisfying `icfc_inv`, from caller-supplied nondeterministic values
    /// (window, [advertised, acquired, consumed], IncrementalValueSync::verif_build arguments)
    pub(crate) fn verif_build(window: u32, s: [u64; 3], nd: [u64; 4], kind: u8) -> Self {
        kani::assume(s[0] <= MAXV);
        Self { inner: Rc::new(RefCell::new(build_icfc(window, s[0], s[1], s[2], IncrementalValueSync::verif_build(s[0], nd, kind)))) }
    }
    /// [advertised, acquired, consumed, window]
    pub(crate) fn verif_abs(&self) -> [u64; 4] {
        let i = self.inner.borrow();
        [i.read_window_sync.latest_value().as_u64(), i.acquired_window.as_u64(), i.consumed_window.as_u64(), i.desired_flow_control_window as u64]
    }
    /// (latest, acked, in-flight value or -1, cancelled) of the MAX_DATA synchroniser
    pub(crate) fn verif_sync_abs(&self) -> (u64, u64, i128, bool) {
        self.inner.borrow().read_window_sync.verif_abs()
    }
}

//@ harness props=C04 tier=quick level=full timeout=300
//@ fn IncomingConnectionFlowControllerImpl::acquire_window
//@ fn IncomingConnectionFlowControllerImpl::remaining_window
#[kani::proof]
#[kani::unwind(3)]
fn vq_c04_icfc_acquire_window() {
    let mut fc = any_icfc();
    let old = abs(&fc);
    let sync_old = fc.read_window_sync.verif_abs();
    assert!(icfc_inv(old), "C04/icfc.builder/inv");
    let desired: u64 = kani::any();
    kani::assume(desired <= MAXV);
    let d = desired as i128;
    assert!(fc.remaining_window().as_u64() as i128 == old.advertised - old.acquired, "C04/icfc.remaining_window/is_advertised_minus_acquired");
    let r = fc.acquire_window(v(desired));
    let new = abs(&fc);
    let ok = r.is_ok();
    let code = match r {
        Ok(()) => -1,
        Err(e) => e.code.as_u64() as i128,
    };
    // RFC 9000 4.1: "A receiver MUST close the connection with an error of type FLOW_CONTROL_ERROR if the sender
    // violates the advertised connection or stream data limits"
    assert!(icfc_acquire_ok_iff_within_limit(old, d, ok), "C04/icfc.acquire_window/ok_iff_within_advertised_limit");
    assert!(icfc_acquire_ok_books(old, d, new, ok), "C04/icfc.acquire_window/ok_books_exactly_desired");
    assert!(icfc_acquire_err_unchanged(old, d, new, ok), "C04/icfc.acquire_window/err_leaves_state_unchanged");
    assert!(icfc_acquire_err_code(ok, code), "C04/icfc.acquire_window/err_is_flow_control_error");
    assert!(fc.read_window_sync.verif_abs() == sync_old, "C04/icfc.acquire_window/frame_window_sync_untouched");
    assert!(icfc_inv(new), "C04/icfc.acquire_window/inv_preserved");
    kani::cover!(ok && d > 0, "reach:granted");
    kani::cover!(!ok, "reach:rejected");
    kani::cover!(ok && new.acquired == new.advertised, "reach:exactly_at_limit");
    kani::cover!(!ok && d == old.advertised - old.acquired + 1, "reach:one_over_limit");
    kani::cover!(old.advertised == MAXV as i128, "reach:max_advertised");
    kani::cover!(old.window == 0, "reach:zero_window");
}

//@ harness props=C04 tier=quick level=full timeout=300
//@ fn IncomingConnectionFlowControllerImpl::release_window
#[kani::proof]
#[kani::unwind(3)]
fn vq_c04_icfc_release_window() {
    let mut fc = any_icfc();
    let old = abs(&fc);
    let sync_old = fc.read_window_sync.verif_abs();
    let amount: u64 = kani::any();
    // caller obligation (debug_assert in the code): only credit that was acquired can be released; established by
    // ReceiveStreamFlowController::release_window (rsfc.rs: rsfc_share_of_connection)
    kani::assume(amount <= MAXV && icfc_release_pre(old, amount as i128));
    let a = amount as i128;
    fc.release_window(v(amount));
    let new = abs(&fc);
    assert!(icfc_release_consumed_adds(old, a, new), "C04/icfc.release_window/consumed_adds_amount");
    assert!(icfc_release_advertised_rule(old, a, new), "C04/icfc.release_window/advertised_is_max_of_old_and_consumed_plus_window");
    // the property's credit bound, and monotonicity of what is advertised (RFC 9000 4.1: limits never decrease)
    assert!(icfc_credit_bound(new), "C04/icfc.release_window/advertised_le_consumed_plus_window");
    assert!(new.advertised >= old.advertised, "C04/icfc.release_window/advertised_monotone");
    assert!(icfc_inv(new), "C04/icfc.release_window/inv_preserved");
    let sync_new = fc.read_window_sync.verif_abs();
    assert!(sync_new.1 == sync_old.1 && (sync_new.2 == sync_old.2 || sync_new.2 == -1) && sync_new.3 == sync_old.3, "C04/icfc.release_window/frame_acked_inflight_cancelled");
    kani::cover!(new.advertised > old.advertised, "reach:window_update");
    kani::cover!(new.advertised == old.advertised && a > 0, "reach:no_update_needed");
    kani::cover!(new.advertised == MAXV as i128 && old.advertised < MAXV as i128, "reach:saturates_at_varint_max");
    kani::cover!(a == 0, "reach:zero");
    kani::cover!(new.consumed == new.acquired, "reach:all_consumed");
}

//@ harness props=C04 tier=quick level=full timeout=300
//@ fn IncomingConnectionFlowControllerImpl::on_transmit
//@ fn MaxDataToFrameWriter::write_value_as_frame
#[kani::proof]
#[kani::unwind(10)]
fn vq_c04_icfc_on_transmit() {
    let mut fc = any_icfc();
    let old = abs(&fc);
    let mut context = MiniWriter::any();
    let r = fc.on_transmit(&mut context);
    let new = abs(&fc);
    assert!(icfc_same(old, new), "C04/icfc.on_transmit/state_unchanged");
    assert!(context.frames <= 1, "C04/icfc.on_transmit/at_most_one_frame");
    if context.frames == 1 {
        let (tag, wire) = context.tag_and_varint();
        // RFC 9000 19.9: MAX_DATA frame type 0x10, Maximum Data (i)
        assert!(tag == 0x10, "C04/icfc.on_transmit/frame_is_max_data");
        assert!(icfc_transmit_wire_is_advertised(old, true, wire as i128), "C04/icfc.on_transmit/max_data_value_is_advertised");
        assert!(wire as i128 <= old.consumed + old.window, "C04/icfc.on_transmit/wire_credit_le_consumed_plus_window");
        assert!(r.is_ok(), "C04/icfc.on_transmit/ok_when_written");
    }
    kani::cover!(context.frames == 1, "reach:max_data_written");
    kani::cover!(context.frames == 0 && r.is_ok(), "reach:nothing_to_send");
    kani::cover!(r.is_err(), "reach:did_not_fit");
}

//@ harness props=C04 tier=quick level=full timeout=300
//@ fn IncomingConnectionFlowController::acquire_window
//@ fn IncomingConnectionFlowController::release_window
//@ fn IncomingConnectionFlowController::acquired_window
//@ fn IncomingConnectionFlowControllerImpl::new
#[kani::proof]
#[kani::unwind(3)]
fn vq_c04_icfc_shared_handle() {
    // the Rc<RefCell<..>> wrapper forwards to the contracted implementation, clones share state, and the
    // constructor establishes the invariant.  Call-site fact (stream/manager.rs:582): initial == desired <= u32::MAX.
    let window: u32 = kani::any();
    let mut a = IncomingConnectionFlowController::new(VarInt::from_u32(window), window);
    let mut b = a.clone();
    let s0 = a.verif_abs();
    let init = Icfc { advertised: s0[0] as i128, acquired: s0[1] as i128, consumed: s0[2] as i128, window: s0[3] as i128 };
    assert!(icfc_inv(init), "C04/icfc.new/establishes_inv");
    assert!(init.advertised == window as i128 && init.acquired == 0 && init.consumed == 0 && init.window == window as i128,
        "C04/icfc.new/initial_credit_is_the_window");
    let d1: u64 = kani::any();
    let d2: u64 = kani::any();
    kani::assume(d1 <= MAXV && d2 <= MAXV);
    let r1 = a.acquire_window(v(d1));
    let r2 = b.acquire_window(v(d2));
    let got = (if r1.is_ok() { d1 as u128 } else { 0 }) + (if r2.is_ok() { d2 as u128 } else { 0 });
    assert!(got <= window as u128, "C04/icfc.handle/accepted_never_exceeds_advertised");
    assert!(a.acquired_window().as_u64() as u128 == got, "C04/icfc.handle/acquired_is_sum_of_accepted");
    assert!(r1.is_ok() == (d1 <= window as u64), "C04/icfc.handle/first_ok_iff_fits");
    assert!(r2.is_ok() == (d2 as u128 + (if r1.is_ok() { d1 as u128 } else { 0 }) <= window as u128), "C04/icfc.handle/second_ok_iff_fits_in_rest");
    let rel: u64 = kani::any();
    kani::assume(rel as u128 <= got);
    b.release_window(v(rel));
    let s1 = a.verif_abs();
    assert!(s1[2] == rel && s1[0] == window as u64 + rel, "C04/icfc.handle/release_moves_window_forward_by_consumed");
    let s2 = b.verif_abs();
    assert!(s1[0] == s2[0] && s1[1] == s2[1] && s1[2] == s2[2] && s1[3] == s2[3], "C04/icfc.handle/clones_share_state");
    kani::cover!(r1.is_ok() && r2.is_ok() && d1 > 0 && d2 > 0, "reach:two_grants");
    kani::cover!(r1.is_ok() && r2.is_err(), "reach:second_rejected");
    kani::cover!(rel > 0, "reach:released");
}
