// Shared by mgr_controller.rs and mgr_manager.rs (include!): the abstract view of `stream::Controller`, built
// from the raw counters `Controller::verif_raw()` returns.  Uses the including module's `spec::OpenClass`.

/// One `OpenClass` per stream class.  For the two remote classes `peer_limit` is the cumulative limit WE
/// advertised to the peer (latest MAX_STREAMS value) and `local_limit` the concurrency limit behind it.
#[derive(Clone, Copy)]
struct CtlView {
    local_bidi: OpenClass,
    local_uni: OpenClass,
    remote_bidi: OpenClass,
    remote_uni: OpenClass,
    parked_bidi: u64,
    parked_uni: u64,
}

fn oc(r: [u64; 5]) -> OpenClass {
    OpenClass { opened: r[0] as i128, closed: r[1] as i128, peer_limit: r[2] as i128, local_limit: r[3] as i128 }
}

fn same_class(a: OpenClass, b: OpenClass) -> bool {
    a.opened == b.opened && a.closed == b.closed && a.peer_limit == b.peer_limit && a.local_limit == b.local_limit
}

impl CtlView {
    /// raw: [local bidi, local uni, remote bidi, remote uni] x [opened, closed, cumulative limit, concurrency limit, parked wakers]
    fn from_raw(raw: [[u64; 5]; 4]) -> CtlView {
        CtlView {
            local_bidi: oc(raw[0]),
            local_uni: oc(raw[1]),
            remote_bidi: oc(raw[2]),
            remote_uni: oc(raw[3]),
            parked_bidi: raw[0][4],
            parked_uni: raw[1][4],
        }
    }
    fn local(&self, uni: bool) -> OpenClass {
        if uni {
            self.local_uni
        } else {
            self.local_bidi
        }
    }
    fn remote(&self, uni: bool) -> OpenClass {
        if uni {
            self.remote_uni
        } else {
            self.remote_bidi
        }
    }
}
