// Shared by lidr.rs and pidr.rs (include!d): trusted stand-ins for the endpoint-wide hash maps of
// connection_id_mapper.rs and the builder of the shared mapper state.
//
// TRUSTED ("hash-map routing", DESIGN 5/C13): hashbrown + SipHash are out of CBMC's reach (an *empty*
// table lookup or drop alone does not finish symbolic execution in 5 minutes).  The registries' own
// logic is verified on the real code; the four operations they perform on the shared maps
//     LocalIdMap::try_insert / LocalIdMap::remove / StatelessResetMap::insert / StatelessResetMap::remove
// (and InitialIdMap::remove in Drop) are replaced by the stubs below.  The stubs are nondeterministic
// within the contract of a map that is shared with other connections:
//   try_insert(id, c) = Ok  =>  id was not mapped; afterwards id -> c.   An id this connection already
//                               holds is mapped, hence Err.  Otherwise the result is arbitrary (another
//                               connection may hold the id).
//   remove(id)               =  Some(_) iff id was mapped; an id this connection holds is mapped.
// and they record every call in a ghost log, so that the harnesses can state the routing half of C13 as
// an obligation: "the ids this connection holds in the shared map are exactly the ids in registered_ids".
use crate::connection::connection_id_mapper::{
    ConnectionIdMapper, InitialIdMap, LocalIdMap, OpenRequestMap, StatelessResetMap,
};

const HELD: usize = 4;

struct MapLog {
    /// while the builder runs `LocalIdRegistry::new` the map accepts the handshake id
    building: bool,
    ins_calls: u8,
    ins_ok: u8,
    rem_calls: u8,
    rem_missing: u8,
    wrong_internal: u8,
    held: [Option<connection::LocalId>; HELD],
    tok_ins: u8,
    tok_rem: u8,
    tok_held: [Option<stateless_reset::Token>; HELD],
    internal: Option<InternalConnectionId>,
}

static mut LOG: MapLog = MapLog {
    building: true,
    ins_calls: 0,
    ins_ok: 0,
    rem_calls: 0,
    rem_missing: 0,
    wrong_internal: 0,
    held: [None; HELD],
    tok_ins: 0,
    tok_rem: 0,
    tok_held: [None; HELD],
    internal: None,
};

fn log() -> &'static mut MapLog {
    unsafe { &mut *core::ptr::addr_of_mut!(LOG) }
}

fn tok_bits(t: &stateless_reset::Token) -> u128 {
    u128::from_be_bytes(t.into_inner())
}

impl MapLog {
    fn holds(&self, id: &connection::LocalId) -> bool {
        let mut r = false;
        let mut i = 0;
        while i < HELD {
            if let Some(h) = &self.held[i] {
                if h == id {
                    r = true;
                }
            }
            i += 1;
        }
        r
    }
    fn held_count(&self) -> usize {
        let mut n = 0;
        let mut i = 0;
        while i < HELD {
            if self.held[i].is_some() {
                n += 1;
            }
            i += 1;
        }
        n
    }
    fn hold(&mut self, id: connection::LocalId) {
        let mut i = 0;
        let mut done = false;
        while i < HELD {
            if !done && self.held[i].is_none() {
                self.held[i] = Some(id);
                done = true;
            }
            i += 1;
        }
        assert!(done, "ghost log capacity");
    }
    fn release(&mut self, id: &connection::LocalId) -> bool {
        let mut i = 0;
        let mut found = false;
        while i < HELD {
            if let Some(h) = &self.held[i] {
                if h == id {
                    self.held[i] = None;
                    found = true;
                }
            }
            i += 1;
        }
        found
    }
    fn holds_token(&self, t: &stateless_reset::Token) -> bool {
        let mut r = false;
        let mut i = 0;
        while i < HELD {
            if let Some(h) = &self.tok_held[i] {
                if tok_bits(h) == tok_bits(t) {
                    r = true;
                }
            }
            i += 1;
        }
        r
    }
    fn token_count(&self) -> usize {
        let mut n = 0;
        let mut i = 0;
        while i < HELD {
            if self.tok_held[i].is_some() {
                n += 1;
            }
            i += 1;
        }
        n
    }
}

fn stub_local_try_insert(
    _m: &mut LocalIdMap,
    id: &connection::LocalId,
    internal: InternalConnectionId,
) -> Result<(), ()> {
    let l = log();
    l.ins_calls += 1;
    if l.internal != Some(internal) {
        l.wrong_internal += 1;
    }
    let free: bool = if l.building { true } else { kani::any() };
    if l.holds(id) || !free {
        Err(())
    } else {
        l.ins_ok += 1;
        l.hold(*id);
        Ok(())
    }
}

fn stub_local_remove(_m: &mut LocalIdMap, id: &connection::LocalId) -> Option<InternalConnectionId> {
    let l = log();
    l.rem_calls += 1;
    if l.release(id) {
        l.internal
    } else {
        // not an id of this connection: whatever the shared map says
        l.rem_missing += 1;
        if kani::any() {
            l.internal
        } else {
            None
        }
    }
}

fn stub_initial_remove(_m: &mut InitialIdMap, _id: &InternalConnectionId) -> Option<connection::InitialId> {
    None
}

fn stub_token_insert(_m: &mut StatelessResetMap, token: stateless_reset::Token, internal: InternalConnectionId) {
    let l = log();
    l.tok_ins += 1;
    if l.internal != Some(internal) {
        l.wrong_internal += 1;
    }
    if !l.holds_token(&token) {
        let mut i = 0;
        let mut done = false;
        while i < HELD {
            if !done && l.tok_held[i].is_none() {
                l.tok_held[i] = Some(token);
                done = true;
            }
            i += 1;
        }
        assert!(done, "ghost log capacity");
    }
}

fn stub_token_remove(_m: &mut StatelessResetMap, token: &stateless_reset::Token) -> Option<InternalConnectionId> {
    let l = log();
    l.tok_rem += 1;
    let mut i = 0;
    let mut found = false;
    while i < HELD {
        if let Some(h) = &l.tok_held[i] {
            if tok_bits(h) == tok_bits(token) {
                l.tok_held[i] = None;
                found = true;
            }
        }
        i += 1;
    }
    if found {
        l.internal
    } else {
        None
    }
}

/// `stateless_reset::Token`'s `PartialEq` is `subtle`'s constant-time slice comparison: a 16-iteration
/// loop per comparison (which would force a global unwind bound of 17 onto every other loop).  The
/// harnesses replace `<[u8] as ConstantTimeEq>::ct_eq` by the functionally identical comparison of the
/// 128-bit values (trusted: "ct_eq == ==" on 16-byte slices; constant-timeness is not part of C13).
fn stub_ct_eq<T: s2n_quic_core::ct::ConstantTimeEq>(a: &[T], b: &[T]) -> s2n_quic_core::ct::Choice {
    assert!(
        core::mem::size_of::<T>() == 1 && a.len() == 16 && b.len() == 16,
        "only stateless-reset tokens are compared in these harnesses"
    );
    let x: [u8; 16] = unsafe { *(a.as_ptr() as *const [u8; 16]) };
    let y: [u8; 16] = unsafe { *(b.as_ptr() as *const [u8; 16]) };
    s2n_quic_core::ct::Choice::from((u128::from_be_bytes(x) == u128::from_be_bytes(y)) as u8)
}

/// loop-free `random::Generator` for the SipHash keys of the (never used) real maps
struct FixedRandom;
impl s2n_quic_core::random::Generator for FixedRandom {
    fn public_random_fill(&mut self, dest: &mut [u8]) {
        dest.copy_from_slice(&[1, 2, 3, 4, 5, 6, 7, 8]);
    }
    fn private_random_fill(&mut self, dest: &mut [u8]) {
        dest.copy_from_slice(&[8, 7, 6, 5, 4, 3, 2, 1]);
    }
}

/// The real `ConnectionIdMapper::new` (with `OpenRequestMap::new` replaced, see cidm.rs).
fn new_mapper() -> ConnectionIdMapper {
    let mut random_generator = FixedRandom;
    ConnectionIdMapper::new(&mut random_generator, crate::endpoint::Type::Server)
}

fn the_internal_id() -> InternalConnectionId {
    let mut g = crate::connection::InternalConnectionIdGenerator::new();
    let _ = g.generate_id();
    g.generate_id()
}

// timestamps: `Timestamp` is a `NonZeroU64` of microseconds.  The builder writes the microsecond value
// directly (same size, single field) instead of going through `Duration::from_micros`/`as_micros`, whose
// 64-bit divisions make every later comparison SAT-hard (AUTHORING "tool facts").
fn ts(micros: u64) -> s2n_quic_core::time::Timestamp {
    assert!(micros != 0);
    unsafe { core::mem::transmute::<u64, s2n_quic_core::time::Timestamp>(micros) }
}
fn ts_micros(t: s2n_quic_core::time::Timestamp) -> u64 {
    unsafe { core::mem::transmute::<s2n_quic_core::time::Timestamp, u64>(t) }
}

fn byte_at(b: &[u8], i: usize) -> i128 {
    if i < b.len() {
        b[i] as i128
    } else {
        0
    }
}
/// big-endian value of b[off..off+10), zero padded beyond the end of the slice (loop-free)
fn be10(b: &[u8], off: usize) -> i128 {
    let mut v = byte_at(b, off);
    v = v * 256 + byte_at(b, off + 1);
    v = v * 256 + byte_at(b, off + 2);
    v = v * 256 + byte_at(b, off + 3);
    v = v * 256 + byte_at(b, off + 4);
    v = v * 256 + byte_at(b, off + 5);
    v = v * 256 + byte_at(b, off + 6);
    v = v * 256 + byte_at(b, off + 7);
    v = v * 256 + byte_at(b, off + 8);
    v = v * 256 + byte_at(b, off + 9);
    v
}
fn tok_a(t: &stateless_reset::Token) -> i128 {
    (tok_bits(t) >> 64) as i128
}
fn tok_b(t: &stateless_reset::Token) -> i128 {
    (tok_bits(t) & 0xffff_ffff_ffff_ffff) as i128
}
