//@ inject crate=transport src=quic/s2n-quic-transport/src/path/mod.rs
// Contract harnesses for Path::transmission_constraint / at_amplification_limit (properties C10, C11).
// "A running connection sends a congestion-controlled packet only while bytes in flight are below the
// window": the transmission path asks Path::transmission_constraint() and sends new data only when it
// returns Constraint::None.  (The amplification *counter* contracts live in path_amplification.rs.)
use super::*;
use s2n_quic_core::recovery::CongestionController as _;

type ServerPath = Path<crate::endpoint::testing::Server>;

/// Arbitrary server path: amplification state symbolic (validated, or limited with any allowance),
/// the controller's observable state (window, in flight, fast-retransmission flag) symbolic.
/// `endpoint::testing::Server` uses the crate's mock controller whose fields are public; the real CUBIC
/// controller's own `is_congestion_limited` contract is `vq_c10_cubic_getters` in the core crate.
fn any_server_path() -> ServerPath {
    let mut path = testing::helper_path_server();
    path.state = if kani::any() {
        State::Validated
    } else {
        State::AmplificationLimited { tx_allowance: Counter::new(kani::any()) }
    };
    path.congestion_controller.congestion_window = kani::any();
    path.congestion_controller.bytes_in_flight = kani::any();
    path.congestion_controller.requires_fast_retransmission = kani::any();
    path
}

//@ harness props=C10,C11 tier=quick level=full timeout=240
//@ fn Path::transmission_constraint
//@ fn Path::at_amplification_limit
#[kani::proof]
#[kani::unwind(3)]
fn vq_c10_path_transmission_constraint() {
    let path = any_server_path();
    let allowance: Option<u32> = match path.state {
        State::Validated => None,
        State::AmplificationLimited { tx_allowance } => Some(*tx_allowance),
    };
    let at_limit = allowance == Some(0);
    let cc_limited = path.congestion_controller.is_congestion_limited();
    let fast_retx = path.congestion_controller.requires_fast_retransmission();
    let c = path.transmission_constraint();

    assert!(path.at_amplification_limit() == at_limit, "C11/path.at_amplification_limit/iff_unvalidated_and_no_allowance_left");
    // amplification limit comes first, whatever the congestion controller says
    assert!((c == transmission::Constraint::AmplificationLimited) == at_limit, "C10/path.transmission_constraint/amplification_limited_first_iff_at_limit");
    if !at_limit {
        assert!((c == transmission::Constraint::None) == !cc_limited, "C10/path.transmission_constraint/unconstrained_only_if_controller_not_limited");
        assert!((c == transmission::Constraint::RetransmissionOnly) == (cc_limited && fast_retx), "C10/path.transmission_constraint/retransmission_only_iff_limited_and_fast_retransmission_pending");
        assert!((c == transmission::Constraint::CongestionLimited) == (cc_limited && !fast_retx), "C10/path.transmission_constraint/congestion_limited_iff_limited_otherwise");
    }
    // new data may be sent only under Constraint::None
    assert!(c.can_transmit() == (c == transmission::Constraint::None), "C10/path.transmission_constraint/only_none_permits_new_data");
    assert!(!(c.can_transmit() && (at_limit || cc_limited)), "C10/path.transmission_constraint/no_new_data_while_limited");
    kani::cover!(at_limit && !cc_limited, "reach:amplification_limited_only");
    kani::cover!(at_limit && cc_limited, "reach:both_limits");
    kani::cover!(!at_limit && cc_limited && fast_retx, "reach:retransmission_only");
    kani::cover!(!at_limit && cc_limited && !fast_retx, "reach:congestion_limited");
    kani::cover!(allowance == Some(1) && c == transmission::Constraint::None, "reach:one_byte_of_allowance_left");
    kani::cover!(allowance.is_none() && c == transmission::Constraint::None, "reach:validated_unconstrained");
    kani::cover!(true, "reach:end");
}

/// builder helper for harnesses in other modules (`is_active` is private to this module; production code sets it in
/// path::Manager when a path becomes the active one)
impl<Config: endpoint::Config> Path<Config> {
    pub(crate) fn verif_set_active(&mut self, active: bool) {
        self.is_active = active;
    }
}
