//@ inject crate=transport src=quic/s2n-quic-transport/src/stream/incoming_connection_flow_controller.rs
// Read-only accessor for the stream-manager glue harnesses (mgr_manager.rs, mgr_stream_impl.rs): the handle's
// `remaining_window()` is `#[cfg(test)]` and the crate is verified as lib.  No harness here.
use super::*;

impl IncomingConnectionFlowController {
    /// [acquired, consumed, advertised (latest MAX_DATA value), desired window]
    pub(crate) fn verif_view(&self) -> [u64; 4] {
        let i = self.inner.borrow();
        [
            i.acquired_window.as_u64(),
            i.consumed_window.as_u64(),
            i.read_window_sync.latest_value().as_u64(),
            i.desired_flow_control_window as u64,
        ]
    }
}
