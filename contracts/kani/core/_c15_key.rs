// Instrumented 1-RTT key for the C15 harnesses (DESIGN 5, C15 "harness key"): stands in for the AEAD
// (assumption A-aead).  Limits are whatever the builder chose (symbolic), `derive_next_key` tags the key with
// its generation (how many times the key schedule was advanced from the first 1-RTT key), and whether THE packet
// of the harness authenticates under this key is a per-key flag chosen by the builder (one independent
// nondeterministic bool per stored key, so "the wrong key was tried" is observable).
#[derive(Clone, Copy, Debug, PartialEq, Eq)]
pub struct HKey {
    pub gen: u32,
    pub conf: u64,
    pub integ: u64,
    pub auth_ok: bool,
}

impl crate::crypto::Key for HKey {
    fn decrypt(&self, _packet_number: u64, _header: &[u8], _payload: &mut [u8]) -> Result<(), crate::crypto::packet_protection::Error> {
        if self.auth_ok {
            Ok(())
        } else {
            Err(crate::crypto::packet_protection::Error::DECRYPT_ERROR)
        }
    }

    fn encrypt(
        &mut self,
        _packet_number: u64,
        _header: &[u8],
        _payload: &mut crate::crypto::scatter::Buffer,
    ) -> Result<(), crate::crypto::packet_protection::Error> {
        Ok(())
    }

    fn tag_len(&self) -> usize {
        0
    }

    fn aead_confidentiality_limit(&self) -> u64 {
        self.conf
    }

    fn aead_integrity_limit(&self) -> u64 {
        self.integ
    }

    fn cipher_suite(&self) -> crate::crypto::tls::CipherSuite {
        crate::crypto::tls::CipherSuite::Unknown
    }
}

impl crate::crypto::OneRttKey for HKey {
    fn derive_next_key(&self) -> Self {
        // the key update of RFC 9001 6.1 keeps the cipher suite (limits) and advances the generation
        HKey { gen: self.gen + 1, conf: self.conf, integ: self.integ, auth_ok: self.auth_ok }
    }
}
