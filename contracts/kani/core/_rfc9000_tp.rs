// Oracle for property C14: the transport-parameter table of RFC 9000 section 18.2 (+ section 4.6 for the
// max_streams bound, section 7.4 for duplicates, RFC 9221 section 3 for max_datagram_frame_size),
// transcribed from the RFC text in specs/www.rfc-editor.org/rfc/rfc9000.txt lines 5644-5848 -- NOT from the
// code.  Ordinary Rust (bytes / tables cannot be phrased in the i128 predicate sub-language, AUTHORING
// "Spec predicate files"); include!()d by contracts/kani/core/c14_tp.rs.
//
// One row per parameter: id, kind of value, default when absent ("Transport parameters have a default
// value of 0 if the transport parameter is absent, unless otherwise stated"), the valid range of an
// integer value, and whether only a server may send it.

#[derive(Clone, Copy, PartialEq, Eq)]
pub enum TpKind {
    /// "identified as integers use a variable-length integer encoding; see Section 16"
    Integer,
    /// a connection ID: 0..=20 bytes (RFC 9000 section 17.2: "MUST NOT exceed 20 bytes" in version 1)
    ConnectionId,
    /// "This parameter is a sequence of 16 bytes."
    Token16,
    /// "This parameter is a zero-length value."
    ZeroLength,
    /// Figure 22
    PreferredAddress,
}

#[derive(Clone, Copy)]
pub struct TpRow {
    pub id: u64,
    pub kind: TpKind,
    /// value assumed when the parameter is absent (integers only; None = "absent" is itself the state)
    pub default: Option<u64>,
    /// smallest valid integer value
    pub min: u64,
    /// largest valid integer value (VARINT_MAX = no bound stated by the RFC)
    pub max: u64,
    /// "This transport parameter is only sent by a server." / "MUST NOT be sent by a client"
    pub server_only: bool,
}

/// largest value of a variable-length integer, RFC 9000 section 16: 2^62 - 1
pub const TP_VARINT_MAX: u64 = 4611686018427387903;

const fn int(id: u64, default: u64, min: u64, max: u64) -> TpRow {
    TpRow { id, kind: TpKind::Integer, default: Some(default), min, max, server_only: false }
}

// 18.2: "original_destination_connection_id (0x00) ... This transport parameter is only sent by a server."
pub const TP_ORIGINAL_DESTINATION_CONNECTION_ID: TpRow =
    TpRow { id: 0x00, kind: TpKind::ConnectionId, default: None, min: 0, max: 0, server_only: true };
// "max_idle_timeout (0x01): ... a value in milliseconds that is encoded as an integer"; no default stated => 0; no range
pub const TP_MAX_IDLE_TIMEOUT: TpRow = int(0x01, 0, 0, TP_VARINT_MAX);
// "stateless_reset_token (0x02): ... a sequence of 16 bytes.  This transport parameter MUST NOT be sent by a client"
pub const TP_STATELESS_RESET_TOKEN: TpRow =
    TpRow { id: 0x02, kind: TpKind::Token16, default: None, min: 0, max: 0, server_only: true };
// "max_udp_payload_size (0x03): ... The default for this parameter is the maximum permitted UDP payload of
//  65527.  Values below 1200 are invalid."   (no upper bound is declared invalid)
pub const TP_MAX_UDP_PAYLOAD_SIZE: TpRow = int(0x03, 65527, 1200, TP_VARINT_MAX);
// "initial_max_data (0x04)": integer, default 0, no range
pub const TP_INITIAL_MAX_DATA: TpRow = int(0x04, 0, 0, TP_VARINT_MAX);
// "initial_max_stream_data_bidi_local (0x05)"
pub const TP_INITIAL_MAX_STREAM_DATA_BIDI_LOCAL: TpRow = int(0x05, 0, 0, TP_VARINT_MAX);
// "initial_max_stream_data_bidi_remote (0x06)"
pub const TP_INITIAL_MAX_STREAM_DATA_BIDI_REMOTE: TpRow = int(0x06, 0, 0, TP_VARINT_MAX);
// "initial_max_stream_data_uni (0x07)"
pub const TP_INITIAL_MAX_STREAM_DATA_UNI: TpRow = int(0x07, 0, 0, TP_VARINT_MAX);
// "initial_max_streams_bidi (0x08)"; section 4.6: "If a max_streams transport parameter ... is received with
//  a value greater than 2^60 ... the connection MUST be closed immediately with ... TRANSPORT_PARAMETER_ERROR"
pub const TP_INITIAL_MAX_STREAMS_BIDI: TpRow = int(0x08, 0, 0, 1u64 << 60);
// "initial_max_streams_uni (0x09)"
pub const TP_INITIAL_MAX_STREAMS_UNI: TpRow = int(0x09, 0, 0, 1u64 << 60);
// "ack_delay_exponent (0x0a): ... a default value of 3 is assumed ... Values above 20 are invalid."
pub const TP_ACK_DELAY_EXPONENT: TpRow = int(0x0a, 3, 0, 20);
// "max_ack_delay (0x0b): ... a default of 25 milliseconds is assumed.  Values of 2^14 or greater are invalid."
pub const TP_MAX_ACK_DELAY: TpRow = int(0x0b, 25, 0, (1u64 << 14) - 1);
// "disable_active_migration (0x0c): ... This parameter is a zero-length value."
pub const TP_DISABLE_ACTIVE_MIGRATION: TpRow =
    TpRow { id: 0x0c, kind: TpKind::ZeroLength, default: None, min: 0, max: 0, server_only: false };
// "preferred_address (0x0d): ... This transport parameter is only sent by a server."
pub const TP_PREFERRED_ADDRESS: TpRow =
    TpRow { id: 0x0d, kind: TpKind::PreferredAddress, default: None, min: 0, max: 0, server_only: true };
// "active_connection_id_limit (0x0e): ... MUST be at least 2.  An endpoint that receives a value less than 2
//  MUST close the connection with an error of type TRANSPORT_PARAMETER_ERROR.  If this transport parameter
//  is absent, a default of 2 is assumed."
pub const TP_ACTIVE_CONNECTION_ID_LIMIT: TpRow = int(0x0e, 2, 2, TP_VARINT_MAX);
// "initial_source_connection_id (0x0f)" -- sent by both endpoints
pub const TP_INITIAL_SOURCE_CONNECTION_ID: TpRow =
    TpRow { id: 0x0f, kind: TpKind::ConnectionId, default: None, min: 0, max: 0, server_only: false };
// "retry_source_connection_id (0x10): ... This transport parameter is only sent by a server."
pub const TP_RETRY_SOURCE_CONNECTION_ID: TpRow =
    TpRow { id: 0x10, kind: TpKind::ConnectionId, default: None, min: 0, max: 0, server_only: true };
// RFC 9221 section 3: "name=max_datagram_frame_size, value=0x20 ... an integer value ... The default for this
//  parameter is 0"; no range
pub const TP_MAX_DATAGRAM_FRAME_SIZE: TpRow = int(0x20, 0, 0, TP_VARINT_MAX);

/// The whole table, in id order (the 17 parameters of RFC 9000 + the one of RFC 9221).
pub const RFC_TP_TABLE: [TpRow; 18] = [
    TP_ORIGINAL_DESTINATION_CONNECTION_ID,
    TP_MAX_IDLE_TIMEOUT,
    TP_STATELESS_RESET_TOKEN,
    TP_MAX_UDP_PAYLOAD_SIZE,
    TP_INITIAL_MAX_DATA,
    TP_INITIAL_MAX_STREAM_DATA_BIDI_LOCAL,
    TP_INITIAL_MAX_STREAM_DATA_BIDI_REMOTE,
    TP_INITIAL_MAX_STREAM_DATA_UNI,
    TP_INITIAL_MAX_STREAMS_BIDI,
    TP_INITIAL_MAX_STREAMS_UNI,
    TP_ACK_DELAY_EXPONENT,
    TP_MAX_ACK_DELAY,
    TP_DISABLE_ACTIVE_MIGRATION,
    TP_PREFERRED_ADDRESS,
    TP_ACTIVE_CONNECTION_ID_LIMIT,
    TP_INITIAL_SOURCE_CONNECTION_ID,
    TP_RETRY_SOURCE_CONNECTION_ID,
    TP_MAX_DATAGRAM_FRAME_SIZE,
];

/// "the closing paragraph of 18.2": the four server-only parameters
/// "A client MUST NOT include any server-only transport parameter: original_destination_connection_id,
///  preferred_address, retry_source_connection_id, or stateless_reset_token."
pub const RFC_TP_SERVER_ONLY_IDS: [u64; 4] = [0x00, 0x0d, 0x10, 0x02];

/// is `v` (any value a variable-length integer can carry) a valid value of the integer parameter `row`?
pub fn tp_int_valid(row: TpRow, v: u64) -> bool {
    row.min <= v && v <= row.max
}

/// the value the connection must operate under: the declared one, the RFC default when absent
pub fn tp_int_effective(row: TpRow, declared: Option<u64>) -> u64 {
    match declared {
        Some(v) => v,
        None => match row.default {
            Some(d) => d,
            None => 0,
        },
    }
}

/// is the id one of the reserved "31 * N + 27" ids of section 18.1 (must be ignored)?
pub fn tp_is_reserved_grease(id: u64) -> bool {
    id >= 27 && (id - 27) % 31 == 0
}

// ---- wire format (RFC 9000 section 16 + Figure 21), written into a caller-provided stack array ----------

/// number of bytes of the shortest variable-length integer encoding (Table 4)
pub fn tp_varint_len(x: u64) -> usize {
    if x <= 63 {
        1
    } else if x <= 16383 {
        2
    } else if x <= 1073741823 {
        4
    } else {
        8
    }
}

/// writes `x` as a variable-length integer of exactly `n` in {1,2,4,8} bytes (Table 4: 2MSB = log2(n),
/// value big-endian in the remaining bits).  `x` must fit.  Returns n.
pub fn tp_put_varint_n<const L: usize>(buf: &mut [u8; L], at: usize, x: u64, n: usize) -> usize {
    if n == 1 {
        buf[at] = x as u8;
    } else if n == 2 {
        buf[at] = 0x40 | ((x >> 8) as u8);
        buf[at + 1] = x as u8;
    } else if n == 4 {
        buf[at] = 0x80 | ((x >> 24) as u8);
        buf[at + 1] = (x >> 16) as u8;
        buf[at + 2] = (x >> 8) as u8;
        buf[at + 3] = x as u8;
    } else {
        buf[at] = 0xC0 | ((x >> 56) as u8);
        buf[at + 1] = (x >> 48) as u8;
        buf[at + 2] = (x >> 40) as u8;
        buf[at + 3] = (x >> 32) as u8;
        buf[at + 4] = (x >> 24) as u8;
        buf[at + 5] = (x >> 16) as u8;
        buf[at + 6] = (x >> 8) as u8;
        buf[at + 7] = x as u8;
    }
    n
}

/// shortest encoding
pub fn tp_put_varint<const L: usize>(buf: &mut [u8; L], at: usize, x: u64) -> usize {
    tp_put_varint_n(buf, at, x, tp_varint_len(x))
}

/// Figure 21: Transport Parameter { ID (i), Length (i), Value (..) } for an integer-valued parameter,
/// the value encoded as a variable-length integer of `vlen` bytes.  ids < 64 and >= 64 both supported.
pub fn tp_put_int_param<const L: usize>(buf: &mut [u8; L], at: usize, id: u64, v: u64, vlen: usize) -> usize {
    let a = tp_put_varint(buf, at, id);
    let b = tp_put_varint(buf, at + a, vlen as u64);
    let c = tp_put_varint_n(buf, at + a + b, v, vlen);
    a + b + c
}

/// Figure 21 for a parameter whose value is the `n` (<= 4, concrete) bytes of `body`
pub fn tp_put_raw_param<const L: usize>(buf: &mut [u8; L], at: usize, id: u64, body: [u8; 4], n: usize) -> usize {
    let a = tp_put_varint(buf, at, id);
    let b = tp_put_varint(buf, at + a, n as u64);
    if n > 0 {
        buf[at + a + b] = body[0];
    }
    if n > 1 {
        buf[at + a + b + 1] = body[1];
    }
    if n > 2 {
        buf[at + a + b + 2] = body[2];
    }
    if n > 3 {
        buf[at + a + b + 3] = body[3];
    }
    a + b + n
}
