//@ inject crate=core src=quic/s2n-quic-core/src/crypto/header_crypto.rs
// Contract harnesses for header protection -- property C06 (narrow claim: the code uses the primitive the way
// RFC 9001 5.4.1 demands; authenticity itself is the AEAD assumption A-aead).
//
// The oracle is an independent transcription of the RFC 9001 5.4.1 pseudocode, written over plain byte arrays
// (bytes / bit patterns cannot be phrased in the spec sub-language, AUTHORING "Spec predicate files"):
//
//     pn_length = (packet[0] & 0x03) + 1
//     if (packet[0] & 0x80) == 0x80:  packet[0] ^= mask[0] & 0x0f     # long header: 4 bits masked
//     else:                           packet[0] ^= mask[0] & 0x1f     # short header: 5 bits masked
//     packet[pn_offset:pn_offset+pn_length] ^= mask[1:1+pn_length]
use super::*;
use crate::packet::number::PacketNumberLen;

const N: usize = 8; // packet bytes visible to the harness: first byte, header, 4 packet number bytes, start of payload
const HMAX: usize = 3; // header_len (offset of the packet number) ranges over 1..=3

fn any_space() -> PacketNumberSpace {
    let s: u8 = kani::any();
    kani::assume(s < 3);
    match s {
        0 => PacketNumberSpace::Initial,
        1 => PacketNumberSpace::Handshake,
        _ => PacketNumberSpace::ApplicationData,
    }
}

/// RFC 9001 5.4.1, sender side: `pn_length` is read from the unprotected first byte
fn rfc_protect(packet: [u8; N], pn_offset: usize, mask: [u8; 5]) -> [u8; N] {
    let mut out = packet;
    let pn_length = (packet[0] & 0x03) as usize + 1;
    if packet[0] & 0x80 == 0x80 {
        out[0] ^= mask[0] & 0x0f;
    } else {
        out[0] ^= mask[0] & 0x1f;
    }
    let mut i = 0;
    while i < 4 {
        if i < pn_length {
            out[pn_offset + i] ^= mask[1 + i];
        }
        i += 1;
    }
    out
}

/// RFC 9001 5.4.1, receiver side: the first byte is unmasked first, `pn_length` is read from the result
fn rfc_unprotect(packet: [u8; N], pn_offset: usize, mask: [u8; 5]) -> ([u8; N], usize) {
    let mut out = packet;
    if packet[0] & 0x80 == 0x80 {
        out[0] ^= mask[0] & 0x0f;
    } else {
        out[0] ^= mask[0] & 0x1f;
    }
    let pn_length = (out[0] & 0x03) as usize + 1;
    let mut i = 0;
    while i < 4 {
        if i < pn_length {
            out[pn_offset + i] ^= mask[1 + i];
        }
        i += 1;
    }
    (out, pn_length)
}

fn eq_bytes(a: &[u8; N], b: &[u8; N]) -> bool {
    let mut ok = true;
    let mut i = 0;
    while i < N {
        ok &= a[i] == b[i];
        i += 1;
    }
    ok
}

//@ harness props=C06 tier=quick level=bounded timeout=300 bound="8 packet bytes visible, header_len 1..=3; mask, first byte (long/short, every pn length), pn bytes full domain"
//@ fn apply_header_protection
//@ fn mask_from_packet_tag
//@ fn xor_mask
#[kani::proof]
#[kani::unwind(10)]
fn vq_c06_hp_apply() {
    let mask: HeaderProtectionMask = kani::any();
    let orig: [u8; N] = kani::any();
    let h: usize = kani::any();
    kani::assume(1 <= h && h <= HMAX);
    let space = any_space();
    // production call site (crypto/mod.rs `protect`): the length was written into the two low bits of the first byte
    // by the packet encoder
    let pn_len = PacketNumberLen::from_packet_tag(orig[0], space);
    let n = pn_len.bytesize();
    assert!(n == (orig[0] & 0x03) as usize + 1, "C06/header_protection.pn_len/is_low_two_bits_plus_one");
    let mut buf = orig;
    let out_header_len = {
        let protected = apply_header_protection(mask, EncryptedPayload::new(h, pn_len, &mut buf));
        protected.header_len
    };
    assert!(out_header_len == h, "C06/header_protection.apply/header_len_preserved");
    let want = rfc_protect(orig, h, mask);
    assert!(eq_bytes(&buf, &want), "C06/header_protection.apply/equals_rfc9001_5_4_1");
    // stated separately so that a violation names the part that is wrong
    let m0: u8 = if orig[0] & 0x80 == 0x80 { 0x0f } else { 0x1f };
    assert!((buf[0] ^ orig[0]) & !m0 == 0, "C06/header_protection.apply/only_low_4_or_5_bits_of_first_byte_change");
    assert!((buf[0] ^ orig[0]) == mask[0] & m0, "C06/header_protection.apply/first_byte_xor_mask0");
    let mut i = 1;
    while i < N {
        if i < h || i >= h + n {
            assert!(buf[i] == orig[i], "C06/header_protection.apply/frame_only_pn_bytes_change");
        } else {
            assert!(buf[i] == orig[i] ^ mask[1 + i - h], "C06/header_protection.apply/pn_bytes_xor_mask");
        }
        i += 1;
    }
    kani::cover!(orig[0] & 0x80 == 0x80 && n == 4, "reach:long_header_pn4");
    kani::cover!(orig[0] & 0x80 == 0 && n == 1, "reach:short_header_pn1");
    kani::cover!(h == 1, "reach:header_len_min");
    kani::cover!(h == HMAX, "reach:header_len_max");
    kani::cover!(buf[0] != orig[0], "reach:first_byte_changed");
    kani::cover!(true, "reach:end");
}

//@ harness props=C06 tier=quick level=bounded timeout=300 bound="8 packet bytes visible, header_len 1..=3; mask, first byte (long/short, every pn length), pn bytes full domain"
//@ fn remove_header_protection
//@ fn mask_from_packet_tag
//@ fn xor_mask
#[kani::proof]
#[kani::unwind(10)]
fn vq_c06_hp_remove() {
    let mask: HeaderProtectionMask = kani::any();
    let wire: [u8; N] = kani::any(); // what arrives: any bytes at all (an attacker chooses them)
    let h: usize = kani::any();
    kani::assume(1 <= h && h <= HMAX);
    let space = any_space();
    let mut buf = wire;
    let (want, want_n) = rfc_unprotect(wire, h, mask);
    let (tpn, got_h, got_len) = {
        let res = remove_header_protection(space, mask, ProtectedPayload::new(h, &mut buf));
        assert!(res.is_ok(), "C06/header_protection.remove/total_on_long_enough_packets");
        let (tpn, enc) = res.unwrap();
        (tpn, enc.header_len, enc.packet_number_len)
    };
    assert!(eq_bytes(&buf, &want), "C06/header_protection.remove/equals_rfc9001_5_4_1");
    assert!(got_len.bytesize() == want_n && tpn.len() == got_len && got_h == h, "C06/header_protection.remove/pn_len_from_unmasked_first_byte");
    assert!(tpn.space() == space && got_len.space() == space, "C06/header_protection.remove/space_preserved");
    // the truncated packet number handed to the decoder is the unmasked pn bytes in network byte order
    let mut v: u64 = 0;
    let mut i = 0;
    while i < 4 {
        if i < want_n {
            v = (v << 8) | want[h + i] as u64;
        }
        i += 1;
    }
    assert!(tpn.into_u64() == v, "C06/header_protection.remove/pn_is_unmasked_bytes_big_endian");
    kani::cover!(wire[0] & 0x80 == 0x80 && want_n == 4, "reach:long_header_pn4");
    kani::cover!(wire[0] & 0x80 == 0 && want_n == 1, "reach:short_header_pn1");
    kani::cover!((wire[0] & 3) != (want[0] & 3), "reach:pn_len_bits_were_masked");
    kani::cover!(h == 1, "reach:header_len_min");
    kani::cover!(h == HMAX, "reach:header_len_max");
    kani::cover!(true, "reach:end");
}

//@ harness props=C06 tier=quick level=bounded timeout=300 bound="8 packet bytes visible, header_len 3; mask, first byte (long/short, every pn length), pn bytes full domain"
//@ fn remove_header_protection
//@ fn apply_header_protection
#[kani::proof]
#[kani::unwind(10)]
fn vq_c06_hp_roundtrip() {
    // remove . apply == id on every byte: what the sender protects, the receiver recovers
    let mask: HeaderProtectionMask = kani::any();
    let orig: [u8; N] = kani::any();
    let h: usize = 3; // concrete here (symbolic 1..=3 in vq_c06_hp_apply / vq_c06_hp_remove, which pin both directions to the RFC)
    let space = any_space();
    let pn_len = PacketNumberLen::from_packet_tag(orig[0], space);
    let mut buf = orig;
    {
        let _ = apply_header_protection(mask, EncryptedPayload::new(h, pn_len, &mut buf));
    }
    let protected = buf;
    let got_len = {
        let res = remove_header_protection(space, mask, ProtectedPayload::new(h, &mut buf));
        assert!(res.is_ok(), "C06/header_protection.roundtrip/remove_ok");
        let (tpn, enc) = res.unwrap();
        assert!(tpn.len() == pn_len, "C06/header_protection.roundtrip/pn_len_recovered");
        enc.packet_number_len
    };
    assert!(got_len == pn_len, "C06/header_protection.roundtrip/payload_pn_len_recovered");
    assert!(eq_bytes(&buf, &orig), "C06/header_protection.roundtrip/remove_after_apply_is_identity");
    // (apply after remove == id follows from the two `equals_rfc9001_5_4_1` obligations: both are the same XOR)
    kani::cover!(orig[0] & 0x80 == 0x80 && pn_len.bytesize() == 4, "reach:long_header_pn4");
    kani::cover!(orig[0] & 0x80 == 0 && pn_len.bytesize() == 1, "reach:short_header_pn1");
    kani::cover!((protected[0] & 3) != (orig[0] & 3), "reach:pn_len_bits_masked_on_the_wire");
    kani::cover!(true, "reach:end");
}
