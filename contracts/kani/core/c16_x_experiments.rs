//@ inject crate=core src=quic/s2n-quic-core/src/buffer/reassembler.rs
// TEMPORARY stubbing experiments (removed before the final commit)
use super::*;

static mut CALLS_START: u32 = 0;
static mut CALLS_TWR: u32 = 0;

fn stub_start(s: &Slot) -> u64 {
    unsafe { CALLS_START += 1 };
    s.end_allocated() - 8
}
fn stub_twr<R: Reader + ?Sized>(_s: &mut Slot, _reader: &mut R, _filled: &mut bool) -> Result<Option<Slot>, R::Error> {
    unsafe { CALLS_TWR += 1 };
    Ok(None)
}

//@ harness props=C16 tier=thorough level=bounded bound="experiment" timeout=300 mem=12
#[kani::proof]
#[kani::unwind(10)]
#[kani::stub(crate::buffer::reassembler::slot::Slot::start, stub_start)]
#[kani::stub(crate::buffer::reassembler::slot::Slot::try_write_reader, stub_twr)]
fn vq_c16_x_stub_experiment() {
    let mut s = Slot::new(0, 8, BytesMut::with_capacity(8));
    assert!(s.start() == 0, "C16/x/start_value");
    assert!(unsafe { CALLS_START } > 0, "C16/x/inline_always_method_stubbed");
    let d = [1u8, 2];
    let mut req = Request::new(VarInt::from_u8(0), &d, false).unwrap();
    let r = s.try_write_reader(&mut req, &mut false).unwrap();
    assert!(r.is_none(), "C16/x/none");
    assert!(unsafe { CALLS_TWR } == 1, "C16/x/generic_method_stubbed");
    assert!(s.end() == 0, "C16/x/nothing_written_by_stub");
    kani::cover!(true, "reach:end");
}
