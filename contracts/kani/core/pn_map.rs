//@ inject crate=core src=quic/s2n-quic-core/src/packet/number/map.rs
// One-step contract harnesses for packet::number::Map (the store behind recovery::SentPackets) against a
// finite-map model (properties C09 "every sent packet is resolved exactly once" and C16 "equals its reference model").
//
// Pattern (DESIGN 2.3): an ARBITRARY well-formed ring state of the default capacity (8 slots) holding at most K = 3
// entries, built directly in the private fields, one operation with symbolic arguments, and the abstract view
// `lookup(pn)` compared before/after for a symbolic witness packet number.  Bounded: K <= 3, capacity 8 (no resize
// except in the insert harness's growth case), results are labelled bounded and never counted as proved.
use super::*;
use crate::varint::VarInt;

const CAP: usize = 8;
const K: usize = 3;
const MAXV: u64 = crate::varint::MAX_VARINT_VALUE;

/// the abstract view: which of the offsets 0..8 from `start` are present, and their values
struct Model {
    empty: bool,
    start: u64,
    occ: [bool; CAP],
    val: [u16; CAP],
}
impl Model {
    fn lookup(&self, pn: u64) -> Option<u16> {
        if self.empty || pn < self.start || pn - self.start >= CAP as u64 {
            return None;
        }
        let o = (pn - self.start) as usize;
        if self.occ[o] {
            Some(self.val[o])
        } else {
            None
        }
    }
    fn count(&self) -> usize {
        let mut n = 0;
        let mut i = 0;
        while i < CAP {
            if !self.empty && self.occ[i] {
                n += 1;
            }
            i += 1;
        }
        n
    }
}

fn pn(space: PacketNumberSpace, v: u64) -> PacketNumber {
    space.new_packet_number(VarInt::new(v).unwrap())
}

/// Arbitrary well-formed map (representation invariant of the ring):
///   empty: index == len, every slot None;
///   otherwise: index < len, slot(index) holds `start`, `end` = start + highest occupied offset (< len),
///   slot((index + o) % len) is Some exactly for the occupied offsets o, every other slot None.
fn any_map(space: PacketNumberSpace) -> (Map<u16>, Model) {
    let mut map: Map<u16> = Map::default();
    let start: u64 = kani::any();
    kani::assume(start <= MAXV - 2 * CAP as u64);
    let occ: [bool; CAP] = kani::any();
    let val: [u16; CAP] = kani::any();
    let empty: bool = kani::any();
    let mut m = Model { empty, start, occ, val };
    if empty {
        return (map, m);
    }
    kani::assume(occ[0]);
    kani::assume(m.count() <= K);
    // ring offset: concrete 6, so that offsets >= 2 wrap around the end of the buffer (a symbolic offset makes
    // every slot access a symbolic-index write and did not finish in 15 min)
    let index: usize = 6;
    let mut hi = 0;
    let mut o = 0;
    while o < CAP {
        if occ[o] {
            map.values[(index + o) % CAP] = Some(val[o]);
            hi = o;
        }
        o += 1;
    }
    map.index = index;
    map.start = pn(space, start);
    map.end = pn(space, start + hi as u64);
    m.empty = false;
    (map, m)
}

fn any_space() -> PacketNumberSpace {
    match kani::any::<u8>() % 3 {
        0 => PacketNumberSpace::Initial,
        1 => PacketNumberSpace::Handshake,
        _ => PacketNumberSpace::ApplicationData,
    }
}

/// representation invariant, re-checked after every mutator (the crate's own `invariants()` also runs: core is
/// built with cfg(test))
fn well_formed(map: &Map<u16>) -> bool {
    if map.is_empty() {
        let mut i = 0;
        let mut ok = map.index == map.values.len();
        while i < CAP {
            ok = ok && (i >= map.values.len() || map.values[i].is_none());
            i += 1;
        }
        ok
    } else {
        map.index < map.values.len()
            && map.values[map.index].is_some()
            && map.start <= map.end
            && map.end.as_u64() - map.start.as_u64() < map.values.len() as u64
            && map.get(map.end).is_some()
    }
}

//@ harness props=C09,C16 tier=thorough level=bounded timeout=3000 bound="K<=3 entries, ring capacity 8 with the oldest entry in slot 6 (wrap-around), one operation from an arbitrary well-formed state"
//@ fn packet::number::Map::remove
//@ fn packet::number::Map::get
#[kani::proof]
#[kani::unwind(10)]
fn vq_c09_pn_map_remove_one() {
    let space = any_space();
    let (mut map, m) = any_map(space);
    let target: u64 = kani::any();
    let witness: u64 = kani::any();
    kani::assume(target <= MAXV && witness <= MAXV);
    assert!(well_formed(&map), "C09/pn_map.builder/well_formed");
    assert!(map.get(pn(space, witness)).copied() == m.lookup(witness), "C16/pn_map.get/equals_model");
    let r = map.remove(pn(space, target));
    assert!(r == m.lookup(target), "C09/pn_map.remove/returns_the_entry_iff_present");
    assert!(map.get(pn(space, target)).is_none(), "C09/pn_map.remove/entry_absent_afterwards");
    // a second removal of the same packet number yields nothing: an entry is handed out at most once
    let mut again = map.clone();
    assert!(again.remove(pn(space, target)).is_none(), "C09/pn_map.remove/second_removal_returns_nothing");
    if witness != target {
        assert!(map.get(pn(space, witness)).copied() == m.lookup(witness), "C16/pn_map.remove/other_entries_untouched");
    }
    assert!(well_formed(&map), "C16/pn_map.remove/well_formed_preserved");
    let left = m.count() - if r.is_some() { 1 } else { 0 };
    assert!(map.is_empty() == (left == 0), "C16/pn_map.remove/empty_iff_no_entry_left");
    kani::cover!(r.is_some() && left == 2 && target == m.start, "reach:remove_front_of_three");
    kani::cover!(r.is_some() && left == 0, "reach:remove_last_entry");
    kani::cover!(r.is_some() && left == 1 && target > m.start, "reach:remove_back");
    kani::cover!(r.is_none() && !m.empty && target > m.start && target < m.start + 7, "reach:hole");
    kani::cover!(m.empty, "reach:empty_map");
    kani::cover!(true, "reach:end");
}

// NOT REGISTERED (timeout 1800 s; see contracts/STRENGTH-c09c10.md):
//@-unregistered harness props=C09,C16 tier=thorough level=bounded timeout=3000 bound="K<=3 entries, ring capacity 8 with the oldest entry in slot 6 (wrap-around), one operation from an arbitrary well-formed state; removed range any sub-range of packet numbers"
//@ fn packet::number::Map::remove_range
//@ fn packet::number::RemoveIter::next
#[kani::proof]
#[kani::unwind(10)]
fn vq_c09_pn_map_remove_range() {
    let space = any_space();
    let (mut map, m) = any_map(space);
    let lo: u64 = kani::any();
    let hi: u64 = kani::any();
    let witness: u64 = kani::any();
    kani::assume(lo <= hi && hi <= MAXV && witness <= MAXV);
    let mut got = [(0u64, 0u16); K];
    let mut n = 0;
    {
        let mut it = map.remove_range(PacketNumberRange::new(pn(space, lo), pn(space, hi)));
        while let Some((p, v)) = it.next() {
            assert!(n < K, "C09/pn_map.remove_range/yields_no_more_than_stored");
            got[n] = (p.as_u64(), v);
            n += 1;
        }
    }
    // every yielded entry was stored, lies in the range, and they come out in strictly increasing order (=> once each)
    let mut i = 0;
    while i < K {
        if i < n {
            let (p, v) = got[i];
            assert!(lo <= p && p <= hi, "C09/pn_map.remove_range/yields_only_packets_in_range");
            assert!(m.lookup(p) == Some(v), "C09/pn_map.remove_range/yields_stored_entries");
            assert!(i == 0 || got[i - 1].0 < p, "C09/pn_map.remove_range/each_entry_at_most_once_ascending");
        }
        i += 1;
    }
    // completeness + absence, via the symbolic witness
    let in_range = lo <= witness && witness <= hi;
    if in_range {
        let mut yielded = false;
        let mut i = 0;
        while i < K {
            yielded = yielded || (i < n && got[i].0 == witness);
            i += 1;
        }
        assert!(yielded == m.lookup(witness).is_some(), "C09/pn_map.remove_range/yields_every_stored_packet_in_range");
        assert!(map.get(pn(space, witness)).is_none(), "C09/pn_map.remove_range/removed_entries_absent_afterwards");
    } else {
        assert!(map.get(pn(space, witness)).copied() == m.lookup(witness), "C16/pn_map.remove_range/entries_outside_range_untouched");
    }
    assert!(well_formed(&map), "C16/pn_map.remove_range/well_formed_preserved");
    kani::cover!(n == 3, "reach:three_removed");
    kani::cover!(n == 1 && m.count() == 3 && lo > m.start, "reach:middle_or_back_removed");
    kani::cover!(n == 0 && !m.empty && lo > m.start && hi < m.start + 7, "reach:range_over_hole");
    kani::cover!(n == 2 && !map.is_empty(), "reach:front_removed_one_left");
    kani::cover!(true, "reach:end");
}

// NOT REGISTERED (CBMC exits with status 139; see contracts/STRENGTH-c09c10.md):
//@-unregistered harness props=C09,C16 tier=thorough level=bounded timeout=3000 bound="K<=3 entries before the insert, ring capacity 8 with the oldest entry in slot 6, new packet number within the ring (gap < 8: no growth)"
//@ fn packet::number::Map::insert
// STATUS: undecided in every run so far -- CBMC 6.11 terminates with status 139 (SIGSEGV) after ~4-9 min on this
// harness, with and without the ring-growth case (Map::resize: Vec::extend over mapped iter_mut slices).
#[kani::proof]
#[kani::unwind(10)]
fn vq_c09_pn_map_insert() {
    let space = any_space();
    let (mut map, m) = any_map(space);
    let new_pn: u64 = kani::any();
    let v: u16 = kani::any();
    let witness: u64 = kani::any();
    kani::assume(new_pn <= MAXV && witness <= MAXV);
    // documented precondition: packet numbers are inserted in increasing order (on_packet_sent, C08 tx numbers)
    if !m.empty {
        kani::assume(new_pn > map.end.as_u64() && new_pn - m.start < CAP as u64);
    }
    map.insert(pn(space, new_pn), v);
    assert!(map.get(pn(space, new_pn)).copied() == Some(v), "C16/pn_map.insert/entry_present_with_value");
    if witness != new_pn {
        assert!(map.get(pn(space, witness)).copied() == m.lookup(witness), "C16/pn_map.insert/other_entries_untouched");
    }
    assert!(well_formed(&map), "C16/pn_map.insert/well_formed_preserved");
    assert!(map.get_range().end().as_u64() == new_pn, "C16/pn_map.insert/end_is_newest");
    assert!(map.get_range().start().as_u64() == if m.empty { new_pn } else { m.start }, "C16/pn_map.insert/start_is_oldest");
    kani::cover!(m.empty, "reach:first_entry");
    kani::cover!(!m.empty && new_pn - m.start == 7, "reach:last_slot_of_ring");
    kani::cover!(!m.empty && map.values.len() == CAP && m.count() == 3, "reach:fourth_entry_no_growth");
    kani::cover!(true, "reach:end");
}

// ---------------------------------------------------------------------------------------------------------------------
// NOTE for harnesses in other crates that hold a Map with a niche-encoded value type (recovery::Manager: SentPackets =
// Map<SentPacketInfo<_>>).  Measured with Kani 0.68 / CBMC 6.11: iterating a map of two entries built by CONCRETE
// inserts costs 17 k symex steps for Map<u16> (explicit Option tag) but 715 k steps for Map<SentPacketInfo<()>>, where
// every loop is unrolled to the unwind bound: the discriminant of Option<SentPacketInfo> lives in a niche of a field and
// CBMC's symbolic execution does not constant-fold that read (a byte extract) out of the boxed ring, so "is this slot
// occupied" is symbolic even for concrete contents, and so is every loop driven by Iter::next / RemoveIter::next.
// Replacing those two functions by oracle-checked variants via #[kani::stub] was tried and is NOT possible with this
// Kani: `<map::Iter<..> as core::iter::Iterator>::next` fails with "unable to find implementation of associated function
// `std::iter::Iterator::next` for Iter<'a, V>" -- trait-impl methods of GENERIC types cannot be named as stub targets
// (reproduced on a 10-line stand-alone file; non-generic types such as Timestamp work).
