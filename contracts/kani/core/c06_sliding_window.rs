//@ inject crate=core src=quic/s2n-quic-core/src/packet/number/sliding_window.rs
// Contract harnesses for packet::number::SlidingWindow, the per-space duplicate filter
// (`processed_packet_numbers`, space/application.rs:74) -- properties C06 (a genuine packet is
// processed at most once per packet number space) and C16 (the window equals its reference set).
// Predicates: contracts/spec/sliding_window.rs (shared with verus/lemmas/C06.rs).
use super::*;
use crate::packet::number::PacketNumberSpace;
#[allow(dead_code, unused_variables)]
mod spec {
    include!("../../spec/sliding_window.rs");
}
use spec::*;

const MAXV: u64 = crate::varint::MAX_VARINT_VALUE;
const SPACE: PacketNumberSpace = PacketNumberSpace::ApplicationData;

fn pn_of(x: u64) -> PacketNumber {
    SPACE.new_packet_number(VarInt::new(x).unwrap())
}

/// Arbitrary window satisfying the representation invariant (the only code that writes private
/// fields): no right edge => empty bitmap (the only way to be without an edge is `default()`, and no
/// mutator ever clears the edge); a bit that would stand for a packet number below 0 is never set.
/// Both facts are re-established by every mutator (`.../inv_preserved`).
fn any_window() -> SlidingWindow {
    let has_edge: bool = kani::any();
    let e: u64 = kani::any();
    let bits: u128 = kani::any();
    kani::assume(e <= MAXV);
    let w = SlidingWindow {
        window: if has_edge { bits } else { 0 },
        right_edge: if has_edge { Some(pn_of(e)) } else { None },
    };
    kani::assume(rep_inv(&w));
    w
}

fn rep_inv(w: &SlidingWindow) -> bool {
    match w.right_edge {
        None => w.window == 0,
        Some(e) => e.as_u64() >= 128 || (w.window >> e.as_u64()) == 0,
    }
}

// ---- abstraction: (has_edge, edge) and the pointwise membership `q in seen` ---------------------
fn has_edge(w: &SlidingWindow) -> bool {
    w.right_edge.is_some()
}
fn edge(w: &SlidingWindow) -> i128 {
    match w.right_edge {
        Some(e) => e.as_u64() as i128,
        None => 0,
    }
}
/// q is recorded: it is the right edge, or one of the 128 packet numbers below it whose bit is set.
/// (bit d-1 stands for right_edge - d; written independently of `window_position`.)
fn member(w: &SlidingWindow, q: u64) -> bool {
    match w.right_edge {
        None => false,
        Some(e) => {
            let e = e.as_u64();
            if q > e {
                false
            } else if q == e {
                true
            } else {
                let d = e - q;
                d <= 128 && (w.window >> (d - 1)) & 1 == 1
            }
        }
    }
}
/// q is in the eviction report (same encoding relative to the *previous* right edge, which itself is
/// never part of the report)
fn reported(ev: &EvictedSet, q: u64) -> bool {
    let e = ev.right_edge.as_u64();
    if q >= e {
        return false;
    }
    let d = e - q;
    d <= 128 && (ev.window >> (d - 1)) & 1 == 1
}

fn code_of(r: Result<(), SlidingWindowError>) -> i128 {
    match r {
        Ok(()) => sw_ok(),
        Err(SlidingWindowError::Duplicate) => sw_duplicate(),
        Err(SlidingWindowError::TooOld) => sw_too_old(),
    }
}

/// what `insert_with_evicted_inner` establishes for the report it returns: advancing the right edge over all reported
/// bits stays inside the packet number range (the new right edge is at most 2^62-1)
fn evicted_inv(ev: &EvictedSet) -> bool {
    ev.window == 0 || ev.right_edge.as_u64() + 128 - (ev.window.trailing_zeros() as u64) <= MAXV
}

fn evicted_next_step(e: u64, bits: u128) {
    // one step of the iterator: it yields the smallest reported packet number and removes exactly that one; by
    // induction the iterator enumerates the reported set in increasing order, each member once
    let q: u64 = kani::any();
    kani::assume(e <= MAXV && q <= MAXV);
    let mut ev = EvictedSet { window: bits, right_edge: pn_of(e) };
    kani::assume(evicted_inv(&ev));
    let old_q = reported(&ev, q);
    let r = ev.next();
    let new_q = reported(&ev, q);
    let (is_some, m) = match r {
        Some(m) => (true, m.as_u64()),
        None => (false, 0),
    };
    assert!(is_some || !old_q, "C06/evicted_set.next/none_only_when_empty");
    assert!(!is_some || (m < e && e - m <= 128 && (bits >> (e - m - 1)) & 1 == 1), "C06/evicted_set.next/yields_a_reported_number");
    assert!(!is_some || !old_q || q >= m, "C06/evicted_set.next/yields_the_smallest_first");
    assert!(!is_some || new_q == (old_q && q != m), "C06/evicted_set.next/removes_exactly_the_yielded_number");
    assert!(is_some || !new_q, "C06/evicted_set.next/stays_empty");
    assert!(evicted_inv(&ev), "C06/evicted_set.next/inv_preserved");
    kani::cover!(is_some && bits.leading_zeros() == 0, "reach:leading_bit");
    kani::cover!(is_some && bits.leading_zeros() == 127, "reach:last_bit");
    kani::cover!(!is_some, "reach:exhausted");
    kani::cover!(true, "reach:end");
}

//@ harness props=C06,C16 tier=quick level=full timeout=240
//@ fn SlidingWindow::check
//@ fn SlidingWindow::window_position
#[kani::proof]
#[kani::unwind(2)]
fn vq_c06_sliding_window_check() {
    // a fresh window is the empty set without an edge (start of every history in verus/lemmas/C06.rs)
    let fresh = SlidingWindow::default();
    assert!(!has_edge(&fresh) && fresh.window == 0 && rep_inv(&fresh), "C06/sliding_window.default/is_empty");
    let w = any_window();
    let pn: u64 = kani::any();
    kani::assume(pn <= MAXV);
    let (he, e, m) = (has_edge(&w), edge(&w), member(&w, pn));
    assert!(sw_inv_at(he, e, pn as i128, m), "C06/sliding_window.builder/inv");
    let before = (w.window, w.right_edge);
    let code = code_of(w.check(pn_of(pn)));
    let p = pn as i128;
    assert!(sw_check_ok_iff_unseen_in_window(he, e, p, m, code), "C06/sliding_window.check/ok_iff_unseen_and_in_window");
    assert!(sw_check_duplicate_iff_seen(he, e, p, m, code), "C06/sliding_window.check/duplicate_iff_seen");
    assert!(sw_check_too_old_iff_below_window(he, e, p, m, code), "C06/sliding_window.check/too_old_iff_below_window");
    assert!(before == (w.window, w.right_edge), "C06/sliding_window.check/state_unchanged");
    kani::cover!(code == sw_ok() && he && p < e, "reach:ok_within_window");
    kani::cover!(code == sw_ok() && he && p > e, "reach:ok_right_of_window");
    kani::cover!(code == sw_ok() && !he, "reach:ok_empty");
    kani::cover!(code == sw_duplicate() && p == e, "reach:duplicate_right_edge");
    kani::cover!(code == sw_duplicate() && p + 128 == e, "reach:duplicate_left_edge");
    kani::cover!(code == sw_too_old() && p + 129 == e, "reach:too_old_first_below");
    kani::cover!(code == sw_ok() && p + 128 == e, "reach:ok_left_edge");
    kani::cover!(e == MAXV as i128 && pn == MAXV, "reach:max");
    kani::cover!(true, "reach:end");
}

//@ harness props=C06,C16 tier=quick level=full timeout=300
//@ fn SlidingWindow::insert_with_evicted_inner
//@ fn SlidingWindow::window_position
#[kani::proof]
#[kani::unwind(2)]
fn vq_c06_sliding_window_insert() {
    let mut w = any_window();
    let pn: u64 = kani::any();
    let q: u64 = kani::any(); // symbolic witness: "for every packet number q"
    kani::assume(pn <= MAXV && q <= MAXV);
    let (he, e) = (has_edge(&w), edge(&w));
    let (m_pn, m_q) = (member(&w, pn), member(&w, q));
    let before = (w.window, w.right_edge);

    let res = w.insert_with_evicted_inner(pn_of(pn));

    let (he2, e2) = (has_edge(&w), edge(&w));
    let m_q2 = member(&w, q);
    let (p, qq) = (pn as i128, q as i128);
    let code = match &res {
        Ok(_) => sw_ok(),
        Err(SlidingWindowError::Duplicate) => sw_duplicate(),
        Err(SlidingWindowError::TooOld) => sw_too_old(),
    };
    // the verdict: accepted iff never seen and not below the window (a packet number is accepted at most
    // once; nothing inside the window that was never inserted is rejected)
    assert!(sw_insert_code_is_check(he, e, p, m_pn, code), "C06/sliding_window.insert/verdict_is_check_of_old_state");
    assert!(sw_check_ok_iff_unseen_in_window(he, e, p, m_pn, code), "C06/sliding_window.insert/ok_iff_unseen_and_in_window");
    // whole abstract state afterwards
    assert!(sw_insert_edge_is_max(he, e, p, code, he2, e2), "C06/sliding_window.insert/right_edge_is_max");
    assert!(sw_insert_member_at(p, code, he2, e2, qq, m_q, m_q2), "C06/sliding_window.insert/adds_exactly_pn");
    if code == sw_ok() {
        assert!(member(&w, pn), "C06/sliding_window.insert/accepted_pn_is_recorded");
        assert!(sw_status(he2, e2, p, member(&w, pn)) == sw_duplicate(), "C06/sliding_window.insert/second_insert_would_be_duplicate");
    } else {
        assert!(before == (w.window, w.right_edge), "C06/sliding_window.insert/error_leaves_state_unchanged");
    }
    // nothing is ever forgotten into "unseen": recorded before => recorded or too old afterwards
    assert!(!m_q || sw_status(he2, e2, qq, m_q2) != sw_ok(), "C06/sliding_window.insert/no_resurrection");
    // eviction report (insert_with_evicted): exactly the never-inserted numbers of the old bitmap that were slid past
    let rep_q = match &res {
        Ok(ev) => reported(ev, q),
        Err(_) => false,
    };
    assert!(sw_insert_evicted_at(he, e, code, he2, e2, qq, m_q, rep_q), "C06/sliding_window.insert/evicted_report_exact");
    let rep_wf = match &res {
        Ok(ev) => evicted_inv(ev),
        Err(_) => true,
    };
    assert!(rep_wf, "C06/sliding_window.insert/evicted_report_iterable_within_pn_range");
    assert!(sw_inv_at(he2, e2, qq, m_q2), "C06/sliding_window.insert/inv_preserved");
    assert!(rep_inv(&w), "C06/sliding_window.insert/rep_inv_preserved");

    kani::cover!(code == sw_ok() && !he, "reach:first_insert");
    kani::cover!(code == sw_ok() && he && p > e && p - e < 128, "reach:slide_partially");
    kani::cover!(code == sw_ok() && he && p - e == 128, "reach:slide_128");
    kani::cover!(code == sw_ok() && he && p - e == 129, "reach:slide_129");
    kani::cover!(code == sw_ok() && he && p - e > 129, "reach:reset_window");
    kani::cover!(code == sw_ok() && he && p < e, "reach:fill_gap");
    kani::cover!(code == sw_duplicate() && p < e, "reach:duplicate_in_bitmap");
    kani::cover!(code == sw_duplicate() && p == e, "reach:duplicate_right_edge");
    kani::cover!(code == sw_too_old(), "reach:too_old");
    kani::cover!(rep_q, "reach:evicted_reported");
    kani::cover!(code == sw_ok() && m_q && !sw_in_window(he2, e2, qq), "reach:seen_falls_out_of_window");
    kani::cover!(pn == MAXV && code == sw_ok(), "reach:max");
    kani::cover!(true, "reach:end");
}

// ---- public wrappers ---------------------------------------------------------------------------------
// `insert` / `insert_with_evicted` = `insert_with_evicted_inner` + (dev profile only) the crate's own self-check
// `check_insert_result(&self, ..)`, which cannot change the window (it takes `&self`) and whose nested 129-iteration
// loops are out of reach from an arbitrary state.  Quick tier: the wrappers equal the contracted inner function on the
// full domain with the self-check stubbed out (listed as a stub; in release builds it does not exist at all).
// Thorough tier: the real self-check is executed (unwind 130, as the in-tree harness does) wherever its loops stay
// tractable -- first insert into an empty window and inserts that do not slide the window.
fn no_self_check(_w: &SlidingWindow, _pn: PacketNumber, _initial: SlidingWindow, _res: &Result<EvictedSet, SlidingWindowError>) {}

//@ harness props=C06,C16 tier=quick level=full timeout=300
//@ fn SlidingWindow::insert
//@ fn SlidingWindow::insert_with_evicted
#[kani::proof]
#[kani::unwind(2)]
#[kani::stub(SlidingWindow::check_insert_result, no_self_check)]
fn vq_c06_sliding_window_public_insert() {
    let w0 = any_window();
    let pn: u64 = kani::any();
    kani::assume(pn <= MAXV);
    let mut a = w0.clone();
    let mut b = w0.clone();
    let mut c = w0.clone();
    let ra = a.insert_with_evicted_inner(pn_of(pn));
    let rb = b.insert_with_evicted(pn_of(pn));
    let rc = c.insert(pn_of(pn));
    assert!((a.window, a.right_edge) == (b.window, b.right_edge), "C06/sliding_window.insert_with_evicted/state_is_inner");
    assert!((a.window, a.right_edge) == (c.window, c.right_edge), "C06/sliding_window.insert/state_is_inner");
    assert!(ra.is_ok() == rb.is_ok(), "C06/sliding_window.insert_with_evicted/verdict_is_inner");
    if let (Ok(x), Ok(y)) = (&ra, &rb) {
        assert!(x.window == y.window && x.right_edge == y.right_edge, "C06/sliding_window.insert_with_evicted/report_is_inner");
    }
    if let (Err(x), Err(y)) = (&ra, &rb) {
        assert!(x == y, "C06/sliding_window.insert_with_evicted/error_is_inner");
    }
    assert!(rc == ra.as_ref().map(|_| ()).map_err(|e| *e), "C06/sliding_window.insert/result_is_inner_without_report");
    kani::cover!(ra.is_ok(), "reach:ok");
    kani::cover!(ra == Err(SlidingWindowError::Duplicate), "reach:duplicate");
    kani::cover!(ra == Err(SlidingWindowError::TooOld), "reach:too_old");
    kani::cover!(true, "reach:end");
}

//@ harness props=C06,C16 tier=thorough level=bounded timeout=1750 bound="real dev-profile self-check (129-iteration loop, unwind 130) only for the first insert into an empty window, as the in-tree harness insert_test; from an arbitrary window the nested loops of check_insert_result did not finish in 25 min (with or without sliding) -- those inserts are covered without the self-check by vq_c06_sliding_window_insert / _public_insert"
//@ fn SlidingWindow::insert
//@ fn SlidingWindow::insert_with_evicted
//@ fn SlidingWindow::check_insert_result
#[kani::proof]
#[kani::unwind(130)]
fn vq_c06_sliding_window_selfcheck_first_insert() {
    let mut w = SlidingWindow::default();
    let pn: u64 = kani::any();
    let q: u64 = kani::any();
    kani::assume(pn <= MAXV && q <= MAXV);
    let res = w.insert(pn_of(pn));
    // reaching this point means the crate's own self-check did not fire
    assert!(res.is_ok(), "C06/sliding_window.insert/first_insert_accepted");
    assert!(has_edge(&w) && edge(&w) == pn as i128 && w.window == 0, "C06/sliding_window.insert/first_insert_sets_right_edge");
    assert!(member(&w, q) == (q == pn), "C06/sliding_window.insert/first_insert_records_exactly_pn");
    assert!(code_of(w.check(pn_of(pn))) == sw_duplicate(), "C06/sliding_window.insert/first_insert_then_duplicate");
    kani::cover!(pn == 0, "reach:zero");
    kani::cover!(pn == MAXV, "reach:max");
    kani::cover!(true, "reach:end");
}

// ---- EvictedSet iterator -------------------------------------------------------------------------------

//@ harness props=C06,C16 tier=quick level=bounded timeout=300 bound="previous right edge >= 128: no bit of the report stands for a packet number below 0, the skip loop runs once"
//@ fn EvictedSet::next
#[kani::proof]
#[kani::unwind(2)]
fn vq_c06_evicted_set_next_plain() {
    // obligations asserted in evicted_next_step(): "C06/evicted_set.next/none_only_when_empty" "C06/evicted_set.next/yields_a_reported_number"
    // "C06/evicted_set.next/yields_the_smallest_first" "C06/evicted_set.next/removes_exactly_the_yielded_number"
    // "C06/evicted_set.next/stays_empty" "C06/evicted_set.next/inv_preserved"
    let e: u64 = kani::any();
    let bits: u128 = kani::any();
    kani::assume(e >= 128);
    evicted_next_step(e, bits);
}

//@ harness props=C06,C16 tier=thorough level=bounded timeout=1000 bound="previous right edge < 128 with at most 1 spurious bit (a bit standing for a packet number below 0, which `!window & mask` produces) to skip; the full 129-iteration skip loop (unwind 130) did not finish in 25 min, two spurious bits not in 20 min"
//@ fn EvictedSet::next
#[kani::proof]
#[kani::unwind(3)]
fn vq_c06_evicted_set_next_spurious() {
    // obligations asserted in evicted_next_step(): "C06/evicted_set.next/none_only_when_empty" "C06/evicted_set.next/yields_a_reported_number"
    // "C06/evicted_set.next/yields_the_smallest_first" "C06/evicted_set.next/removes_exactly_the_yielded_number"
    // "C06/evicted_set.next/stays_empty" "C06/evicted_set.next/inv_preserved"
    let e: u64 = kani::any();
    let bits: u128 = kani::any();
    kani::assume(e < 128);
    let spurious = bits >> e; // positions e.. stand for packet numbers below 0
    kani::assume(spurious & spurious.wrapping_sub(1) == 0); // zero or a single bit
    evicted_next_step(e, bits);
    kani::cover!(spurious != 0 && (bits & !(spurious << e)) != 0, "reach:one_skipped_then_yield");
}
