//@ inject crate=core src=quic/s2n-quic-core/src/recovery/rtt_estimator.rs
// Contract harnesses for RttEstimator (property C09; RFC 9002 sections 5.3, 6.1.2, 6.2.1, 7.6.1).
// Predicates: contracts/spec/recovery.rs (shared with the Verus lemmas).
//
// Duration lesson (DESIGN 6): every Duration is built as Duration::new(secs <= 3, nanos) -- the stated
// bound "RTT quantities < 4 s" -- and read back as secs * 10^9 + subsec_nanos; the harness itself never
// divides by 10^9 / 10^6 / 10^3 and never multiplies by a symbolic backoff.
use super::*;
#[allow(dead_code, unused_variables)]
mod spec {
    include!("../../spec/recovery.rs");
}
use spec::*;

/// an arbitrary Duration below 4 s together with its exact value in ns
fn any_dur() -> (Duration, i128) {
    let s: u8 = kani::any();
    let n: u32 = kani::any();
    kani::assume(s <= 3 && n < 1_000_000_000);
    (Duration::new(s as u64, n), s as i128 * 1_000_000_000 + n as i128)
}

/// an arbitrary Duration below 4 s whose whole-microsecond part is known without dividing:
/// (duration, ns, floor(ns / 1000))
fn any_dur_us() -> (Duration, i128, i128) {
    let s: u8 = kani::any();
    let us: u32 = kani::any();
    let sub: u32 = kani::any();
    kani::assume(s <= 3 && us < 1_000_000 && sub < 1000);
    let n = us * 1000 + sub;
    (Duration::new(s as u64, n), s as i128 * 1_000_000_000 + n as i128, s as i128 * 1_000_000 + us as i128)
}

fn ns(d: Duration) -> i128 {
    d.as_secs() as i128 * 1_000_000_000 + d.subsec_nanos() as i128
}

fn abs(e: &RttEstimator) -> Rtt {
    Rtt {
        latest: ns(e.latest_rtt),
        min: ns(e.min_rtt),
        srtt: ns(e.smoothed_rtt),
        rttvar: ns(e.rttvar),
        max_ack_delay: ns(e.max_ack_delay),
        has_sample: e.first_rtt_sample.is_some(),
    }
}

fn t0() -> Timestamp {
    unsafe { Timestamp::from_duration(Duration::from_micros(7_000_000)) }
}

/// Arbitrary estimator with every duration field below 4 s (only code touching private fields).
/// Representation invariant: latest, min, srtt >= MIN_RTT (1 us) and min <= latest is NOT required by any
/// contracted function, so it is not assumed.
fn any_estimator() -> RttEstimator {
    let mut e = RttEstimator::new(Duration::from_millis(333));
    e.latest_rtt = any_dur().0;
    e.min_rtt = any_dur().0;
    e.smoothed_rtt = any_dur().0;
    e.rttvar = any_dur().0;
    e.max_ack_delay = any_dur().0;
    e.first_rtt_sample = if kani::any() { Some(t0()) } else { None };
    e
}

fn any_space() -> PacketNumberSpace {
    match kani::any::<u8>() % 3 {
        0 => PacketNumberSpace::Initial,
        1 => PacketNumberSpace::Handshake,
        _ => PacketNumberSpace::ApplicationData,
    }
}

// ---------------------------------------------------------------------------------------------------
//@ harness props=C09 tier=quick level=bounded timeout=300 bound="smoothed_rtt, latest_rtt < 4 s (ns resolution)"
//@ fn RttEstimator::loss_time_threshold
#[kani::proof]
#[kani::unwind(3)]
fn vq_c09_rtt_loss_time_threshold() {
    let mut e = RttEstimator::new(Duration::from_millis(333));
    let (srtt, srtt_ns) = any_dur();
    let (latest, latest_ns) = any_dur();
    e.smoothed_rtt = srtt;
    e.latest_rtt = latest;
    let thr = e.loss_time_threshold();
    let expect = rtt_loss_time_threshold_ns(srtt_ns, latest_ns);
    assert!(ns(thr) == expect, "C09/rtt.loss_time_threshold/is_nine_eighths_of_max_srtt_latest_floored_at_granularity");
    assert!(thr >= K_GRANULARITY, "C09/rtt.loss_time_threshold/never_below_1ms");
    kani::cover!(ns(thr) == 1_000_000 && srtt_ns < 100_000, "reach:clamped_to_granularity");
    kani::cover!(ns(thr) > 4_000_000_000, "reach:above_4s");
    kani::cover!(srtt_ns > latest_ns && ns(thr) > 1_000_000, "reach:srtt_dominates");
    kani::cover!(srtt_ns < latest_ns && ns(thr) > 1_000_000, "reach:latest_dominates");
    kani::cover!(true, "reach:end");
}

// ---------------------------------------------------------------------------------------------------
// PTO period: one harness per concrete backoff (a symbolic factor is SAT-hard, DESIGN 7), formula on the
// u64 microseconds the code computes, then pto_period() == from_micros(max(base, 1 ms)).
//@ harness props=C09 tier=thorough level=bounded timeout=3000 bound="backoff = 1; smoothed_rtt < 4 s, rttvar < 250 ms; max_ack_delay whole ms < 2^14"
//@ fn RttEstimator::pto_period
//@ fn RttEstimator::calculate_base_pto_micros
#[kani::proof]
#[kani::unwind(3)]
fn vq_c09_rtt_pto_period_backoff_1() {
    pto_formula(1);
}

fn pto_formula(backoff: u32) {
    let mut e = RttEstimator::new(Duration::from_millis(333));
    let (srtt, _, srtt_us) = any_dur_us();
    let (rttvar, rttvar_ns, rttvar_us) = any_dur_us();
    // 4 * rttvar below 1 s keeps the from_micros/as_micros round trip inside rttvar_4x() tractable (DESIGN 6 lesson)
    kani::assume(rttvar_ns < 250_000_000);
    // max_ack_delay comes from a transport parameter in whole milliseconds below 2^14 (RFC 9000 18.2)
    let mad_s: u8 = kani::any();
    let mad_ms: u16 = kani::any();
    kani::assume(mad_s <= 16 && mad_ms < 1000 && (mad_s as u32) * 1000 + (mad_ms as u32) < 16384);
    e.smoothed_rtt = srtt;
    e.rttvar = rttvar;
    e.max_ack_delay = Duration::new(mad_s as u64, mad_ms as u32 * 1_000_000);
    let mad_us = mad_s as i128 * 1_000_000 + mad_ms as i128 * 1000;
    let space = any_space();
    let app = matches!(space, PacketNumberSpace::ApplicationData);
    let base = rtt_pto_base_us(srtt_us, rttvar_us, mad_us, app);
    let got = e.calculate_base_pto_micros(backoff, space);
    assert!(got as i128 == backoff as i128 * base, "C09/rtt.calculate_base_pto_micros/is_backoff_times_srtt_plus_4rttvar_plus_max_ack_delay");
    let p = e.pto_period(backoff, space);
    assert!(ns(p) == rtt_pto_period_us(backoff as i128, base) * 1000, "C09/rtt.pto_period/is_base_floored_at_granularity");
    assert!(p >= K_GRANULARITY, "C09/rtt.pto_period/never_below_1ms");
    kani::cover!(app && mad_us == 16_383_000, "reach:max_ack_delay_largest");
    kani::cover!(!app, "reach:handshake_spaces_ignore_max_ack_delay");
    kani::cover!(4 * rttvar_us < 1000, "reach:rttvar_floor_at_granularity");
    kani::cover!(4 * rttvar_us > 1000, "reach:rttvar_term");
    kani::cover!(true, "reach:end");
}


//@ harness props=C09 tier=thorough level=bounded timeout=3000 bound="backoff = 2; smoothed_rtt < 4 s, rttvar < 250 ms; max_ack_delay whole ms < 2^14"
//@ fn RttEstimator::pto_period
//@ fn RttEstimator::calculate_base_pto_micros
#[kani::proof]
#[kani::unwind(3)]
fn vq_c09_rtt_pto_period_backoff_2() {
    // obligations of the shared body `pto_formula` (listed here for the registry):
    //   "C09/rtt.calculate_base_pto_micros/is_backoff_times_srtt_plus_4rttvar_plus_max_ack_delay"
    //   "C09/rtt.pto_period/is_base_floored_at_granularity"
    //   "C09/rtt.pto_period/never_below_1ms"
    pto_formula(2);
}

//@ harness props=C09 tier=thorough level=bounded timeout=3000 bound="backoff = 4; smoothed_rtt < 4 s, rttvar < 250 ms; max_ack_delay whole ms < 2^14"
//@ fn RttEstimator::pto_period
//@ fn RttEstimator::calculate_base_pto_micros
#[kani::proof]
#[kani::unwind(3)]
fn vq_c09_rtt_pto_period_backoff_4() {
    // obligations of the shared body `pto_formula` (listed here for the registry):
    //   "C09/rtt.calculate_base_pto_micros/is_backoff_times_srtt_plus_4rttvar_plus_max_ack_delay"
    //   "C09/rtt.pto_period/is_base_floored_at_granularity"
    //   "C09/rtt.pto_period/never_below_1ms"
    pto_formula(4);
}

//@ harness props=C09 tier=thorough level=bounded timeout=3000 bound="backoff = 8; smoothed_rtt < 4 s, rttvar < 250 ms; max_ack_delay whole ms < 2^14"
//@ fn RttEstimator::pto_period
//@ fn RttEstimator::calculate_base_pto_micros
#[kani::proof]
#[kani::unwind(3)]
fn vq_c09_rtt_pto_period_backoff_8() {
    // obligations of the shared body `pto_formula` (listed here for the registry):
    //   "C09/rtt.calculate_base_pto_micros/is_backoff_times_srtt_plus_4rttvar_plus_max_ack_delay"
    //   "C09/rtt.pto_period/is_base_floored_at_granularity"
    //   "C09/rtt.pto_period/never_below_1ms"
    pto_formula(8);
}

//@ harness props=C09 tier=thorough level=bounded timeout=3000 bound="backoff = 64; smoothed_rtt < 4 s, rttvar < 250 ms; max_ack_delay whole ms < 2^14"
//@ fn RttEstimator::pto_period
//@ fn RttEstimator::calculate_base_pto_micros
#[kani::proof]
#[kani::unwind(3)]
fn vq_c09_rtt_pto_period_backoff_64() {
    // obligations of the shared body `pto_formula` (listed here for the registry):
    //   "C09/rtt.calculate_base_pto_micros/is_backoff_times_srtt_plus_4rttvar_plus_max_ack_delay"
    //   "C09/rtt.pto_period/is_base_floored_at_granularity"
    //   "C09/rtt.pto_period/never_below_1ms"
    pto_formula(64);
}

//@ harness props=C09 tier=thorough level=bounded timeout=3000 bound="backoff in {1,2,4,...,2^15}; estimator durations < 4 s"
//@ fn RttEstimator::calculate_base_pto_micros
//@ fn RttEstimator::pto_period
#[kani::proof]
#[kani::unwind(3)]
fn vq_c09_rtt_pto_doubles_with_backoff() {
    // "the probe timeout ... doubles with each consecutive expiry": two calls on the same estimator,
    // u64 microseconds (no Duration), backoff a symbolic power of two (the only values path::Path produces)
    let e = any_estimator();
    let space = any_space();
    let k: u8 = kani::any();
    kani::assume(k <= 15);
    let b: u32 = 1 << k;
    let p1 = e.calculate_base_pto_micros(b, space);
    let p2 = e.calculate_base_pto_micros(2 * b, space);
    assert!(p2 as u128 == 2 * p1 as u128, "C09/rtt.calculate_base_pto_micros/doubles_with_backoff");
    assert!(p1 >= 1000, "C09/rtt.calculate_base_pto_micros/base_at_least_granularity");
    // hence pto_period (= from_micros(max(base, 1 ms))) doubles too: the floor is never active
    kani::cover!(k == 15, "reach:backoff_2_15");
    kani::cover!(k == 0, "reach:backoff_1");
    kani::cover!(true, "reach:end");
}

// ---------------------------------------------------------------------------------------------------
//@ harness props=C09 tier=quick level=bounded timeout=300 bound="a, b < 4 s (ns resolution); weight in {4, 8} (the two call sites)"
//@ fn weighted_average
#[kani::proof]
#[kani::unwind(3)]
fn vq_c09_rtt_weighted_average() {
    let (a, a_ns) = any_dur();
    let (b, b_ns) = any_dur();
    let w: u64 = if kani::any() { 8 } else { 4 };
    let r = ns(weighted_average(a, b, w));
    assert!(r == rtt_weighted_average_ns(a_ns, b_ns, w as i128), "C09/rtt.weighted_average/is_divide_first_formula");
    assert!(rtt_weighted_average_within(a_ns, b_ns, w as i128, r), "C09/rtt.weighted_average/within_inputs_up_to_rounding_slack");
    kani::cover!(w == 8 && r == rmin(a_ns, b_ns) - 7, "reach:slack_7ns_attained");
    kani::cover!(w == 4 && r == rmin(a_ns, b_ns) - 3, "reach:slack_3ns_attained");
    kani::cover!(r == rmax(a_ns, b_ns) && r > 0, "reach:upper_bound_attained");
    kani::cover!(true, "reach:end");
}

// ---------------------------------------------------------------------------------------------------
//@ harness props=C09 tier=quick level=bounded timeout=300 bound="sample, ack_delay, estimator durations < 4 s (ns resolution)"
//@ fn RttEstimator::update_rtt
#[kani::proof]
#[kani::unwind(3)]
fn vq_c09_rtt_update_first_sample() {
    let mut e = any_estimator();
    e.first_rtt_sample = None;
    let old = abs(&e);
    let (ack_delay, _) = any_dur();
    let (sample, sample_ns) = any_dur();
    let confirmed: bool = kani::any();
    e.update_rtt(ack_delay, sample, t0(), confirmed, any_space());
    let new = abs(&e);
    assert!(rtt_update_latest(old, sample_ns, new), "C09/rtt.update_rtt/latest_is_sample_floored_at_1us");
    assert!(rtt_update_first_sample(old, sample_ns, new), "C09/rtt.update_rtt/first_sample_initialises_min_srtt_rttvar");
    assert!(e.first_rtt_sample == Some(t0()), "C09/rtt.update_rtt/first_sample_time_recorded");
    assert!(new.max_ack_delay == old.max_ack_delay, "C09/rtt.update_rtt/frame_max_ack_delay");
    kani::cover!(sample_ns == 0, "reach:zero_sample");
    kani::cover!(sample_ns > 3_999_999_000, "reach:large_sample");
    kani::cover!(true, "reach:end");
}

/// one later (not first) sample on an arbitrary estimator; returns what the three harnesses below need
struct Later {
    old: Rtt,
    new: Rtt,
    sample_ns: i128,
    eff: i128,
    confirmed: bool,
    first_sample_kept: bool,
}
fn later_sample() -> Later {
    let mut e = any_estimator();
    e.first_rtt_sample = Some(t0());
    let old = abs(&e);
    let (ack_delay, ack_delay_ns) = any_dur();
    let (sample, sample_ns) = any_dur();
    let confirmed: bool = kani::any();
    let space = any_space();
    let later = unsafe { Timestamp::from_duration(Duration::from_micros(9_000_000)) };
    e.update_rtt(ack_delay, sample, later, confirmed, space);
    let new = abs(&e);
    let eff = rtt_effective_ack_delay(old, ack_delay_ns, confirmed, matches!(space, PacketNumberSpace::Initial));
    kani::cover!(confirmed && ack_delay_ns > old.max_ack_delay && eff == old.max_ack_delay, "reach:ack_delay_capped");
    kani::cover!(matches!(space, PacketNumberSpace::Initial) && ack_delay_ns > 0, "reach:initial_space_ignores_ack_delay");
    Later { old, new, sample_ns, eff, confirmed, first_sample_kept: e.first_rtt_sample == Some(t0()) }
}

//@ harness props=C09 tier=quick level=bounded timeout=600 bound="sample, ack_delay, estimator durations < 4 s (ns resolution)"
//@ fn RttEstimator::update_rtt
#[kani::proof]
#[kani::unwind(3)]
fn vq_c09_rtt_update_later_sample_bookkeeping() {
    let Later { old, new, sample_ns, eff, confirmed, first_sample_kept } = later_sample();
    assert!(rtt_update_latest(old, sample_ns, new), "C09/rtt.update_rtt/latest_is_sample_floored_at_1us");
    assert!(rtt_update_min(old, sample_ns, new), "C09/rtt.update_rtt/min_rtt_is_running_minimum");
    assert!(first_sample_kept && new.max_ack_delay == old.max_ack_delay, "C09/rtt.update_rtt/frame_first_sample_time_and_max_ack_delay");
    if rtt_sample_ignored(new, eff, confirmed) {
        assert!(new.srtt == old.srtt && new.rttvar == old.rttvar, "C09/rtt.update_rtt/implausible_delay_before_confirmation_leaves_estimates");
    }
    kani::cover!(rtt_sample_ignored(new, eff, confirmed), "reach:sample_ignored");
    kani::cover!(!rtt_sample_ignored(new, eff, confirmed) && rtt_adjusted(new, eff) < new.latest, "reach:ack_delay_subtracted");
    kani::cover!(new.min < old.min, "reach:new_minimum");
    kani::cover!(true, "reach:end");
}

//@ harness props=C09 tier=thorough level=bounded timeout=3000 bound="sample, ack_delay, estimator durations < 4 s (ns resolution)"
//@ fn RttEstimator::update_rtt
//@ fn weighted_average
#[kani::proof]
#[kani::unwind(3)]
fn vq_c09_rtt_update_later_sample_srtt() {
    let Later { old, new, eff, confirmed, .. } = later_sample();
    if !rtt_sample_ignored(new, eff, confirmed) {
        let adj = rtt_adjusted(new, eff);
        assert!(new.srtt == rtt_weighted_average_ns(old.srtt, adj, 8), "C09/rtt.update_rtt/smoothed_rtt_is_7_8_old_plus_1_8_adjusted");
        assert!(rtt_update_srtt_within_samples(old, adj, new), "C09/rtt.update_rtt/srtt_within_range_of_samples_7ns_slack");
        kani::cover!(new.srtt < old.srtt, "reach:srtt_decreases");
        kani::cover!(new.srtt > old.srtt, "reach:srtt_increases");
    }
    kani::cover!(true, "reach:end");
}

//@ harness props=C09 tier=thorough level=bounded timeout=3000 bound="sample, ack_delay, estimator durations < 4 s (ns resolution)"
//@ fn RttEstimator::update_rtt
//@ fn weighted_average
#[kani::proof]
#[kani::unwind(3)]
fn vq_c09_rtt_update_later_sample_rttvar() {
    let Later { old, new, eff, confirmed, .. } = later_sample();
    if !rtt_sample_ignored(new, eff, confirmed) {
        let adj = rtt_adjusted(new, eff);
        // RFC 9002 5.3 with erratum 7539: rttvar_sample = |smoothed_rtt(old) - adjusted_rtt|
        let dev = if old.srtt >= adj { old.srtt - adj } else { adj - old.srtt };
        assert!(new.rttvar == rtt_weighted_average_ns(old.rttvar, dev, 4), "C09/rtt.update_rtt/rttvar_is_3_4_old_plus_1_4_deviation");
        assert!(rtt_update_estimates(old, adj, new) || new.srtt != rtt_weighted_average_ns(old.srtt, adj, 8), "C09/rtt.update_rtt/ewma_formulas");
        kani::cover!(old.srtt < adj, "reach:sample_above_srtt");
    }
    kani::cover!(true, "reach:end");
}

//@ harness props=C09 tier=quick level=bounded timeout=300 bound="estimator durations < 4 s; backoff 1..2^16 symbolic"
//@ fn RttEstimator::pto_period
#[kani::proof]
#[kani::unwind(3)]
fn vq_c09_rtt_pto_period_at_least_granularity() {
    // "the probe timeout is never below the timer granularity" -- no exact value needed, so the backoff can stay symbolic
    let e = any_estimator();
    let b: u32 = kani::any();
    kani::assume(b >= 1 && b <= 1 << 16);
    let p = e.pto_period(b, any_space());
    assert!(p >= K_GRANULARITY, "C09/rtt.pto_period/never_below_1ms");
    kani::cover!(b == 1 << 16, "reach:largest_backoff");
    kani::cover!(p > Duration::from_secs(1000), "reach:long_period");
    kani::cover!(true, "reach:end");
}

// ---------------------------------------------------------------------------------------------------
//@ harness props=C09 tier=thorough level=bounded timeout=3000 bound="smoothed_rtt < 4 s, rttvar < 250 ms; max_ack_delay whole ms < 2^14"
//@ fn RttEstimator::persistent_congestion_threshold
#[kani::proof]
#[kani::unwind(3)]
fn vq_c09_rtt_persistent_congestion_threshold() {
    let mut e = RttEstimator::new(Duration::from_millis(333));
    // whole-ms part known without dividing: nanos = ms * 10^6 + sub
    let s1: u8 = kani::any();
    let ms1: u32 = kani::any();
    let sub1: u32 = kani::any();
    kani::assume(s1 <= 3 && ms1 < 1000 && sub1 < 1_000_000);
    e.smoothed_rtt = Duration::new(s1 as u64, ms1 * 1_000_000 + sub1);
    let (rttvar, rttvar_ns, rttvar_us) = any_dur_us();
    kani::assume(rttvar_ns < 250_000_000);
    e.rttvar = rttvar;
    let mad_s: u8 = kani::any();
    let mad_ms: u16 = kani::any();
    kani::assume(mad_s <= 16 && mad_ms < 1000);
    e.max_ack_delay = Duration::new(mad_s as u64, mad_ms as u32 * 1_000_000);
    let got = e.persistent_congestion_threshold();
    // rttvar_4x is computed in whole microseconds, then truncated to ms
    let v4_us = 4 * rttvar_us;
    let q: u32 = kani::any(); // floor(v4_us / 1000), pinned down by its defining inequalities
    kani::assume((q as i128) * 1000 <= v4_us && v4_us < (q as i128 + 1) * 1000);
    let expect_ms = rtt_persistent_congestion_threshold_ms(s1 as i128 * 1000 + ms1 as i128, q as i128, mad_s as i128 * 1000 + mad_ms as i128);
    assert!(ns(got) == expect_ms * 1_000_000, "C09/rtt.persistent_congestion_threshold/is_three_times_srtt_plus_4rttvar_plus_max_ack_delay_ms");
    kani::cover!(q == 0, "reach:rttvar_floor_at_granularity");
    kani::cover!(q > 1, "reach:rttvar_term");
    kani::cover!(true, "reach:end");
}
