//@ inject crate=core src=quic/s2n-quic-core/src/frame/ack.rs
// C05 (and C08: "ACKs name only ..." is read back through this iterator): one-step contract of the ACK range
// iterator that walks the `ACK Range Count` (Gap, ACK Range Length) pairs of a received ACK frame
// (RFC 9000 19.3.1).  The whole-frame decode harnesses time out (probes/kani_c05_ack_dec_ref_timeout.rs); this
// harness puts the arithmetic kernel -- where "any computed packet number is negative => FRAME_ENCODING_ERROR"
// lives -- under contract from an ARBITRARY iterator state: arbitrary largest acknowledged, arbitrary remaining
// count, arbitrary bytes.  Totality (no panic, no overflow for any peer-chosen Gap / Range) is the safety
// obligation of the harness.
use super::*;

const MAXV: u64 = crate::varint::MAX_VARINT_VALUE;

/// independent RFC 9000 16 reader: (value, length) of the varint at the start of `b`, None if truncated
fn rd_varint(b: &[u8]) -> Option<(u64, usize)> {
    if b.is_empty() {
        return None;
    }
    let len = 1usize << (b[0] >> 6);
    if b.len() < len {
        return None;
    }
    let mut v = (b[0] & 0x3f) as u64;
    if len >= 2 {
        v = (v << 8) | b[1] as u64;
    }
    if len >= 4 {
        v = (v << 8) | b[2] as u64;
        v = (v << 8) | b[3] as u64;
    }
    if len == 8 {
        v = (v << 8) | b[4] as u64;
        v = (v << 8) | b[5] as u64;
        v = (v << 8) | b[6] as u64;
        v = (v << 8) | b[7] as u64;
    }
    Some((v, len))
}

//@ harness props=C05,C08 tier=quick level=bounded timeout=300 bound="one iterator step from an arbitrary state; at most 16 bytes of range data (one Range and one Gap of any encoding length)"
//@ fn AckRangesIter::next
#[kani::proof]
#[kani::unwind(10)] // the varint decoder computes its masks with u64::pow (<= 7 iterations)
fn vq_c05_ack_ranges_iter_next_step() {
    let bytes: [u8; 16] = kani::any();
    let len: usize = kani::any();
    kani::assume(len <= 16);
    let largest: u64 = kani::any();
    let count: u64 = kani::any();
    kani::assume(largest <= MAXV && count <= MAXV);
    let mut it = AckRangesIter {
        largest_acknowledged: VarInt::new(largest).unwrap(),
        ack_range_count: VarInt::new(count).unwrap(),
        range_buffer: DecoderBuffer::new(&bytes[..len]),
    };
    let r = it.next();

    // reference (RFC 9000 19.3.1): smallest = largest - ack_range; next largest = previous smallest - gap - 2
    let range = rd_varint(&bytes[..len]);
    let gap = match range {
        Some((_, l)) => rd_varint(&bytes[l..len]),
        None => None,
    };
    let want: Option<(u64, u64, u64, usize)> = (|| {
        if count == 0 {
            return None;
        }
        let (ar, l1) = range?;
        if ar > largest {
            return None; // negative packet number
        }
        let start = largest - ar;
        if count == 1 {
            return Some((start, largest, largest, l1));
        }
        let (g, l2) = gap?;
        // next largest = start - gap - 2 must not be negative
        if (g as u128) + 2 > start as u128 {
            return None;
        }
        Some((start, largest, start - g - 2, l1 + l2))
    })();
    kani::cover!(want.is_some() && count > 1, "reach:range_and_gap");
    kani::cover!(want.is_some() && count == 1, "reach:last_range");
    kani::cover!(want.is_none() && count > 1 && range.is_some() && gap.is_some(), "reach:negative_packet_number");
    kani::cover!(gap.map_or(false, |g| g.0 >= MAXV - 1), "reach:largest_possible_gap");
    assert!(r.is_some() == want.is_some(), "C05/ack.ranges_iter.next/none_iff_count_exhausted_truncated_or_negative");
    match (r, want) {
        (Some(got), Some((start, end, next_largest, consumed))) => {
            assert!(got.start().as_u64() == start && got.end().as_u64() == end, "C05/ack.ranges_iter.next/range_is_largest_minus_length_to_largest");
            assert!(it.ack_range_count.as_u64() == count - 1, "C05/ack.ranges_iter.next/count_decremented");
            assert!(count == 1 || it.largest_acknowledged.as_u64() == next_largest, "C05/ack.ranges_iter.next/next_largest_is_smallest_minus_gap_minus_2");
            assert!(it.range_buffer.len() == len - consumed, "C05/ack.ranges_iter.next/consumes_exactly_range_and_gap");
        }
        _ => {}
    }
    kani::cover!(true, "reach:end");
}
