// Harness-side AEAD stand-in for the C06 packet `decrypt` harnesses (assumption A-aead: authenticity itself is the
// AEAD's unforgeability).  Whether THE packet of the harness authenticates is a symbolic flag chosen by the harness; the
// key records what it was asked to open, so that "the reserved-bits check happens only after authentication" and "the
// nonce / associated data are the packet number / the header" are observable.  16-byte tag as for every QUIC v1 suite.
pub struct AuthKey {
    pub ok: bool,
    pub calls: core::cell::Cell<u32>,
    pub seen_nonce: core::cell::Cell<u64>,
    pub seen_header_len: core::cell::Cell<usize>,
    pub seen_payload_len: core::cell::Cell<usize>,
    pub seen_first_byte: core::cell::Cell<u8>,
}

impl AuthKey {
    pub fn new(ok: bool) -> Self {
        AuthKey {
            ok,
            calls: core::cell::Cell::new(0),
            seen_nonce: core::cell::Cell::new(0),
            seen_header_len: core::cell::Cell::new(0),
            seen_payload_len: core::cell::Cell::new(0),
            seen_first_byte: core::cell::Cell::new(0),
        }
    }
}

impl crate::crypto::Key for AuthKey {
    fn decrypt(&self, packet_number: u64, header: &[u8], payload: &mut [u8]) -> Result<(), crate::crypto::packet_protection::Error> {
        self.calls.set(self.calls.get() + 1);
        self.seen_nonce.set(packet_number);
        self.seen_header_len.set(header.len());
        self.seen_payload_len.set(payload.len());
        self.seen_first_byte.set(header[0]);
        if self.ok {
            Ok(())
        } else {
            Err(crate::crypto::packet_protection::Error::DECRYPT_ERROR)
        }
    }

    fn encrypt(&mut self, _packet_number: u64, _header: &[u8], _payload: &mut crate::crypto::scatter::Buffer) -> Result<(), crate::crypto::packet_protection::Error> {
        Ok(())
    }

    fn tag_len(&self) -> usize {
        16
    }

    fn aead_confidentiality_limit(&self) -> u64 {
        1 << 23
    }

    fn aead_integrity_limit(&self) -> u64 {
        1 << 52
    }

    fn cipher_suite(&self) -> crate::crypto::tls::CipherSuite {
        crate::crypto::tls::CipherSuite::Unknown
    }
}

impl crate::crypto::OneRttKey for AuthKey {
    fn derive_next_key(&self) -> Self {
        AuthKey::new(self.ok)
    }
}

impl crate::crypto::HandshakeKey for AuthKey {}
