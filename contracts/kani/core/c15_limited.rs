//@ inject crate=core src=quic/s2n-quic-core/src/crypto/application/limited.rs
// Contract harnesses for limited::Key (property C15) + the builder helpers the KeySet harnesses
// (contracts/kani/core/c15_keyset.rs) need, because the counters are private to this module.
// Predicates: contracts/spec/keys.rs (shared with verus/lemmas/C15.rs).
use super::*;
#[allow(dead_code, unused_variables)]
mod spec {
    include!("../../spec/keys.rs");
}
use spec::*;
#[allow(dead_code)]
mod hkey {
    include!("_c15_key.rs");
}
use hkey::HKey;

// ---- builder helpers (the only code that writes the private counters) ------------------------------------
impl<K> super::Key<K> {
    pub(crate) fn verif_c15_set_counters(&mut self, encrypted: u64, decrypted: u64) {
        self.encrypted_packets = encrypted;
        self.decrypted_packets = decrypted;
    }
    pub(crate) fn verif_c15_decrypted(&self) -> u64 {
        self.decrypted_packets
    }
    pub(crate) fn verif_c15_limit(&self) -> u64 {
        self.confidentiality_limit
    }
    pub(crate) fn verif_c15_key(&self) -> &K {
        &self.key
    }
}

fn abs(k: &Key<HKey>) -> LKey {
    LKey { enc: k.encrypted_packets as i128, dec: k.decrypted_packets as i128, limit: k.confidentiality_limit as i128, gen: k.key.gen as i128 }
}

/// arbitrary limited::Key satisfying lkey_inv
fn any_key() -> Key<HKey> {
    let conf: u64 = kani::any();
    let integ: u64 = kani::any();
    let gen: u32 = kani::any();
    kani::assume(gen < u32::MAX);
    let mut k = Key::new(HKey { gen, conf, integ, auth_ok: kani::any() });
    let enc: u64 = kani::any();
    let dec: u64 = kani::any();
    // enc <= limit is the invariant re-established by KeySet::encrypt_packet; dec counts received packets:
    // 2^64 - 1 of them cannot be received (physical bound, stated)
    kani::assume(enc <= conf && dec < u64::MAX);
    k.encrypted_packets = enc;
    k.decrypted_packets = dec;
    k
}

//@ harness props=C15 tier=quick level=full timeout=120
//@ fn limited::Key::new
//@ fn limited::Key::expired
//@ fn limited::Key::needs_update
//@ fn limited::Key::derive_next_key
#[kani::proof]
#[kani::unwind(3)]
fn vq_c15_limited_key_queries() {
    // new
    let conf: u64 = kani::any();
    let gen: u32 = kani::any();
    kani::assume(gen < u32::MAX);
    let fresh = Key::new(HKey { gen, conf, integ: kani::any(), auth_ok: false });
    assert!(lkey_new_post(abs(&fresh), conf as i128, gen as i128), "C15/limited_key.new/fresh_counters_and_aead_limit");
    assert!(lkey_inv(abs(&fresh)), "C15/limited_key.new/inv");
    // queries on an arbitrary key
    let k = any_key();
    let a = abs(&k);
    assert!(lkey_inv(a), "C15/limited_key.builder/inv");
    let window: u64 = kani::any();
    let limits = Limits { key_update_window: window };
    assert!(k.expired() == lkey_expired(a), "C15/limited_key.expired/iff_used_up_to_limit");
    assert!(k.needs_update(&limits) == lkey_needs_update(a, window as i128), "C15/limited_key.needs_update/iff_inside_update_window");
    // RFC 9001 6.6 "initiate a key update before sending more protected packets than the confidentiality limit
    // permits": with a non-empty window, a key that is used up was already asking for an update
    assert!(!(k.expired() && window >= 1 && a.limit >= 1) || k.needs_update(&limits), "C15/limited_key.needs_update/update_requested_before_expiry");
    assert!(k.encrypted_packets() as i128 == a.enc, "C15/limited_key.encrypted_packets/is_counter");
    let next = k.derive_next_key();
    assert!(next.gen as i128 == a.gen + 1 && next.conf as i128 == a.limit, "C15/limited_key.derive_next_key/next_generation_same_suite");
    assert!(lkey_same(abs(&k), a), "C15/limited_key.queries/state_unchanged");
    kani::cover!(k.expired(), "reach:expired");
    kani::cover!(!k.expired() && k.needs_update(&limits), "reach:in_window");
    kani::cover!(!k.needs_update(&limits), "reach:fresh");
    kani::cover!(window > conf, "reach:window_larger_than_limit");
    kani::cover!(a.enc == u64::MAX as i128, "reach:counter_at_u64_max");
}

//@ harness props=C15 tier=quick level=full timeout=120
//@ fn limited::Key::on_packet_encryption
//@ fn limited::Key::on_packet_decryption
#[kani::proof]
#[kani::unwind(3)]
fn vq_c15_limited_key_counters() {
    let mut k = any_key();
    let old = abs(&k);
    // call-site fact (crypto/application/keyset.rs, KeySet::encrypt_packet: the only production caller):
    // on_packet_encryption is reached only after `expired()` returned false
    kani::assume(!k.expired());
    k.on_packet_encryption();
    let mid = abs(&k);
    assert!(lkey_on_encryption_post(old, mid), "C15/limited_key.on_packet_encryption/counts_exactly_one");
    assert!(lkey_inv(mid), "C15/limited_key.on_packet_encryption/inv_preserved");
    k.on_packet_decryption();
    let new = abs(&k);
    assert!(lkey_on_decryption_post(mid, new), "C15/limited_key.on_packet_decryption/counts_exactly_one_attempt");
    assert!(lkey_inv(new), "C15/limited_key.on_packet_decryption/inv_preserved");
    kani::cover!(mid.enc == mid.limit, "reach:last_permitted_packet");
    kani::cover!(old.enc == 0 && old.limit == u64::MAX as i128, "reach:fresh_key_largest_limit");
    kani::cover!(true, "reach:end");
}
