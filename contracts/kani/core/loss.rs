//@ inject crate=core src=quic/s2n-quic-core/src/recovery/loss.rs
// Contract harnesses for recovery::loss::detect (property C09, RFC 9002 section 6.1).
// Predicates: contracts/spec/recovery.rs (shared with the Verus lemmas).
use super::*;
use crate::{packet::number::PacketNumberSpace, varint::VarInt};
#[allow(dead_code, unused_variables)]
mod spec {
    include!("../../spec/recovery.rs");
}
use spec::*;

const MAXV: u64 = crate::varint::MAX_VARINT_VALUE;


/// Everything `detect` sees, plus the same quantities as exact integers (ns) for the predicates.
struct Scenario {
    thr: Duration,
    sent: Timestamp,
    now: Timestamp,
    pn: PacketNumber,
    la: PacketNumber,
    distance: i128,
    /// whole microseconds (the clock's resolution)
    sent_us: i128,
    now_us: i128,
    /// the ns threshold rounded down / up to whole microseconds.  Evaluating `now + 1 ms > sent + thr` with the
    /// floor and `now >= sent + thr` / the known class with the ceiling is EXACT for whole-us timestamps
    /// (lemma C09/L/c09_loss_detect_us_evaluation_is_exact).
    thr_floor_us: i128,
    thr_ceil_us: i128,
    /// `time_sent + time_threshold` at the clock's 1 us resolution
    expected_lost_time: Timestamp,
    thr_has_sub_us: bool,
}

fn any_pns() -> (PacketNumber, PacketNumber, i128) {
    // documented precondition `largest_acked > packet_number` (recovery::Manager::detect_lost_packets only
    // walks packets below the largest acknowledged one); both in the same space
    let pn: u64 = kani::any();
    let la: u64 = kani::any();
    kani::assume(la <= MAXV && pn < la);
    let space = match kani::any::<u8>() % 3 {
        0 => PacketNumberSpace::Initial,
        1 => PacketNumberSpace::Handshake,
        _ => PacketNumberSpace::ApplicationData,
    };
    (space.new_packet_number(VarInt::new(pn).unwrap()), space.new_packet_number(VarInt::new(la).unwrap()), la as i128 - pn as i128)
}

/// FULL DOMAIN: any two instants of a 1 us clock below 2^62 us, any threshold below 2^32 s with ns resolution.
/// `Timestamp + Duration` inside detect is replaced by its contract (stub `verif_add_model`, proved against the
/// real operator in contracts/kani/core/timestamp.rs) because the Duration round trip is SAT-hard.
fn any_scenario() -> Scenario {
    let (pn, la, distance) = any_pns();
    let sent_us: u64 = kani::any();
    let now_us: u64 = kani::any();
    let t_secs: u32 = kani::any();
    let t_us: u32 = kani::any();
    let t_sub: u32 = kani::any();
    kani::assume(sent_us > 0 && now_us > 0 && sent_us < 1 << 62 && now_us < 1 << 62);
    // threshold nanos = t_us * 1000 + t_sub: floor(thr / 1 us) is known without dividing
    kani::assume(t_us < 1_000_000 && t_sub < 1000);
    let thr = Duration::new(t_secs as u64, t_us * 1000 + t_sub);
    Scenario {
        thr,
        sent: Timestamp::verif_from_micros(sent_us),
        now: Timestamp::verif_from_micros(now_us),
        pn,
        la,
        distance,
        sent_us: sent_us as i128,
        now_us: now_us as i128,
        thr_floor_us: t_secs as i128 * 1_000_000 + t_us as i128,
        thr_ceil_us: t_secs as i128 * 1_000_000 + t_us as i128 + if t_sub != 0 { 1 } else { 0 },
        expected_lost_time: Timestamp::verif_from_micros(sent_us + t_secs as u64 * 1_000_000 + t_us as u64),
        thr_has_sub_us: t_sub != 0,
    }
}

/// BOUNDED, nothing stubbed: instants and thresholds from tables straddling the packet/time thresholds and the
/// 1 ms granularity; everything is concrete after the symbolic table lookup, so the real Timestamp arithmetic runs.
fn table_scenario() -> Scenario {
    const T_US: [u64; 8] = [1, 1_000_000, 1_000_001, 1_000_999, 1_001_000, 1_001_001, 1_375_000, 9_000_000];
    const THR_NS: [u64; 8] = [0, 1, 999, 1_000_000, 1_000_001, 1_999_999, 374_625_000, 3_000_000_500];
    let (pn, la, distance) = any_pns();
    let i: u8 = kani::any();
    let j: u8 = kani::any();
    let k: u8 = kani::any();
    kani::assume(i < 8 && j < 8 && k < 8);
    let (sent_us, now_us, thr_ns) = (T_US[i as usize], T_US[j as usize], THR_NS[k as usize]);
    Scenario {
        thr: Duration::from_nanos(thr_ns),
        sent: unsafe { Timestamp::from_duration(Duration::from_micros(sent_us)) },
        now: unsafe { Timestamp::from_duration(Duration::from_micros(now_us)) },
        pn,
        la,
        distance,
        sent_us: sent_us as i128,
        now_us: now_us as i128,
        thr_floor_us: (thr_ns / 1000) as i128,
        thr_ceil_us: ((thr_ns + 999) / 1000) as i128,
        expected_lost_time: unsafe { Timestamp::from_duration(Duration::from_micros(sent_us + thr_ns / 1000)) },
        thr_has_sub_us: thr_ns % 1000 != 0,
    }
}

//@ harness props=C09 tier=quick level=full timeout=600
//@ fn recovery::loss::detect
#[kani::proof]
#[kani::unwind(3)]
#[kani::stub(<Timestamp as core::ops::Add<Duration>>::add, Timestamp::verif_add_model)]
fn vq_c09_loss_detect_slack_full() {
    // obligations of the shared body `loss_detect_with_granularity` (listed here for the registry):
    //   "C09/loss.detect/packet_threshold_is_3"
    //   "C09/loss.detect/lost_only_if_packet_or_time_threshold_1ms_slack"
    //   "C09/loss.detect/time_threshold_reached_implies_lost"
    //   "C09/loss.detect/packet_threshold_reached_implies_lost"
    //   "C09/loss.detect/lost_iff_rfc_with_granularity"
    //   "C09/loss.detect/not_lost_yet_carries_time_sent_plus_threshold"
    //   "C09/loss.detect/not_lost_yet_time_is_in_the_future"
    loss_detect_with_granularity(any_scenario(), true);
}

//@ harness props=C09 tier=quick level=bounded timeout=300 bound="time_sent, now from 8 instants, threshold from 8 durations around the 1 ms granularity; packet numbers full range; no stub"
//@ fn recovery::loss::detect
#[kani::proof]
#[kani::unwind(3)]
fn vq_c09_loss_detect_slack_table() {
    loss_detect_with_granularity(table_scenario(), false);
}

fn loss_detect_with_granularity(s: Scenario, full: bool) {
    // the obligations that stay in force: RFC 9002 6.1 with the 1 ms timer granularity of
    // Timestamp::has_elapsed written into them
    assert!(K_PACKET_THRESHOLD as i128 == k_packet_threshold(), "C09/loss.detect/packet_threshold_is_3");
    let out = detect(s.thr, s.sent, K_PACKET_THRESHOLD, s.pn, s.la, s.now);
    let lost = out == Outcome::Lost;
    let (d, sent, now, g) = (s.distance, s.sent_us, s.now_us, k_granularity_us());
    let (thr, thr_up) = (s.thr_floor_us, s.thr_ceil_us);
    assert!(loss_lost_only_if_threshold_with_slack(lost, d, sent, thr, now, g), "C09/loss.detect/lost_only_if_packet_or_time_threshold_1ms_slack");
    assert!(loss_time_threshold_implies_lost(lost, d, sent, thr_up, now), "C09/loss.detect/time_threshold_reached_implies_lost");
    assert!(loss_packet_threshold_implies_lost(lost, d, sent, thr, now), "C09/loss.detect/packet_threshold_reached_implies_lost");
    assert!(loss_lost_iff_with_granularity(lost, d, sent, thr, now, g), "C09/loss.detect/lost_iff_rfc_with_granularity");
    match out {
        Outcome::Lost => {}
        Outcome::NotLostYet { lost_time } => {
            assert!(lost_time == s.expected_lost_time, "C09/loss.detect/not_lost_yet_carries_time_sent_plus_threshold");
            assert!(lost_time > s.now, "C09/loss.detect/not_lost_yet_time_is_in_the_future");
        }
    }
    kani::cover!(lost && d < 3, "reach:lost_by_time");
    kani::cover!(lost && d >= 3 && now < sent, "reach:lost_by_packet_threshold_only");
    kani::cover!(!lost, "reach:not_lost_yet");
    kani::cover!(!lost && d == 2, "reach:not_lost_distance_2");
    kani::cover!(lost && d == 3 && now + 1000 <= sent + thr, "reach:lost_distance_3_exactly");
    kani::cover!(s.la.as_u64() == MAXV, "reach:largest_acked_max");
    kani::cover!(!full || thr >= 4_000_000_000_000_000, "reach:huge_threshold");
    kani::cover!(sent == 1, "reach:first_timestamp");
    kani::cover!(s.thr_has_sub_us && !lost, "reach:sub_microsecond_threshold");
    kani::cover!(true, "reach:end");
}

//@ harness props=C09 tier=quick level=full timeout=900
//@ fn recovery::loss::detect
#[kani::proof]
#[kani::unwind(3)]
#[kani::stub(<Timestamp as core::ops::Add<Duration>>::add, Timestamp::verif_add_model)]
fn vq_c09_loss_detect_strict() {
    // The property statement read strictly.  EXPECTED TO FAIL on the unchanged tree (DESIGN 6 item 5):
    // Timestamp::has_elapsed adds kGranularity (1 ms) to `now`, so a packet within the packet threshold
    // is declared lost up to 1 ms before `time_sent + threshold`.  The residual obligation excludes
    // exactly that input class and must hold.  (Residual first: Kani assumes an assertion after
    // checking it, so the reverse order would make the residual vacuous.)
    let s = any_scenario();
    let out = detect(s.thr, s.sent, K_PACKET_THRESHOLD, s.pn, s.la, s.now);
    let lost = out == Outcome::Lost;
    // strict predicates: threshold rounded UP to whole us (exact, see Scenario)
    let (d, sent, thr, now, g) = (s.distance, s.sent_us, s.thr_ceil_us, s.now_us, k_granularity_us());
    assert!(loss_lost_iff_rfc_outside_known(lost, d, sent, thr, now, g), "C09/loss.detect/lost_iff_rfc#outside-known");
    kani::cover!(loss_known_early_class(d, sent, thr, now, g), "reach:known_class");
    kani::cover!(!loss_known_early_class(d, sent, thr, now, g) && lost, "reach:outside_known_lost");
    kani::cover!(!loss_known_early_class(d, sent, thr, now, g) && !lost, "reach:outside_known_not_lost");
    kani::cover!(true, "reach:end");
    assert!(loss_lost_iff_rfc(lost, d, sent, thr, now), "C09/loss.detect/lost_iff_rfc");
}


