//@ inject crate=core src=quic/s2n-quic-core/src/recovery/loss.rs
// Contract harnesses for recovery::loss::detect (property C09, RFC 9002 section 6.1).
// Predicates: contracts/spec/recovery.rs (shared with the Verus lemmas).
use super::*;
use crate::{packet::number::PacketNumberSpace, varint::VarInt};
#[allow(dead_code, unused_variables)]
mod spec {
    include!("../../spec/recovery.rs");
}
use spec::*;

const MAXV: u64 = crate::varint::MAX_VARINT_VALUE;

/// Everything `detect` sees, plus the same quantities as exact integers (ns) for the predicates.
struct Scenario {
    thr: Duration,
    sent: Timestamp,
    now: Timestamp,
    pn: PacketNumber,
    la: PacketNumber,
    distance: i128,
    sent_ns: i128,
    thr_ns: i128,
    now_ns: i128,
    /// `time_sent + time_threshold` at the clock's 1 us resolution, built without `Timestamp + Duration`
    expected_lost_time: Timestamp,
}

/// Arbitrary arguments satisfying the documented precondition `largest_acked > packet_number`
/// (manager.rs only calls detect for packets below the largest acknowledged one).
/// Timestamps: any whole microsecond in [1 us, 2^32 s) (the clock's resolution); threshold: any
/// Duration below 2^32 s with nanosecond resolution.  Durations are built with Duration::new so that
/// the harness itself needs no 128-bit division.
fn any_scenario() -> Scenario { any_scenario_b(u32::MAX, u32::MAX) }
fn any_scenario_b(max_ts_secs: u32, max_thr_secs: u32) -> Scenario {
    let pn: u64 = kani::any();
    let la: u64 = kani::any();
    kani::assume(la <= MAXV && pn < la);
    let space = match kani::any::<u8>() % 3 {
        0 => PacketNumberSpace::Initial,
        1 => PacketNumberSpace::Handshake,
        _ => PacketNumberSpace::ApplicationData,
    };
    let s_secs: u32 = kani::any();
    let s_us: u32 = kani::any();
    let n_secs: u32 = kani::any();
    let n_us: u32 = kani::any();
    let t_secs: u32 = kani::any();
    let t_nanos: u32 = kani::any();
    kani::assume(s_us < 1_000_000 && n_us < 1_000_000 && t_nanos < 1_000_000_000);
    kani::assume(s_secs <= max_ts_secs && n_secs <= max_ts_secs && t_secs <= max_thr_secs);
    // Timestamp(0) does not exist (NonZeroU64; clocks round it up to 1 us)
    kani::assume(s_secs > 0 || s_us > 0);
    kani::assume(n_secs > 0 || n_us > 0);
    let sent = unsafe { Timestamp::from_duration(Duration::new(s_secs as u64, s_us * 1000)) };
    let now = unsafe { Timestamp::from_duration(Duration::new(n_secs as u64, n_us * 1000)) };
    let thr = Duration::new(t_secs as u64, t_nanos);
    // sent + thr, floor to 1 us, by schoolbook carry (independent of Timestamp::add)
    let frac = s_us as u64 * 1000 + t_nanos as u64;
    let (carry, frac) = if frac >= 1_000_000_000 { (1u64, frac - 1_000_000_000) } else { (0, frac) };
    let expected_lost_time =
        unsafe { Timestamp::from_duration(Duration::new(s_secs as u64 + t_secs as u64 + carry, frac as u32)) };
    Scenario {
        thr,
        sent,
        now,
        pn: space.new_packet_number(VarInt::new(pn).unwrap()),
        la: space.new_packet_number(VarInt::new(la).unwrap()),
        distance: la as i128 - pn as i128,
        sent_ns: s_secs as i128 * 1_000_000_000 + s_us as i128 * 1000,
        thr_ns: t_secs as i128 * 1_000_000_000 + t_nanos as i128,
        now_ns: n_secs as i128 * 1_000_000_000 + n_us as i128 * 1000,
        expected_lost_time,
    }
}

//@ harness props=C09 tier=quick level=full timeout=240
//@ fn recovery::loss::detect
#[kani::proof]
#[kani::unwind(3)]
fn vq_c09_loss_detect_with_granularity() {
    // the obligations that stay in force: RFC 9002 6.1 with the 1 ms timer granularity of
    // Timestamp::has_elapsed written into them
    let s = any_scenario();
    assert!(K_PACKET_THRESHOLD as i128 == k_packet_threshold(), "C09/loss.detect/packet_threshold_is_3");
    let out = detect(s.thr, s.sent, K_PACKET_THRESHOLD, s.pn, s.la, s.now);
    let lost = out == Outcome::Lost;
    let (d, sent, thr, now) = (s.distance, s.sent_ns, s.thr_ns, s.now_ns);
    assert!(loss_lost_only_if_threshold_with_slack(lost, d, sent, thr, now), "C09/loss.detect/lost_only_if_packet_or_time_threshold_1ms_slack");
    assert!(loss_time_threshold_implies_lost(lost, d, sent, thr, now), "C09/loss.detect/time_threshold_reached_implies_lost");
    assert!(loss_packet_threshold_implies_lost(lost, d, sent, thr, now), "C09/loss.detect/packet_threshold_reached_implies_lost");
    assert!(loss_lost_iff_with_granularity(lost, d, sent, thr, now), "C09/loss.detect/lost_iff_rfc_with_granularity");
    match out {
        Outcome::Lost => {}
        Outcome::NotLostYet { lost_time } => {
            assert!(lost_time == s.expected_lost_time, "C09/loss.detect/not_lost_yet_carries_time_sent_plus_threshold");
            assert!(lost_time > s.now, "C09/loss.detect/not_lost_yet_time_is_in_the_future");
        }
    }
    kani::cover!(lost && d < 3, "reach:lost_by_time");
    kani::cover!(lost && d >= 3 && now < sent, "reach:lost_by_packet_threshold_only");
    kani::cover!(!lost, "reach:not_lost_yet");
    kani::cover!(!lost && d == 2, "reach:not_lost_distance_2");
    kani::cover!(lost && d == 3 && now + 1_000_000 <= sent + thr, "reach:lost_distance_3_exactly");
    kani::cover!(s.la.as_u64() == MAXV, "reach:largest_acked_max");
    kani::cover!(thr >= 4_000_000_000_000_000_000, "reach:huge_threshold");
    kani::cover!(sent == 1000, "reach:first_timestamp");
    kani::cover!(true, "reach:end");
}

//@ harness props=C09 tier=quick level=full timeout=240
//@ fn recovery::loss::detect
#[kani::proof]
#[kani::unwind(3)]
fn vq_c09_loss_detect_strict() {
    // The property statement read strictly.  EXPECTED TO FAIL on the unchanged tree (DESIGN 6 item 5):
    // Timestamp::has_elapsed adds kGranularity (1 ms) to `now`, so a packet within the packet threshold
    // is declared lost up to 1 ms before `time_sent + threshold`.  The residual obligation excludes
    // exactly that input class and must hold.  (Residual first: Kani assumes an assertion after
    // checking it, so the reverse order would make the residual vacuous.)
    let s = any_scenario();
    let out = detect(s.thr, s.sent, K_PACKET_THRESHOLD, s.pn, s.la, s.now);
    let lost = out == Outcome::Lost;
    let (d, sent, thr, now) = (s.distance, s.sent_ns, s.thr_ns, s.now_ns);
    assert!(loss_lost_iff_rfc_outside_known(lost, d, sent, thr, now), "C09/loss.detect/lost_iff_rfc#outside-known");
    kani::cover!(loss_known_early_class(d, sent, thr, now), "reach:known_class");
    kani::cover!(!loss_known_early_class(d, sent, thr, now) && lost, "reach:outside_known_lost");
    kani::cover!(!loss_known_early_class(d, sent, thr, now) && !lost, "reach:outside_known_not_lost");
    kani::cover!(true, "reach:end");
    assert!(loss_lost_iff_rfc(lost, d, sent, thr, now), "C09/loss.detect/lost_iff_rfc");
}


