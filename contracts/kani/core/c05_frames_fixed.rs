//@ inject crate=core src=quic/s2n-quic-core/src/frame/mod.rs
// C05 contract harnesses for the fixed-shape frames of RFC 9000 section 19 (every field a full-domain
// variable-length integer or a fixed-width byte string).  Oracle: `_rfc9000_wire.rs`, an independent
// transcription of the RFC layouts (types and field order copied from the RFC, not from the code).
//
// Per frame (vq_c05_frame_<name>, level=full):
//   enc   real encoder output == oracle bytes; length == encoding_size() announced beforehand (32-byte buffer:
//         VarInt's 8-byte wide write is taken for every field)
//   dec   the frame's real decoder, invoked the way the tag dispatch invokes it, on the oracle bytes followed by
//         0..=3 arbitrary trailing bytes returns the value and exactly the trailing bytes as remainder
// Per frame (vq_c05_frame_<name>_exact, level=full):
//   enc   with a buffer of exactly the announced size: no capacity assertion / pointer check fires, the
//         position advances by the announced size and not a single byte behind it is written
// Per group (vq_c05_fixed_frames_ref_*, level=bounded by input length):
//   ref   on *arbitrary* bytes the real decoder agrees with the reference parser (Ok/Err, every field,
//         consumed length), which includes truncated inputs and non-shortest integer encodings
// The dispatch from the first byte to the frame decoder is contracted in c05_total.rs.
use super::*;
use s2n_codec::{DecoderBufferMut, DecoderParameterizedValueMut, EncoderBuffer};
#[macro_use]
#[allow(dead_code, unused_macros)]
mod wire {
    include!("_rfc9000_wire.rs");
}
use crate::stream::StreamType;
use wire::*;

const W: usize = 32;

fn v(x: u64) -> VarInt {
    VarInt::new(x).unwrap()
}

/// any value of the 62-bit domain
fn any_int() -> u64 {
    let x: u64 = kani::any();
    kani::assume(x <= RFC_VARINT_MAX);
    x
}

struct Enc {
    announced: usize,
    used: usize,
    before: [u8; W],
    out: [u8; W],
}

/// the real encoder on a W-byte buffer (arbitrary previous content)
fn run_encoder<T: EncoderValue>(f: &T) -> Enc {
    let announced = f.encoding_size();
    let before: [u8; W] = kani::any();
    let mut out = before;
    let used = {
        let mut e = EncoderBuffer::new(&mut out[..]);
        e.encode(f);
        e.len()
    };
    Enc { announced, used, before, out }
}

/// the real encoder on a buffer of exactly the announced size: any overrun trips the encoder's capacity
/// assertion or a pointer check (the last fields take VarInt's exact-size path)
fn run_encoder_exact<T: EncoderValue>(f: &T) -> Enc {
    let announced = f.encoding_size();
    let before: [u8; W] = kani::any();
    kani::assume(announced <= W);
    let mut out = before;
    let used = {
        let mut e = EncoderBuffer::new(&mut out[..announced]);
        e.encode(f);
        e.len()
    };
    Enc { announced, used, before, out }
}

macro_rules! enc_obligations {
    ($f:expr, $spec:expr, $announced:literal, $used:literal, $bytes:literal) => {{
        let e = run_encoder(&$f);
        assert!(e.announced == $spec.n, $announced);
        assert!(e.used == e.announced, $used);
        assert!(prefix_eq32(&e.out, &$spec.b, $spec.n), $bytes);
    }};
}

macro_rules! exact_obligations {
    ($f:expr, $used:literal, $untouched:literal) => {{
        let e = run_encoder_exact(&$f);
        assert!(e.used == e.announced, $used);
        assert!(suffix_eq32(&e.out, &e.before, e.announced), $untouched);
    }};
}

/// canonical view of a decoded fixed-shape frame: type byte, number of integer fields, the fields, 8 data
/// bytes (PATH_*), run length (PADDING)
#[derive(Clone, Copy)]
struct View {
    ty: u8,
    nints: usize,
    ints: [u64; 3],
    data: [u8; 8],
    run: usize,
}

/// abstraction of the real frame (None: not one of the fixed-shape frames)
fn view(frame: &FrameMut) -> Option<View> {
    let z = [0u8; 8];
    let v0 = View { ty: 0, nints: 0, ints: [0, 0, 0], data: z, run: 0 };
    Some(match frame {
        Frame::Padding(f) => View { ty: T_PADDING, run: f.length, ..v0 },
        Frame::Ping(_) => View { ty: T_PING, ..v0 },
        Frame::HandshakeDone(_) => View { ty: T_HANDSHAKE_DONE, ..v0 },
        Frame::ResetStream(f) => View {
            ty: T_RESET_STREAM,
            nints: 3,
            ints: [f.stream_id.as_u64(), f.application_error_code.as_u64(), f.final_size.as_u64()],
            ..v0
        },
        Frame::StopSending(f) => View { ty: T_STOP_SENDING, nints: 2, ints: [f.stream_id.as_u64(), f.application_error_code.as_u64(), 0], ..v0 },
        Frame::MaxData(f) => View { ty: T_MAX_DATA, nints: 1, ints: [f.maximum_data.as_u64(), 0, 0], ..v0 },
        Frame::MaxStreamData(f) => View { ty: T_MAX_STREAM_DATA, nints: 2, ints: [f.stream_id.as_u64(), f.maximum_stream_data.as_u64(), 0], ..v0 },
        Frame::MaxStreams(f) => View {
            ty: match f.stream_type {
                StreamType::Bidirectional => T_MAX_STREAMS_BIDI,
                StreamType::Unidirectional => T_MAX_STREAMS_UNI,
            },
            nints: 1,
            ints: [f.maximum_streams.as_u64(), 0, 0],
            ..v0
        },
        Frame::DataBlocked(f) => View { ty: T_DATA_BLOCKED, nints: 1, ints: [f.data_limit.as_u64(), 0, 0], ..v0 },
        Frame::StreamDataBlocked(f) => View { ty: T_STREAM_DATA_BLOCKED, nints: 2, ints: [f.stream_id.as_u64(), f.stream_data_limit.as_u64(), 0], ..v0 },
        Frame::StreamsBlocked(f) => View {
            ty: match f.stream_type {
                StreamType::Bidirectional => T_STREAMS_BLOCKED_BIDI,
                StreamType::Unidirectional => T_STREAMS_BLOCKED_UNI,
            },
            nints: 1,
            ints: [f.stream_limit.as_u64(), 0, 0],
            ..v0
        },
        Frame::RetireConnectionId(f) => View { ty: T_RETIRE_CONNECTION_ID, nints: 1, ints: [f.sequence_number.as_u64(), 0, 0], ..v0 },
        Frame::PathChallenge(f) => View { ty: T_PATH_CHALLENGE, data: *f.data, ..v0 },
        Frame::PathResponse(f) => View { ty: T_PATH_RESPONSE, data: *f.data, ..v0 },
        _ => return None,
    })
}

/// Decodes one frame of the static type `T` from bytes[..len] the way the tag dispatch of the `frames!` macro does
/// for the arm of `T` (`FrameDecoder::decode_frame`: `buffer.skip(size_of::<Tag>())?` followed by
/// `buffer.decode_parameterized(tag)?`), and returns None for Err, else (view of the frame, remainder length).
///
/// Why not through `FrameMut`: measured on this code base, every harness that reaches `decode_frame` pays for all
/// 23 arms (CBMC does not prune the dispatch: with a symbolic slice length the type byte returned by `peek_byte(0)`
/// is an if-then-else over `0 < len`, never a constant), i.e. for the ACK-range and PADDING loops as well; a
/// three-field frame then needs > 300 s instead of ~30 s.  That the dispatch selects the arm RFC 9000 Table 3
/// prescribes for every first byte is the separate obligation `C05/frame.tot/variant_follows_rfc_type_table`
/// (c05_total.rs), which does go through `FrameMut`.
fn run_decoder<'a, T>(bytes: &'a mut [u8; W], len: usize, ty: u8) -> Option<(Option<View>, usize)>
where
    T: DecoderParameterizedValueMut<'a, Parameter = Tag> + Into<FrameMut<'a>>,
{
    assert!(len == 0 || bytes[0] == ty);
    let buffer = DecoderBufferMut::new(&mut bytes[..len]);
    let buffer = buffer.skip(core::mem::size_of::<Tag>()).ok()?;
    let (frame, rest) = buffer.decode_parameterized::<T>(ty).ok()?;
    let frame: FrameMut = frame.into();
    Some((view(&frame), rest.len()))
}

/// the decoded frame has type `ty` and exactly these integer fields
fn is_ints(got: &Option<View>, ty: u8, nints: usize, ints: [u64; 3]) -> bool {
    match got {
        Some(v) => v.ty == ty && v.nints == nints && v.ints[0] == ints[0] && v.ints[1] == ints[1] && v.ints[2] == ints[2],
        None => false,
    }
}

fn eq8(a: &[u8; 8], b: &[u8; 8]) -> bool {
    let mut ok = true;
    unroll!(8, i, {
        if a[i] != b[i] {
            ok = false;
        }
    });
    ok
}

/// number of trailing bytes handed to the decoder behind the frame
fn any_extra(n: usize) -> usize {
    let extra: usize = kani::any();
    kani::assume(extra <= 3 && n + extra < W);
    extra
}

// ---- ref: agreement with the reference parser on arbitrary bytes ----------------------------------------------
/// RFC 9000 section 19: how many variable-length integer fields follow the type of a fixed-shape frame
fn rfc_fixed_frame_int_fields(ty: u8) -> Option<usize> {
    match ty {
        0x01 => Some(0), // PING
        0x04 => Some(3), // RESET_STREAM: Stream ID, Application Protocol Error Code, Final Size
        0x05 => Some(2), // STOP_SENDING: Stream ID, Application Protocol Error Code
        0x10 => Some(1), // MAX_DATA: Maximum Data
        0x11 => Some(2), // MAX_STREAM_DATA: Stream ID, Maximum Stream Data
        0x12 | 0x13 => Some(1), // MAX_STREAMS: Maximum Streams
        0x14 => Some(1), // DATA_BLOCKED: Maximum Data
        0x15 => Some(2), // STREAM_DATA_BLOCKED: Stream ID, Maximum Stream Data
        0x16 | 0x17 => Some(1), // STREAMS_BLOCKED: Maximum Streams
        0x19 => Some(1), // RETIRE_CONNECTION_ID: Sequence Number
        0x1a | 0x1b => Some(0), // PATH_CHALLENGE / PATH_RESPONSE: Data (64)
        0x1e => Some(0), // HANDSHAKE_DONE
        _ => None,
    }
}

/// reference parser for one fixed-shape frame; None = frame encoding error (truncated, or a limit of 19.11/19.14)
fn rfc_parse_fixed_frame(rd: &mut Rd<W>) -> Option<View> {
    let ty = rd.u8()?;
    let nints = rfc_fixed_frame_int_fields(ty)?;
    let mut ints = [0u64; 3];
    if nints >= 1 {
        ints[0] = rd.varint()?;
    }
    if nints >= 2 {
        ints[1] = rd.varint()?;
    }
    if nints >= 3 {
        ints[2] = rd.varint()?;
    }
    let mut data = [0u8; 8];
    if ty == 0x1a || ty == 0x1b {
        let at = rd.skip(8)?;
        unroll!(8, i, {
            data[i] = rd.b[at + i];
        });
    }
    if (ty == 0x12 || ty == 0x13 || ty == 0x16 || ty == 0x17) && ints[0] > RFC_MAX_STREAMS_LIMIT {
        return None;
    }
    Some(View { ty, nints, ints, data, run: 0 })
}

/// one expansion per frame type: the decoder under test is selected statically (see run_decoder)
macro_rules! ref_agreement {
    ($t:ty, $ty:expr) => {{
        ref_agreement!($t, $ty, can_reject)
    }};
    // PING and HANDSHAKE_DONE consist of the type byte only: no input of >= 1 byte is rejected
    ($t:ty, $ty:expr, never_rejects) => {{
        ref_agreement!(@body $t, $ty)
    }};
    ($t:ty, $ty:expr, can_reject) => {{
        ref_agreement!(@body $t, $ty)
    }};
    (@body $t:ty, $ty:expr) => {{
        let ty: u8 = $ty;
        let mut bytes: [u8; W] = kani::any();
        let len: usize = kani::any();
        kani::assume(len >= 1 && len <= 27);
        bytes[0] = ty;
        let mut rd = Rd::<W>::new(bytes, len);
        let reference = rfc_parse_fixed_frame(&mut rd);
        let mut input = bytes;
        let r = run_decoder::<$t>(&mut input, len, ty);
        assert!(r.is_some() == reference.is_some(), "C05/fixed_frames.ref/ok_iff_reference_ok");
        if let (Some((got, rest)), Some(want)) = (r, reference) {
            assert!(got.is_some(), "C05/fixed_frames.ref/variant_is_a_fixed_frame");
            assert!(is_ints(&got, want.ty, want.nints, want.ints), "C05/fixed_frames.ref/type_and_fields_eq_reference");
            if let Some(got) = got {
                assert!(eq8(&got.data, &want.data), "C05/fixed_frames.ref/data_eq_reference");
            }
            assert!(len - rest == rd.at, "C05/fixed_frames.ref/consumed_eq_reference");
            assert!(rest < len, "C05/fixed_frames.ref/progress");
        }
        kani::cover!(reference.is_some() && rd.at == len, "reach:exact_fit");
        kani::cover!(reference.is_some() && rd.at < len, "reach:trailing_bytes");
        reference.is_none()
    }};
}

// ---- 19.9 MAX_DATA ---------------------------------------------------------------------------------------
//@ harness props=C05 tier=quick level=full timeout=300
//@ fn MaxData::encode
//@ fn MaxData::decode_parameterized_mut
#[kani::proof]
#[kani::unwind(10)]
fn vq_c05_frame_max_data() {
    let a = any_int();
    let mut spec = Wire::<W>::new(kani::any());
    spec.max_data(a);
    let f = MaxData { maximum_data: v(a) };
    enc_obligations!(f, spec, "C05/max_data.enc/announced_len_eq_rfc_len", "C05/max_data.enc/len_eq_announced", "C05/max_data.enc/bytes_eq_rfc");
    let extra = any_extra(spec.n);
    let r = run_decoder::<MaxData>(&mut spec.b, spec.n + extra, T_MAX_DATA);
    assert!(r.is_some(), "C05/max_data.dec/accepts_rfc_bytes");
    if let Some((got, rest)) = r {
        assert!(is_ints(&got, T_MAX_DATA, 1, [a, 0, 0]), "C05/max_data.dec/value");
        assert!(rest == extra, "C05/max_data.dec/remainder");
    }
    kani::cover!(a == RFC_VARINT_MAX && extra == 3, "reach:max_value_with_trailing_bytes");
    kani::cover!(a == 0 && extra == 0, "reach:smallest_frame_exact_fit");
    kani::cover!(true, "reach:end");
}

//@ harness props=C05 tier=quick level=full timeout=300
//@ fn MaxData::encode
#[kani::proof]
#[kani::unwind(10)]
fn vq_c05_frame_max_data_exact() {
    let a = any_int();
    let f = MaxData { maximum_data: v(a) };
    exact_obligations!(f, "C05/max_data.enc/len_eq_announced_without_slack", "C05/max_data.enc/nothing_written_past_announced_len");
    kani::cover!(a == RFC_VARINT_MAX, "reach:max_value");
    kani::cover!(a == 0, "reach:zero");
    kani::cover!(true, "reach:end");
}

// ---- 19.12 DATA_BLOCKED ----------------------------------------------------------------------------------
//@ harness props=C05 tier=thorough level=full timeout=1500
//@ fn DataBlocked::encode
//@ fn DataBlocked::decode_parameterized_mut
#[kani::proof]
#[kani::unwind(10)]
fn vq_c05_frame_data_blocked() {
    let a = any_int();
    let mut spec = Wire::<W>::new(kani::any());
    spec.data_blocked(a);
    let f = DataBlocked { data_limit: v(a) };
    enc_obligations!(f, spec, "C05/data_blocked.enc/announced_len_eq_rfc_len", "C05/data_blocked.enc/len_eq_announced", "C05/data_blocked.enc/bytes_eq_rfc");
    let extra = any_extra(spec.n);
    let r = run_decoder::<DataBlocked>(&mut spec.b, spec.n + extra, T_DATA_BLOCKED);
    assert!(r.is_some(), "C05/data_blocked.dec/accepts_rfc_bytes");
    if let Some((got, rest)) = r {
        assert!(is_ints(&got, T_DATA_BLOCKED, 1, [a, 0, 0]), "C05/data_blocked.dec/value");
        assert!(rest == extra, "C05/data_blocked.dec/remainder");
    }
    kani::cover!(a == RFC_VARINT_MAX && extra == 3, "reach:max_value_with_trailing_bytes");
    kani::cover!(a == 0 && extra == 0, "reach:smallest_frame_exact_fit");
    kani::cover!(true, "reach:end");
}

//@ harness props=C05 tier=thorough level=full timeout=1500
//@ fn DataBlocked::encode
#[kani::proof]
#[kani::unwind(10)]
fn vq_c05_frame_data_blocked_exact() {
    let a = any_int();
    let f = DataBlocked { data_limit: v(a) };
    exact_obligations!(f, "C05/data_blocked.enc/len_eq_announced_without_slack", "C05/data_blocked.enc/nothing_written_past_announced_len");
    kani::cover!(a == RFC_VARINT_MAX, "reach:max_value");
    kani::cover!(a == 0, "reach:zero");
    kani::cover!(true, "reach:end");
}

// ---- 19.16 RETIRE_CONNECTION_ID --------------------------------------------------------------------------
//@ harness props=C05 tier=thorough level=full timeout=1500
//@ fn RetireConnectionId::encode
//@ fn RetireConnectionId::decode_parameterized_mut
#[kani::proof]
#[kani::unwind(10)]
fn vq_c05_frame_retire_connection_id() {
    let a = any_int();
    let mut spec = Wire::<W>::new(kani::any());
    spec.retire_connection_id(a);
    let f = RetireConnectionId { sequence_number: v(a) };
    enc_obligations!(f, spec, "C05/retire_connection_id.enc/announced_len_eq_rfc_len", "C05/retire_connection_id.enc/len_eq_announced", "C05/retire_connection_id.enc/bytes_eq_rfc");
    let extra = any_extra(spec.n);
    let r = run_decoder::<RetireConnectionId>(&mut spec.b, spec.n + extra, T_RETIRE_CONNECTION_ID);
    assert!(r.is_some(), "C05/retire_connection_id.dec/accepts_rfc_bytes");
    if let Some((got, rest)) = r {
        assert!(is_ints(&got, T_RETIRE_CONNECTION_ID, 1, [a, 0, 0]), "C05/retire_connection_id.dec/value");
        assert!(rest == extra, "C05/retire_connection_id.dec/remainder");
    }
    kani::cover!(a == RFC_VARINT_MAX && extra == 3, "reach:max_value_with_trailing_bytes");
    kani::cover!(a == 0 && extra == 0, "reach:smallest_frame_exact_fit");
    kani::cover!(true, "reach:end");
}

//@ harness props=C05 tier=thorough level=full timeout=1500
//@ fn RetireConnectionId::encode
#[kani::proof]
#[kani::unwind(10)]
fn vq_c05_frame_retire_connection_id_exact() {
    let a = any_int();
    let f = RetireConnectionId { sequence_number: v(a) };
    exact_obligations!(f, "C05/retire_connection_id.enc/len_eq_announced_without_slack", "C05/retire_connection_id.enc/nothing_written_past_announced_len");
    kani::cover!(a == RFC_VARINT_MAX, "reach:max_value");
    kani::cover!(a == 0, "reach:zero");
    kani::cover!(true, "reach:end");
}

// ---- 19.10 MAX_STREAM_DATA -------------------------------------------------------------------------------
//@ harness props=C05 tier=thorough level=full timeout=1500
//@ fn MaxStreamData::encode
//@ fn MaxStreamData::decode_parameterized_mut
#[kani::proof]
#[kani::unwind(10)]
fn vq_c05_frame_max_stream_data() {
    let a = any_int();
    let b = any_int();
    let mut spec = Wire::<W>::new(kani::any());
    spec.max_stream_data(a, b);
    let f = MaxStreamData { stream_id: v(a), maximum_stream_data: v(b) };
    enc_obligations!(f, spec, "C05/max_stream_data.enc/announced_len_eq_rfc_len", "C05/max_stream_data.enc/len_eq_announced", "C05/max_stream_data.enc/bytes_eq_rfc");
    let extra = any_extra(spec.n);
    let r = run_decoder::<MaxStreamData>(&mut spec.b, spec.n + extra, T_MAX_STREAM_DATA);
    assert!(r.is_some(), "C05/max_stream_data.dec/accepts_rfc_bytes");
    if let Some((got, rest)) = r {
        assert!(is_ints(&got, T_MAX_STREAM_DATA, 2, [a, b, 0]), "C05/max_stream_data.dec/value");
        assert!(rest == extra, "C05/max_stream_data.dec/remainder");
    }
    kani::cover!(a == RFC_VARINT_MAX && b == 0, "reach:field_order_distinguishable");
    kani::cover!(spec.n == 3 && extra == 0, "reach:smallest_frame_exact_fit");
    kani::cover!(true, "reach:end");
}

//@ harness props=C05 tier=thorough level=full timeout=1500
//@ fn MaxStreamData::encode
#[kani::proof]
#[kani::unwind(10)]
fn vq_c05_frame_max_stream_data_exact() {
    let a = any_int();
    let b = any_int();
    let f = MaxStreamData { stream_id: v(a), maximum_stream_data: v(b) };
    exact_obligations!(f, "C05/max_stream_data.enc/len_eq_announced_without_slack", "C05/max_stream_data.enc/nothing_written_past_announced_len");
    kani::cover!(a == RFC_VARINT_MAX, "reach:max_value");
    kani::cover!(a == 0, "reach:zero");
    kani::cover!(true, "reach:end");
}

// ---- 19.13 STREAM_DATA_BLOCKED ---------------------------------------------------------------------------
//@ harness props=C05 tier=thorough level=full timeout=1500
//@ fn StreamDataBlocked::encode
//@ fn StreamDataBlocked::decode_parameterized_mut
#[kani::proof]
#[kani::unwind(10)]
fn vq_c05_frame_stream_data_blocked() {
    let a = any_int();
    let b = any_int();
    let mut spec = Wire::<W>::new(kani::any());
    spec.stream_data_blocked(a, b);
    let f = StreamDataBlocked { stream_id: v(a), stream_data_limit: v(b) };
    enc_obligations!(f, spec, "C05/stream_data_blocked.enc/announced_len_eq_rfc_len", "C05/stream_data_blocked.enc/len_eq_announced", "C05/stream_data_blocked.enc/bytes_eq_rfc");
    let extra = any_extra(spec.n);
    let r = run_decoder::<StreamDataBlocked>(&mut spec.b, spec.n + extra, T_STREAM_DATA_BLOCKED);
    assert!(r.is_some(), "C05/stream_data_blocked.dec/accepts_rfc_bytes");
    if let Some((got, rest)) = r {
        assert!(is_ints(&got, T_STREAM_DATA_BLOCKED, 2, [a, b, 0]), "C05/stream_data_blocked.dec/value");
        assert!(rest == extra, "C05/stream_data_blocked.dec/remainder");
    }
    kani::cover!(a == RFC_VARINT_MAX && b == 0, "reach:field_order_distinguishable");
    kani::cover!(spec.n == 3 && extra == 0, "reach:smallest_frame_exact_fit");
    kani::cover!(true, "reach:end");
}

//@ harness props=C05 tier=thorough level=full timeout=1500
//@ fn StreamDataBlocked::encode
#[kani::proof]
#[kani::unwind(10)]
fn vq_c05_frame_stream_data_blocked_exact() {
    let a = any_int();
    let b = any_int();
    let f = StreamDataBlocked { stream_id: v(a), stream_data_limit: v(b) };
    exact_obligations!(f, "C05/stream_data_blocked.enc/len_eq_announced_without_slack", "C05/stream_data_blocked.enc/nothing_written_past_announced_len");
    kani::cover!(a == RFC_VARINT_MAX, "reach:max_value");
    kani::cover!(a == 0, "reach:zero");
    kani::cover!(true, "reach:end");
}

// ---- 19.5 STOP_SENDING -----------------------------------------------------------------------------------
//@ harness props=C05 tier=thorough level=full timeout=1500
//@ fn StopSending::encode
//@ fn StopSending::decode_parameterized_mut
#[kani::proof]
#[kani::unwind(10)]
fn vq_c05_frame_stop_sending() {
    let a = any_int();
    let b = any_int();
    let mut spec = Wire::<W>::new(kani::any());
    spec.stop_sending(a, b);
    let f = StopSending { stream_id: v(a), application_error_code: v(b) };
    enc_obligations!(f, spec, "C05/stop_sending.enc/announced_len_eq_rfc_len", "C05/stop_sending.enc/len_eq_announced", "C05/stop_sending.enc/bytes_eq_rfc");
    let extra = any_extra(spec.n);
    let r = run_decoder::<StopSending>(&mut spec.b, spec.n + extra, T_STOP_SENDING);
    assert!(r.is_some(), "C05/stop_sending.dec/accepts_rfc_bytes");
    if let Some((got, rest)) = r {
        assert!(is_ints(&got, T_STOP_SENDING, 2, [a, b, 0]), "C05/stop_sending.dec/value");
        assert!(rest == extra, "C05/stop_sending.dec/remainder");
    }
    kani::cover!(a == RFC_VARINT_MAX && b == 0, "reach:field_order_distinguishable");
    kani::cover!(spec.n == 3 && extra == 0, "reach:smallest_frame_exact_fit");
    kani::cover!(true, "reach:end");
}

//@ harness props=C05 tier=thorough level=full timeout=1500
//@ fn StopSending::encode
#[kani::proof]
#[kani::unwind(10)]
fn vq_c05_frame_stop_sending_exact() {
    let a = any_int();
    let b = any_int();
    let f = StopSending { stream_id: v(a), application_error_code: v(b) };
    exact_obligations!(f, "C05/stop_sending.enc/len_eq_announced_without_slack", "C05/stop_sending.enc/nothing_written_past_announced_len");
    kani::cover!(a == RFC_VARINT_MAX, "reach:max_value");
    kani::cover!(a == 0, "reach:zero");
    kani::cover!(true, "reach:end");
}

// ---- 19.4 RESET_STREAM -----------------------------------------------------------------------------------
//@ harness props=C05 tier=thorough level=full timeout=1500
//@ fn ResetStream::encode
//@ fn ResetStream::decode_parameterized_mut
#[kani::proof]
#[kani::unwind(10)]
#[kani::solver(kissat)]
fn vq_c05_frame_reset_stream() {
    let a = any_int();
    let b = any_int();
    let c = any_int();
    let mut spec = Wire::<W>::new(kani::any());
    spec.reset_stream(a, b, c);
    let f = ResetStream { stream_id: v(a), application_error_code: v(b), final_size: v(c) };
    enc_obligations!(f, spec, "C05/reset_stream.enc/announced_len_eq_rfc_len", "C05/reset_stream.enc/len_eq_announced", "C05/reset_stream.enc/bytes_eq_rfc");
    let extra = any_extra(spec.n);
    let r = run_decoder::<ResetStream>(&mut spec.b, spec.n + extra, T_RESET_STREAM);
    assert!(r.is_some(), "C05/reset_stream.dec/accepts_rfc_bytes");
    if let Some((got, rest)) = r {
        assert!(is_ints(&got, T_RESET_STREAM, 3, [a, b, c]), "C05/reset_stream.dec/value");
        assert!(rest == extra, "C05/reset_stream.dec/remainder");
    }
    kani::cover!(spec.n == 25 && extra == 3, "reach:largest_frame");
    kani::cover!(spec.n == 4 && extra == 0, "reach:smallest_frame_exact_fit");
    kani::cover!(a == 1 && b == 2 && c == 3, "reach:field_order_distinguishable");
    kani::cover!(true, "reach:end");
}

//@ harness props=C05 tier=thorough level=full timeout=1500
//@ fn ResetStream::encode
#[kani::proof]
#[kani::unwind(10)]
fn vq_c05_frame_reset_stream_exact() {
    let a = any_int();
    let b = any_int();
    let c = any_int();
    let f = ResetStream { stream_id: v(a), application_error_code: v(b), final_size: v(c) };
    exact_obligations!(f, "C05/reset_stream.enc/len_eq_announced_without_slack", "C05/reset_stream.enc/nothing_written_past_announced_len");
    kani::cover!(a == RFC_VARINT_MAX, "reach:max_value");
    kani::cover!(a == 0, "reach:zero");
    kani::cover!(true, "reach:end");
}

// ---- 19.11 MAX_STREAMS (0x12 bidirectional, 0x13 unidirectional) ----
//@ harness props=C05 tier=quick level=full timeout=300
//@ fn MaxStreams::encode
//@ fn MaxStreams::tag
//@ fn MaxStreams::decode_parameterized_mut
#[kani::proof]
#[kani::unwind(10)]
fn vq_c05_frame_max_streams() {
    let a = any_int();
    let uni: bool = kani::any();
    let mut spec = Wire::<W>::new(kani::any());
    spec.max_streams(uni, a);
    let ty = if uni { StreamType::Unidirectional } else { StreamType::Bidirectional };
    let f = MaxStreams { stream_type: ty, maximum_streams: v(a) };
    // the layout obligation holds for every representable value, also for those a sender must not use
    enc_obligations!(f, spec, "C05/max_streams.enc/announced_len_eq_rfc_len", "C05/max_streams.enc/len_eq_announced", "C05/max_streams.enc/bytes_eq_rfc");
    let extra = any_extra(spec.n);
    let r = if uni { run_decoder::<MaxStreams>(&mut spec.b, spec.n + extra, T_MAX_STREAMS_UNI) } else { run_decoder::<MaxStreams>(&mut spec.b, spec.n + extra, T_MAX_STREAMS_BIDI) };
    // 19.11 / 19.14: "This value cannot exceed 2^60 ... MUST be treated as a connection error of type FRAME_ENCODING_ERROR"
    assert!(r.is_some() == (a <= RFC_MAX_STREAMS_LIMIT), "C05/max_streams.dec/ok_iff_at_most_2_pow_60");
    if let Some((got, rest)) = r {
        assert!(is_ints(&got, if uni { T_MAX_STREAMS_UNI } else { T_MAX_STREAMS_BIDI }, 1, [a, 0, 0]), "C05/max_streams.dec/value_and_direction");
        assert!(rest == extra, "C05/max_streams.dec/remainder");
    }
    kani::cover!(uni && a == RFC_MAX_STREAMS_LIMIT, "reach:uni_at_limit");
    kani::cover!(!uni && a == RFC_MAX_STREAMS_LIMIT + 1, "reach:bidi_over_limit");
    kani::cover!(extra == 0, "reach:exact_fit");
    kani::cover!(true, "reach:end");
}

//@ harness props=C05 tier=thorough level=full timeout=1500
//@ fn MaxStreams::encode
#[kani::proof]
#[kani::unwind(10)]
fn vq_c05_frame_max_streams_exact() {
    let a = any_int();
    let uni: bool = kani::any();
    let ty = if uni { StreamType::Unidirectional } else { StreamType::Bidirectional };
    let f = MaxStreams { stream_type: ty, maximum_streams: v(a) };
    exact_obligations!(f, "C05/max_streams.enc/len_eq_announced_without_slack", "C05/max_streams.enc/nothing_written_past_announced_len");
    kani::cover!(uni && a == RFC_VARINT_MAX, "reach:uni_max_value");
    kani::cover!(!uni && a == 0, "reach:bidi_zero");
    kani::cover!(true, "reach:end");
}

// ---- 19.14 STREAMS_BLOCKED (0x16 bidirectional, 0x17 unidirectional) ----
//@ harness props=C05 tier=thorough level=full timeout=1500
//@ fn StreamsBlocked::encode
//@ fn StreamsBlocked::tag
//@ fn StreamsBlocked::decode_parameterized_mut
#[kani::proof]
#[kani::unwind(10)]
fn vq_c05_frame_streams_blocked() {
    let a = any_int();
    let uni: bool = kani::any();
    let mut spec = Wire::<W>::new(kani::any());
    spec.streams_blocked(uni, a);
    let ty = if uni { StreamType::Unidirectional } else { StreamType::Bidirectional };
    let f = StreamsBlocked { stream_type: ty, stream_limit: v(a) };
    // the layout obligation holds for every representable value, also for those a sender must not use
    enc_obligations!(f, spec, "C05/streams_blocked.enc/announced_len_eq_rfc_len", "C05/streams_blocked.enc/len_eq_announced", "C05/streams_blocked.enc/bytes_eq_rfc");
    let extra = any_extra(spec.n);
    let r = if uni { run_decoder::<StreamsBlocked>(&mut spec.b, spec.n + extra, T_STREAMS_BLOCKED_UNI) } else { run_decoder::<StreamsBlocked>(&mut spec.b, spec.n + extra, T_STREAMS_BLOCKED_BIDI) };
    // 19.11 / 19.14: "This value cannot exceed 2^60 ... MUST be treated as a connection error of type FRAME_ENCODING_ERROR"
    assert!(r.is_some() == (a <= RFC_MAX_STREAMS_LIMIT), "C05/streams_blocked.dec/ok_iff_at_most_2_pow_60");
    if let Some((got, rest)) = r {
        assert!(is_ints(&got, if uni { T_STREAMS_BLOCKED_UNI } else { T_STREAMS_BLOCKED_BIDI }, 1, [a, 0, 0]), "C05/streams_blocked.dec/value_and_direction");
        assert!(rest == extra, "C05/streams_blocked.dec/remainder");
    }
    kani::cover!(uni && a == RFC_MAX_STREAMS_LIMIT, "reach:uni_at_limit");
    kani::cover!(!uni && a == RFC_MAX_STREAMS_LIMIT + 1, "reach:bidi_over_limit");
    kani::cover!(extra == 0, "reach:exact_fit");
    kani::cover!(true, "reach:end");
}

//@ harness props=C05 tier=thorough level=full timeout=1500
//@ fn StreamsBlocked::encode
#[kani::proof]
#[kani::unwind(10)]
fn vq_c05_frame_streams_blocked_exact() {
    let a = any_int();
    let uni: bool = kani::any();
    let ty = if uni { StreamType::Unidirectional } else { StreamType::Bidirectional };
    let f = StreamsBlocked { stream_type: ty, stream_limit: v(a) };
    exact_obligations!(f, "C05/streams_blocked.enc/len_eq_announced_without_slack", "C05/streams_blocked.enc/nothing_written_past_announced_len");
    kani::cover!(uni && a == RFC_VARINT_MAX, "reach:uni_max_value");
    kani::cover!(!uni && a == 0, "reach:bidi_zero");
    kani::cover!(true, "reach:end");
}

// ---- 19.2 PING, 19.20 HANDSHAKE_DONE ----------------------------------------------------------------------
//@ harness props=C05 tier=quick level=full timeout=300
//@ fn Ping::encode
//@ fn Ping::decode_parameterized_mut
//@ fn HandshakeDone::encode
//@ fn HandshakeDone::decode_parameterized_mut
#[kani::proof]
#[kani::unwind(10)]
fn vq_c05_frame_ping_handshake_done() {
    let ping: bool = kani::any();
    let mut spec = Wire::<W>::new(kani::any());
    spec.u8(if ping { T_PING } else { T_HANDSHAKE_DONE });
    if ping {
        enc_obligations!(Ping, spec, "C05/ping.enc/announced_len_eq_rfc_len", "C05/ping.enc/len_eq_announced", "C05/ping.enc/bytes_eq_rfc");
        exact_obligations!(Ping, "C05/ping.enc/len_eq_announced_without_slack", "C05/ping.enc/nothing_written_past_announced_len");
    } else {
        enc_obligations!(HandshakeDone, spec, "C05/handshake_done.enc/announced_len_eq_rfc_len", "C05/handshake_done.enc/len_eq_announced", "C05/handshake_done.enc/bytes_eq_rfc");
        exact_obligations!(HandshakeDone, "C05/handshake_done.enc/len_eq_announced_without_slack", "C05/handshake_done.enc/nothing_written_past_announced_len");
    }
    let extra = any_extra(spec.n);
    let r = if ping { run_decoder::<Ping>(&mut spec.b, spec.n + extra, T_PING) } else { run_decoder::<HandshakeDone>(&mut spec.b, spec.n + extra, T_HANDSHAKE_DONE) };
    assert!(r.is_some(), "C05/ping_handshake_done.dec/accepts_rfc_bytes");
    if let Some((got, rest)) = r {
        if ping {
            assert!(is_ints(&got, T_PING, 0, [0, 0, 0]), "C05/ping.dec/variant");
        } else {
            assert!(is_ints(&got, T_HANDSHAKE_DONE, 0, [0, 0, 0]), "C05/handshake_done.dec/variant");
        }
        assert!(rest == extra, "C05/ping_handshake_done.dec/remainder");
    }
    kani::cover!(ping && extra == 3, "reach:ping");
    kani::cover!(!ping && extra == 0, "reach:handshake_done");
    kani::cover!(true, "reach:end");
}

// ---- 19.17 PATH_CHALLENGE, 19.18 PATH_RESPONSE ------------------------------------------------------------
//@ harness props=C05 tier=thorough level=full timeout=1500
//@ fn PathChallenge::encode
//@ fn PathChallenge::decode_parameterized_mut
//@ fn PathResponse::encode
//@ fn PathResponse::decode_parameterized_mut
#[kani::proof]
#[kani::unwind(10)]
fn vq_c05_frame_path_challenge_response() {
    let challenge: bool = kani::any();
    let data: [u8; 8] = kani::any();
    let mut spec = Wire::<W>::new(kani::any());
    if challenge {
        spec.path_challenge(&data);
        let f = PathChallenge { data: &data };
        enc_obligations!(f, spec, "C05/path_challenge.enc/announced_len_eq_rfc_len", "C05/path_challenge.enc/len_eq_announced", "C05/path_challenge.enc/bytes_eq_rfc");
        exact_obligations!(f, "C05/path_challenge.enc/len_eq_announced_without_slack", "C05/path_challenge.enc/nothing_written_past_announced_len");
    } else {
        spec.path_response(&data);
        let f = PathResponse { data: &data };
        enc_obligations!(f, spec, "C05/path_response.enc/announced_len_eq_rfc_len", "C05/path_response.enc/len_eq_announced", "C05/path_response.enc/bytes_eq_rfc");
        exact_obligations!(f, "C05/path_response.enc/len_eq_announced_without_slack", "C05/path_response.enc/nothing_written_past_announced_len");
    }
    let extra = any_extra(spec.n);
    let r = if challenge { run_decoder::<PathChallenge>(&mut spec.b, spec.n + extra, T_PATH_CHALLENGE) } else { run_decoder::<PathResponse>(&mut spec.b, spec.n + extra, T_PATH_RESPONSE) };
    assert!(r.is_some(), "C05/path_challenge_response.dec/accepts_rfc_bytes");
    if let Some((got, rest)) = r {
        let data_ok = matches!(got, Some(g) if eq8(&g.data, &data));
        if challenge {
            assert!(is_ints(&got, T_PATH_CHALLENGE, 0, [0, 0, 0]) && data_ok, "C05/path_challenge.dec/value");
        } else {
            assert!(is_ints(&got, T_PATH_RESPONSE, 0, [0, 0, 0]) && data_ok, "C05/path_response.dec/value");
        }
        assert!(rest == extra, "C05/path_challenge_response.dec/remainder");
    }
    kani::cover!(challenge && extra == 3, "reach:challenge");
    kani::cover!(!challenge && extra == 0, "reach:response");
    kani::cover!(true, "reach:end");
}

// ---- 19.1 PADDING -----------------------------------------------------------------------------------------
// `Padding { length }` is this implementation's run-length form of `length` consecutive PADDING frames
// (each a single 0x00 type byte).  The run makes the codec a loop => bounded.
//@ harness props=C05 tier=thorough level=bounded timeout=1500 bound="run of <= 12 PADDING frames, <= 3 trailing bytes"
//@ fn Padding::encode
//@ fn Padding::decode_parameterized_mut
#[kani::proof]
#[kani::unwind(18)]
#[kani::solver(kissat)]
fn vq_c05_frame_padding() {
    let length: usize = kani::any();
    kani::assume(length >= 1 && length <= 12);
    let fill: [u8; W] = kani::any();
    let mut spec = Wire::<W>::new(fill);
    // `length` PADDING frames back to back (written at literal positions)
    unroll!(16, i, {
        if i < length {
            spec.b[i] = T_PADDING;
        }
    });
    spec.n = length;
    let f = Padding { length };
    enc_obligations!(f, spec, "C05/padding.enc/announced_len_eq_rfc_len", "C05/padding.enc/len_eq_announced", "C05/padding.enc/bytes_eq_rfc");
    exact_obligations!(f, "C05/padding.enc/len_eq_announced_without_slack", "C05/padding.enc/nothing_written_past_announced_len");
    // decoding: the run ends at the first byte that is not a PADDING frame (or at the end of the packet)
    let extra = any_extra(spec.n);
    kani::assume(extra == 0 || spec.b[spec.n] != T_PADDING);
    let r = run_decoder::<Padding>(&mut spec.b, spec.n + extra, T_PADDING);
    assert!(r.is_some(), "C05/padding.dec/accepts_rfc_bytes");
    if let Some((got, rest)) = r {
        assert!(matches!(got, Some(g) if g.ty == T_PADDING && g.run == length), "C05/padding.dec/run_length");
        assert!(rest == extra, "C05/padding.dec/remainder_starts_at_first_non_padding_byte");
    }
    kani::cover!(length == 12 && extra == 3, "reach:longest_run_then_other_frame");
    kani::cover!(length == 1 && extra == 0, "reach:single_padding_at_end_of_packet");
    kani::cover!(true, "reach:end");
}

// ---- ref harnesses (thorough tier) ---------------------------------------------------------------------------
//@ harness props=C05 tier=thorough level=bounded timeout=1500 bound="arbitrary input of <= 27 bytes (largest fixed frame: 25) with type byte in {0x01,0x1e,0x10,0x14,0x19,0x12,0x13,0x16,0x17}"
//@ fn MaxData::decode_parameterized_mut
//@ fn DataBlocked::decode_parameterized_mut
//@ fn RetireConnectionId::decode_parameterized_mut
//@ fn MaxStreams::decode_parameterized_mut
//@ fn StreamsBlocked::decode_parameterized_mut
#[kani::proof]
#[kani::unwind(10)]
fn vq_c05_fixed_frames_ref_one_field() {
    let ty: u8 = kani::any();
    // one expansion per frame type: the decoder under test is selected statically (see run_decoder)
    let rejected = match ty {
        0x01 => ref_agreement!(Ping, 0x01, never_rejects),
        0x1e => ref_agreement!(HandshakeDone, 0x1e, never_rejects),
        0x10 => ref_agreement!(MaxData, 0x10),
        0x14 => ref_agreement!(DataBlocked, 0x14),
        0x19 => ref_agreement!(RetireConnectionId, 0x19),
        0x12 => ref_agreement!(MaxStreams, 0x12),
        0x13 => ref_agreement!(MaxStreams, 0x13),
        0x16 => ref_agreement!(StreamsBlocked, 0x16),
        0x17 => ref_agreement!(StreamsBlocked, 0x17),
        _ => {
            kani::assume(false);
            false
        }
    };
    kani::cover!(rejected, "reach:rejected");
    kani::cover!(ty == 0x13, "reach:max_streams_uni");
    kani::cover!(ty == 0x1e, "reach:handshake_done");
    kani::cover!(true, "reach:end");
}

//@ harness props=C05 tier=thorough level=bounded timeout=1500 bound="arbitrary input of <= 27 bytes (largest fixed frame: 25) with type byte in {0x04,0x05,0x11,0x15,0x1a,0x1b}"
//@ fn ResetStream::decode_parameterized_mut
//@ fn StopSending::decode_parameterized_mut
//@ fn MaxStreamData::decode_parameterized_mut
//@ fn StreamDataBlocked::decode_parameterized_mut
//@ fn PathChallenge::decode_parameterized_mut
//@ fn PathResponse::decode_parameterized_mut
#[kani::proof]
#[kani::unwind(10)]
fn vq_c05_fixed_frames_ref_multi_field() {
    let ty: u8 = kani::any();
    let rejected = match ty {
        0x04 => ref_agreement!(ResetStream, 0x04),
        0x05 => ref_agreement!(StopSending, 0x05),
        0x11 => ref_agreement!(MaxStreamData, 0x11),
        0x15 => ref_agreement!(StreamDataBlocked, 0x15),
        0x1a => ref_agreement!(PathChallenge, 0x1a),
        0x1b => ref_agreement!(PathResponse, 0x1b),
        _ => {
            kani::assume(false);
            false
        }
    };
    kani::cover!(rejected, "reach:rejected");
    kani::cover!(ty == 0x04, "reach:reset_stream");
    kani::cover!(ty == 0x1b, "reach:path_response");
    kani::cover!(true, "reach:end");
}
