//@ inject crate=core src=quic/s2n-quic-core/src/frame/mod.rs
// C05 contract harnesses for the fixed-shape frames of RFC 9000 section 19 (every field a full-domain
// variable-length integer or a fixed-width byte string).  Oracle: `_rfc9000_wire.rs`, an independent
// transcription of the RFC layouts (types and field order copied from the RFC, not from the code).
//
// Per frame:   enc  real encoder output == oracle bytes; length == encoding_size() announced beforehand;
//                   nothing written outside the capacity handed to the encoder
//              dec  real `FrameMut` decode entry point (frames! macro: tag dispatch + per-frame decoder)
//                   on the oracle bytes followed by arbitrary trailing bytes returns the value, the right
//                   variant and exactly the trailing bytes as remainder
// Per group:   ref  on *arbitrary* bytes the real decoder agrees with the reference parser (Ok/Err,
//                   variant, every field, consumed length), which includes truncated inputs and
//                   non-shortest integer encodings
use super::*;
use s2n_codec::{DecoderBufferMut, DecoderError, EncoderBuffer};
#[macro_use]
#[allow(dead_code, unused_macros)]
mod wire {
    include!("_rfc9000_wire.rs");
}
use crate::stream::StreamType;
use wire::*;

const W: usize = 32;

fn v(x: u64) -> VarInt {
    VarInt::new(x).unwrap()
}

/// any value of the 62-bit domain
fn any_int() -> u64 {
    let x: u64 = kani::any();
    kani::assume(x <= RFC_VARINT_MAX);
    x
}

struct Enc {
    announced: usize,
    used: usize,
    cap: usize,
    before: [u8; W],
    out: [u8; W],
}

/// Runs the real encoder on a buffer of symbolic capacity `announced <= cap <= W` (cap == announced: no slack
/// at all, any overrun trips the encoder's capacity assertion or a pointer check; larger cap: VarInt's 8-byte
/// wide write is taken for some or all fields).
fn run_encoder<T: EncoderValue>(f: &T) -> Enc {
    let announced = f.encoding_size();
    let before: [u8; W] = kani::any();
    let cap: usize = kani::any();
    kani::assume(cap <= W && announced <= cap);
    let mut out = before;
    let used = {
        let mut e = EncoderBuffer::new(&mut out[..cap]);
        e.encode(f);
        e.len()
    };
    Enc { announced, used, cap, before, out }
}

/// Runs the real frame decoder (the `frames!`-generated `decode_frame` tag dispatch) on buf[..len].
fn run_decoder<'a>(buf: &'a mut [u8; W], len: usize) -> Result<(FrameMut<'a>, usize), DecoderError> {
    let (frame, rest) = DecoderBufferMut::new(&mut buf[..len]).decode::<FrameMut>()?;
    Ok((frame, rest.len()))
}

fn eq8(a: &[u8; 8], b: &[u8; 8]) -> bool {
    let mut ok = true;
    unroll!(8, i, {
        if a[i] != b[i] {
            ok = false;
        }
    });
    ok
}

/// number of trailing bytes handed to the decoder behind the frame
fn any_extra(n: usize) -> usize {
    let extra: usize = kani::any();
    kani::assume(extra <= 3 && n + extra <= W);
    extra
}

macro_rules! enc_obligations {
    ($f:expr, $spec:expr, $announced:literal, $used:literal, $bytes:literal, $outside:literal) => {{
        let e = run_encoder(&$f);
        assert!(e.announced == $spec.n, $announced);
        assert!(e.used == e.announced, $used);
        assert!(prefix_eq32(&e.out, &$spec.b, $spec.n), $bytes);
        assert!(suffix_eq32(&e.out, &e.before, e.cap), $outside);
        kani::cover!(e.cap == e.announced, "reach:encoder_without_slack");
        kani::cover!(e.cap == W, "reach:encoder_with_slack");
    }};
}

// ---- 19.9 MAX_DATA ----------------------------------------------------------------------------------------
//@ harness props=C05 tier=quick level=full timeout=300
//@ fn MaxData::encode
//@ fn MaxData::decode_parameterized_mut
//@ fn FrameDecoder::decode_frame
#[kani::proof]
#[kani::unwind(10)]
fn vq_c05_frame_max_data() {
    let a = any_int();
    let mut spec = Wire::<W>::new(kani::any());
    spec.max_data(a);
    let f = MaxData { maximum_data: v(a) };
    enc_obligations!(f, spec, "C05/max_data.enc/announced_len_eq_rfc_len", "C05/max_data.enc/len_eq_announced",
        "C05/max_data.enc/bytes_eq_rfc", "C05/max_data.enc/nothing_written_outside_capacity");
    let extra = any_extra(spec.n);
    let mut input = spec.b;
    let r = run_decoder(&mut input, spec.n + extra);
    assert!(r.is_ok(), "C05/max_data.dec/accepts_rfc_bytes");
    if let Ok((frame, rest)) = r {
        assert!(matches!(frame, Frame::MaxData(g) if g == f), "C05/max_data.dec/value");
        assert!(rest == extra, "C05/max_data.dec/remainder");
    }
    kani::cover!(a == RFC_VARINT_MAX && extra == 3, "reach:max_value_with_trailing_bytes");
    kani::cover!(true, "reach:end");
}

// ---- 19.12 DATA_BLOCKED -----------------------------------------------------------------------------------
//@ harness props=C05 tier=quick level=full timeout=300
//@ fn DataBlocked::encode
//@ fn DataBlocked::decode_parameterized_mut
//@ fn FrameDecoder::decode_frame
#[kani::proof]
#[kani::unwind(10)]
fn vq_c05_frame_data_blocked() {
    let a = any_int();
    let mut spec = Wire::<W>::new(kani::any());
    spec.data_blocked(a);
    let f = DataBlocked { data_limit: v(a) };
    enc_obligations!(f, spec, "C05/data_blocked.enc/announced_len_eq_rfc_len", "C05/data_blocked.enc/len_eq_announced",
        "C05/data_blocked.enc/bytes_eq_rfc", "C05/data_blocked.enc/nothing_written_outside_capacity");
    let extra = any_extra(spec.n);
    let mut input = spec.b;
    let r = run_decoder(&mut input, spec.n + extra);
    assert!(r.is_ok(), "C05/data_blocked.dec/accepts_rfc_bytes");
    if let Ok((frame, rest)) = r {
        assert!(matches!(frame, Frame::DataBlocked(g) if g == f), "C05/data_blocked.dec/value");
        assert!(rest == extra, "C05/data_blocked.dec/remainder");
    }
    kani::cover!(a == RFC_VARINT_MAX && extra == 3, "reach:max_value_with_trailing_bytes");
    kani::cover!(true, "reach:end");
}

// ---- 19.16 RETIRE_CONNECTION_ID ---------------------------------------------------------------------------
//@ harness props=C05 tier=quick level=full timeout=300
//@ fn RetireConnectionId::encode
//@ fn RetireConnectionId::decode_parameterized_mut
//@ fn FrameDecoder::decode_frame
#[kani::proof]
#[kani::unwind(10)]
fn vq_c05_frame_retire_connection_id() {
    let a = any_int();
    let mut spec = Wire::<W>::new(kani::any());
    spec.retire_connection_id(a);
    let f = RetireConnectionId { sequence_number: v(a) };
    enc_obligations!(f, spec, "C05/retire_connection_id.enc/announced_len_eq_rfc_len", "C05/retire_connection_id.enc/len_eq_announced",
        "C05/retire_connection_id.enc/bytes_eq_rfc", "C05/retire_connection_id.enc/nothing_written_outside_capacity");
    let extra = any_extra(spec.n);
    let mut input = spec.b;
    let r = run_decoder(&mut input, spec.n + extra);
    assert!(r.is_ok(), "C05/retire_connection_id.dec/accepts_rfc_bytes");
    if let Ok((frame, rest)) = r {
        assert!(matches!(frame, Frame::RetireConnectionId(g) if g == f), "C05/retire_connection_id.dec/value");
        assert!(rest == extra, "C05/retire_connection_id.dec/remainder");
    }
    kani::cover!(a == RFC_VARINT_MAX && extra == 3, "reach:max_value_with_trailing_bytes");
    kani::cover!(true, "reach:end");
}

// ---- 19.10 MAX_STREAM_DATA --------------------------------------------------------------------------------
//@ harness props=C05 tier=quick level=full timeout=300
//@ fn MaxStreamData::encode
//@ fn MaxStreamData::decode_parameterized_mut
//@ fn FrameDecoder::decode_frame
#[kani::proof]
#[kani::unwind(10)]
fn vq_c05_frame_max_stream_data() {
    let a = any_int();
    let b = any_int();
    let mut spec = Wire::<W>::new(kani::any());
    spec.max_stream_data(a, b);
    let f = MaxStreamData { stream_id: v(a), maximum_stream_data: v(b) };
    enc_obligations!(f, spec, "C05/max_stream_data.enc/announced_len_eq_rfc_len", "C05/max_stream_data.enc/len_eq_announced",
        "C05/max_stream_data.enc/bytes_eq_rfc", "C05/max_stream_data.enc/nothing_written_outside_capacity");
    let extra = any_extra(spec.n);
    let mut input = spec.b;
    let r = run_decoder(&mut input, spec.n + extra);
    assert!(r.is_ok(), "C05/max_stream_data.dec/accepts_rfc_bytes");
    if let Ok((frame, rest)) = r {
        assert!(matches!(frame, Frame::MaxStreamData(g) if g == f), "C05/max_stream_data.dec/value");
        assert!(rest == extra, "C05/max_stream_data.dec/remainder");
    }
    kani::cover!(a == RFC_VARINT_MAX && b == 0, "reach:field_order_distinguishable");
    kani::cover!(true, "reach:end");
}

// ---- 19.13 STREAM_DATA_BLOCKED ----------------------------------------------------------------------------
//@ harness props=C05 tier=quick level=full timeout=300
//@ fn StreamDataBlocked::encode
//@ fn StreamDataBlocked::decode_parameterized_mut
//@ fn FrameDecoder::decode_frame
#[kani::proof]
#[kani::unwind(10)]
fn vq_c05_frame_stream_data_blocked() {
    let a = any_int();
    let b = any_int();
    let mut spec = Wire::<W>::new(kani::any());
    spec.stream_data_blocked(a, b);
    let f = StreamDataBlocked { stream_id: v(a), stream_data_limit: v(b) };
    enc_obligations!(f, spec, "C05/stream_data_blocked.enc/announced_len_eq_rfc_len", "C05/stream_data_blocked.enc/len_eq_announced",
        "C05/stream_data_blocked.enc/bytes_eq_rfc", "C05/stream_data_blocked.enc/nothing_written_outside_capacity");
    let extra = any_extra(spec.n);
    let mut input = spec.b;
    let r = run_decoder(&mut input, spec.n + extra);
    assert!(r.is_ok(), "C05/stream_data_blocked.dec/accepts_rfc_bytes");
    if let Ok((frame, rest)) = r {
        assert!(matches!(frame, Frame::StreamDataBlocked(g) if g == f), "C05/stream_data_blocked.dec/value");
        assert!(rest == extra, "C05/stream_data_blocked.dec/remainder");
    }
    kani::cover!(a == RFC_VARINT_MAX && b == 0, "reach:field_order_distinguishable");
    kani::cover!(true, "reach:end");
}

// ---- 19.5 STOP_SENDING ------------------------------------------------------------------------------------
//@ harness props=C05 tier=quick level=full timeout=300
//@ fn StopSending::encode
//@ fn StopSending::decode_parameterized_mut
//@ fn FrameDecoder::decode_frame
#[kani::proof]
#[kani::unwind(10)]
fn vq_c05_frame_stop_sending() {
    let a = any_int();
    let b = any_int();
    let mut spec = Wire::<W>::new(kani::any());
    spec.stop_sending(a, b);
    let f = StopSending { stream_id: v(a), application_error_code: v(b) };
    enc_obligations!(f, spec, "C05/stop_sending.enc/announced_len_eq_rfc_len", "C05/stop_sending.enc/len_eq_announced",
        "C05/stop_sending.enc/bytes_eq_rfc", "C05/stop_sending.enc/nothing_written_outside_capacity");
    let extra = any_extra(spec.n);
    let mut input = spec.b;
    let r = run_decoder(&mut input, spec.n + extra);
    assert!(r.is_ok(), "C05/stop_sending.dec/accepts_rfc_bytes");
    if let Ok((frame, rest)) = r {
        assert!(matches!(frame, Frame::StopSending(g) if g == f), "C05/stop_sending.dec/value");
        assert!(rest == extra, "C05/stop_sending.dec/remainder");
    }
    kani::cover!(a == RFC_VARINT_MAX && b == 0, "reach:field_order_distinguishable");
    kani::cover!(true, "reach:end");
}

// ---- 19.4 RESET_STREAM ------------------------------------------------------------------------------------
//@ harness props=C05 tier=quick level=full timeout=300
//@ fn ResetStream::encode
//@ fn ResetStream::decode_parameterized_mut
//@ fn FrameDecoder::decode_frame
#[kani::proof]
#[kani::unwind(10)]
fn vq_c05_frame_reset_stream() {
    let a = any_int();
    let b = any_int();
    let c = any_int();
    let mut spec = Wire::<W>::new(kani::any());
    spec.reset_stream(a, b, c);
    let f = ResetStream { stream_id: v(a), application_error_code: v(b), final_size: v(c) };
    enc_obligations!(f, spec, "C05/reset_stream.enc/announced_len_eq_rfc_len", "C05/reset_stream.enc/len_eq_announced",
        "C05/reset_stream.enc/bytes_eq_rfc", "C05/reset_stream.enc/nothing_written_outside_capacity");
    let extra = any_extra(spec.n);
    let mut input = spec.b;
    let r = run_decoder(&mut input, spec.n + extra);
    assert!(r.is_ok(), "C05/reset_stream.dec/accepts_rfc_bytes");
    if let Ok((frame, rest)) = r {
        assert!(matches!(frame, Frame::ResetStream(g) if g == f), "C05/reset_stream.dec/value");
        assert!(rest == extra, "C05/reset_stream.dec/remainder");
    }
    kani::cover!(spec.n == 25, "reach:largest_frame");
    kani::cover!(spec.n == 4 && extra == 3, "reach:smallest_frame");
    kani::cover!(true, "reach:end");
}

// ---- 19.11 MAX_STREAMS (0x12 bidirectional, 0x13 unidirectional) ----------------------------------------------
//@ harness props=C05 tier=quick level=full timeout=300
//@ fn MaxStreams::encode
//@ fn MaxStreams::tag
//@ fn MaxStreams::decode_parameterized_mut
//@ fn FrameDecoder::decode_frame
#[kani::proof]
#[kani::unwind(10)]
fn vq_c05_frame_max_streams() {
    let a = any_int();
    let uni: bool = kani::any();
    let mut spec = Wire::<W>::new(kani::any());
    spec.max_streams(uni, a);
    let ty = if uni { StreamType::Unidirectional } else { StreamType::Bidirectional };
    let f = MaxStreams { stream_type: ty, maximum_streams: v(a) };
    // the layout obligation holds for every representable value, also for those a sender must not use
    enc_obligations!(f, spec, "C05/max_streams.enc/announced_len_eq_rfc_len", "C05/max_streams.enc/len_eq_announced",
        "C05/max_streams.enc/bytes_eq_rfc", "C05/max_streams.enc/nothing_written_outside_capacity");
    let extra = any_extra(spec.n);
    let mut input = spec.b;
    let r = run_decoder(&mut input, spec.n + extra);
    // 19.11: a value above 2^60 MUST be treated as FRAME_ENCODING_ERROR
    assert!(r.is_ok() == (a <= RFC_MAX_STREAMS_LIMIT), "C05/max_streams.dec/ok_iff_at_most_2_pow_60");
    if let Ok((frame, rest)) = r {
        assert!(matches!(frame, Frame::MaxStreams(g) if g == f), "C05/max_streams.dec/value_and_direction");
        assert!(rest == extra, "C05/max_streams.dec/remainder");
    }
    kani::cover!(uni && a == RFC_MAX_STREAMS_LIMIT, "reach:uni_at_limit");
    kani::cover!(!uni && a == RFC_MAX_STREAMS_LIMIT + 1, "reach:bidi_over_limit");
    kani::cover!(true, "reach:end");
}

// ---- 19.14 STREAMS_BLOCKED (0x16 bidirectional, 0x17 unidirectional) ------------------------------------------
//@ harness props=C05 tier=quick level=full timeout=300
//@ fn StreamsBlocked::encode
//@ fn StreamsBlocked::tag
//@ fn StreamsBlocked::decode_parameterized_mut
//@ fn FrameDecoder::decode_frame
#[kani::proof]
#[kani::unwind(10)]
fn vq_c05_frame_streams_blocked() {
    let a = any_int();
    let uni: bool = kani::any();
    let mut spec = Wire::<W>::new(kani::any());
    spec.streams_blocked(uni, a);
    let ty = if uni { StreamType::Unidirectional } else { StreamType::Bidirectional };
    let f = StreamsBlocked { stream_type: ty, stream_limit: v(a) };
    enc_obligations!(f, spec, "C05/streams_blocked.enc/announced_len_eq_rfc_len", "C05/streams_blocked.enc/len_eq_announced",
        "C05/streams_blocked.enc/bytes_eq_rfc", "C05/streams_blocked.enc/nothing_written_outside_capacity");
    let extra = any_extra(spec.n);
    let mut input = spec.b;
    let r = run_decoder(&mut input, spec.n + extra);
    // 19.14: "This value cannot exceed 2^60 ... MUST be treated as ... FRAME_ENCODING_ERROR"
    assert!(r.is_ok() == (a <= RFC_MAX_STREAMS_LIMIT), "C05/streams_blocked.dec/ok_iff_at_most_2_pow_60");
    if let Ok((frame, rest)) = r {
        assert!(matches!(frame, Frame::StreamsBlocked(g) if g == f), "C05/streams_blocked.dec/value_and_direction");
        assert!(rest == extra, "C05/streams_blocked.dec/remainder");
    }
    kani::cover!(uni && a == RFC_MAX_STREAMS_LIMIT, "reach:uni_at_limit");
    kani::cover!(!uni && a == RFC_MAX_STREAMS_LIMIT + 1, "reach:bidi_over_limit");
    kani::cover!(true, "reach:end");
}

// ---- 19.2 PING, 19.20 HANDSHAKE_DONE ----------------------------------------------------------------------
//@ harness props=C05 tier=quick level=full timeout=300
//@ fn Ping::encode
//@ fn Ping::decode_parameterized_mut
//@ fn HandshakeDone::encode
//@ fn HandshakeDone::decode_parameterized_mut
//@ fn FrameDecoder::decode_frame
#[kani::proof]
#[kani::unwind(10)]
fn vq_c05_frame_ping_handshake_done() {
    let ping: bool = kani::any();
    let mut spec = Wire::<W>::new(kani::any());
    spec.u8(if ping { T_PING } else { T_HANDSHAKE_DONE });
    if ping {
        enc_obligations!(Ping, spec, "C05/ping.enc/announced_len_eq_rfc_len", "C05/ping.enc/len_eq_announced",
            "C05/ping.enc/bytes_eq_rfc", "C05/ping.enc/nothing_written_outside_capacity");
    } else {
        enc_obligations!(HandshakeDone, spec, "C05/handshake_done.enc/announced_len_eq_rfc_len", "C05/handshake_done.enc/len_eq_announced",
            "C05/handshake_done.enc/bytes_eq_rfc", "C05/handshake_done.enc/nothing_written_outside_capacity");
    }
    let extra = any_extra(spec.n);
    let mut input = spec.b;
    let r = run_decoder(&mut input, spec.n + extra);
    assert!(r.is_ok(), "C05/ping_handshake_done.dec/accepts_rfc_bytes");
    if let Ok((frame, rest)) = r {
        if ping {
            assert!(matches!(frame, Frame::Ping(_)), "C05/ping.dec/variant");
        } else {
            assert!(matches!(frame, Frame::HandshakeDone(_)), "C05/handshake_done.dec/variant");
        }
        assert!(rest == extra, "C05/ping_handshake_done.dec/remainder");
    }
    kani::cover!(ping && extra == 3, "reach:ping");
    kani::cover!(!ping && extra == 0, "reach:handshake_done");
    kani::cover!(true, "reach:end");
}

// ---- 19.17 PATH_CHALLENGE, 19.18 PATH_RESPONSE ------------------------------------------------------------
//@ harness props=C05 tier=quick level=full timeout=300
//@ fn PathChallenge::encode
//@ fn PathChallenge::decode_parameterized_mut
//@ fn PathResponse::encode
//@ fn PathResponse::decode_parameterized_mut
//@ fn FrameDecoder::decode_frame
#[kani::proof]
#[kani::unwind(10)]
fn vq_c05_frame_path_challenge_response() {
    let challenge: bool = kani::any();
    let data: [u8; 8] = kani::any();
    let mut spec = Wire::<W>::new(kani::any());
    if challenge {
        spec.path_challenge(&data);
        let f = PathChallenge { data: &data };
        enc_obligations!(f, spec, "C05/path_challenge.enc/announced_len_eq_rfc_len", "C05/path_challenge.enc/len_eq_announced",
            "C05/path_challenge.enc/bytes_eq_rfc", "C05/path_challenge.enc/nothing_written_outside_capacity");
    } else {
        spec.path_response(&data);
        let f = PathResponse { data: &data };
        enc_obligations!(f, spec, "C05/path_response.enc/announced_len_eq_rfc_len", "C05/path_response.enc/len_eq_announced",
            "C05/path_response.enc/bytes_eq_rfc", "C05/path_response.enc/nothing_written_outside_capacity");
    }
    let extra = any_extra(spec.n);
    let mut input = spec.b;
    let r = run_decoder(&mut input, spec.n + extra);
    assert!(r.is_ok(), "C05/path_challenge_response.dec/accepts_rfc_bytes");
    if let Ok((frame, rest)) = r {
        if challenge {
            assert!(matches!(frame, Frame::PathChallenge(g) if eq8(g.data, &data)), "C05/path_challenge.dec/value");
        } else {
            assert!(matches!(frame, Frame::PathResponse(g) if eq8(g.data, &data)), "C05/path_response.dec/value");
        }
        assert!(rest == extra, "C05/path_challenge_response.dec/remainder");
    }
    kani::cover!(challenge && extra == 3, "reach:challenge");
    kani::cover!(!challenge && extra == 0, "reach:response");
    kani::cover!(true, "reach:end");
}

// ---- 19.1 PADDING -----------------------------------------------------------------------------------------
// `Padding { length }` is this implementation's run-length form of `length` consecutive PADDING frames
// (each a single 0x00 type byte).  The run makes the codec a loop => bounded.
//@ harness props=C05 tier=quick level=bounded timeout=300 bound="run of <= 12 PADDING frames, <= 3 trailing bytes"
//@ fn Padding::encode
//@ fn Padding::decode_parameterized_mut
//@ fn FrameDecoder::decode_frame
#[kani::proof]
#[kani::unwind(18)]
fn vq_c05_frame_padding() {
    let length: usize = kani::any();
    kani::assume(length >= 1 && length <= 12);
    let fill: [u8; W] = kani::any();
    let mut spec = Wire::<W>::new(fill);
    unroll!(16, i, {
        if i < length {
            spec.u8(T_PADDING);
        }
    });
    let f = Padding { length };
    enc_obligations!(f, spec, "C05/padding.enc/announced_len_eq_rfc_len", "C05/padding.enc/len_eq_announced",
        "C05/padding.enc/bytes_eq_rfc", "C05/padding.enc/nothing_written_outside_capacity");
    // decoding: the run ends at the first byte that is not a PADDING frame (or at the end of the packet)
    let extra = any_extra(spec.n);
    kani::assume(extra == 0 || spec.b[spec.n] != T_PADDING);
    let mut input = spec.b;
    let r = run_decoder(&mut input, spec.n + extra);
    assert!(r.is_ok(), "C05/padding.dec/accepts_rfc_bytes");
    if let Ok((frame, rest)) = r {
        assert!(matches!(frame, Frame::Padding(g) if g.length == length), "C05/padding.dec/run_length");
        assert!(rest == extra, "C05/padding.dec/remainder_starts_at_first_non_padding_byte");
    }
    kani::cover!(length == 12 && extra == 3, "reach:longest_run_then_other_frame");
    kani::cover!(length == 1 && extra == 0, "reach:single_padding_at_end_of_packet");
    kani::cover!(true, "reach:end");
}

// ---- ref: agreement with the reference parser on arbitrary bytes ----------------------------------------------
/// canonical view of a decoded fixed-shape frame: (type byte, number of integer fields, fields, 8 data bytes)
struct View {
    ty: u8,
    nints: usize,
    ints: [u64; 3],
    data: [u8; 8],
}

/// abstraction of the real frame (None: not one of the fixed-shape frames)
fn view(frame: &FrameMut) -> Option<View> {
    let z = [0u8; 8];
    Some(match frame {
        Frame::Ping(_) => View { ty: T_PING, nints: 0, ints: [0, 0, 0], data: z },
        Frame::HandshakeDone(_) => View { ty: T_HANDSHAKE_DONE, nints: 0, ints: [0, 0, 0], data: z },
        Frame::ResetStream(f) => View {
            ty: T_RESET_STREAM,
            nints: 3,
            ints: [f.stream_id.as_u64(), f.application_error_code.as_u64(), f.final_size.as_u64()],
            data: z,
        },
        Frame::StopSending(f) => View { ty: T_STOP_SENDING, nints: 2, ints: [f.stream_id.as_u64(), f.application_error_code.as_u64(), 0], data: z },
        Frame::MaxData(f) => View { ty: T_MAX_DATA, nints: 1, ints: [f.maximum_data.as_u64(), 0, 0], data: z },
        Frame::MaxStreamData(f) => View { ty: T_MAX_STREAM_DATA, nints: 2, ints: [f.stream_id.as_u64(), f.maximum_stream_data.as_u64(), 0], data: z },
        Frame::MaxStreams(f) => View {
            ty: match f.stream_type {
                StreamType::Bidirectional => T_MAX_STREAMS_BIDI,
                StreamType::Unidirectional => T_MAX_STREAMS_UNI,
            },
            nints: 1,
            ints: [f.maximum_streams.as_u64(), 0, 0],
            data: z,
        },
        Frame::DataBlocked(f) => View { ty: T_DATA_BLOCKED, nints: 1, ints: [f.data_limit.as_u64(), 0, 0], data: z },
        Frame::StreamDataBlocked(f) => View { ty: T_STREAM_DATA_BLOCKED, nints: 2, ints: [f.stream_id.as_u64(), f.stream_data_limit.as_u64(), 0], data: z },
        Frame::StreamsBlocked(f) => View {
            ty: match f.stream_type {
                StreamType::Bidirectional => T_STREAMS_BLOCKED_BIDI,
                StreamType::Unidirectional => T_STREAMS_BLOCKED_UNI,
            },
            nints: 1,
            ints: [f.stream_limit.as_u64(), 0, 0],
            data: z,
        },
        Frame::RetireConnectionId(f) => View { ty: T_RETIRE_CONNECTION_ID, nints: 1, ints: [f.sequence_number.as_u64(), 0, 0], data: z },
        Frame::PathChallenge(f) => View { ty: T_PATH_CHALLENGE, nints: 0, ints: [0, 0, 0], data: *f.data },
        Frame::PathResponse(f) => View { ty: T_PATH_RESPONSE, nints: 0, ints: [0, 0, 0], data: *f.data },
        _ => return None,
    })
}

/// RFC 9000 section 19: how many variable-length integer fields follow the type of a fixed-shape frame
fn rfc_fixed_frame_int_fields(ty: u8) -> Option<usize> {
    match ty {
        0x01 => Some(0), // PING
        0x04 => Some(3), // RESET_STREAM: Stream ID, Application Protocol Error Code, Final Size
        0x05 => Some(2), // STOP_SENDING: Stream ID, Application Protocol Error Code
        0x10 => Some(1), // MAX_DATA: Maximum Data
        0x11 => Some(2), // MAX_STREAM_DATA: Stream ID, Maximum Stream Data
        0x12 | 0x13 => Some(1), // MAX_STREAMS: Maximum Streams
        0x14 => Some(1), // DATA_BLOCKED: Maximum Data
        0x15 => Some(2), // STREAM_DATA_BLOCKED: Stream ID, Maximum Stream Data
        0x16 | 0x17 => Some(1), // STREAMS_BLOCKED: Maximum Streams
        0x19 => Some(1), // RETIRE_CONNECTION_ID: Sequence Number
        0x1a | 0x1b => Some(0), // PATH_CHALLENGE / PATH_RESPONSE: Data (64)
        0x1e => Some(0), // HANDSHAKE_DONE
        _ => None,
    }
}

/// reference parser for one fixed-shape frame; None = frame encoding error (truncated, or a limit of 19.11/19.14)
fn rfc_parse_fixed_frame(rd: &mut Rd<W>) -> Option<View> {
    let ty = rd.u8()?;
    let nints = rfc_fixed_frame_int_fields(ty)?;
    let mut ints = [0u64; 3];
    if nints >= 1 {
        ints[0] = rd.varint()?;
    }
    if nints >= 2 {
        ints[1] = rd.varint()?;
    }
    if nints >= 3 {
        ints[2] = rd.varint()?;
    }
    let mut data = [0u8; 8];
    if ty == 0x1a || ty == 0x1b {
        let at = rd.skip(8)?;
        unroll!(8, i, {
            data[i] = rd.b[at + i];
        });
    }
    if (ty == 0x12 || ty == 0x13 || ty == 0x16 || ty == 0x17) && ints[0] > RFC_MAX_STREAMS_LIMIT {
        return None;
    }
    Some(View { ty, nints, ints, data })
}

fn ref_agreement(ty: u8) {
    let mut bytes: [u8; W] = kani::any();
    let len: usize = kani::any();
    kani::assume(len >= 1 && len <= 27);
    bytes[0] = ty;
    let mut rd = Rd::<W>::new(bytes, len);
    let reference = rfc_parse_fixed_frame(&mut rd);
    let mut input = bytes;
    let r = run_decoder(&mut input, len);
    assert!(r.is_ok() == reference.is_some(), "C05/fixed_frames.ref/ok_iff_reference_ok");
    if let (Ok((frame, rest)), Some(want)) = (r, reference) {
        let got = view(&frame);
        assert!(got.is_some(), "C05/fixed_frames.ref/variant_is_a_fixed_frame");
        if let Some(got) = got {
            assert!(got.ty == want.ty, "C05/fixed_frames.ref/variant_eq_reference_type");
            assert!(got.nints == want.nints, "C05/fixed_frames.ref/field_count");
            assert!(got.ints[0] == want.ints[0] && got.ints[1] == want.ints[1] && got.ints[2] == want.ints[2], "C05/fixed_frames.ref/fields_eq_reference");
            assert!(eq8(&got.data, &want.data), "C05/fixed_frames.ref/data_eq_reference");
        }
        assert!(len - rest == rd.at, "C05/fixed_frames.ref/consumed_eq_reference");
        assert!(rest < len, "C05/fixed_frames.ref/progress");
    }
    kani::cover!(reference.is_some() && rd.at == len, "reach:exact_fit");
    kani::cover!(reference.is_some() && rd.at < len, "reach:trailing_bytes");
    kani::cover!(reference.is_none(), "reach:rejected");
}

//@ harness props=C05 tier=quick level=bounded timeout=300 bound="arbitrary input of <= 27 bytes (largest fixed frame: 25) with type byte in {0x01,0x1e,0x10,0x14,0x19,0x12,0x13,0x16,0x17}"
//@ fn FrameDecoder::decode_frame
//@ fn MaxData::decode_parameterized_mut
//@ fn DataBlocked::decode_parameterized_mut
//@ fn RetireConnectionId::decode_parameterized_mut
//@ fn MaxStreams::decode_parameterized_mut
//@ fn StreamsBlocked::decode_parameterized_mut
#[kani::proof]
#[kani::unwind(10)]
fn vq_c05_fixed_frames_ref_one_field() {
    let ty: u8 = kani::any();
    kani::assume(ty == 0x01 || ty == 0x1e || ty == 0x10 || ty == 0x14 || ty == 0x19 || ty == 0x12 || ty == 0x13 || ty == 0x16 || ty == 0x17);
    ref_agreement(ty);
    kani::cover!(ty == 0x13, "reach:max_streams_uni");
    kani::cover!(ty == 0x1e, "reach:handshake_done");
    kani::cover!(true, "reach:end");
}

//@ harness props=C05 tier=quick level=bounded timeout=300 bound="arbitrary input of <= 27 bytes (largest fixed frame: 25) with type byte in {0x04,0x05,0x11,0x15,0x1a,0x1b}"
//@ fn FrameDecoder::decode_frame
//@ fn ResetStream::decode_parameterized_mut
//@ fn StopSending::decode_parameterized_mut
//@ fn MaxStreamData::decode_parameterized_mut
//@ fn StreamDataBlocked::decode_parameterized_mut
//@ fn PathChallenge::decode_parameterized_mut
//@ fn PathResponse::decode_parameterized_mut
#[kani::proof]
#[kani::unwind(10)]
fn vq_c05_fixed_frames_ref_multi_field() {
    let ty: u8 = kani::any();
    kani::assume(ty == 0x04 || ty == 0x05 || ty == 0x11 || ty == 0x15 || ty == 0x1a || ty == 0x1b);
    ref_agreement(ty);
    kani::cover!(ty == 0x04, "reach:reset_stream");
    kani::cover!(ty == 0x1b, "reach:path_response");
    kani::cover!(true, "reach:end");
}
