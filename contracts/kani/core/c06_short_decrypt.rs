//@ inject crate=core src=quic/s2n-quic-core/src/packet/short.rs
// Contract harness for EncryptedShort::decrypt -- property C06: "A datagram that was not produced by the peer holding
// the connection's keys ... never causes an established connection to be closed or reset".
// RFC 9000 17.3.1: "An endpoint MUST treat receipt of a packet that has a non-zero value for these [reserved] bits, AFTER
// REMOVING BOTH PACKET AND HEADER PROTECTION, as a connection error of type PROTOCOL_VIOLATION."  Hence: if the AEAD does
// not authenticate the packet, the only possible outcome is the droppable `ProcessingError::DecryptError`, whatever the
// first byte / reserved bits / packet number bytes are; a connection error can only be the verdict on an authentic packet.
// Byte patterns are outside the spec sub-language; the oracle is ordinary Rust here (AUTHORING "Spec predicate files").
use super::*;
#[allow(dead_code)]
mod key {
    include!("_c06_auth_key.rs");
}
use key::AuthKey;

const DCID_LEN: usize = 2;
const HEADER_LEN: usize = 1 + DCID_LEN; // first byte + destination connection id
const N: usize = HEADER_LEN + 4 + 2 + 16; // header, <= 4 packet number bytes, >= 2 payload bytes, 16 tag bytes

//@ harness props=C06 tier=quick level=bounded timeout=300 bound="short-header packet of 25 bytes: 2-byte DCID, packet number length 1..=4 (symbolic), payload 2..=5 bytes, 16-byte tag; every byte, the packet number and the key verdict symbolic"
//@ fn EncryptedShort::decrypt
//@ fn crypto::decrypt
// Kani has no `caller_location` intrinsic (`Location::caller()` fills the debug-only `source` field of connection::Error):
// replaced by the dummy of c15_timestamp_helper.rs (assumption A-location, same stub as the C15 decrypt harnesses)
#[kani::proof]
#[kani::stub(core::panic::Location::caller, crate::time::timestamp::aws_s2n_quic_verif_c15_timestamp_helper::VerifC15Location::caller)]
#[kani::unwind(27)]
fn vq_c06_short_decrypt_auth_before_reserved_bits() {
    let orig: [u8; N] = kani::any(); // attacker-chosen bytes, header protection already removed
    let mut buf = orig;
    let pn: u64 = kani::any();
    kani::assume(pn <= crate::varint::MAX_VARINT_VALUE);
    let packet_number = PacketNumberSpace::ApplicationData.new_packet_number(crate::varint::VarInt::new(pn).unwrap());
    // as ProtectedShort::unprotect leaves it: the length comes from the two low bits of the unmasked first byte
    let pn_len = PacketNumberSpace::ApplicationData.new_packet_number_len(orig[0]);
    let n = pn_len.bytesize();
    let dcid_range = {
        let whole = DecoderBufferMut::new(&mut buf);
        let (range, _) = whole.peek().skip(1).unwrap().skip_into_range(DCID_LEN, &whole).unwrap();
        range
    };
    let spin: bool = kani::any();
    let phase: bool = kani::any();
    let auth_ok: bool = kani::any();
    let key = AuthKey::new(auth_ok);
    let packet: EncryptedShort = Short {
        spin_bit: if spin { SpinBit::One } else { SpinBit::Zero },
        key_phase: if phase { KeyPhase::One } else { KeyPhase::Zero },
        destination_connection_id: dcid_range,
        packet_number,
        payload: EncryptedPayload::new(HEADER_LEN, pn_len, &mut buf),
    };

    let res = packet.decrypt(&key);

    let reserved_set = orig[0] & 0x18 != 0; // RFC 9000 17.3.1: Reserved Bits, mask 0x18
    // what kind of answer
    let (is_ok, is_decrypt_err, is_conn_err, is_protocol_violation) = match &res {
        Ok(_) => (true, false, false, false),
        Err(ProcessingError::DecryptError) => (false, true, false, false),
        Err(ProcessingError::ConnectionError(e)) => {
            let pv = match e {
                crate::connection::Error::Transport { code, .. } => *code == transport::Error::PROTOCOL_VIOLATION.code,
                _ => false,
            };
            (false, false, true, pv)
        }
        Err(_) => (false, false, false, false),
    };
    // C06: an unauthenticated packet can only be dropped
    assert!(auth_ok || is_decrypt_err, "C06/short.decrypt/unauthenticated_packet_is_only_ever_a_decrypt_error");
    assert!(auth_ok || !is_conn_err, "C06/short.decrypt/unauthenticated_packet_never_a_connection_error");
    // RFC 9000 17.3.1: on an authentic packet the reserved bits decide
    assert!(!auth_ok || is_conn_err == reserved_set, "C06/short.decrypt/authentic_packet_reserved_bits_iff_connection_error");
    assert!(!is_conn_err || is_protocol_violation, "C06/short.decrypt/reserved_bits_error_is_protocol_violation");
    assert!(is_ok == (auth_ok && !reserved_set), "C06/short.decrypt/ok_iff_authentic_and_reserved_bits_zero");
    // the AEAD was consulted exactly once, with the packet number as nonce and the whole header (first byte, DCID, packet
    // number bytes) as associated data, the rest -- including the tag -- as ciphertext (RFC 9001 5.3)
    assert!(key.calls.get() == 1, "C06/short.decrypt/aead_open_called_exactly_once");
    assert!(key.seen_nonce.get() == pn, "C06/short.decrypt/nonce_is_full_packet_number");
    assert!(key.seen_header_len.get() == HEADER_LEN + n && key.seen_first_byte.get() == orig[0], "C06/short.decrypt/associated_data_is_header_through_packet_number");
    assert!(key.seen_payload_len.get() == N - HEADER_LEN - n, "C06/short.decrypt/ciphertext_is_rest_including_tag");
    // result of a successful open: fields carried over, DCID and payload are the right byte ranges, tag stripped
    let mut fields_ok = true;
    if let Ok(clear) = &res {
        fields_ok &= clear.packet_number == packet_number;
        fields_ok &= (clear.spin_bit == SpinBit::One) == spin;
        fields_ok &= (clear.key_phase == KeyPhase::One) == phase;
        fields_ok &= clear.destination_connection_id.len() == DCID_LEN
            && clear.destination_connection_id[0] == orig[1]
            && clear.destination_connection_id[1] == orig[2];
        let p = clear.payload.peek().into_less_safe_slice();
        fields_ok &= p.len() == N - HEADER_LEN - n - 16;
        let mut i = 0;
        while i < N {
            if i < p.len() {
                fields_ok &= p[i] == orig[HEADER_LEN + n + i];
            }
            i += 1;
        }
    }
    assert!(fields_ok, "C06/short.decrypt/cleartext_fields_are_the_packet_fields");
    kani::cover!(!auth_ok && reserved_set, "reach:forged_with_reserved_bits");
    kani::cover!(!auth_ok && !reserved_set, "reach:forged_plain");
    kani::cover!(auth_ok && reserved_set, "reach:authentic_with_reserved_bits");
    kani::cover!(is_ok && n == 1, "reach:ok_pn1");
    kani::cover!(is_ok && n == 4, "reach:ok_pn4");
    kani::cover!(true, "reach:end");
}
