//@ inject crate=core src=quic/s2n-quic-core/src/packet/long.rs
// C05 contract harnesses for the s2n-codec primitives every QUIC codec is built from (common/s2n-codec:
// DecoderBuffer::{decode, decode_slice, skip, skip_with_len_prefix}, EncoderBuffer, u24/u48).
// They are hosted in the core crate (which builds s2n-codec as a dependency; the functions called are the
// real ones of common/s2n-codec).  Oracle: network byte order (RFC 9000 section 1.3 "all numeric values are
// encoded in network byte order") written out with shifts; nothing of s2n-codec or byteorder is used by it.
use s2n_codec::{u24, u48, DecoderBuffer, Encoder, EncoderBuffer, EncoderValue};
#[macro_use]
#[allow(dead_code, unused_macros)]
mod wire {
    include!("_rfc9000_wire.rs");
}

/// big-endian value of bytes[0..k]
fn be(bytes: &[u8; 12], k: usize) -> u64 {
    let mut v: u64 = 0;
    unroll!(8, i, {
        if i < k {
            v = (v << 8) | bytes[i] as u64;
        }
    });
    v
}

//@ harness props=C05 tier=thorough level=full timeout=900
//@ fn DecoderBuffer::decode
//@ fn DecoderBuffer::decode_slice
//@ fn DecoderBuffer::skip
//@ fn DecoderBuffer::skip_with_len_prefix
//@ fn DecoderBuffer::ensure_len
#[kani::proof]
#[kani::unwind(4)]
fn vq_c05_codec_decoder_primitives() {
    // every input of 0..=12 bytes
    let bytes: [u8; 12] = kani::any();
    let len: usize = kani::any();
    kani::assume(len <= 12);
    let count: usize = kani::any();

    // decode_slice / skip: Ok iff count <= len, never reads or hands out anything behind the buffer
    let r = DecoderBuffer::new(&bytes[..len]).decode_slice(count);
    assert!(r.is_ok() == (count <= len), "C05/codec.decode_slice/ok_iff_enough_bytes");
    if let Ok((head, rest)) = r {
        assert!(head.len() == count && rest.len() == len - count, "C05/codec.decode_slice/split_at_count");
        let h = head.into_less_safe_slice();
        let t = rest.into_less_safe_slice();
        assert!(count == 0 || (h[0] == bytes[0] && h[count - 1] == bytes[count - 1]), "C05/codec.decode_slice/head_is_prefix");
        assert!(count == len || (t[0] == bytes[count] && t[len - count - 1] == bytes[len - 1]), "C05/codec.decode_slice/rest_is_suffix");
    }
    let r = DecoderBuffer::new(&bytes[..len]).skip(count);
    assert!(r.is_ok() == (count <= len), "C05/codec.skip/ok_iff_enough_bytes");
    if let Ok(rest) = r {
        assert!(rest.len() == len - count, "C05/codec.skip/rest_len");
    }
    // skip_with_len_prefix::<u8>
    let r = DecoderBuffer::new(&bytes[..len]).skip_with_len_prefix::<u8>();
    assert!(r.is_ok() == (len >= 1 && bytes[0] as usize <= len - 1), "C05/codec.skip_with_len_prefix/ok_iff_prefix_and_body_present");
    if let Ok(rest) = r {
        assert!(rest.len() == len - 1 - bytes[0] as usize, "C05/codec.skip_with_len_prefix/rest_len");
    }

    // fixed-width integers, network byte order
    let r = DecoderBuffer::new(&bytes[..len]).decode::<u8>();
    assert!(r.is_ok() == (len >= 1), "C05/codec.decode_u8/ok_iff_enough_bytes");
    if let Ok((v, rest)) = r {
        assert!(v as u64 == be(&bytes, 1) && rest.len() == len - 1, "C05/codec.decode_u8/value_and_rest");
    }
    let r = DecoderBuffer::new(&bytes[..len]).decode::<u16>();
    assert!(r.is_ok() == (len >= 2), "C05/codec.decode_u16/ok_iff_enough_bytes");
    if let Ok((v, rest)) = r {
        assert!(v as u64 == be(&bytes, 2) && rest.len() == len - 2, "C05/codec.decode_u16/big_endian_value_and_rest");
    }
    let r = DecoderBuffer::new(&bytes[..len]).decode::<u24>();
    assert!(r.is_ok() == (len >= 3), "C05/codec.decode_u24/ok_iff_enough_bytes");
    if let Ok((v, rest)) = r {
        assert!(u32::from(v) as u64 == be(&bytes, 3) && rest.len() == len - 3, "C05/codec.decode_u24/big_endian_value_and_rest");
    }
    let r = DecoderBuffer::new(&bytes[..len]).decode::<u32>();
    assert!(r.is_ok() == (len >= 4), "C05/codec.decode_u32/ok_iff_enough_bytes");
    if let Ok((v, rest)) = r {
        assert!(v as u64 == be(&bytes, 4) && rest.len() == len - 4, "C05/codec.decode_u32/big_endian_value_and_rest");
    }
    let r = DecoderBuffer::new(&bytes[..len]).decode::<u48>();
    assert!(r.is_ok() == (len >= 6), "C05/codec.decode_u48/ok_iff_enough_bytes");
    if let Ok((v, rest)) = r {
        assert!(u64::from(v) == be(&bytes, 6) && rest.len() == len - 6, "C05/codec.decode_u48/big_endian_value_and_rest");
    }
    let r = DecoderBuffer::new(&bytes[..len]).decode::<u64>();
    assert!(r.is_ok() == (len >= 8), "C05/codec.decode_u64/ok_iff_enough_bytes");
    if let Ok((v, rest)) = r {
        assert!(v == be(&bytes, 8) && rest.len() == len - 8, "C05/codec.decode_u64/big_endian_value_and_rest");
    }
    kani::cover!(len == 0, "reach:empty");
    kani::cover!(len == 12 && count == 12, "reach:whole_buffer");
    kani::cover!(count > len, "reach:count_too_large");
    kani::cover!(count == usize::MAX, "reach:count_usize_max");
    kani::cover!(len == 7, "reach:too_short_for_u64");
    kani::cover!(true, "reach:end");
}

//@ harness props=C05 tier=thorough level=full timeout=900
//@ fn EncoderBuffer::write_sized
//@ fn EncoderBuffer::write_slice
//@ fn EncoderBuffer::write_repeated
//@ fn EncoderValue::encode
//@ fn EncoderValue::encode_with_len_prefix
#[kani::proof]
#[kani::unwind(6)]
fn vq_c05_codec_encoder_primitives() {
    let before: [u8; 16] = kani::any();
    let pos: usize = kani::any();
    kani::assume(pos <= 4);
    let x: u64 = kani::any();
    let which: u8 = kani::any();
    kani::assume(which <= 7);
    // width of the value written and its announced size
    let (k, announced) = match which {
        0 => (1, (x as u8).encoding_size()),
        1 => (2, (x as u16).encoding_size()),
        2 => (3, u24::new_truncated(x as u32).encoding_size()),
        3 => (4, (x as u32).encoding_size()),
        4 => (6, u48::new_truncated(x).encoding_size()),
        5 => (8, x.encoding_size()),
        6 => (4, 4), // 4 raw bytes through write_slice
        _ => (3, 3), // 3 repeated bytes through write_repeated
    };
    assert!(announced == k, "C05/codec.enc/announced_size_is_width");
    // capacity exactly up to the end of the value: an overrun trips the capacity assertion
    let cap = pos + k;
    let mut out = before;
    let raw = [(x >> 24) as u8, (x >> 16) as u8, (x >> 8) as u8, x as u8];
    let used = {
        let mut e = EncoderBuffer::new(&mut out[..cap]);
        e.set_position(pos);
        match which {
            0 => e.encode(&(x as u8)),
            1 => e.encode(&(x as u16)),
            2 => e.encode(&u24::new_truncated(x as u32)),
            3 => e.encode(&(x as u32)),
            4 => e.encode(&u48::new_truncated(x)),
            5 => e.encode(&x),
            6 => e.write_slice(&raw),
            _ => e.write_repeated(3, x as u8),
        }
        e.len() - pos
    };
    assert!(used == k, "C05/codec.enc/position_advanced_by_width");
    let mut bytes_ok = true;
    let mut outside_ok = true;
    unroll!(16, i, {
        if i >= pos && i < pos + k {
            let j = i - pos;
            let want = if which == 7 { x as u8 } else { (x >> (8 * (k - 1 - j))) as u8 };
            if out[i] != want {
                bytes_ok = false;
            }
        } else if out[i] != before[i] {
            outside_ok = false;
        }
    });
    assert!(bytes_ok, "C05/codec.enc/bytes_are_network_byte_order");
    assert!(outside_ok, "C05/codec.enc/nothing_else_written");
    kani::cover!(which == 2 && x > 0xff_ffff, "reach:u24_truncated_value");
    kani::cover!(which == 5 && pos == 4, "reach:u64_at_offset");
    kani::cover!(which == 6, "reach:write_slice");
    kani::cover!(which == 7, "reach:write_repeated");
    kani::cover!(true, "reach:end");
}

//@ harness props=C05 tier=thorough level=bounded timeout=900 bound="length-prefixed slice of <= 4 bytes (each length a literal shape), u8 length prefix"
//@ fn EncoderValue::encode_with_len_prefix
//@ fn DecoderBuffer::decode_slice_with_len_prefix
#[kani::proof]
#[kani::unwind(6)]
fn vq_c05_codec_len_prefix() {
    let data: [u8; 4] = kani::any();
    let before: [u8; 8] = kani::any();
    let shape: u8 = kani::any();
    kani::assume(shape <= 4);
    let n = shape as usize;
    let mut out = before;
    let used = {
        let mut e = EncoderBuffer::new(&mut out[..n + 1]);
        match shape {
            0 => e.encode_with_len_prefix::<u8, _>(&&data[..0]),
            1 => e.encode_with_len_prefix::<u8, _>(&&data[..1]),
            2 => e.encode_with_len_prefix::<u8, _>(&&data[..2]),
            3 => e.encode_with_len_prefix::<u8, _>(&&data[..3]),
            _ => e.encode_with_len_prefix::<u8, _>(&&data[..4]),
        }
        e.len()
    };
    assert!(used == n + 1, "C05/codec.len_prefix.enc/len_is_prefix_plus_body");
    assert!(out[0] == shape, "C05/codec.len_prefix.enc/prefix_is_body_len");
    let mut ok = true;
    unroll!(4, i, {
        if i < n && out[1 + i] != data[i] {
            ok = false;
        }
    });
    unroll!(8, i, {
        if i > n && out[i] != before[i] {
            ok = false;
        }
    });
    assert!(ok, "C05/codec.len_prefix.enc/body_follows_prefix_nothing_else_written");
    let r = DecoderBuffer::new(&out[..]).decode_slice_with_len_prefix::<u8>();
    assert!(r.is_ok(), "C05/codec.len_prefix.dec/accepts");
    if let Ok((body, rest)) = r {
        assert!(body.len() == n && rest.len() == 8 - 1 - n, "C05/codec.len_prefix.dec/body_and_rest_len");
    }
    kani::cover!(shape == 0, "reach:empty_body");
    kani::cover!(shape == 4, "reach:longest_body");
    kani::cover!(true, "reach:end");
}
