//@ inject crate=core src=quic/s2n-quic-core/src/recovery/cubic.rs
// Contract harnesses for CubicCongestionController / Cubic (property C10, RFC 9002 section 7, RFC 8312).
// One harness per CongestionController trait method, from an ARBITRARY controller state satisfying the
// representation invariant `cc_inv` below.  The window arithmetic is f32 and is verified bit-precisely;
// the f32 oracles are ordinary Rust in this file (the spec sub-language has no floats), the integer
// in-flight predicates come from contracts/spec/recovery.rs (shared with the C09 history lemma).
//
// Assumptions (listed in the evidence): A-libm (cbrtf is clib/cbrtf.c: finite, sign preserving,
// |r| <= |x| + 1), A-env (HybridSlowStart::use_hystart_parameter() is an arbitrary bool).
use super::*;
#[allow(dead_code, unused_variables)]
mod spec {
    include!("../../spec/recovery.rs");
}
use spec::*;

const TWO_POW_32: f32 = 4294967296.0;

/// A-env: the environment variable behind HyStart++ may or may not be set
fn any_hystart() -> bool {
    kani::any()
}

/// harness-side event sink (the real one forwards to the event subscriber)
struct Sink {
    slow_start_exits: u32,
}
impl Publisher for Sink {
    fn on_slow_start_exited(&mut self, _cause: SlowStartExitCause, _congestion_window: u32) {
        self.slow_start_exits += 1;
    }
    fn on_delivery_rate_sampled(&mut self, _rate_sample: crate::recovery::bandwidth::RateSample) {}
    fn on_pacing_rate_updated(
        &mut self,
        _pacing_rate: crate::recovery::bandwidth::Bandwidth,
        _burst_size: u32,
        _pacing_gain: num_rational::Ratio<u64>,
    ) {
    }
    fn on_bbr_state_changed(&mut self, _state: crate::event::builder::BbrState) {}
}

struct NoRandom;
impl random::Generator for NoRandom {
    fn public_random_fill(&mut self, _dest: &mut [u8]) {}
    fn private_random_fill(&mut self, _dest: &mut [u8]) {}
}

/// three concrete instants t(0) < t(1) < t(2); a symbolic index picks one.  The controller only
/// *compares* timestamps outside congestion avoidance, so this covers every ordering of up to three
/// instants without any symbolic Duration arithmetic.
fn t(i: u8) -> Timestamp {
    unsafe { Timestamp::from_duration(Duration::from_micros(1_000_000 + 250_000 * (i % 3) as u64)) }
}
fn any_t() -> Timestamp {
    t(kani::any())
}

fn any_f32() -> f32 {
    f32::from_bits(kani::any::<u32>())
}

#[derive(Clone, Copy, PartialEq, Eq)]
enum Kind {
    SlowStart,
    RecoveryIdle,
    RecoveryRequiresTransmission,
    CongestionAvoidance,
}
fn kind(cc: &CubicCongestionController) -> Kind {
    match cc.state {
        SlowStart => Kind::SlowStart,
        Recovery(_, Idle) => Kind::RecoveryIdle,
        Recovery(_, RequiresTransmission) => Kind::RecoveryRequiresTransmission,
        CongestionAvoidance(_) => Kind::CongestionAvoidance,
    }
}
fn recovery_start(cc: &CubicCongestionController) -> Option<Timestamp> {
    match cc.state {
        Recovery(s, _) => Some(s),
        _ => None,
    }
}

/// Representation invariant of the controller (what every mutator must re-establish):
///   * max_datagram_size in [1200, 9000] and equal in the controller, Cubic and HybridSlowStart copies
///     that the controller keeps in step (cubic.max_datagram_size),
///   * the window is a finite f32 in [2 * mds, 2^32): `congestion_window() as u32` is exact,
///   * the slow start threshold is not NaN and at least 2 * mds is not required (any value).
fn cc_inv(cc: &CubicCongestionController) -> bool {
    let mds = cc.max_datagram_size;
    mds >= 1200
        && mds <= 9000
        && cc.cubic.max_datagram_size == mds
        && cc.congestion_window >= 2.0 * mds as f32
        && cc.congestion_window < TWO_POW_32
}

/// Arbitrary controller satisfying cc_inv (the only code touching private fields).
/// `ca` = whether the CongestionAvoidance state shape is included (its on_ack branch reaches
/// powi/mul_add and Duration arithmetic and has a harness of its own).
fn any_cc(ca: bool, full: bool) -> CubicCongestionController {
    let mds: u16 = kani::any();
    kani::assume(mds >= 1200 && mds <= 9000);
    any_cc_mds(mds, ca, full)
}
fn any_cc_mds(mds: u16, ca: bool, full: bool) -> CubicCongestionController {
    let mut cc = CubicCongestionController::new(mds, Default::default());
    let cwnd = any_window(mds, full);
    cc.congestion_window = cwnd;
    cc.bytes_in_flight = Counter::new(kani::any());
    cc.bytes_in_flight_hi = Counter::new(kani::any());
    let st: u8 = kani::any();
    cc.state = match st % 4 {
        0 => SlowStart,
        1 => Recovery(any_t(), Idle),
        2 => Recovery(any_t(), RequiresTransmission),
        _ => {
            kani::assume(ca);
            State::congestion_avoidance(any_t())
        }
    };
    cc.cubic.w_max = any_w(full);
    cc.cubic.w_last_max = any_w(full);
    let thr = if full { any_f32() } else if kani::any() { f32::MAX } else { kani::any::<u32>() as f32 };
    kani::assume(thr >= 0.0); // not NaN; f32::MAX = "no threshold found yet"
    cc.slow_start.threshold = thr;
    cc.under_utilized = kani::any();
    cc.time_of_last_sent_packet = if kani::any() { Some(any_t()) } else { None };
    cc
}

/// window domain: `full` = every f32 in [2 * mds, 2^32) (fractional windows arise from * 0.7);
/// otherwise the bounded stand-in of the quick tier: whole bytes in [2 * mds, 2^30]
fn any_window(mds: u16, full: bool) -> f32 {
    if full {
        let cwnd = any_f32();
        kani::assume(cwnd >= 2.0 * mds as f32 && cwnd < TWO_POW_32);
        cwnd
    } else {
        let cwnd: u32 = kani::any();
        kani::assume(cwnd >= 2 * mds as u32 && cwnd <= 1 << 30);
        cwnd as f32
    }
}
/// W_max / W_last_max domain (packets): `full` = every f32 in [0, 2^32]; otherwise whole packets < 2^16
fn any_w(full: bool) -> f32 {
    if full {
        let w = any_f32();
        kani::assume(w >= 0.0 && w <= TWO_POW_32);
        w
    } else {
        kani::any::<u16>() as f32
    }
}

fn min_window(cc: &CubicCongestionController) -> f32 {
    2.0 * cc.max_datagram_size as f32
}

/// obligations common to every method: floor, window representable (no overflow / saturation of
/// `congestion_window()`), invariant
macro_rules! common_post {
    ($cc:expr, $floor:literal, $noovf:literal, $inv:literal) => {
        assert!($cc.congestion_window >= 2.0 * $cc.max_datagram_size as f32, $floor);
        assert!(
            $cc.congestion_window < TWO_POW_32 && $cc.congestion_window() as f32 <= $cc.congestion_window
                && $cc.congestion_window - ($cc.congestion_window() as f32) < 1.0,
            $noovf
        );
        assert!(cc_inv(&$cc), $inv);
    };
}

// ---------------------------------------------------------------------------------------------------
//@ harness props=C10 tier=quick level=bounded timeout=600 flags=cbrtf bound="window: whole bytes in [2*mds, 2^30]; W_max, W_last_max: whole packets < 2^16"
//@ fn Cubic::multiplicative_decrease
#[kani::proof]
#[kani::unwind(3)]
#[kani::stub(crate::recovery::hybrid_slow_start::HybridSlowStart::use_hystart_parameter, any_hystart)]
fn vq_c10_cubic_multiplicative_decrease_bounded() {
    // obligations of the shared body `vq_c10_cubic_multiplicative_decrease_body` (listed here for the registry):
    //   "C10/cubic.minimum_window/is_two_datagrams"
    //   "C10/cubic.multiplicative_decrease/floor_two_datagrams"
    //   "C10/cubic.multiplicative_decrease/never_increases"
    //   "C10/cubic.multiplicative_decrease/is_max_of_beta_cwnd_and_floor"
    //   "C10/cubic.multiplicative_decrease/w_max_at_least_two_packets"
    //   "C10/cubic.multiplicative_decrease/frame_mds"
    vq_c10_cubic_multiplicative_decrease_body(false);
}

//@ harness props=C10 tier=thorough level=full timeout=1800 flags=cbrtf
//@ fn Cubic::multiplicative_decrease
#[kani::proof]
#[kani::unwind(3)]
#[kani::stub(crate::recovery::hybrid_slow_start::HybridSlowStart::use_hystart_parameter, any_hystart)]
fn vq_c10_cubic_multiplicative_decrease_full() {
    vq_c10_cubic_multiplicative_decrease_body(true);
}

fn vq_c10_cubic_multiplicative_decrease_body(full: bool) {
    let mds: u16 = kani::any();
    kani::assume(mds >= 1200 && mds <= 9000);
    let mut cubic = Cubic::new(mds);
    cubic.w_max = any_w(full);
    cubic.w_last_max = any_w(full);
    let cwnd = any_window(mds, full);
    let r = cubic.multiplicative_decrease(cwnd);
    let floor = 2.0 * mds as f32;
    assert!(cubic.minimum_window() == floor, "C10/cubic.minimum_window/is_two_datagrams");
    assert!(r >= floor, "C10/cubic.multiplicative_decrease/floor_two_datagrams");
    assert!(r <= cwnd, "C10/cubic.multiplicative_decrease/never_increases");
    // RFC 8312 4.5: cwnd * beta_cubic, beta_cubic = 0.7, floored at the minimum window
    let expect = if cwnd * 0.7 >= floor { cwnd * 0.7 } else { floor };
    assert!(r == expect, "C10/cubic.multiplicative_decrease/is_max_of_beta_cwnd_and_floor");
    assert!(cubic.w_last_max >= 2.0 && cubic.w_max >= 2.0, "C10/cubic.multiplicative_decrease/w_max_at_least_two_packets");
    assert!(cubic.max_datagram_size == mds, "C10/cubic.multiplicative_decrease/frame_mds");
    kani::cover!(r == floor, "reach:clamped_to_floor");
    kani::cover!(r > floor && r < cwnd, "reach:scaled");
    kani::cover!(cubic.w_max < cubic.w_last_max, "reach:fast_convergence");
    kani::cover!(mds == 1200, "reach:mds_min");
    kani::cover!(mds == 9000, "reach:mds_max");
    kani::cover!(cwnd >= if full { 4294967040.0 } else { 1073741824.0 }, "reach:cwnd_largest_of_domain");
}

// ---------------------------------------------------------------------------------------------------
//@ harness props=C10 tier=quick level=bounded timeout=900 flags=cbrtf bound="window: whole bytes in [2*mds, 2^30]; W_max, W_last_max: whole packets < 2^16"
//@ fn CubicCongestionController::on_packet_lost
//@ fn CubicCongestionController::on_congestion_event
#[kani::proof]
#[kani::unwind(3)]
#[kani::stub(crate::recovery::hybrid_slow_start::HybridSlowStart::use_hystart_parameter, any_hystart)]
fn vq_c10_cubic_on_packet_lost_bounded() {
    // obligations of the shared body `vq_c10_cubic_on_packet_lost_body` (listed here for the registry):
    //   "C10/cubic.on_packet_lost/floor_two_datagrams"
    //   "C10/cubic.on_packet_lost/window_representable_no_overflow"
    //   "C10/cubic.on_packet_lost/inv_preserved"
    //   "C10/cubic.on_packet_lost/bytes_in_flight_decreases_by_lost"
    //   "C10/cubic.on_packet_lost/never_increases_window"
    //   "C10/cubic.on_packet_lost/persistent_congestion_collapses_to_minimum"
    //   "C10/cubic.on_packet_lost/persistent_congestion_restarts_slow_start"
    //   "C10/cubic.on_packet_lost/persistent_congestion_resets_cubic"
    //   "C10/cubic.on_packet_lost/at_most_one_reduction_per_recovery_period"
    //   "C10/cubic.on_packet_lost/recovery_state_unchanged"
    //   "C10/cubic.on_packet_lost/reduction_is_beta_cubic"
    //   "C10/cubic.on_packet_lost/enters_recovery_at_event_time"
    //   "C10/cubic.on_packet_lost/in_flight_high_water_reset"
    //   "C10/cubic.on_packet_lost/frame_mds"
    //   "C10/cubic.on_packet_lost/slow_start_exit_event_iff_left_slow_start"
    vq_c10_cubic_on_packet_lost_body(false);
}

//@ harness props=C10 tier=thorough level=full timeout=1800 flags=cbrtf
//@ fn CubicCongestionController::on_packet_lost
//@ fn CubicCongestionController::on_congestion_event
#[kani::proof]
#[kani::unwind(3)]
#[kani::stub(crate::recovery::hybrid_slow_start::HybridSlowStart::use_hystart_parameter, any_hystart)]
fn vq_c10_cubic_on_packet_lost_full() {
    vq_c10_cubic_on_packet_lost_body(true);
}

fn vq_c10_cubic_on_packet_lost_body(full: bool) {
    let mut cc = any_cc(true, full);
    let mut sink = Sink { slow_start_exits: 0 };
    let cwnd = cc.congestion_window;
    let bif = *cc.bytes_in_flight;
    let k0 = kind(&cc);
    let rs0 = recovery_start(&cc);
    let mds = cc.max_datagram_size;
    let lost: u32 = kani::any();
    // call-site fact (recovery::Manager::remove_lost_packets): lost bytes were counted in flight, > 0
    kani::assume(lost > 0 && lost <= bif);
    let persistent: bool = kani::any();
    let new_burst: bool = kani::any();
    let now = any_t();
    cc.on_packet_lost(lost, (), persistent, new_burst, &mut NoRandom, now, &mut sink);

    common_post!(cc, "C10/cubic.on_packet_lost/floor_two_datagrams", "C10/cubic.on_packet_lost/window_representable_no_overflow", "C10/cubic.on_packet_lost/inv_preserved");
    assert!(cc_resolved_bif(bif as i128, lost as i128, *cc.bytes_in_flight as i128), "C10/cubic.on_packet_lost/bytes_in_flight_decreases_by_lost");
    assert!(cc.congestion_window <= cwnd, "C10/cubic.on_packet_lost/never_increases_window");
    let was_recovery = k0 == Kind::RecoveryIdle || k0 == Kind::RecoveryRequiresTransmission;
    if persistent {
        assert!(cc.congestion_window == 2.0 * mds as f32, "C10/cubic.on_packet_lost/persistent_congestion_collapses_to_minimum");
        assert!(kind(&cc) == Kind::SlowStart, "C10/cubic.on_packet_lost/persistent_congestion_restarts_slow_start");
        assert!(cc.cubic.w_max == 0.0 && cc.cubic.w_last_max == 0.0 && cc.cubic.k == Duration::ZERO, "C10/cubic.on_packet_lost/persistent_congestion_resets_cubic");
    } else if was_recovery {
        assert!(cc.congestion_window == cwnd, "C10/cubic.on_packet_lost/at_most_one_reduction_per_recovery_period");
        assert!(kind(&cc) == k0 && recovery_start(&cc) == rs0, "C10/cubic.on_packet_lost/recovery_state_unchanged");
    } else {
        let expect = if cwnd * 0.7 >= 2.0 * mds as f32 { cwnd * 0.7 } else { 2.0 * mds as f32 };
        assert!(cc.congestion_window == expect, "C10/cubic.on_packet_lost/reduction_is_beta_cubic");
        assert!(kind(&cc) == Kind::RecoveryRequiresTransmission && recovery_start(&cc) == Some(now), "C10/cubic.on_packet_lost/enters_recovery_at_event_time");
    }
    assert!(*cc.bytes_in_flight_hi == 0, "C10/cubic.on_packet_lost/in_flight_high_water_reset");
    assert!(cc.max_datagram_size == mds, "C10/cubic.on_packet_lost/frame_mds");
    assert!((sink.slow_start_exits == 1) == (k0 == Kind::SlowStart && !persistent), "C10/cubic.on_packet_lost/slow_start_exit_event_iff_left_slow_start");
    kani::cover!(persistent && k0 == Kind::CongestionAvoidance, "reach:persistent_from_ca");
    kani::cover!(!persistent && was_recovery, "reach:already_in_recovery");
    kani::cover!(!persistent && k0 == Kind::SlowStart && cc.congestion_window < cwnd, "reach:reduced_from_slow_start");
    kani::cover!(!persistent && k0 == Kind::CongestionAvoidance && cc.congestion_window == 2.0 * mds as f32, "reach:reduced_to_floor");
    kani::cover!(lost == bif, "reach:all_in_flight_lost");
    kani::cover!(cwnd >= if full { 4294967040.0 } else { 1073741824.0 }, "reach:cwnd_largest_of_domain");
    kani::cover!(true, "reach:end");
}

//@ harness props=C10 tier=quick level=bounded timeout=900 flags=cbrtf bound="window: whole bytes in [2*mds, 2^30]; W_max, W_last_max: whole packets < 2^16"
//@ fn CubicCongestionController::on_explicit_congestion
//@ fn CubicCongestionController::on_congestion_event
#[kani::proof]
#[kani::unwind(3)]
#[kani::stub(crate::recovery::hybrid_slow_start::HybridSlowStart::use_hystart_parameter, any_hystart)]
fn vq_c10_cubic_on_explicit_congestion_bounded() {
    // obligations of the shared body `vq_c10_cubic_on_explicit_congestion_body` (listed here for the registry):
    //   "C10/cubic.on_explicit_congestion/floor_two_datagrams"
    //   "C10/cubic.on_explicit_congestion/window_representable_no_overflow"
    //   "C10/cubic.on_explicit_congestion/inv_preserved"
    //   "C10/cubic.on_explicit_congestion/bytes_in_flight_unchanged"
    //   "C10/cubic.on_explicit_congestion/never_increases_window"
    //   "C10/cubic.on_explicit_congestion/at_most_one_reduction_per_recovery_period"
    //   "C10/cubic.on_explicit_congestion/recovery_state_unchanged"
    //   "C10/cubic.on_explicit_congestion/reduction_is_beta_cubic"
    //   "C10/cubic.on_explicit_congestion/enters_recovery_at_event_time"
    //   "C10/cubic.on_explicit_congestion/frame_mds"
    //   "C10/cubic.on_explicit_congestion/slow_start_exit_event_iff_left_slow_start"
    vq_c10_cubic_on_explicit_congestion_body(false);
}

//@ harness props=C10 tier=thorough level=full timeout=1800 flags=cbrtf
//@ fn CubicCongestionController::on_explicit_congestion
//@ fn CubicCongestionController::on_congestion_event
#[kani::proof]
#[kani::unwind(3)]
#[kani::stub(crate::recovery::hybrid_slow_start::HybridSlowStart::use_hystart_parameter, any_hystart)]
fn vq_c10_cubic_on_explicit_congestion_full() {
    vq_c10_cubic_on_explicit_congestion_body(true);
}

fn vq_c10_cubic_on_explicit_congestion_body(full: bool) {
    let mut cc = any_cc(true, full);
    let mut sink = Sink { slow_start_exits: 0 };
    let cwnd = cc.congestion_window;
    let bif = *cc.bytes_in_flight;
    let k0 = kind(&cc);
    let rs0 = recovery_start(&cc);
    let mds = cc.max_datagram_size;
    let now = any_t();
    cc.on_explicit_congestion(kani::any(), now, &mut sink);

    common_post!(cc, "C10/cubic.on_explicit_congestion/floor_two_datagrams", "C10/cubic.on_explicit_congestion/window_representable_no_overflow", "C10/cubic.on_explicit_congestion/inv_preserved");
    assert!(*cc.bytes_in_flight == bif, "C10/cubic.on_explicit_congestion/bytes_in_flight_unchanged");
    assert!(cc.congestion_window <= cwnd, "C10/cubic.on_explicit_congestion/never_increases_window");
    let was_recovery = k0 == Kind::RecoveryIdle || k0 == Kind::RecoveryRequiresTransmission;
    if was_recovery {
        assert!(cc.congestion_window == cwnd, "C10/cubic.on_explicit_congestion/at_most_one_reduction_per_recovery_period");
        assert!(kind(&cc) == k0 && recovery_start(&cc) == rs0, "C10/cubic.on_explicit_congestion/recovery_state_unchanged");
    } else {
        let expect = if cwnd * 0.7 >= 2.0 * mds as f32 { cwnd * 0.7 } else { 2.0 * mds as f32 };
        assert!(cc.congestion_window == expect, "C10/cubic.on_explicit_congestion/reduction_is_beta_cubic");
        assert!(kind(&cc) == Kind::RecoveryRequiresTransmission && recovery_start(&cc) == Some(now), "C10/cubic.on_explicit_congestion/enters_recovery_at_event_time");
    }
    assert!(cc.max_datagram_size == mds, "C10/cubic.on_explicit_congestion/frame_mds");
    assert!((sink.slow_start_exits == 1) == (k0 == Kind::SlowStart), "C10/cubic.on_explicit_congestion/slow_start_exit_event_iff_left_slow_start");
    kani::cover!(was_recovery, "reach:already_in_recovery");
    kani::cover!(k0 == Kind::SlowStart && cc.congestion_window < cwnd, "reach:reduced_from_slow_start");
    kani::cover!(k0 == Kind::CongestionAvoidance, "reach:from_congestion_avoidance");
    kani::cover!(true, "reach:end");
}

// ---------------------------------------------------------------------------------------------------
//@ harness props=C10 tier=quick level=full timeout=400 flags=cbrtf
//@ fn CubicCongestionController::on_packet_sent
//@ fn CubicCongestionController::is_congestion_window_under_utilized
#[kani::proof]
#[kani::unwind(3)]
#[kani::stub(crate::recovery::hybrid_slow_start::HybridSlowStart::use_hystart_parameter, any_hystart)]
fn vq_c10_cubic_on_packet_sent() {
    let mut cc = any_cc(true, true);
    let mut sink = Sink { slow_start_exits: 0 };
    let cwnd = cc.congestion_window;
    let bif = *cc.bytes_in_flight;
    let k0 = kind(&cc);
    let rs0 = recovery_start(&cc);
    let uu0 = cc.under_utilized;
    let last0 = cc.time_of_last_sent_packet;
    let mds = cc.max_datagram_size;
    let n: u32 = kani::any();
    // the in-flight counter is a u32: the caller never has 4 GiB outstanding (flow control, u16 datagrams)
    kani::assume(n as u64 + bif as u64 <= u32::MAX as u64);
    let app_limited: Option<bool> = if kani::any() { Some(kani::any()) } else { None };
    let now = any_t();
    // Pacing is outside C10: an RTT below MINIMUM_PACING_RTT makes Pacer::on_packet_sent return at once
    // (its Bandwidth/Ratio arithmetic is exercised by the thorough-tier variant below).
    let rtt = RttEstimator::new(Duration::from_millis(1));
    cc.on_packet_sent(now, n as usize, app_limited, &rtt, &mut sink);

    common_post!(cc, "C10/cubic.on_packet_sent/floor_two_datagrams", "C10/cubic.on_packet_sent/window_representable_no_overflow", "C10/cubic.on_packet_sent/inv_preserved");
    assert!(cc_sent_bif(bif as i128, n as i128, *cc.bytes_in_flight as i128), "C10/cubic.on_packet_sent/bytes_in_flight_increases_by_sent");
    assert!(cc.congestion_window == cwnd, "C10/cubic.on_packet_sent/window_unchanged");
    assert!(recovery_start(&cc) == rs0, "C10/cubic.on_packet_sent/recovery_start_unchanged");
    if n == 0 {
        assert!(kind(&cc) == k0 && cc.under_utilized == uu0 && cc.time_of_last_sent_packet == last0, "C10/cubic.on_packet_sent/non_congestion_controlled_packet_changes_nothing");
    } else {
        let expect_kind = if k0 == Kind::RecoveryRequiresTransmission { Kind::RecoveryIdle } else { k0 };
        assert!(kind(&cc) == expect_kind, "C10/cubic.on_packet_sent/fast_retransmission_flag_cleared_only");
        assert!(cc.time_of_last_sent_packet == Some(now), "C10/cubic.on_packet_sent/records_send_time");
        // app-limited flag: independent transcription of the rule in the doc comment
        let w = cwnd as u32;
        let bif1 = bif + n;
        let avail = w.saturating_sub(bif1);
        let limited = avail < mds as u32;
        let under = !limited && !(k0 == Kind::SlowStart && bif1 >= w / 2) && avail > 3 * mds as u32;
        let expect_uu = match app_limited {
            Some(a) => a && under,
            None => under,
        };
        assert!(cc.under_utilized == expect_uu, "C10/cubic.on_packet_sent/under_utilized_rule");
    }
    assert!(sink.slow_start_exits == 0, "C10/cubic.on_packet_sent/no_slow_start_exit");
    kani::cover!(n == 0, "reach:not_congestion_controlled");
    kani::cover!(n > 0 && k0 == Kind::RecoveryRequiresTransmission, "reach:fast_retransmission_sent");
    kani::cover!(n > 0 && cc.under_utilized, "reach:under_utilized");
    kani::cover!(n > 0 && !cc.under_utilized && app_limited == Some(true), "reach:app_limited_but_window_used");
    kani::cover!(*cc.bytes_in_flight == u32::MAX, "reach:in_flight_max");
    kani::cover!(true, "reach:end");
}

// ---------------------------------------------------------------------------------------------------
//@ harness props=C10 tier=quick level=full timeout=300 flags=cbrtf
//@ fn CubicCongestionController::on_packet_discarded
#[kani::proof]
#[kani::unwind(3)]
#[kani::stub(crate::recovery::hybrid_slow_start::HybridSlowStart::use_hystart_parameter, any_hystart)]
fn vq_c10_cubic_on_packet_discarded() {
    let mut cc = any_cc(true, true);
    let mut sink = Sink { slow_start_exits: 0 };
    let cwnd = cc.congestion_window;
    let bif = *cc.bytes_in_flight;
    let k0 = kind(&cc);
    let rs0 = recovery_start(&cc);
    let uu0 = cc.under_utilized;
    let mds = cc.max_datagram_size;
    let n: u32 = kani::any();
    // call-site fact (recovery::Manager::on_packet_number_space_discarded): the bytes were in flight
    kani::assume(n <= bif);
    cc.on_packet_discarded(n as usize, &mut sink);

    common_post!(cc, "C10/cubic.on_packet_discarded/floor_two_datagrams", "C10/cubic.on_packet_discarded/window_representable_no_overflow", "C10/cubic.on_packet_discarded/inv_preserved");
    assert!(cc_resolved_bif(bif as i128, n as i128, *cc.bytes_in_flight as i128), "C10/cubic.on_packet_discarded/bytes_in_flight_decreases_by_discarded");
    assert!(cc.congestion_window == cwnd, "C10/cubic.on_packet_discarded/window_unchanged");
    let expect_kind = if k0 == Kind::RecoveryRequiresTransmission { Kind::RecoveryIdle } else { k0 };
    assert!(kind(&cc) == expect_kind && recovery_start(&cc) == rs0, "C10/cubic.on_packet_discarded/fast_retransmission_flag_cleared_only");
    assert!(cc.under_utilized == uu0 && cc.max_datagram_size == mds, "C10/cubic.on_packet_discarded/frame");
    kani::cover!(n == bif && n > 0, "reach:everything_discarded");
    kani::cover!(k0 == Kind::RecoveryRequiresTransmission, "reach:pending_fast_retransmission_dropped");
    kani::cover!(true, "reach:end");
}

// ---------------------------------------------------------------------------------------------------
//@ harness props=C10 tier=quick level=bounded timeout=900 flags=cbrtf bound="datagram size change 9000->1200 or 1500->1200 (DESIGN 6 item 6); window: every f32 in [2*mds, 2^32)"
//@ fn CubicCongestionController::on_mtu_update
//@ fn CubicCongestionController::initial_window
#[kani::proof]
#[kani::unwind(3)]
#[kani::stub(crate::recovery::hybrid_slow_start::HybridSlowStart::use_hystart_parameter, any_hystart)]
fn vq_c10_cubic_on_mtu_update_shrink() {
    // obligations of the shared body `vq_c10_cubic_on_mtu_update_body` (listed here for the registry):
    //   "C10/cubic.on_mtu_update/records_new_datagram_size"
    //   "C10/cubic.on_mtu_update/floor_two_datagrams_of_new_size"
    //   "C10/cubic.on_mtu_update/at_least_initial_window"
    //   "C10/cubic.on_mtu_update/window_scaled_by_datagram_size"
    //   "C10/cubic.on_mtu_update/oversized_window_saturates_not_wraps"
    //   "C10/cubic.on_mtu_update/window_representable_no_overflow#outside-known"
    //   "C10/cubic.on_mtu_update/frame"
    //   "C10/cubic.on_mtu_update/window_representable_no_overflow"
    let (old, new) = if kani::any() { (9000, 1200) } else { (1500, 1200) };
    vq_c10_cubic_on_mtu_update_body(old, new);
}

//@ harness props=C10 tier=quick level=bounded timeout=1200 flags=cbrtf bound="datagram size change 1200->9000 or 1200->1500; window: every f32 in [2*mds, 2^32)"
//@ fn CubicCongestionController::on_mtu_update
//@ fn CubicCongestionController::initial_window
#[kani::proof]
#[kani::unwind(3)]
#[kani::stub(crate::recovery::hybrid_slow_start::HybridSlowStart::use_hystart_parameter, any_hystart)]
fn vq_c10_cubic_on_mtu_update_grow() {
    // obligations of the shared body `vq_c10_cubic_on_mtu_update_body` (listed here for the registry):
    //   "C10/cubic.on_mtu_update/records_new_datagram_size"
    //   "C10/cubic.on_mtu_update/floor_two_datagrams_of_new_size"
    //   "C10/cubic.on_mtu_update/at_least_initial_window"
    //   "C10/cubic.on_mtu_update/window_scaled_by_datagram_size"
    //   "C10/cubic.on_mtu_update/oversized_window_saturates_not_wraps"
    //   "C10/cubic.on_mtu_update/window_representable_no_overflow#outside-known"
    //   "C10/cubic.on_mtu_update/frame"
    //   "C10/cubic.on_mtu_update/window_representable_no_overflow"
    let (old, new) = if kani::any() { (1200, 9000) } else { (1200, 1500) };
    vq_c10_cubic_on_mtu_update_body(old, new);
}

// NOT REGISTERED: symbolic old and new max_datagram_size gave no result in 31 min (and again in 75 min during the thorough validation run);
// the concrete shrink/grow pairs are covered by vq_c10_cubic_on_mtu_update_shrink / _grow.
//@-unregistered harness props=C10 tier=thorough level=full timeout=3000 flags=cbrtf
//@ fn CubicCongestionController::on_mtu_update
//@ fn CubicCongestionController::initial_window
#[kani::proof]
#[kani::unwind(3)]
#[kani::stub(crate::recovery::hybrid_slow_start::HybridSlowStart::use_hystart_parameter, any_hystart)]
fn vq_c10_cubic_on_mtu_update_full() {
    let old: u16 = kani::any();
    let new: u16 = kani::any();
    kani::assume(old >= 1200 && old <= 9000 && new >= 1200 && new <= 9000);
    vq_c10_cubic_on_mtu_update_body(old, new);
}

fn vq_c10_cubic_on_mtu_update_body(old: u16, new: u16) {
    let mut cc = any_cc_mds(old, true, true);
    let mut sink = Sink { slow_start_exits: 0 };
    let cwnd = cc.congestion_window;
    let bif = *cc.bytes_in_flight;
    let k0 = kind(&cc);
    cc.on_mtu_update(new, &mut sink);

    assert!(cc.max_datagram_size == new && cc.cubic.max_datagram_size == new, "C10/cubic.on_mtu_update/records_new_datagram_size");
    assert!(cc.congestion_window >= 2.0 * new as f32, "C10/cubic.on_mtu_update/floor_two_datagrams_of_new_size");
    // RFC 9002 7.2 initial window for the new size: min(10*mds, max(14720, 2*mds))
    let iw = core::cmp::min(10 * new as u32, core::cmp::max(14720, 2 * new as u32));
    assert!(cc.congestion_window >= iw as f32, "C10/cubic.on_mtu_update/at_least_initial_window");
    // window keeps its size in packets (rounded down to a byte) unless below the initial window
    let scaled = (cwnd / old as f32) * new as f32;
    // known input class of the finding below: the rescaled window does not fit the u32 the code casts through
    let known = scaled >= TWO_POW_32;
    let expect = if known { TWO_POW_32 } else { core::cmp::max(scaled as u32, iw) as f32 };
    assert!(known || cc.congestion_window == expect, "C10/cubic.on_mtu_update/window_scaled_by_datagram_size");
    assert!(!known || cc.congestion_window == TWO_POW_32, "C10/cubic.on_mtu_update/oversized_window_saturates_not_wraps");
    assert!(known || cc.congestion_window < TWO_POW_32, "C10/cubic.on_mtu_update/window_representable_no_overflow#outside-known");
    assert!(*cc.bytes_in_flight == bif && kind(&cc) == k0, "C10/cubic.on_mtu_update/frame");
    kani::cover!(cwnd == 2.0 * old as f32, "reach:at_minimum_window_of_old_size");
    kani::cover!(new > old || cc.congestion_window < cwnd, "reach:window_follows_datagram_size");
    kani::cover!(cc.congestion_window == iw as f32 && scaled < iw as f32, "reach:raised_to_initial_window");
    kani::cover!(known || new <= old, "reach:known_class_scaled_window_exceeds_u32_when_growing");
    kani::cover!(true, "reach:end");
    // the property statement read strictly: "never overflows".  Expected to FAIL on the unchanged tree
    // for windows above 2^32 * old/new bytes (>= 572 MB) when the datagram size grows: `as u32` saturates.
    assert!(cc.congestion_window < TWO_POW_32, "C10/cubic.on_mtu_update/window_representable_no_overflow");
}

// ---------------------------------------------------------------------------------------------------
// on_ack.  Split by the branch taken *after* the in-flight bookkeeping:
//   quick    : under-utilized (any state), SlowStart, Recovery that is not left by this ACK  -- full domain
//   thorough : CongestionAvoidance and Recovery -> CongestionAvoidance (reaches powi(3) / mul_add / cbrt-derived K)

fn any_rtt() -> RttEstimator {
    // only min_rtt() is read (CongestionAvoidance branch)
    RttEstimator::new(Duration::from_millis(if kani::any() { 1 } else { 100 }))
}

//@ harness props=C10 tier=quick level=full timeout=900 flags=cbrtf
//@ fn CubicCongestionController::on_ack
#[kani::proof]
#[kani::unwind(3)]
#[kani::stub(crate::recovery::hybrid_slow_start::HybridSlowStart::use_hystart_parameter, any_hystart)]
fn vq_c10_cubic_on_ack_slow_start_recovery() {
    let mut cc = any_cc(true, true);
    let mut sink = Sink { slow_start_exits: 0 };
    let cwnd = cc.congestion_window;
    let bif = *cc.bytes_in_flight;
    let hi = *cc.bytes_in_flight_hi;
    let k0 = kind(&cc);
    let rs0 = recovery_start(&cc);
    let uu = cc.under_utilized;
    let mds = cc.max_datagram_size;
    let thr = cc.slow_start.threshold;
    let n: u32 = kani::any();
    // call-site fact (recovery::Manager::process_ack_range): acknowledged bytes were counted in flight
    kani::assume(n <= bif);
    let newest_acked_time_sent = any_t();
    let now = any_t();
    // monotonic clock: the ACK is not received before the controller's own timestamps
    if let CongestionAvoidance(ref timing) = cc.state {
        kani::assume(now >= timing.window_increase_time);
    }
    let leaves_recovery = match rs0 {
        Some(start) => newest_acked_time_sent > start,
        None => false,
    };
    // this harness: every case that does not run the congestion-avoidance window update
    kani::assume(uu || (k0 != Kind::CongestionAvoidance && !leaves_recovery));
    cc.on_ack(newest_acked_time_sent, n as usize, (), &any_rtt(), &mut NoRandom, now, &mut sink);

    assert!(cc.congestion_window >= 2.0 * mds as f32, "C10/cubic.on_ack/floor_two_datagrams");
    assert!(cc_resolved_bif(bif as i128, n as i128, *cc.bytes_in_flight as i128), "C10/cubic.on_ack/bytes_in_flight_decreases_by_acked");
    let hi1 = core::cmp::max(hi, bif);
    assert!(*cc.bytes_in_flight_hi == hi1, "C10/cubic.on_ack/in_flight_high_water_is_max");
    assert!(cc.max_datagram_size == mds && cc.cubic.max_datagram_size == mds, "C10/cubic.on_ack/frame_mds");
    assert!(cc.congestion_window >= cwnd, "C10/cubic.on_ack/ack_never_shrinks_window_outside_congestion_avoidance");
    // growth is capped by twice the in-flight high-water mark (never below the minimum window)
    let cap = {
        let c = hi1 as f32 * 2.0;
        if c >= 2.0 * mds as f32 { c } else { 2.0 * mds as f32 }
    };
    assert!(cc.congestion_window <= if cwnd >= cap { cwnd } else { cap }, "C10/cubic.on_ack/growth_capped_by_in_flight_high_water");
    // no overflow: with less than 2 GiB ever in flight the window stays below 2^32 and cc_inv is preserved
    if hi1 <= 2147483520 {
        assert!(cc.congestion_window < TWO_POW_32 && cc_inv(&cc), "C10/cubic.on_ack/window_representable_no_overflow");
    }
    if uu {
        assert!(cc.congestion_window == cwnd, "C10/cubic.on_ack/application_limited_window_does_not_grow");
        assert!(kind(&cc) == k0 && recovery_start(&cc) == rs0, "C10/cubic.on_ack/application_limited_state_unchanged");
        if let CongestionAvoidance(ref timing) = cc.state {
            assert!(timing.app_limited_time == Some(now), "C10/cubic.on_ack/application_limited_period_recorded");
        }
        assert!(sink.slow_start_exits == 0, "C10/cubic.on_ack/application_limited_no_event");
    } else if k0 == Kind::SlowStart {
        // RFC 9002 7.3.1: the window grows by the number of bytes acknowledged (capped as above)
        let expect = if cwnd >= cap {
            cwnd
        } else {
            let g = cwnd + n as f32;
            if g <= cap { g } else { cap }
        };
        assert!(cc.congestion_window == expect, "C10/cubic.on_ack/slow_start_grows_by_acked_bytes");
        let exits = cwnd < cap && expect >= thr;
        assert!((kind(&cc) == Kind::CongestionAvoidance) == exits && (kind(&cc) == Kind::SlowStart) == !exits, "C10/cubic.on_ack/slow_start_exit_iff_threshold_reached");
        assert!((sink.slow_start_exits == 1) == exits, "C10/cubic.on_ack/slow_start_exit_event_iff_exit");
    } else {
        // RFC 9002 7.3.2: "A recovery period ends ... when a packet sent DURING the recovery period is acknowledged":
        // a packet sent at the very instant recovery started (same flight as the lost one) does not end it, otherwise a
        // second loss from that flight would cut the window twice within one round trip.
        assert!(
            !(rs0 == Some(newest_acked_time_sent)) || (kind(&cc) == k0 && cc.congestion_window == cwnd),
            "C10/cubic.on_ack/recovery_left_only_by_packet_sent_strictly_after_recovery_start"
        );
        assert!(cc.congestion_window == cwnd, "C10/cubic.on_ack/no_growth_during_recovery");
        assert!(kind(&cc) == k0 && recovery_start(&cc) == rs0, "C10/cubic.on_ack/recovery_not_left_by_old_packet");
    }
    kani::cover!(uu && k0 == Kind::CongestionAvoidance, "reach:app_limited_in_congestion_avoidance");
    kani::cover!(!uu && k0 == Kind::SlowStart && cc.congestion_window > cwnd && kind(&cc) == Kind::SlowStart, "reach:slow_start_growth");
    kani::cover!(!uu && k0 == Kind::SlowStart && kind(&cc) == Kind::CongestionAvoidance, "reach:slow_start_exit");
    kani::cover!(!uu && k0 == Kind::SlowStart && cc.congestion_window == cap && cap > cwnd, "reach:growth_capped");
    kani::cover!(!uu && k0 == Kind::RecoveryIdle, "reach:recovery_old_packet_acked");
    kani::cover!(!uu && rs0 == Some(newest_acked_time_sent), "reach:acked_packet_sent_at_recovery_start_instant");
    kani::cover!(!uu && rs0.is_some() && rs0 > Some(newest_acked_time_sent), "reach:acked_packet_sent_before_recovery_start");
    kani::cover!(cc.congestion_window >= TWO_POW_32, "reach:window_exceeds_u32_only_with_2GiB_in_flight");
    kani::cover!(n == bif && n > 0, "reach:everything_acked");
    kani::cover!(true, "reach:end");
}

//@ harness props=C10 tier=thorough level=bounded timeout=1800 flags=cbrtf bound="window: whole bytes in [2*mds, 2^30]; W_max: whole packets in [2, 2^16); K: whole ms < 2^16; CongestionAvoidance entered at one of 3 instants, not application limited before; min_rtt in {1 ms, 100 ms}"
//@ fn CubicCongestionController::on_ack
//@ fn CubicCongestionController::congestion_avoidance
//@ fn Cubic::w_cubic
//@ fn Cubic::w_est
#[kani::proof]
#[kani::unwind(3)]
#[kani::stub(crate::recovery::hybrid_slow_start::HybridSlowStart::use_hystart_parameter, any_hystart)]
fn vq_c10_cubic_on_ack_congestion_avoidance() {
    let mut cc = any_cc(true, false);
    let mut sink = Sink { slow_start_exits: 0 };
    let cwnd = cc.congestion_window;
    let bif = *cc.bytes_in_flight;
    let hi = *cc.bytes_in_flight_hi;
    let k0 = kind(&cc);
    let rs0 = recovery_start(&cc);
    let mds = cc.max_datagram_size;
    let n: u32 = kani::any();
    kani::assume(n <= bif);
    let newest_acked_time_sent = any_t();
    let now = any_t();
    if let CongestionAvoidance(ref timing) = cc.state {
        kani::assume(now >= timing.window_increase_time);
    }
    let leaves_recovery = match rs0 {
        Some(start) => newest_acked_time_sent > start,
        None => false,
    };
    kani::assume(!cc.under_utilized && (k0 == Kind::CongestionAvoidance || leaves_recovery));
    // K as left by multiplicative_decrease / on_slow_start_exit: some non-negative duration
    cc.cubic.k = Duration::from_millis(kani::any::<u16>() as u64);
    // Invariant of the cubic parameters outside slow start (DESIGN 5-C10 note, report): W_cubic(0) >= 2
    // packets.  on_slow_start_exit establishes it exactly (K = 0, W_max = cwnd / mds >= 2);
    // multiplicative_decrease establishes it up to cbrtf accuracy only, which the nondeterministic libm
    // model (A-libm) cannot show -- it is therefore an ASSUMPTION of this harness, listed as such.
    kani::assume(cc.cubic.w_max >= 2.0);
    kani::assume(cc.cubic.w_cubic(Duration::ZERO) >= 2.0);
    cc.on_ack(newest_acked_time_sent, n as usize, (), &any_rtt(), &mut NoRandom, now, &mut sink);

    assert!(cc.congestion_window >= 2.0 * mds as f32, "C10/cubic.on_ack/floor_two_datagrams");
    assert!(cc_resolved_bif(bif as i128, n as i128, *cc.bytes_in_flight as i128), "C10/cubic.on_ack/bytes_in_flight_decreases_by_acked");
    let hi1 = core::cmp::max(hi, bif);
    assert!(*cc.bytes_in_flight_hi == hi1, "C10/cubic.on_ack/in_flight_high_water_is_max");
    assert!(kind(&cc) == Kind::CongestionAvoidance, "C10/cubic.on_ack/newer_packet_acked_leaves_recovery_for_congestion_avoidance");
    if let Some(start) = rs0 {
        assert!(newest_acked_time_sent > start, "C10/cubic.on_ack/recovery_left_only_by_packet_sent_strictly_after_recovery_start");
    }
    let cap = {
        let c = hi1 as f32 * 1.5;
        if c >= 2.0 * mds as f32 { c } else { 2.0 * mds as f32 }
    };
    assert!(cc.congestion_window <= if cwnd >= cap { cwnd } else { cap }, "C10/cubic.on_ack/growth_capped_by_in_flight_high_water");
    // limit the increase to half the acknowledged bytes (as Linux does)
    assert!(cc.congestion_window <= cwnd + n as f32 / 2.0 || cc.congestion_window <= cwnd, "C10/cubic.on_ack/growth_at_most_half_of_acked_bytes");
    if hi1 <= 2147483520 {
        assert!(cc.congestion_window < TWO_POW_32 && cc_inv(&cc), "C10/cubic.on_ack/window_representable_no_overflow");
    }
    assert!(sink.slow_start_exits == 0, "C10/cubic.on_ack/no_slow_start_exit_event");
    kani::cover!(k0 == Kind::CongestionAvoidance && cc.congestion_window > cwnd, "reach:congestion_avoidance_growth");
    kani::cover!(leaves_recovery, "reach:recovery_left");
    kani::cover!(cc.congestion_window < cwnd, "reach:tcp_friendly_region_below_current_window");
    kani::cover!(true, "reach:end");
}

// ---------------------------------------------------------------------------------------------------
//@ harness props=C10 tier=quick level=bounded timeout=300 flags=cbrtf bound="HybridSlowStart sampling state as constructed (fields private to its module); threshold symbolic"
//@ fn CubicCongestionController::on_rtt_update
#[kani::proof]
#[kani::unwind(3)]
#[kani::stub(crate::recovery::hybrid_slow_start::HybridSlowStart::use_hystart_parameter, any_hystart)]
fn vq_c10_cubic_on_rtt_update() {
    let mut cc = any_cc(true, true);
    let mut sink = Sink { slow_start_exits: 0 };
    let cwnd = cc.congestion_window;
    let bif = *cc.bytes_in_flight;
    let k0 = kind(&cc);
    let rs0 = recovery_start(&cc);
    let mds = cc.max_datagram_size;
    // documented precondition: "At least one packet must be sent to update RTT"
    kani::assume(cc.time_of_last_sent_packet.is_some());
    let now = any_t();
    cc.on_rtt_update(any_t(), now, &any_rtt(), &mut sink);

    common_post!(cc, "C10/cubic.on_rtt_update/floor_two_datagrams", "C10/cubic.on_rtt_update/window_representable_no_overflow", "C10/cubic.on_rtt_update/inv_preserved");
    assert!(cc.congestion_window == cwnd, "C10/cubic.on_rtt_update/window_unchanged");
    assert!(*cc.bytes_in_flight == bif, "C10/cubic.on_rtt_update/bytes_in_flight_unchanged");
    let thr1 = cc.slow_start.threshold;
    let exits = k0 == Kind::SlowStart && cwnd >= thr1;
    if exits {
        assert!(kind(&cc) == Kind::CongestionAvoidance, "C10/cubic.on_rtt_update/slow_start_left_when_threshold_reached");
        assert!(cc.cubic.w_max >= 2.0 && cc.cubic.k == Duration::ZERO, "C10/cubic.on_rtt_update/cubic_epoch_starts_at_current_window");
    } else {
        assert!(kind(&cc) == k0 && recovery_start(&cc) == rs0, "C10/cubic.on_rtt_update/state_unchanged_otherwise");
    }
    assert!((sink.slow_start_exits == 1) == exits, "C10/cubic.on_rtt_update/slow_start_exit_event_iff_exit");
    assert!(cc.max_datagram_size == mds, "C10/cubic.on_rtt_update/frame_mds");
    kani::cover!(exits, "reach:slow_start_exit");
    kani::cover!(k0 == Kind::SlowStart && !exits, "reach:stays_in_slow_start");
    kani::cover!(true, "reach:end");
}

// ---------------------------------------------------------------------------------------------------
//@ harness props=C10,C11 tier=quick level=full timeout=300 flags=cbrtf
//@ fn CubicCongestionController::congestion_window
//@ fn CubicCongestionController::bytes_in_flight
//@ fn CubicCongestionController::is_congestion_limited
//@ fn CubicCongestionController::requires_fast_retransmission
#[kani::proof]
#[kani::unwind(3)]
#[kani::stub(crate::recovery::hybrid_slow_start::HybridSlowStart::use_hystart_parameter, any_hystart)]
fn vq_c10_cubic_getters() {
    let cc = any_cc(true, true);
    let w = cc.congestion_window();
    // no saturation under cc_inv: the u32 view is the integer part of the f32 window
    assert!(w as f32 <= cc.congestion_window && cc.congestion_window - (w as f32) < 1.0, "C10/cubic.congestion_window/is_integer_part_no_saturation");
    assert!(w >= 2 * cc.max_datagram_size as u32, "C10/cubic.congestion_window/at_least_two_datagrams");
    assert!(cc.bytes_in_flight() == *cc.bytes_in_flight, "C10/cubic.bytes_in_flight/is_counter");
    let bif = cc.bytes_in_flight() as i128;
    // "sends a congestion-controlled packet only while bytes in flight are below the window":
    // limited whenever a full-size datagram no longer fits
    let limited = (w as i128) - bif < cc.max_datagram_size as i128;
    assert!(cc.is_congestion_limited() == limited, "C10/cubic.is_congestion_limited/iff_less_than_one_datagram_of_window_left");
    assert!(cc.requires_fast_retransmission() == (kind(&cc) == Kind::RecoveryRequiresTransmission), "C10/cubic.requires_fast_retransmission/iff_recovery_entered_and_nothing_sent_yet");
    kani::cover!(limited && bif > w as i128, "reach:in_flight_exceeds_window");
    kani::cover!(!limited, "reach:not_limited");
    kani::cover!(true, "reach:end");
}
