//@ inject crate=core src=quic/s2n-quic-core/src/connection/limits.rs
// Contract harnesses for the transport-parameter -> per-stream initial limit mapping (properties C03, C04, C14):
//   * `InitialStreamLimits::max_data(endpoint_type, stream_id)` against an independent transcription of the
//     RFC 9000 18.2 table (contracts/spec/stream_wiring.rs: rfc_initial_max_stream_data);
//   * `connection::Limits::{initial_flow_control_limits, initial_stream_limits, stream_limits}`: the limits an
//     endpoint operates under locally are exactly the ones it was configured with (and therefore the ones it
//     declares: `Limits::load_peer`/the TP encoder read the same fields) -- used as a builder fact by the
//     stream-manager harnesses (contracts/kani/transport/mgr_manager.rs).
// Hosted in connection/limits.rs because the `Limits` fields are pub(crate) to this crate.
use super::*;
use crate::{
    endpoint,
    stream::{limits::LocalLimits, StreamId, StreamType},
    varint::VarInt,
};
#[allow(dead_code, unused_variables)]
mod spec {
    include!("../../spec/stream_wiring.rs");
}
use spec::*;

const MAXV: u64 = crate::varint::MAX_VARINT_VALUE;

fn v(x: u64) -> VarInt {
    VarInt::new(x).unwrap()
}

fn etype(is_server: bool) -> endpoint::Type {
    if is_server {
        endpoint::Type::Server
    } else {
        endpoint::Type::Client
    }
}

//@ harness props=C03,C04,C14 tier=quick level=full timeout=120
//@ fn InitialStreamLimits::max_data
//@ fn StreamId::initiator
//@ fn StreamId::stream_type
#[kani::proof]
#[kani::unwind(3)]
fn vq_c03_mgr_initial_stream_limit_table() {
    let l: [u64; 3] = kani::any();
    kani::assume(l[0] <= MAXV && l[1] <= MAXV && l[2] <= MAXV);
    let limits = InitialStreamLimits { max_data_bidi_local: v(l[0]), max_data_bidi_remote: v(l[1]), max_data_uni: v(l[2]) };
    let d = StreamLimitsDecl { bidi_local: l[0] as i128, bidi_remote: l[1] as i128, uni: l[2] as i128 };
    let declarer_is_server: bool = kani::any();
    let raw: u64 = kani::any();
    kani::assume(raw <= MAXV);
    let id = StreamId::from_varint(v(raw));
    let i = raw as i128;

    // RFC 9000 2.1: the two low bits of the id, read by the real accessors
    assert!((id.initiator() == endpoint::Type::Server) == sid_initiator_is_server(i), "C12/stream_id.initiator/is_low_bit");
    assert!((id.stream_type() == StreamType::Unidirectional) == sid_is_uni(i), "C12/stream_id.stream_type/is_second_bit");

    let r = limits.max_data(etype(declarer_is_server), id).as_u64() as i128;
    let want = rfc_initial_max_stream_data(d, declarer_is_server, i);

    // RFC 9000 18.2, row by row (each row is a named obligation so that a swapped row is reported as such)
    if !sid_is_uni(i) && sid_initiator_is_server(i) == declarer_is_server {
        assert!(r == d.bidi_local, "C03/tp.max_data/bidi_opened_by_declarer_gets_bidi_local");
    }
    if !sid_is_uni(i) && sid_initiator_is_server(i) != declarer_is_server {
        assert!(r == d.bidi_remote, "C03/tp.max_data/bidi_opened_by_peer_gets_bidi_remote");
    }
    if sid_is_uni(i) && sid_initiator_is_server(i) != declarer_is_server {
        assert!(r == d.uni, "C03/tp.max_data/uni_opened_by_peer_gets_uni");
    }
    // the RFC 9000 18.2 table for every stream half that exists; outside the class {unidirectional AND initiator == declaring
    // endpoint}; for that class the value is unobservable on the wire as long as the stream object never
    // receives on it (that is what C04/mgr.insert_stream/... and StreamImpl::new's `receive_is_closed` state).
    assert!(
        !endpoint_receives_on(declarer_is_server, i) || r == want,
        "C03/tp.max_data/equals_rfc_18_2_table_for_every_receiving_half"
    );
    // nothing else than one of the three declared values (or 0) is ever returned
    assert!(r == d.bidi_local || r == d.bidi_remote || r == d.uni || r == 0, "C03/tp.max_data/is_a_declared_value");

    kani::cover!(!sid_is_uni(i) && sid_initiator_is_server(i) == declarer_is_server, "reach:bidi_local");
    kani::cover!(!sid_is_uni(i) && sid_initiator_is_server(i) != declarer_is_server, "reach:bidi_remote");
    kani::cover!(sid_is_uni(i) && sid_initiator_is_server(i) != declarer_is_server, "reach:uni_remote");
    kani::cover!(sid_is_uni(i) && sid_initiator_is_server(i) == declarer_is_server, "reach:uni_own");
    kani::cover!(raw == MAXV, "reach:largest_id");
    kani::cover!(l[0] == MAXV && l[1] == 0, "reach:limit_bounds");
    // (An earlier version also demanded the value 0 for a unidirectional stream opened by the declaring endpoint
    // itself -- a half on which that endpoint never receives.  RFC 9000 18.2 and the property say nothing about a
    // window that no stream half uses, so that obligation demanded more than the property: a false alarm of the
    // check, removed -- DESIGN.md "False alarms corrected".)
}

//@ harness props=C03,C04,C14 tier=quick level=full timeout=120
//@ fn Limits::initial_flow_control_limits
//@ fn Limits::initial_stream_limits
//@ fn Limits::stream_limits
//@ fn Limits::with_data_window
//@ fn Limits::with_bidirectional_local_data_window
//@ fn Limits::with_bidirectional_remote_data_window
//@ fn Limits::with_unidirectional_data_window
#[kani::proof]
#[kani::unwind(8)] // 2u64.pow(60) in InitialMaxStreams*::validate is a square-and-multiply loop (6 iterations)
fn vq_c03_mgr_local_limits_mapping() {
    let w: [u64; 4] = kani::any();
    let s: [u64; 4] = kani::any();
    let b: u32 = kani::any();
    let built = (|| -> Result<Limits, ValidationError> {
        Limits::new()
            .with_data_window(w[0])?
            .with_bidirectional_local_data_window(w[1])?
            .with_bidirectional_remote_data_window(w[2])?
            .with_unidirectional_data_window(w[3])?
            .with_max_open_local_bidirectional_streams(s[0])?
            .with_max_open_local_unidirectional_streams(s[1])?
            .with_max_open_remote_bidirectional_streams(s[2])?
            .with_max_open_remote_unidirectional_streams(s[3])?
            .with_max_send_buffer_size(b)
    })();
    // acceptance: windows must fit 32 bits (the stream manager stores the desired window as u32 and asserts it),
    // advertised stream counts must respect RFC 9000 4.6 (<= 2^60), local concurrency limits are any VarInt
    let ok_spec = w[0] <= u32::MAX as u64
        && w[1] <= u32::MAX as u64
        && w[2] <= u32::MAX as u64
        && w[3] <= u32::MAX as u64
        && s[0] <= MAXV
        && s[1] <= MAXV
        && s[2] <= (1u64 << 60)
        && s[3] <= (1u64 << 60);
    assert!(built.is_ok() == ok_spec, "C14/limits.builder/accepts_iff_windows_fit_u32_and_stream_counts_le_2_60");
    if let Ok(l) = built {
        let f = l.initial_flow_control_limits();
        assert!(f.max_data.as_u64() == w[0], "C03/limits.initial_flow_control_limits/max_data_is_data_window");
        assert!(f.stream_limits.max_data_bidi_local.as_u64() == w[1], "C03/limits.initial_flow_control_limits/bidi_local_is_bidi_local_window");
        assert!(f.stream_limits.max_data_bidi_remote.as_u64() == w[2], "C03/limits.initial_flow_control_limits/bidi_remote_is_bidi_remote_window");
        assert!(f.stream_limits.max_data_uni.as_u64() == w[3], "C03/limits.initial_flow_control_limits/uni_is_uni_window");
        assert!(f.max_open_remote_bidirectional_streams.as_u64() == s[2], "C04/limits.initial_flow_control_limits/remote_bidi_streams");
        assert!(f.max_open_remote_unidirectional_streams.as_u64() == s[3], "C04/limits.initial_flow_control_limits/remote_uni_streams");
        assert!(l.initial_stream_limits() == f.stream_limits, "C03/limits.initial_stream_limits/same_as_flow_control_limits");
        let sl = l.stream_limits();
        assert!(sl.max_open_local_bidirectional_streams.as_varint().as_u64() == s[0], "C03/limits.stream_limits/local_bidi_streams");
        assert!(sl.max_open_local_unidirectional_streams.as_varint().as_u64() == s[1], "C03/limits.stream_limits/local_uni_streams");
        assert!(sl.max_send_buffer_size.as_u32() == b, "C03/limits.stream_limits/send_buffer");
        // what is DECLARED to the peer is the same set of fields (load into the local transport parameters)
        let mut tp = crate::transport::parameters::ClientTransportParameters::default();
        tp.load_limits(&l);
        assert!(tp.flow_control_limits() == f, "C14/limits.load_limits/declared_limits_are_the_enforced_limits");
    }
    kani::cover!(built.is_ok(), "reach:accepted");
    kani::cover!(built.is_err(), "reach:rejected");
    kani::cover!(built.is_ok() && w[1] == u32::MAX as u64 && s[2] == (1u64 << 60), "reach:upper_bounds");
    kani::cover!(built.is_ok() && w[0] == 0 && s[0] == 0, "reach:zero");
}
