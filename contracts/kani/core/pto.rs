//@ inject crate=core src=quic/s2n-quic-core/src/recovery/pto.rs
// Contract harnesses for recovery::Pto (property C09; RFC 9002 section 6.2).
// "A probe-timeout expiry alone never marks packets lost": Pto owns a timer and a transmission counter and
// nothing else; on_timeout receives no reference to sent packets.  The harnesses pin that shape down
// (exhaustive destructuring + the function-pointer type) and give the exact state transition.
use super::*;
use crate::time::timer::Provider as _;
#[allow(dead_code, unused_variables)]
mod spec {
    include!("../../spec/recovery.rs");
}
use spec::*;

/// Instants around the 1 ms timer granularity of Timestamp::has_elapsed, in us since the clock epoch.
/// A symbolic index picks one: every ordering and every boundary distance (0, 1 us, 999 us, 1 ms, 1 ms + 1 us,
/// far) between an expiration and "now" is covered without symbolic Duration arithmetic (DESIGN 6 lesson).
const INSTANTS_US: [u64; 8] = [1, 1_000_000, 1_000_001, 1_000_999, 1_001_000, 1_001_001, 1_002_000, 5_000_000];
fn any_instant() -> (Timestamp, i128) {
    let i: u8 = kani::any();
    kani::assume((i as usize) < INSTANTS_US.len());
    let us = INSTANTS_US[i as usize];
    (unsafe { Timestamp::from_duration(Duration::from_micros(us)) }, us as i128)
}

struct Model {
    /// expiration in us, -1 = not armed
    timer_us: i128,
    /// pending probe transmissions (0 = Idle; RequiresTransmission(0) is not a reachable state)
    pending: u8,
    idle: bool,
}

/// arbitrary Pto (only code touching private fields); every State value, timer armed or not
fn any_pto() -> (Pto, Model) {
    let (pending, idle, state) = if kani::any() {
        (0, true, State::Idle)
    } else {
        let c: u8 = kani::any();
        (c, false, State::RequiresTransmission(c))
    };
    let (timer, timer_us) = if kani::any() {
        let (t, us) = any_instant();
        (Timer::from(Some(t)), us)
    } else {
        (Timer::from(None), -1)
    };
    (Pto { timer, state }, Model { timer_us, pending, idle })
}

/// abstraction; the exhaustive pattern fails to compile if Pto ever gains a field (lost anchor => undecided)
fn same_state(p: &Pto, idle: bool, pending: u8) -> bool {
    let Pto { timer: _, state } = p;
    match state {
        State::Idle => idle,
        State::RequiresTransmission(c) => !idle && *c == pending,
    }
}
fn timer_is(p: &Pto, expect: Option<Timestamp>) -> bool {
    p.timer.next_expiration() == expect
}

//@ harness props=C09 tier=quick level=bounded timeout=240 bound="timestamps from 8 instants straddling the 1 ms granularity boundary"
//@ fn Pto::on_timeout
//@ fn Pto::transmissions
#[kani::proof]
#[kani::unwind(3)]
fn vq_c09_pto_on_timeout() {
    // frame: the only state on_timeout can reach is (&mut Pto, bool, Timestamp) -- no sent-packet map
    let f: fn(&mut Pto, bool, Timestamp) -> Poll<()> = Pto::on_timeout;
    let (mut pto, m) = any_pto();
    let exp0 = pto.timer.next_expiration();
    let packets_in_flight: bool = kani::any();
    let (now, now_us) = any_instant();
    let r = f(&mut pto, packets_in_flight, now);
    // expired: armed and not more than the timer granularity (1 ms) in the future
    let expired = m.timer_us >= 0 && m.timer_us < now_us + k_granularity_us();
    assert!(r.is_ready() == expired, "C09/pto.on_timeout/ready_iff_timer_expired");
    if expired {
        let n = pto.transmissions();
        assert!(n == 1 || n == 2, "C09/pto.on_timeout/requests_one_or_two_probes");
        assert!(n == if packets_in_flight { 2 } else { 1 }, "C09/pto.on_timeout/two_probes_iff_packets_in_flight");
        assert!(same_state(&pto, false, n), "C09/pto.on_timeout/state_requires_transmission");
        assert!(timer_is(&pto, None), "C09/pto.on_timeout/timer_disarmed_after_expiry");
    } else {
        assert!(same_state(&pto, m.idle, m.pending) && timer_is(&pto, exp0), "C09/pto.on_timeout/not_expired_changes_nothing");
    }
    kani::cover!(expired && m.timer_us > now_us, "reach:expired_within_granularity");
    kani::cover!(!expired && m.timer_us == now_us + 1000, "reach:exactly_1ms_ahead_not_expired");
    kani::cover!(!expired && m.timer_us < 0, "reach:not_armed");
    kani::cover!(expired && !m.idle && m.pending == 2 && !packets_in_flight, "reach:pending_probes_overwritten");
    kani::cover!(true, "reach:end");
}

//@ harness props=C09 tier=quick level=bounded timeout=240 bound="base from 8 instants; period in {1 ms, 333 ms, 999 ms, 3 s, 64 s}"
//@ fn Pto::update
//@ fn Pto::cancel
#[kani::proof]
#[kani::unwind(3)]
fn vq_c09_pto_update_cancel() {
    let (mut pto, m) = any_pto();
    let (base, base_us) = any_instant();
    let period_ms: u64 = match kani::any::<u8>() % 5 {
        0 => 1,
        1 => 333,
        2 => 999,
        3 => 3000,
        _ => 64_000,
    };
    pto.update(base, Duration::from_millis(period_ms));
    let want = unsafe { Timestamp::from_duration(Duration::from_micros((base_us as u64) + period_ms * 1000)) };
    assert!(timer_is(&pto, Some(want)), "C09/pto.update/timer_armed_at_base_plus_period");
    assert!(same_state(&pto, m.idle, m.pending), "C09/pto.update/pending_probes_unchanged");
    pto.cancel();
    assert!(timer_is(&pto, None), "C09/pto.cancel/timer_disarmed");
    assert!(same_state(&pto, m.idle, m.pending), "C09/pto.cancel/pending_probes_unchanged");
    kani::cover!(m.timer_us >= 0, "reach:rearmed");
    kani::cover!(true, "reach:end");
}

//@ harness props=C09 tier=quick level=full timeout=240
//@ fn Pto::transmissions
//@ fn Pto::on_transmit_once
//@ fn Pto::force_transmit
#[kani::proof]
#[kani::unwind(3)]
fn vq_c09_pto_transmissions() {
    let (mut pto, m) = any_pto();
    let exp0 = pto.timer.next_expiration();
    assert!(pto.transmissions() == m.pending, "C09/pto.transmissions/is_pending_probe_count");
    if kani::any() {
        // precondition of on_transmit_once (transmission::Provider::on_transmit checks has_transmission_interest)
        kani::assume(m.pending > 0);
        pto.on_transmit_once();
        assert!(pto.transmissions() == m.pending - 1, "C09/pto.on_transmit_once/one_probe_less");
        assert!(same_state(&pto, m.pending == 1, m.pending - 1), "C09/pto.on_transmit_once/idle_after_last_probe");
        kani::cover!(m.pending == 2, "reach:second_probe_pending");
        kani::cover!(m.pending == 255, "reach:largest_count");
    } else {
        pto.force_transmit();
        let expect = if m.idle { 1 } else { m.pending };
        assert!(pto.transmissions() == expect, "C09/pto.force_transmit/one_probe_only_if_idle");
        assert!(same_state(&pto, false, expect) || (!m.idle && same_state(&pto, m.idle, m.pending)), "C09/pto.force_transmit/state");
        kani::cover!(m.idle, "reach:forced_from_idle");
    }
    assert!(timer_is(&pto, exp0), "C09/pto.transmit/timer_unchanged");
    kani::cover!(true, "reach:end");
}
