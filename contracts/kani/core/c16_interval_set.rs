//@ inject crate=core src=quic/s2n-quic-core/src/interval_set/mod.rs
// Contract harnesses for `IntervalSet<u8>` (property C16): one-step inductive pattern (DESIGN 2.3).
// An ARBITRARY well-formed set of CONCRETE shape (exactly n stored intervals, one harness per n) with symbolic bounds
// and symbolic limit; ONE operation with symbolic arguments; the result is well formed and its abstract view (a plain
// mathematical set of u8, observed through a symbolic witness element v) is the specified function of the old view.
// Element type u8: both type bounds (0 and 255) are reachable, so the saturating `end_exclusive`/`start_exclusive`
// corner cases are covered.  level=bounded, bound = number of stored intervals.
// No clone() of the container: the old view is read through the witness before the operation.
use super::*;
use core::num::NonZeroUsize;

type Set = IntervalSet<u8>;

/// `IntervalSet::check_integrity()` is test-only code (`if cfg!(test)`, and the core crate is built with its tests under
/// Kani): for every stored interval it runs six binary searches.  With it the K=1 insert/remove harnesses need more than
/// 20 minutes (measured), so the mutating harnesses replace it by a no-op and assert what it checks themselves:
/// `inv_sorted_disjoint_nonadjacent` (valid, ordered, non-adjacent) after every operation, and `contains` against the
/// view in the observer harnesses.
fn no_integrity_check<T: IntervalBound>(_set: &IntervalSet<T>) {}

/// arbitrary well-formed set with exactly n intervals: valid, sorted, pairwise separated by a gap of >= 1 element;
/// arbitrary limit >= n (a set created by `with_limit` never holds more intervals than its limit: insert/remove
/// re-establish this, obligation `.../len_within_limit`)
fn any_set(n: usize) -> Set {
    let mut set = Set { limit: None, intervals: VecDeque::with_capacity(4) };
    let has_limit: bool = kani::any();
    let lim: usize = kani::any();
    if has_limit {
        kani::assume(lim >= n && lim >= 1);
        set.limit = NonZeroUsize::new(lim);
    }
    let mut prev_end: u16 = 0;
    let mut i = 0;
    while i < n {
        let s: u8 = kani::any();
        let e: u8 = kani::any();
        kani::assume(s <= e);
        if i > 0 {
            kani::assume(s as u16 > prev_end + 1);
        }
        set.intervals.push_back(Interval { start: s, end: e });
        prev_end = e as u16;
        i += 1;
    }
    set
}

/// abstract view: v is an element of the set
fn member(set: &Set, v: u8) -> bool {
    let mut r = false;
    let mut i = 0;
    while i < set.intervals.len() {
        let iv = set.intervals[i];
        if iv.start <= v && v <= iv.end {
            r = true;
        }
        i += 1;
    }
    r
}

/// representation invariant: valid, strictly sorted, non-adjacent
fn well_formed(set: &Set) -> bool {
    let mut ok = true;
    let mut prev_end: u16 = 0;
    let mut i = 0;
    while i < set.intervals.len() {
        let iv = set.intervals[i];
        ok &= iv.start <= iv.end;
        if i > 0 {
            ok &= iv.start as u16 > prev_end + 1;
        }
        prev_end = iv.end as u16;
        i += 1;
    }
    ok
}

fn within_limit(set: &Set) -> bool {
    match set.limit {
        Some(l) => set.intervals.len() <= l.get(),
        None => true,
    }
}

/// number of stored intervals that overlap or touch [a, b] (they merge with it on insert)
fn touching(set: &Set, a: u8, b: u8) -> usize {
    let mut k = 0;
    let mut i = 0;
    while i < set.intervals.len() {
        let iv = set.intervals[i];
        let separated = (iv.end as u16) + 1 < a as u16 || (b as u16) + 1 < iv.start as u16;
        if !separated {
            k += 1;
        }
        i += 1;
    }
    k
}

/// [a, b] lies strictly inside one stored interval (removing it splits that interval in two)
fn splits(set: &Set, a: u8, b: u8) -> bool {
    let mut r = false;
    let mut i = 0;
    while i < set.intervals.len() {
        let iv = set.intervals[i];
        if iv.start < a && b < iv.end {
            r = true;
        }
        i += 1;
    }
    r
}

// ---- insert / insert_front --------------------------------------------------------------------------------------------
//@ harness props=C16 tier=thorough level=bounded bound="K=0 stored intervals, element type u8" timeout=600 mem=12
//@ fn IntervalSet::insert
//@ fn IntervalSet::insert_front
#[kani::proof]
#[kani::unwind(5)]
#[kani::stub(crate::interval_set::IntervalSet::check_integrity, no_integrity_check)]
fn vq_c16_interval_set_insert_k0() {
    insert_step(0, kani::any());
}

fn insert_step(n: usize, front: bool) {
    let mut set = any_set(n);
    let v: u8 = kani::any();
    let before = member(&set, v);
    let limit = set.limit;
    let a: u8 = kani::any();
    let b: u8 = kani::any();
    kani::assume(a <= b);
    let merged = touching(&set, a, b);
    let expected_len = n + 1 - merged; // every touching interval is absorbed into the new one
    let exceeds = match limit {
        Some(l) => expected_len > l.get(),
        None => false,
    };

    let res = if front { set.insert_front(a..=b) } else { set.insert(a..=b) };

    // LimitExceeded exactly when the resulting set would need more intervals than the limit
    let ok = res.is_ok();
    assert!(!ok == exceeds, "C16/interval_set.insert/err_iff_result_exceeds_limit");
    let after = member(&set, v);
    assert!(!ok || after == (before || (a <= v && v <= b)), "C16/interval_set.insert/view_is_union");
    assert!(!ok || set.intervals.len() == expected_len, "C16/interval_set.insert/interval_count_is_minimal");
    assert!(ok || res == Err(IntervalSetError::LimitExceeded), "C16/interval_set.insert/error_code");
    assert!(ok || (after == before && set.intervals.len() == n), "C16/interval_set.insert/err_leaves_contents");
    assert!(well_formed(&set), "C16/interval_set.insert/inv_sorted_disjoint_nonadjacent");
    assert!(within_limit(&set), "C16/interval_set.insert/len_within_limit");
    assert!(set.limit == limit, "C16/interval_set.insert/limit_unchanged");
    kani::cover!(ok && merged == 0, "reach:new_interval");
    kani::cover!(n == 0 || (ok && merged == n), "reach:merged_all");
    kani::cover!(n == 0 || !ok, "reach:limit_exceeded");
    kani::cover!(ok && b == 255, "reach:insert_up_to_type_max");
    kani::cover!(ok && a == 0, "reach:insert_from_type_min");
    kani::cover!(n == 0 || (ok && before && a <= v && v <= b), "reach:witness_already_present");
}

//@ harness props=C16 tier=thorough level=bounded bound="K=1 stored interval, element type u8" timeout=1200 mem=12
//@ fn IntervalSet::insert
//@ fn insert::insert
#[kani::proof]
#[kani::unwind(5)]
#[kani::stub(crate::interval_set::IntervalSet::check_integrity, no_integrity_check)]
fn vq_c16_interval_set_insert_k1() {
    insert_step(1, false);
}

//@ harness props=C16 tier=thorough level=bounded bound="K=1 stored interval, element type u8" timeout=1200 mem=12
//@ fn IntervalSet::insert_front
#[kani::proof]
#[kani::unwind(5)]
#[kani::stub(crate::interval_set::IntervalSet::check_integrity, no_integrity_check)]
fn vq_c16_interval_set_insert_front_k1() {
    insert_step(1, true);
}

//@ harness props=C16 tier=thorough level=bounded bound="K=2 stored intervals, element type u8" timeout=2400 mem=12
//@ fn IntervalSet::insert
//@ fn insert::insert
#[kani::proof]
#[kani::unwind(6)]
#[kani::stub(crate::interval_set::IntervalSet::check_integrity, no_integrity_check)]
fn vq_c16_interval_set_insert_k2() {
    insert_step(2, false);
}

// ---- remove ------------------------------------------------------------------------------------------------------------
//@ harness props=C16 tier=thorough level=bounded bound="K=0 stored intervals, element type u8" timeout=600 mem=12
//@ fn IntervalSet::remove
#[kani::proof]
#[kani::unwind(5)]
#[kani::stub(crate::interval_set::IntervalSet::check_integrity, no_integrity_check)]
fn vq_c16_interval_set_remove_k0() {
    remove_step(0);
}

fn remove_step(n: usize) {
    let mut set = any_set(n);
    let v: u8 = kani::any();
    let before = member(&set, v);
    let limit = set.limit;
    let a: u8 = kani::any();
    let b: u8 = kani::any();
    kani::assume(a <= b);
    let split = splits(&set, a, b);
    // the only way a removal adds an interval is by splitting one: n -> n + 1
    let exceeds = match limit {
        Some(l) => split && n + 1 > l.get(),
        None => false,
    };
    // the implementation refuses a split already when the result would *reach* the limit (remove.rs:24
    // `l.get() > ranges.len() + 1`): known deviation, see the residual obligation below
    let at_limit = match limit {
        Some(l) => split && n + 1 == l.get(),
        None => false,
    };

    let res = set.remove(a..=b);

    let ok = res.is_ok();
    assert!(at_limit || !ok == exceeds, "C16/interval_set.remove/err_iff_result_exceeds_limit#outside-known");
    let after = member(&set, v);
    assert!(!ok || after == (before && !(a <= v && v <= b)), "C16/interval_set.remove/view_is_difference");
    assert!(ok || res == Err(IntervalSetError::LimitExceeded), "C16/interval_set.remove/error_code");
    assert!(ok || (after == before && set.intervals.len() == n), "C16/interval_set.remove/err_leaves_contents");
    assert!(well_formed(&set), "C16/interval_set.remove/inv_sorted_disjoint_nonadjacent");
    assert!(within_limit(&set), "C16/interval_set.remove/len_within_limit");
    assert!(set.limit == limit, "C16/interval_set.remove/limit_unchanged");
    kani::cover!(n == 0 || (ok && split), "reach:split");
    kani::cover!(n == 0 || (ok && set.intervals.len() == 0), "reach:removed_everything");
    kani::cover!(n == 0 || (ok && set.intervals.len() == n && before && !after), "reach:trimmed");
    kani::cover!(n == 0 || !ok, "reach:limit_exceeded");
    kani::cover!(ok && b == 255, "reach:remove_up_to_type_max");
    kani::cover!(ok && a == 0, "reach:remove_from_type_min");
    // statement-level obligation (kept last: Kani assumes an assertion after checking it)
    assert!(!ok == exceeds, "C16/interval_set.remove/err_iff_result_exceeds_limit");
}

//@ harness props=C16 tier=thorough level=bounded bound="K=1 stored interval, element type u8" timeout=1200 mem=12
//@ fn IntervalSet::remove
//@ fn remove::remove
#[kani::proof]
#[kani::unwind(5)]
#[kani::stub(crate::interval_set::IntervalSet::check_integrity, no_integrity_check)]
fn vq_c16_interval_set_remove_k1() {
    remove_step(1);
}

//@ harness props=C16 tier=thorough level=bounded bound="K=2 stored intervals, element type u8" timeout=2400 mem=12
//@ fn IntervalSet::remove
//@ fn remove::remove
#[kani::proof]
#[kani::unwind(6)]
#[kani::stub(crate::interval_set::IntervalSet::check_integrity, no_integrity_check)]
fn vq_c16_interval_set_remove_k2() {
    remove_step(2);
}

// ---- pop_min and the observers -------------------------------------------------------------------------------------------
//@ harness props=C16 tier=thorough level=bounded bound="K=0 stored intervals, element type u8" timeout=600 mem=12
//@ fn IntervalSet::pop_min
//@ fn IntervalSet::contains
//@ fn IntervalSet::min_value
//@ fn IntervalSet::max_value
//@ fn IntervalSet::interval_len
//@ fn IntervalSet::is_empty
//@ fn IntervalSet::count
//@ fn IntervalSet::with_limit
#[kani::proof]
#[kani::unwind(5)]
fn vq_c16_interval_set_observers_pop_min_k0() {
    observers_pop_min_step(0);
}

fn observers_pop_min_step(n: usize) {
    let mut set = any_set(n);
    let v: u8 = kani::any();
    let before = member(&set, v);
    let limit = set.limit;
    // observers against the view
    assert!(set.contains(&v) == before, "C16/interval_set.contains/iff_member");
    assert!(set.interval_len() == n, "C16/interval_set.interval_len/eq_stored");
    assert!(set.is_empty() == (n == 0), "C16/interval_set.is_empty/iff_no_interval");
    let mn = set.min_value();
    assert!(mn.is_none() == (n == 0), "C16/interval_set.min_value/none_iff_empty");
    assert!(mn.is_none() || member(&set, mn.unwrap_or(0)), "C16/interval_set.min_value/is_member");
    assert!(mn.is_none() || !before || mn.unwrap_or(0) <= v, "C16/interval_set.min_value/le_every_member");
    let mx = set.max_value();
    assert!(mx.is_none() == (n == 0), "C16/interval_set.max_value/none_iff_empty");
    assert!(mx.is_none() || member(&set, mx.unwrap_or(0)), "C16/interval_set.max_value/is_member");
    assert!(mx.is_none() || !before || v <= mx.unwrap_or(0), "C16/interval_set.max_value/ge_every_member");
    // count() == cardinality: sum of the interval lengths (independent arithmetic)
    let mut card: usize = 0;
    let mut i = 0;
    while i < n {
        let iv = set.intervals[i];
        card += (iv.end - iv.start) as usize + 1;
        i += 1;
    }
    assert!(set.count() == card, "C16/interval_set.count/eq_cardinality");

    // pop_min: removes exactly the lowest interval
    let min = set.min_value();
    let got = set.pop_min();
    let after = member(&set, v);
    assert!(got.is_none() == (n == 0), "C16/interval_set.pop_min/none_iff_empty");
    let iv = got.unwrap_or(Interval { start: 0, end: 0 });
    let in_popped = got.is_some() && iv.start <= v && v <= iv.end;
    assert!(got.is_some() || after == before, "C16/interval_set.pop_min/empty_stays_empty");
    assert!(got.is_none() || (Some(iv.start) == min && iv.is_valid()), "C16/interval_set.pop_min/returns_lowest_interval");
    assert!(!in_popped || before, "C16/interval_set.pop_min/popped_elements_were_members");
    assert!(got.is_none() || after == (before && !in_popped), "C16/interval_set.pop_min/view_is_rest");
    assert!(got.is_none() || !after || v > iv.end, "C16/interval_set.pop_min/rest_is_above");
    assert!(got.is_none() || set.intervals.len() + 1 == n, "C16/interval_set.pop_min/one_interval_less");
    assert!(well_formed(&set), "C16/interval_set.pop_min/inv_sorted_disjoint_nonadjacent");
    assert!(set.limit == limit, "C16/interval_set.pop_min/limit_unchanged");

    // with_limit / set_limit / remove_limit: an empty set carrying exactly that limit
    let l: usize = kani::any();
    kani::assume(l >= 1);
    let fresh = Set::with_limit(NonZeroUsize::new(l).unwrap());
    assert!(fresh.interval_len() == 0 && fresh.limit.map(|x| x.get()) == Some(l), "C16/interval_set.with_limit/empty_with_limit");
    kani::cover!(n == 0 || before, "reach:witness_member");
    kani::cover!(!before, "reach:witness_not_member");
    kani::cover!(n < 2 || (got.is_some() && after), "reach:witness_in_rest");
    kani::cover!(true, "reach:end");
}

//@ harness props=C16 tier=thorough level=bounded bound="K=1 stored interval, element type u8" timeout=1200 mem=12
//@ fn IntervalSet::pop_min
//@ fn IntervalSet::contains
//@ fn IntervalSet::min_value
//@ fn IntervalSet::max_value
//@ fn IntervalSet::count
#[kani::proof]
#[kani::unwind(5)]
fn vq_c16_interval_set_observers_pop_min_k1() {
    observers_pop_min_step(1);
}

//@ harness props=C16 tier=thorough level=bounded bound="K=2 stored intervals, element type u8" timeout=1200 mem=12
//@ fn IntervalSet::pop_min
//@ fn IntervalSet::contains
//@ fn IntervalSet::min_value
//@ fn IntervalSet::max_value
//@ fn IntervalSet::count
#[kani::proof]
#[kani::unwind(6)]
fn vq_c16_interval_set_observers_pop_min_k2() {
    observers_pop_min_step(2);
}
