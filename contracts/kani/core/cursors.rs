//@ inject crate=core src=quic/s2n-quic-core/src/buffer/reassembler.rs
// Contract harness for buffer::reassembler::Cursors::handle_reader_fin (properties C04 and C16): the final-size
// rules of RFC 9000 4.5, from which ReceiveStream::on_data derives FINAL_SIZE_ERROR / FLOW_CONTROL_ERROR.
// Predicates: contracts/spec/flow_in.rs (`Cur`, `cur_*`; shared with verus/lemmas/C04.rs).
use super::*;
use crate::buffer::{reader, writer};
#[allow(dead_code, unused_variables)]
mod spec {
    include!("../../spec/flow_out.rs");
    include!("../../spec/flow_in.rs");
}
use spec::*;

const MAXV: u64 = crate::varint::MAX_VARINT_VALUE;

/// harness-side Reader: exactly the three observations handle_reader_fin makes (current offset, buffered
/// length, announced final offset), all symbolic
struct R {
    off: u64,
    len: usize,
    fin: Option<u64>,
}
impl reader::Storage for R {
    type Error = core::convert::Infallible;
    fn buffered_len(&self) -> usize {
        self.len
    }
    fn read_chunk(&mut self, _watermark: usize) -> Result<reader::storage::Chunk<'_>, Self::Error> {
        Ok(Default::default())
    }
    fn partial_copy_into<D: writer::Storage + ?Sized>(&mut self, _dest: &mut D) -> Result<reader::storage::Chunk<'_>, Self::Error> {
        Ok(Default::default())
    }
}
impl Reader for R {
    fn current_offset(&self) -> VarInt {
        VarInt::new(self.off).unwrap()
    }
    fn final_offset(&self) -> Option<VarInt> {
        self.fin.map(|f| VarInt::new(f).unwrap())
    }
}

/// arbitrary cursors satisfying `cur_inv`: start <= max_recv <= 2^62-1; final size unknown or >= max_recv
fn any_cursors() -> Cursors {
    let start: u64 = kani::any();
    let max_recv: u64 = kani::any();
    let fin: Option<u64> = kani::any();
    kani::assume(start <= max_recv && max_recv <= MAXV);
    if let Some(f) = fin {
        kani::assume(max_recv <= f && f <= MAXV);
    }
    Cursors { start_offset: start, max_recv_offset: max_recv, final_offset: fin.unwrap_or(UNKNOWN_FINAL_SIZE) }
}

fn abs(c: &Cursors) -> Cur {
    Cur {
        start: c.start_offset as i128,
        max_recv: c.max_recv_offset as i128,
        fin: if c.final_offset == UNKNOWN_FINAL_SIZE { -1 } else { c.final_offset as i128 },
    }
}

//@ harness props=C04,C16 tier=quick level=full timeout=200
//@ fn Cursors::handle_reader_fin
//@ fn Cursors::final_size
#[kani::proof]
#[kani::unwind(3)]
fn vq_c04_cursors_handle_reader_fin() {
    let mut c = any_cursors();
    let old = abs(&c);
    assert!(cur_inv(old), "C04/cursors.builder/inv");
    assert!(c.final_size().map_or(-1, |f| f as i128) == old.fin, "C04/cursors.final_size/is_final_offset_or_none");
    let off: u64 = kani::any();
    let len: usize = kani::any();
    let rfin_opt: Option<u64> = kani::any();
    kani::assume(off <= MAXV);
    let end = off as i128 + len as i128;
    let rfin = rfin_opt.map_or(-1, |f| f as i128);
    // well-formed reader: what it has buffered does not extend beyond the final offset it announces
    kani::assume(cur_reader_wf(end, rfin));
    let mut r = R { off, len, fin: rfin_opt };
    let res = c.handle_reader_fin(&mut r);
    let new = abs(&c);
    let kind = match res {
        Ok(()) => 0,
        Err(Error::OutOfRange) => 1,
        Err(Error::InvalidFin) => 2,
        Err(Error::ReaderError(_)) => 3,
    };
    // RFC 9000 4.5: the four final-size cases, and offsets beyond 2^62-1 cannot exist (RFC 9000 4.1 / 19.8)
    assert!(cur_fin_result(old, end, rfin, kind), "C04/cursors.handle_reader_fin/error_iff_rfc9000_4_5_contradiction");
    assert!(cur_fin_ok_post(old, end, rfin, new, kind), "C04/cursors.handle_reader_fin/ok_records_max_recv_and_final_size");
    assert!(kind != 0 || old.fin < 0 || new.fin == old.fin, "C04/cursors.handle_reader_fin/final_size_never_changes_once_known");
    assert!(cur_fin_err_unchanged(old, new, kind), "C04/cursors.handle_reader_fin/err_leaves_cursors_unchanged");
    assert!(cur_inv(new), "C04/cursors.handle_reader_fin/inv_preserved");
    kani::cover!(kind == 1, "reach:out_of_range");
    kani::cover!(kind == 2 && rfin >= 0 && old.fin >= 0, "reach:final_size_changed");
    kani::cover!(kind == 2 && rfin >= 0 && old.fin < 0, "reach:final_size_below_received");
    kani::cover!(kind == 2 && rfin < 0, "reach:data_beyond_final_size");
    kani::cover!(kind == 0 && rfin >= 0 && old.fin < 0, "reach:final_size_recorded");
    kani::cover!(kind == 0 && rfin >= 0 && old.fin >= 0, "reach:same_final_size_again");
    kani::cover!(kind == 0 && rfin < 0 && old.fin >= 0 && end == old.fin, "reach:data_up_to_final_size");
    kani::cover!(kind == 0 && new.max_recv > old.max_recv, "reach:max_recv_advances");
    kani::cover!(kind == 0 && end == MAXV as i128, "reach:end_at_varint_max");
}
