//@ inject crate=core src=quic/s2n-quic-core/src/frame/stream.rs
// C05 contract harnesses for the payload-carrying frames: STREAM (RFC 9000 19.8), CRYPTO (19.6),
// NEW_TOKEN (19.7), DATAGRAM (RFC 9221 section 4).  Oracle: `_rfc9000_wire.rs`.
// All of them are level=bounded: the payload is capped (enc/dec: <= 4 bytes; ref: whole input <= 26 bytes);
// stream id / offset / length fields range over the full 62-bit domain.
// Structure as in c05_frames_fixed.rs: enc on a 32-byte buffer against the oracle, `_exact` on a buffer of exactly
// the announced size, dec = the frame's own decoder invoked the way the tag dispatch does, ref = agreement with the
// reference parser on arbitrary bytes (thorough tier).
use super::*;
use crate::frame::{Crypto, Datagram, NewToken};
use s2n_codec::{DecoderBufferMut, DecoderParameterizedValueMut, EncoderBuffer};
#[macro_use]
#[allow(dead_code, unused_macros)]
mod wire {
    include!("_rfc9000_wire.rs");
}
use wire::*;

const W: usize = 32;

fn v(x: u64) -> VarInt {
    VarInt::new(x).unwrap()
}

fn any_int() -> u64 {
    let x: u64 = kani::any();
    kani::assume(x <= RFC_VARINT_MAX);
    x
}

fn any_payload_len() -> usize {
    let n: usize = kani::any();
    kani::assume(n <= 4);
    n
}

struct Enc {
    announced: usize,
    used: usize,
    before: [u8; W],
    out: [u8; W],
}

fn run_encoder<T: EncoderValue>(f: &T) -> Enc {
    let announced = f.encoding_size();
    let before: [u8; W] = kani::any();
    let mut out = before;
    let used = {
        let mut e = EncoderBuffer::new(&mut out[..]);
        e.encode(f);
        e.len()
    };
    Enc { announced, used, before, out }
}

fn run_encoder_exact<T: EncoderValue>(f: &T) -> Enc {
    let announced = f.encoding_size();
    let before: [u8; W] = kani::any();
    kani::assume(announced <= W);
    let mut out = before;
    let used = {
        let mut e = EncoderBuffer::new(&mut out[..announced]);
        e.encode(f);
        e.len()
    };
    Enc { announced, used, before, out }
}

macro_rules! enc_obligations {
    ($f:expr, $spec:expr, $announced:literal, $used:literal, $bytes:literal) => {{
        let e = run_encoder(&$f);
        assert!(e.announced == $spec.n, $announced);
        assert!(e.used == e.announced, $used);
        assert!(prefix_eq32(&e.out, &$spec.b, $spec.n), $bytes);
    }};
}

macro_rules! exact_obligations {
    ($f:expr, $used:literal, $untouched:literal) => {{
        let e = run_encoder_exact(&$f);
        assert!(e.used == e.announced, $used);
        assert!(suffix_eq32(&e.out, &e.before, e.announced), $untouched);
    }};
}

/// Decodes one frame of the static type `T` from bytes[..len] the way the tag dispatch of the `frames!` macro does for
/// the arm of `T` (`buffer.skip(size_of::<Tag>())?` then `buffer.decode_parameterized(tag)?`); None for Err.
/// (Why not through `FrameMut`: see c05_frames_fixed.rs `run_decoder`; the dispatch itself is contracted in c05_total.rs.)
fn decode_as<'a, T>(bytes: &'a mut [u8; W], len: usize, ty: u8) -> Option<(T, usize)>
where
    T: DecoderParameterizedValueMut<'a, Parameter = Tag>,
{
    assert!(len == 0 || bytes[0] == ty);
    let buffer = DecoderBufferMut::new(&mut bytes[..len]);
    let buffer = buffer.skip(core::mem::size_of::<Tag>()).ok()?;
    let (frame, rest) = buffer.decode_parameterized::<T>(ty).ok()?;
    Some((frame, rest.len()))
}

/// d == src[..n]  (n <= 4)
fn payload_eq4(d: &[u8], src: &[u8; 4], n: usize) -> bool {
    if d.len() != n {
        return false;
    }
    let mut ok = true;
    unroll!(4, i, {
        if i < n && d[i] != src[i] {
            ok = false;
        }
    });
    ok
}

/// d == bytes[start..start + n]
fn payload_is_window(d: &[u8], bytes: &[u8; W], start: usize, n: usize) -> bool {
    if d.len() != n {
        return false;
    }
    let mut ok = true;
    unroll!(32, i, {
        if i < n && d[i] != bytes[start + i] {
            ok = false;
        }
    });
    ok
}

// ---- ref: agreement with the reference parser on arbitrary bytes ----------------------------------------------
#[derive(Clone, Copy)]
struct DataView {
    ty: u8,
    stream_id: u64,
    offset: u64,
    data_start: usize,
    data_len: usize,
}

/// reference parser for STREAM / CRYPTO / NEW_TOKEN / DATAGRAM; None = FRAME_ENCODING_ERROR
fn rfc_parse_data_frame(rd: &mut Rd<W>) -> Option<DataView> {
    let ty = rd.u8()?;
    let mut stream_id = 0;
    let mut offset = 0;
    let has_len;
    if ty >= 0x08 && ty <= 0x0f {
        // STREAM Frame { Type (i) = 0x08..0x0f, Stream ID (i), [Offset (i)], [Length (i)], Stream Data (..) }
        stream_id = rd.varint()?;
        if ty & 0x04 != 0 {
            offset = rd.varint()?;
        }
        has_len = ty & 0x02 != 0;
    } else if ty == 0x06 {
        // CRYPTO Frame { Type (i) = 0x06, Offset (i), Length (i), Crypto Data (..) }
        offset = rd.varint()?;
        has_len = true;
    } else if ty == 0x07 {
        // NEW_TOKEN Frame { Type (i) = 0x07, Token Length (i), Token (..) }
        has_len = true;
    } else if ty == 0x30 || ty == 0x31 {
        // DATAGRAM Frame { Type (i) = 0x30..0x31, [Length (i)], Datagram Data (..) }
        has_len = ty & 0x01 != 0;
    } else {
        return None;
    }
    let data_len = if has_len {
        let l = rd.varint()?;
        if l > rd.remaining() as u64 {
            return None;
        }
        l as usize
    } else {
        rd.remaining()
    };
    let data_start = rd.skip(data_len)?;
    if ty == 0x07 && data_len == 0 {
        return None; // 19.7: empty token
    }
    Some(DataView { ty, stream_id, offset, data_start, data_len })
}

/// what the real decoder returned, in the terms of the reference parser
#[derive(Clone, Copy)]
struct Got {
    ty: u8,
    stream_id: u64,
    offset: u64,
    data_len: usize,
    data_is_window: bool,
    rest: usize,
}

/// one expansion per frame type: the decoder under test is selected statically
macro_rules! data_ref_agreement {
    ($ty:expr, |$bytes:ident, $input:ident, $len:ident, $want:ident| $decode:expr) => {{
        let ty: u8 = $ty;
        let mut $bytes: [u8; W] = kani::any();
        let $len: usize = kani::any();
        kani::assume($len >= 1 && $len <= 26);
        $bytes[0] = ty;
        let mut rd = Rd::<W>::new($bytes, $len);
        let reference = rfc_parse_data_frame(&mut rd);
        let $want = reference.unwrap_or(DataView { ty, stream_id: 0, offset: 0, data_start: 0, data_len: 0 });
        let mut $input = $bytes;
        let r: Option<Got> = $decode;
        assert!(r.is_some() == reference.is_some(), "C05/data_frames.ref/ok_iff_reference_ok");
        if let (Some(got), Some(want)) = (r, reference) {
            assert!($len - got.rest == rd.at, "C05/data_frames.ref/consumed_eq_reference");
            assert!(got.rest < $len, "C05/data_frames.ref/progress");
            assert!(got.ty == want.ty && got.stream_id == want.stream_id && got.offset == want.offset, "C05/data_frames.ref/type_and_fields_eq_reference");
            assert!(got.data_len == want.data_len && got.data_is_window, "C05/data_frames.ref/payload_is_the_referenced_window");
        }
        kani::cover!(reference.is_some() && rd.at == $len, "reach:exact_fit");
        kani::cover!(reference.is_some() && rd.at < $len, "reach:trailing_bytes");
        kani::cover!(reference.is_none() && $len > 3, "reach:rejected");
    }};
}

fn stream_got(bytes: &[u8; W], input: &mut [u8; W], len: usize, ty: u8, want: &DataView) -> Option<Got> {
    let (s, rest) = decode_as::<Stream<DecoderBufferMut>>(input, len, ty)?;
    // the type byte the decoded value stands for: OFF is not recorded in the value, take it from the input
    let mut t = 0x08u8 | (ty & 0x04);
    if !s.is_last_frame {
        t |= 0x02;
    }
    if s.is_fin {
        t |= 0x01;
    }
    let d = s.data.into_less_safe_slice();
    Some(Got { ty: t, stream_id: s.stream_id.as_u64(), offset: s.offset.as_u64(), data_len: d.len(), data_is_window: payload_is_window(d, bytes, want.data_start, want.data_len), rest })
}

fn crypto_got(bytes: &[u8; W], input: &mut [u8; W], len: usize, want: &DataView) -> Option<Got> {
    let (c, rest) = decode_as::<Crypto<DecoderBufferMut>>(input, len, 0x06)?;
    let d = c.data.into_less_safe_slice();
    Some(Got { ty: 0x06, stream_id: 0, offset: c.offset.as_u64(), data_len: d.len(), data_is_window: payload_is_window(d, bytes, want.data_start, want.data_len), rest })
}

fn new_token_got(bytes: &[u8; W], input: &mut [u8; W], len: usize, want: &DataView) -> Option<Got> {
    let (t, rest) = decode_as::<NewToken>(input, len, 0x07)?;
    Some(Got { ty: 0x07, stream_id: 0, offset: 0, data_len: t.token.len(), data_is_window: payload_is_window(t.token, bytes, want.data_start, want.data_len), rest })
}

fn datagram_got(bytes: &[u8; W], input: &mut [u8; W], len: usize, ty: u8, want: &DataView) -> Option<Got> {
    let (g, rest) = decode_as::<Datagram<DecoderBufferMut>>(input, len, ty)?;
    let d = g.data.into_less_safe_slice();
    Some(Got { ty: if g.is_last_frame { 0x30 } else { 0x31 }, stream_id: 0, offset: 0, data_len: d.len(), data_is_window: payload_is_window(d, bytes, want.data_start, want.data_len), rest })
}

/// one literal token length per call (a `copy_from_slice` of symbolic length is what makes CBMC slow here)
fn new_token_shape<const L: usize>() {
    let token: [u8; 4] = kani::any();
    let mut spec = Wire::<W>::new(kani::any());
    spec.new_token(&token, L);
    let f = NewToken { token: &token[..L] };
    enc_obligations!(f, spec, "C05/new_token.enc/announced_len_eq_rfc_len", "C05/new_token.enc/len_eq_announced", "C05/new_token.enc/bytes_eq_rfc");
    exact_obligations!(f, "C05/new_token.enc/len_eq_announced_without_slack", "C05/new_token.enc/nothing_written_past_announced_len");
    let extra: usize = kani::any();
    kani::assume(extra <= 3 && spec.n + extra <= W);
    let r = decode_as::<NewToken>(&mut spec.b, spec.n + extra, T_NEW_TOKEN);
    // 19.7: "The token MUST NOT be empty.  A client MUST treat receipt of a NEW_TOKEN frame with an empty Token
    // field as a connection error of type FRAME_ENCODING_ERROR."
    assert!(r.is_some() == (L > 0), "C05/new_token.dec/ok_iff_token_not_empty");
    if let Some((t, rest)) = r {
        assert!(rest == extra, "C05/new_token.dec/remainder");
        assert!(payload_eq4(t.token, &token, L), "C05/new_token.dec/token");
    }
    kani::cover!(extra == 3, "reach:trailing_bytes");
    kani::cover!(extra == 0, "reach:exact_fit");
}

// ---- 19.8 STREAM: enc -------------------------------------------------------------------------------------
//@ harness props=C05 tier=thorough level=bounded timeout=1500 bound="stream data <= 4 bytes; stream id and offset full-domain"
//@ fn Stream::encode
//@ fn Stream::tag
//@ fn Stream::encoding_size_for_encoder
#[kani::proof]
#[kani::unwind(10)]
fn vq_c05_frame_stream_enc() {
    let stream_id = any_int();
    let offset = any_int();
    let is_last_frame: bool = kani::any();
    let is_fin: bool = kani::any();
    let data: [u8; 4] = kani::any();
    let dlen = any_payload_len();
    // 19.8: Offset is omitted (OFF = 0) exactly when the offset is 0 -- the only choice that keeps the frame
    // shortest; Length is present (LEN = 1) unless the frame is the last one of the packet
    let mut spec = Wire::<W>::new(kani::any());
    spec.stream(offset != 0, !is_last_frame, is_fin, stream_id, offset, &data, dlen);
    let f = Stream { stream_id: v(stream_id), offset: v(offset), is_last_frame, is_fin, data: &data[..dlen] };
    assert!(f.tag() == spec.b[0], "C05/stream.enc/type_bits_off_len_fin");
    assert!(f.tag() >= 0x08 && f.tag() <= 0x0f, "C05/stream.enc/type_in_0x08_0x0f");
    enc_obligations!(f, spec, "C05/stream.enc/announced_len_eq_rfc_len", "C05/stream.enc/len_eq_announced", "C05/stream.enc/bytes_eq_rfc");
    kani::cover!(offset == 0 && is_last_frame && !is_fin && dlen == 0, "reach:type_0x08_empty");
    kani::cover!(offset != 0 && !is_last_frame && is_fin && dlen == 4, "reach:type_0x0f_full");
    kani::cover!(offset == RFC_VARINT_MAX && stream_id == RFC_VARINT_MAX, "reach:max_fields");
    kani::cover!(true, "reach:end");
}

//@ harness props=C05 tier=thorough level=bounded timeout=1500 bound="stream data <= 4 bytes; stream id and offset full-domain"
//@ fn Stream::encode
//@ fn Stream::encoding_size_for_encoder
#[kani::proof]
#[kani::unwind(10)]
fn vq_c05_frame_stream_enc_exact() {
    let stream_id = any_int();
    let offset = any_int();
    let is_last_frame: bool = kani::any();
    let is_fin: bool = kani::any();
    let data: [u8; 4] = kani::any();
    let dlen = any_payload_len();
    let f = Stream { stream_id: v(stream_id), offset: v(offset), is_last_frame, is_fin, data: &data[..dlen] };
    exact_obligations!(f, "C05/stream.enc/len_eq_announced_without_slack", "C05/stream.enc/nothing_written_past_announced_len");
    kani::cover!(offset == 0 && is_last_frame && dlen == 0, "reach:smallest");
    kani::cover!(offset == RFC_VARINT_MAX && !is_last_frame && dlen == 4, "reach:largest");
    kani::cover!(true, "reach:end");
}

// ---- 19.8 STREAM: dec -------------------------------------------------------------------------------------
//@ harness props=C05 tier=thorough level=bounded timeout=1500 bound="stream data <= 4 bytes; stream id and offset full-domain; all 8 types 0x08..0x0f"
//@ fn Stream::decode_parameterized_mut
#[kani::proof]
#[kani::unwind(10)]
fn vq_c05_frame_stream_dec() {
    let stream_id = any_int();
    let off_bit: bool = kani::any();
    let len_bit: bool = kani::any();
    let fin_bit: bool = kani::any();
    // an explicit Offset field may carry 0 (valid, just not shortest)
    let offset = if off_bit { any_int() } else { 0 };
    let data: [u8; 4] = kani::any();
    let dlen = any_payload_len();
    let mut spec = Wire::<W>::new(kani::any());
    spec.stream(off_bit, len_bit, fin_bit, stream_id, offset, &data, dlen);
    let ty = spec.b[0];
    // without a Length field the data extends to the end of the packet: nothing can follow
    let extra: usize = kani::any();
    kani::assume(extra <= 3 && spec.n + extra <= W && (len_bit || extra == 0));
    let r = decode_as::<Stream<DecoderBufferMut>>(&mut spec.b, spec.n + extra, ty);
    assert!(r.is_some(), "C05/stream.dec/accepts_rfc_bytes");
    if let Some((s, rest)) = r {
        assert!(rest == extra, "C05/stream.dec/remainder");
        assert!(s.stream_id.as_u64() == stream_id, "C05/stream.dec/stream_id");
        assert!(s.offset.as_u64() == offset, "C05/stream.dec/offset_or_zero_without_off_bit");
        assert!(s.is_fin == fin_bit, "C05/stream.dec/fin");
        assert!(s.is_last_frame == !len_bit, "C05/stream.dec/last_frame_iff_no_len_bit");
        assert!(payload_eq4(s.data.into_less_safe_slice(), &data, dlen), "C05/stream.dec/data");
    }
    kani::cover!(!off_bit && !len_bit && !fin_bit, "reach:type_0x08");
    kani::cover!(off_bit && len_bit && fin_bit && extra == 3, "reach:type_0x0f_with_trailing_bytes");
    kani::cover!(off_bit && offset == 0, "reach:explicit_zero_offset");
    kani::cover!(dlen == 0 && fin_bit, "reach:empty_fin");
    kani::cover!(true, "reach:end");
}

// ---- 19.6 CRYPTO ------------------------------------------------------------------------------------------
//@ harness props=C05 tier=thorough level=bounded timeout=1500 bound="crypto data <= 4 bytes; offset full-domain"
//@ fn Crypto::encode
//@ fn Crypto::decode_parameterized_mut
#[kani::proof]
#[kani::unwind(10)]
fn vq_c05_frame_crypto() {
    let offset = any_int();
    let data: [u8; 4] = kani::any();
    let dlen = any_payload_len();
    let mut spec = Wire::<W>::new(kani::any());
    spec.crypto(offset, &data, dlen);
    let f = Crypto { offset: v(offset), data: &data[..dlen] };
    enc_obligations!(f, spec, "C05/crypto.enc/announced_len_eq_rfc_len", "C05/crypto.enc/len_eq_announced", "C05/crypto.enc/bytes_eq_rfc");
    let extra: usize = kani::any();
    kani::assume(extra <= 3 && spec.n + extra <= W);
    let r = decode_as::<Crypto<DecoderBufferMut>>(&mut spec.b, spec.n + extra, T_CRYPTO);
    assert!(r.is_some(), "C05/crypto.dec/accepts_rfc_bytes");
    if let Some((c, rest)) = r {
        assert!(rest == extra, "C05/crypto.dec/remainder");
        assert!(c.offset.as_u64() == offset, "C05/crypto.dec/offset");
        assert!(payload_eq4(c.data.into_less_safe_slice(), &data, dlen), "C05/crypto.dec/data");
    }
    kani::cover!(dlen == 0 && extra == 0, "reach:empty");
    kani::cover!(dlen == 4 && offset == RFC_VARINT_MAX && extra == 3, "reach:full");
    kani::cover!(true, "reach:end");
}

//@ harness props=C05 tier=thorough level=bounded timeout=1500 bound="crypto data <= 4 bytes; offset full-domain"
//@ fn Crypto::encode
#[kani::proof]
#[kani::unwind(10)]
fn vq_c05_frame_crypto_exact() {
    let offset = any_int();
    let data: [u8; 4] = kani::any();
    let dlen = any_payload_len();
    let f = Crypto { offset: v(offset), data: &data[..dlen] };
    exact_obligations!(f, "C05/crypto.enc/len_eq_announced_without_slack", "C05/crypto.enc/nothing_written_past_announced_len");
    kani::cover!(dlen == 0 && offset == 0, "reach:smallest");
    kani::cover!(dlen == 4 && offset == RFC_VARINT_MAX, "reach:largest");
    kani::cover!(true, "reach:end");
}

// ---- 19.7 NEW_TOKEN ---------------------------------------------------------------------------------------
//@ harness props=C05 tier=thorough level=bounded timeout=1500 bound="token of 0..=4 bytes (each length a literal shape)"
//@ fn NewToken::encode
//@ fn NewToken::decode_parameterized_mut
#[kani::proof]
#[kani::unwind(10)]
fn vq_c05_frame_new_token() {
    let shape: u8 = kani::any();
    match shape {
        0 => new_token_shape::<0>(),
        1 => new_token_shape::<1>(),
        2 => new_token_shape::<2>(),
        3 => new_token_shape::<3>(),
        _ => new_token_shape::<4>(),
    }
    kani::cover!(shape == 0, "reach:empty_token_rejected");
    kani::cover!(shape == 4, "reach:longest");
    kani::cover!(true, "reach:end");
}

// ---- RFC 9221 DATAGRAM ------------------------------------------------------------------------------------
//@ harness props=C05 tier=thorough level=bounded timeout=1500 bound="datagram data <= 4 bytes; both types 0x30/0x31"
//@ fn Datagram::encode
//@ fn Datagram::tag
//@ fn Datagram::decode_parameterized_mut
#[kani::proof]
#[kani::unwind(10)]
fn vq_c05_frame_datagram() {
    let is_last_frame: bool = kani::any();
    let data: [u8; 4] = kani::any();
    let dlen = any_payload_len();
    let mut spec = Wire::<W>::new(kani::any());
    spec.datagram(!is_last_frame, &data, dlen);
    let f = Datagram { is_last_frame, data: &data[..dlen] };
    enc_obligations!(f, spec, "C05/datagram.enc/announced_len_eq_rfc_len", "C05/datagram.enc/len_eq_announced", "C05/datagram.enc/bytes_eq_rfc");
    exact_obligations!(f, "C05/datagram.enc/len_eq_announced_without_slack", "C05/datagram.enc/nothing_written_past_announced_len");
    let extra: usize = kani::any();
    kani::assume(extra <= 3 && spec.n + extra <= W && (!is_last_frame || extra == 0));
    let r = if is_last_frame {
        decode_as::<Datagram<DecoderBufferMut>>(&mut spec.b, spec.n + extra, T_DATAGRAM)
    } else {
        decode_as::<Datagram<DecoderBufferMut>>(&mut spec.b, spec.n + extra, T_DATAGRAM_LEN)
    };
    assert!(r.is_some(), "C05/datagram.dec/accepts_rfc_bytes");
    if let Some((d, rest)) = r {
        assert!(rest == extra, "C05/datagram.dec/remainder");
        assert!(d.is_last_frame == is_last_frame, "C05/datagram.dec/last_frame_iff_no_len_bit");
        assert!(payload_eq4(d.data.into_less_safe_slice(), &data, dlen), "C05/datagram.dec/data");
    }
    kani::cover!(is_last_frame && dlen == 0, "reach:type_0x30_empty");
    kani::cover!(!is_last_frame && dlen == 4 && extra == 3, "reach:type_0x31_full");
    kani::cover!(true, "reach:end");
}

// ---- ref harnesses (thorough tier) ---------------------------------------------------------------------------
//@ harness props=C05 tier=thorough level=bounded timeout=1500 bound="arbitrary input of <= 26 bytes with type byte 0x08..0x0f"
//@ fn Stream::decode_parameterized_mut
#[kani::proof]
#[kani::unwind(10)]
fn vq_c05_data_frames_ref_stream() {
    let ty: u8 = kani::any();
    kani::assume(ty >= 0x08 && ty <= 0x0f);
    data_ref_agreement!(ty, |bytes, input, len, want| stream_got(&bytes, &mut input, len, ty, &want));
    kani::cover!(ty == 0x08, "reach:type_0x08");
    kani::cover!(ty == 0x0f, "reach:type_0x0f");
    kani::cover!(true, "reach:end");
}

//@ harness props=C05 tier=thorough level=bounded timeout=1500 bound="arbitrary input of <= 26 bytes with type byte in {0x06,0x07,0x30,0x31}"
//@ fn Crypto::decode_parameterized_mut
//@ fn NewToken::decode_parameterized_mut
//@ fn Datagram::decode_parameterized_mut
#[kani::proof]
#[kani::unwind(10)]
fn vq_c05_data_frames_ref_crypto_token_datagram() {
    let ty: u8 = kani::any();
    match ty {
        0x06 => data_ref_agreement!(0x06, |bytes, input, len, want| crypto_got(&bytes, &mut input, len, &want)),
        0x07 => data_ref_agreement!(0x07, |bytes, input, len, want| new_token_got(&bytes, &mut input, len, &want)),
        0x30 => data_ref_agreement!(0x30, |bytes, input, len, want| datagram_got(&bytes, &mut input, len, 0x30, &want)),
        0x31 => data_ref_agreement!(0x31, |bytes, input, len, want| datagram_got(&bytes, &mut input, len, 0x31, &want)),
        _ => kani::assume(false),
    }
    kani::cover!(ty == 0x06, "reach:crypto");
    kani::cover!(ty == 0x07, "reach:new_token");
    kani::cover!(ty == 0x31, "reach:datagram_len");
    kani::cover!(true, "reach:end");
}
