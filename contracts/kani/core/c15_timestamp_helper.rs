//@ inject crate=core src=quic/s2n-quic-core/src/time/timestamp.rs
// Builder helper only (no harness): `Timestamp`'s field is private to this module; the C15 harnesses need
// timestamps with a symbolic microsecond value without going through `Duration` (u128 division is SAT-hard,
// AUTHORING "Tool facts").
impl super::Timestamp {
    /// the timestamp `micros` microseconds after the clock epoch (micros >= 1: the type is NonZero)
    pub(crate) fn verif_c15_from_micros(micros: u64) -> Self {
        Self(core::num::NonZeroU64::new(micros).unwrap())
    }
    pub(crate) fn verif_c15_micros(self) -> u64 {
        self.0.get()
    }
}

/// Stand-in for `core::panic::Location::caller()` (see c15_keyset.rs, assumption A-location): a reference to a
/// dummy static that is large and aligned enough for a `Location`; never read.
static VERIF_C15_DUMMY_LOCATION: [u64; 8] = [0; 8];
/// same generics as `impl<'a> Location<'a> { fn caller() }` (Kani requires the stub to match them)
pub(crate) struct VerifC15Location<'a>(core::marker::PhantomData<&'a ()>);
impl<'a> VerifC15Location<'a> {
    pub(crate) fn caller() -> &'static core::panic::Location<'static> {
        unsafe { &*(&VERIF_C15_DUMMY_LOCATION as *const [u64; 8] as *const core::panic::Location<'static>) }
    }
}
