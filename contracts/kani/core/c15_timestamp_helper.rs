//@ inject crate=core src=quic/s2n-quic-core/src/time/timestamp.rs
// Builder helper only (no harness): `Timestamp`'s field is private to this module; the C15 harnesses need
// timestamps with a symbolic microsecond value without going through `Duration` (u128 division is SAT-hard,
// AUTHORING "Tool facts").
impl super::Timestamp {
    /// the timestamp `micros` microseconds after the clock epoch (micros >= 1: the type is NonZero)
    pub(crate) fn verif_c15_from_micros(micros: u64) -> Self {
        Self(core::num::NonZeroU64::new(micros).unwrap())
    }
    pub(crate) fn verif_c15_micros(self) -> u64 {
        self.0.get()
    }
}
