//@ inject crate=core src=quic/s2n-quic-core/src/interval_set/interval.rs
// Contract harnesses for the `Interval<T>` algebra (property C16): every operation is compared with plain
// closed-integer-interval mathematics over i128 (contracts/spec/reassembly.rs, `iv_*`).
// Element types: u8 (whole domain, both type bounds reachable) and VarInt (0..=2^62-1, the production type).
// All harnesses are loop-free and full-domain => level=full.
use super::*;
use crate::varint::{VarInt, MAX_VARINT_VALUE};
use core::ops::Bound;
#[allow(dead_code, unused_variables)]
mod spec {
    include!("../../spec/reassembly.rs");
}
use spec::*;

/// element domain: how to draw an arbitrary element and how to read it as a mathematical integer
trait Dom: IntervalBound {
    const TMIN: i128;
    const TMAX: i128;
    fn any() -> Self;
    fn val(self) -> i128;
}
impl Dom for u8 {
    const TMIN: i128 = 0;
    const TMAX: i128 = 255;
    fn any() -> Self {
        kani::any()
    }
    fn val(self) -> i128 {
        self as i128
    }
}
impl Dom for VarInt {
    const TMIN: i128 = 0;
    const TMAX: i128 = MAX_VARINT_VALUE as i128;
    fn any() -> Self {
        let x: u64 = kani::any();
        kani::assume(x <= MAX_VARINT_VALUE);
        VarInt::new(x).unwrap()
    }
    fn val(self) -> i128 {
        self.as_u64() as i128
    }
}

/// arbitrary *valid* interval (the representation invariant of every stored interval)
fn any_valid<T: Dom>() -> Interval<T> {
    let s = T::any();
    let e = T::any();
    kani::assume(s <= e);
    Interval { start: s, end: e }
}

// ---- IntervalBound steps ----------------------------------------------------------------------------------
//@ harness props=C16 tier=quick level=full timeout=120
//@ fn IntervalBound::step_up
//@ fn IntervalBound::step_down
//@ fn IntervalBound::step_up_saturating
//@ fn IntervalBound::step_down_saturating
//@ fn IntervalBound::steps_between
#[kani::proof]
#[kani::unwind(2)]
fn vq_c16_interval_bound_steps_u8() {
    bound_steps::<u8>();
}

fn bound_steps<T: Dom>() {
    let x = T::any();
    let y = T::any();
    let (xv, yv) = (x.val(), y.val());
    match x.step_up() {
        Some(n) => assert!(xv < T::TMAX && n.val() == xv + 1, "C16/interval.bound.step_up/succ"),
        None => assert!(xv == T::TMAX, "C16/interval.bound.step_up/none_only_at_max"),
    }
    match x.step_down() {
        Some(n) => assert!(xv > T::TMIN && n.val() == xv - 1, "C16/interval.bound.step_down/pred"),
        None => assert!(xv == T::TMIN, "C16/interval.bound.step_down/none_only_at_min"),
    }
    assert!(x.step_up_saturating().val() == iv_succ_sat(xv, T::TMAX), "C16/interval.bound.step_up_saturating/eq_math");
    assert!(x.step_down_saturating().val() == iv_pred_sat(xv, T::TMIN), "C16/interval.bound.step_down_saturating/eq_math");
    if xv <= yv {
        assert!(x.steps_between(&y) as i128 == yv - xv, "C16/interval.bound.steps_between/eq_difference");
    }
    kani::cover!(xv == T::TMAX, "reach:at_max");
    kani::cover!(xv == T::TMIN, "reach:at_min");
    kani::cover!(xv < yv, "reach:ordered");
}

//@ harness props=C16 tier=quick level=full timeout=120
//@ fn IntervalBound::step_up
//@ fn IntervalBound::step_down
//@ fn IntervalBound::steps_between
#[kani::proof]
#[kani::unwind(2)]
fn vq_c16_interval_bound_steps_varint() {
    bound_steps::<VarInt>();
}

// ---- accessors, len, set_len, is_valid, should_coalesce, membership ordering ---------------------------------
//@ harness props=C16 tier=quick level=full timeout=120
//@ fn Interval::len
//@ fn Interval::is_valid
//@ fn Interval::should_coalesce
//@ fn Interval::start_exclusive
//@ fn Interval::end_exclusive
//@ fn Interval::partial_cmp
#[kani::proof]
#[kani::unwind(2)]
fn vq_c16_interval_algebra_u8() {
    algebra::<u8>();
}

fn algebra<T: Dom>() {
    let a = any_valid::<T>();
    let (s, e) = (a.start.val(), a.end.val());
    assert!(a.is_valid() && iv_valid(s, e), "C16/interval.is_valid/true_for_ordered_bounds");
    assert!(a.start_inclusive().val() == s, "C16/interval.start_inclusive/eq_start");
    assert!(a.end_inclusive().val() == e, "C16/interval.end_inclusive/eq_end");
    assert!(a.start_exclusive().val() == iv_pred_sat(s, T::TMIN), "C16/interval.start_exclusive/pred_saturating");
    assert!(a.end_exclusive().val() == iv_succ_sat(e, T::TMAX), "C16/interval.end_exclusive/succ_saturating");
    assert!(a.len() as i128 == iv_len(s, e), "C16/interval.len/eq_cardinality");
    assert!(!a.is_empty(), "C16/interval.is_empty/never");

    // is_valid on arbitrary bounds
    let x = T::any();
    let y = T::any();
    let raw = Interval { start: x, end: y };
    assert!(raw.is_valid() == iv_valid(x.val(), y.val()), "C16/interval.is_valid/iff_start_le_end");

    // should_coalesce: no element strictly between other's end and self's start
    let b = any_valid::<T>();
    assert!(
        a.should_coalesce(&b) == iv_no_gap_after(s, b.end.val()),
        "C16/interval.should_coalesce/iff_no_gap_after_other_end"
    );

    // ordering against an element: Equal iff contained, Less iff wholly below, Greater iff wholly above
    let v = T::any();
    let vv = v.val();
    let ord = PartialOrd::<T>::partial_cmp(&a, &v);
    assert!((ord == Some(Ordering::Equal)) == iv_contains(s, e, vv), "C16/interval.partial_cmp_value/equal_iff_contains");
    assert!((ord == Some(Ordering::Less)) == (e < vv), "C16/interval.partial_cmp_value/less_iff_below");
    assert!((ord == Some(Ordering::Greater)) == (vv < s), "C16/interval.partial_cmp_value/greater_iff_above");
    assert!((a == v) == iv_contains(s, e, vv), "C16/interval.eq_value/iff_contains");

    kani::cover!(s == T::TMIN && e == T::TMAX, "reach:whole_domain_interval");
    kani::cover!(s == e, "reach:singleton");
    kani::cover!(a.should_coalesce(&b) && s == b.end.val() + 1, "reach:adjacent");
    kani::cover!(!a.should_coalesce(&b), "reach:gap");
    kani::cover!(b.end.val() == T::TMAX, "reach:other_ends_at_type_max");
    kani::cover!(ord == Some(Ordering::Less), "reach:less");
    kani::cover!(ord == Some(Ordering::Greater), "reach:greater");
}

//@ harness props=C16 tier=quick level=full timeout=120
//@ fn Interval::len
//@ fn Interval::is_valid
//@ fn Interval::should_coalesce
//@ fn Interval::start_exclusive
//@ fn Interval::end_exclusive
//@ fn Interval::partial_cmp
#[kani::proof]
#[kani::unwind(2)]
fn vq_c16_interval_algebra_varint() {
    algebra::<VarInt>();
}

//@ harness props=C16 tier=quick level=full timeout=120
//@ fn Interval::set_len
//@ fn IntervalBound::steps_between_len
#[kani::proof]
#[kani::unwind(2)]
fn vq_c16_interval_set_len_u8() {
    set_len::<u8>();
}

fn set_len<T: Dom>() {
    let mut a = any_valid::<T>();
    let s = a.start.val();
    let len: usize = kani::any();
    // requires of set_len: 1 <= len (its debug_assert) and the new end is an element of T
    kani::assume(len >= 1 && (len as i128) <= T::TMAX - s + 1);
    a.set_len(len);
    assert!(a.start.val() == s, "C16/interval.set_len/start_unchanged");
    assert!(a.end.val() == iv_end_for_len(s, len as i128), "C16/interval.set_len/end_is_start_plus_len_minus_1");
    assert!(a.len() == len, "C16/interval.set_len/len_roundtrip");
    assert!(a.is_valid(), "C16/interval.set_len/valid");
    kani::cover!(len == 1, "reach:len_1");
    kani::cover!(a.end.val() == T::TMAX, "reach:ends_at_type_max");
    kani::cover!(s == T::TMIN && a.end.val() == T::TMAX, "reach:whole_domain");
}

//@ harness props=C16 tier=quick level=full timeout=120
//@ fn Interval::set_len
//@ fn IntervalBound::steps_between_len
#[kani::proof]
#[kani::unwind(2)]
fn vq_c16_interval_set_len_varint() {
    set_len::<VarInt>();
}

// ---- bounds conversions ---------------------------------------------------------------------------------
//@ harness props=C16 tier=quick level=full timeout=120
//@ fn Interval::from_range_bounds
#[kani::proof]
#[kani::unwind(2)]
fn vq_c16_interval_from_range_bounds_u8() {
    from_range_bounds::<u8>();
}

fn any_bound<T: Dom>(x: T) -> Bound<T> {
    match kani::any::<u8>() % 3 {
        0 => Bound::Included(x),
        1 => Bound::Excluded(x),
        _ => Bound::Unbounded,
    }
}

/// `from_range_bounds((lo, hi))` against the set {x | lo-bound holds and hi-bound holds}:
/// Included(a) => x >= a / x <= a, Excluded(a) => x > a / x < a, Unbounded is rejected (no infinite intervals),
/// an empty set is rejected (InvalidInterval).
fn from_range_bounds<T: Dom>() {
    let x = T::any();
    let y = T::any();
    let lo = any_bound(x);
    let hi = any_bound(y);
    let (xv, yv) = (x.val(), y.val());
    // the mathematical interval denoted by the bounds: [ms, me]
    let (ms, lo_ok) = match lo {
        Bound::Included(_) => (xv, true),
        Bound::Excluded(_) => (xv + 1, true),
        Bound::Unbounded => (0, false),
    };
    let (me, hi_ok) = match hi {
        Bound::Included(_) => (yv, true),
        Bound::Excluded(_) => (yv - 1, true),
        Bound::Unbounded => (0, false),
    };
    let excluded_start = matches!(lo, Bound::Excluded(_));
    let res = Interval::from_range_bounds((lo, hi));
    let denotes_interval = lo_ok && hi_ok && ms <= me;
    kani::cover!(res.is_ok(), "reach:ok");
    kani::cover!(res.is_err() && lo_ok && hi_ok, "reach:empty_rejected");
    kani::cover!(matches!(hi, Bound::Excluded(_)) && yv == T::TMIN, "reach:excluded_end_at_type_min");
    kani::cover!(excluded_start && res.is_ok(), "reach:excluded_start_accepted");
    kani::cover!(!lo_ok, "reach:unbounded_start");
    if let Ok(i) = res {
        assert!(i.is_valid(), "C16/interval.from_range_bounds/result_valid");
    } else {
        assert!(res == Err(IntervalSetError::InvalidInterval), "C16/interval.from_range_bounds/error_kind");
    }
    // residual obligations (AUTHORING "Findings"): every bound combination except an *excluded start bound*,
    // where the implementation steps DOWN instead of up (interval.rs:21)
    if !excluded_start {
        assert!(res.is_ok() == denotes_interval, "C16/interval.from_range_bounds/ok_iff_nonempty_finite#outside-known");
        if let Ok(i) = res {
            assert!(
                i.start.val() == ms && i.end.val() == me,
                "C16/interval.from_range_bounds/eq_denoted_interval#outside-known"
            );
        }
    }
    // statement-level obligations: accepted iff the bounds denote a non-empty finite interval, and then exactly it
    // (kept last: Kani assumes an assertion after checking it, which would mask the checks above)
    assert!(res.is_ok() == denotes_interval, "C16/interval.from_range_bounds/ok_iff_nonempty_finite");
    if let Ok(i) = res {
        assert!(i.start.val() == ms && i.end.val() == me, "C16/interval.from_range_bounds/eq_denoted_interval");
    }
}

//@ harness props=C16 tier=quick level=full timeout=120
//@ fn Interval::from_range_bounds
#[kani::proof]
#[kani::unwind(2)]
fn vq_c16_interval_from_range_bounds_varint() {
    from_range_bounds::<VarInt>();
}

//@ harness props=C16 tier=quick level=full timeout=120
//@ fn Interval::from
#[kani::proof]
#[kani::unwind(2)]
fn vq_c16_interval_range_conversions_u8() {
    range_conversions::<u8>();
}

/// `Range`/`RangeInclusive` <-> `Interval` (`From` impls) for the ranges that denote a non-empty interval
fn range_conversions<T: Dom>() {
    let x = T::any();
    let y = T::any();
    let (xv, yv) = (x.val(), y.val());
    // a..=b with a <= b
    if xv <= yv {
        let i: Interval<T> = (x..=y).into();
        assert!(i.start.val() == xv && i.end.val() == yv, "C16/interval.from_range_inclusive/eq_bounds");
        let back: core::ops::RangeInclusive<T> = i.into();
        assert!(back.start().val() == xv && back.end().val() == yv, "C16/interval.into_range_inclusive/roundtrip");
    }
    // a..b with a < b (an empty half-open range denotes no interval; `From` cannot reject it)
    if xv < yv {
        let i: Interval<T> = (x..y).into();
        assert!(i.start.val() == xv && i.end.val() == yv - 1, "C16/interval.from_range/end_is_pred");
        assert!(i.is_valid(), "C16/interval.from_range/valid_for_nonempty_range");
        let back: core::ops::Range<T> = i.into();
        assert!(back.start.val() == xv && back.end.val() == yv, "C16/interval.into_range/roundtrip");
    }
    // interval -> half-open range: exact unless the interval ends at the largest element of T
    let a = any_valid::<T>();
    let r: core::ops::Range<T> = a.into();
    assert!(r.start.val() == a.start.val(), "C16/interval.into_range/start");
    assert!(r.end.val() == iv_succ_sat(a.end.val(), T::TMAX), "C16/interval.into_range/end_is_succ_saturating");
    kani::cover!(xv < yv && yv == T::TMAX, "reach:range_to_type_max");
    kani::cover!(xv == yv, "reach:singleton");
    kani::cover!(a.end.val() == T::TMAX, "reach:interval_at_type_max");
}

//@ harness props=C16 tier=quick level=full timeout=120
//@ fn Interval::from
#[kani::proof]
#[kani::unwind(2)]
fn vq_c16_interval_range_conversions_varint() {
    range_conversions::<VarInt>();
}

// ---- element iteration (used by IntervalSet::iter and by check_integrity) -------------------------------------
//@ harness props=C16 tier=quick level=full timeout=120
//@ fn Interval::next
//@ fn Interval::next_back
#[kani::proof]
#[kani::unwind(2)]
fn vq_c16_interval_iter_step_u8() {
    iter_step::<u8>();
}

/// one `next` / `next_back` step on an arbitrary (possibly exhausted) iterator state: the element handed out is the
/// smallest / largest remaining one and the remainder is exactly the rest
fn iter_step<T: Dom>() {
    let x = T::any();
    let y = T::any();
    let v = T::any().val(); // witness element
    let front: bool = kani::any();
    let mut it = Interval { start: x, end: y };
    let (s, e) = (x.val(), y.val());
    let before = iv_contains(s, e, v); // false for an exhausted state (s > e)
    let got = if front { it.next() } else { it.next_back() };
    let after = iv_contains(it.start.val(), it.end.val(), v);
    match got {
        None => {
            assert!(s > e, "C16/interval.iter/none_only_when_exhausted");
            assert!(after == before, "C16/interval.iter/exhausted_stays_exhausted");
        }
        Some(g) => {
            assert!(s <= e, "C16/interval.iter/some_only_when_nonempty");
            assert!(g.val() == if front { s } else { e }, "C16/interval.iter/yields_min_or_max");
            assert!(after == (before && v != g.val()), "C16/interval.iter/remainder_is_rest");
        }
    }
    kani::cover!(got.is_some() && s == e, "reach:last_element");
    kani::cover!(got.is_some() && front && s == T::TMAX, "reach:next_at_type_max");
    kani::cover!(got.is_some() && !front && e == T::TMIN, "reach:next_back_at_type_min");
    kani::cover!(got.is_none(), "reach:exhausted");
}

//@ harness props=C16 tier=quick level=full timeout=120
//@ fn Interval::next
//@ fn Interval::next_back
#[kani::proof]
#[kani::unwind(2)]
fn vq_c16_interval_iter_step_varint() {
    iter_step::<VarInt>();
}
