//@ inject crate=core src=quic/s2n-quic-core/src/time/timestamp.rs
// Timestamp (1 us clock, NonZeroU64) -- contracts used by the loss-detection and PTO harnesses (property C09).
//
// `Timestamp + Duration` goes Timestamp -> Duration (/ 10^6, % 10^6, * 1000) -> add -> micros (* 10^6, / 1000).  That
// round trip is SAT-hard for symbolic operands (DESIGN 6: not even `from_micros(x).as_micros() == x` is decided
// within minutes), so the callers' harnesses use `verif_add_model` below as a stub for `<Timestamp as Add<Duration>>::add`
// (DESIGN 2.2: callee replaced by its contract) and the contract itself -- real add == model -- is the obligation
// of `vq_c09_timestamp_add_contract` in the thorough tier.
use super::*;
#[allow(dead_code, unused_variables)]
mod spec {
    include!("../../spec/recovery.rs");
}
use spec::*;

impl Timestamp {
    /// builder helpers for harnesses in other modules (the field is private to this module)
    pub(crate) fn verif_from_micros(us: u64) -> Timestamp {
        Timestamp(NonZeroU64::new(us).unwrap())
    }
    pub(crate) fn verif_micros(self) -> u64 {
        self.0.get()
    }

    /// Contract of `Timestamp + Duration`: whole microseconds add, the sub-microsecond part of the duration is
    /// dropped (the clock has 1 us resolution).  Overflow panics, as the real operator does.
    pub(crate) fn verif_add_model(self, d: Duration) -> Timestamp {
        let us = d
            .as_secs()
            .checked_mul(1_000_000)
            .and_then(|x| x.checked_add((d.subsec_nanos() / 1000) as u64))
            .and_then(|x| x.checked_add(self.0.get()))
            .expect("timestamp overflow");
        Timestamp(NonZeroU64::new(us).unwrap())
    }
}

//@ harness props=C09 tier=quick level=full timeout=240
//@ fn Timestamp::has_elapsed
#[kani::proof]
#[kani::unwind(3)]
fn vq_c09_timestamp_has_elapsed() {
    let a: u64 = kani::any();
    let now: u64 = kani::any();
    // clocks count microseconds since their epoch: 2^63 us is 292 000 years
    kani::assume(a > 0 && now > 0 && now < 1 << 63);
    let r = Timestamp::verif_from_micros(a).has_elapsed(Timestamp::verif_from_micros(now));
    assert!(r == ((a as i128) < now as i128 + k_granularity_us()), "C09/timestamp.has_elapsed/iff_less_than_1ms_in_the_future");
    assert!(!(a <= now) || r, "C09/timestamp.has_elapsed/past_instants_have_elapsed");
    kani::cover!(r && a > now, "reach:elapsed_within_granularity");
    kani::cover!(!r && a == now + 1000, "reach:exactly_1ms_ahead");
    kani::cover!(true, "reach:end");
}

//@ harness props=C09 tier=quick level=bounded timeout=300 bound="timestamp and duration from tables of 8 values each (granularity / second boundaries)"
//@ fn Timestamp::add
#[kani::proof]
#[kani::unwind(3)]
fn vq_c09_timestamp_add_table() {
    const T: [u64; 8] = [1, 999_999, 1_000_000, 1_000_001, 59_999_999, 3_600_000_000, 86_400_000_001, 4_102_444_800_000_000];
    const D: [(u64, u32); 8] = [(0, 0), (0, 1), (0, 999), (0, 1000), (0, 999_999_999), (1, 0), (3, 374_625_001), (1 << 32, 1_000_001)];
    let i: u8 = kani::any();
    let j: u8 = kani::any();
    kani::assume(i < 8 && j < 8);
    let t = Timestamp::verif_from_micros(T[i as usize]);
    let d = Duration::new(D[j as usize].0, D[j as usize].1);
    assert!(t + d == t.verif_add_model(d), "C09/timestamp.add/equals_microsecond_model");
    kani::cover!(i == 7 && j == 7, "reach:largest");
    kani::cover!(true, "reach:end");
}

// NOT REGISTERED (timeout 1800 s even for timestamps < 2^24 us; see contracts/STRENGTH-c09c10.md):
//@-unregistered harness props=C09 tier=thorough level=bounded timeout=3000 bound="timestamp < 2^24 us (16 s), duration < 4 s (ns resolution)"
//@ fn Timestamp::add
#[kani::proof]
#[kani::unwind(3)]
#[kani::solver(kissat)]
fn vq_c09_timestamp_add_contract() {
    let us: u32 = kani::any();
    let s: u8 = kani::any();
    let n: u32 = kani::any();
    kani::assume(us > 0 && us < 1 << 24 && s <= 3 && n < 1_000_000_000);
    let t = Timestamp::verif_from_micros(us as u64);
    let d = Duration::new(s as u64, n);
    assert!(t + d == t.verif_add_model(d), "C09/timestamp.add/equals_microsecond_model");
    kani::cover!(true, "reach:end");
}
