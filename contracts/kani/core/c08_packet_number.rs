//@ inject crate=core src=quic/s2n-quic-core/src/packet/number/mod.rs
// Contract harnesses for packet-number truncation and reconstruction -- property C08
// ("packet numbers ... are truncated such that the peer, knowing only the largest number acknowledged so
// far, reconstructs exactly the number that was sent").
// Predicates: contracts/spec/packet_number.rs (shared with verus/lemmas/C08.rs); pn_decode_rfc there is an
// independent transcription of the RFC 9000 Appendix A.3 pseudocode (arithmetic instead of bit masks).
use super::*;
use s2n_codec::{u24, DecoderBuffer, Encoder, EncoderBuffer, EncoderValue};
#[allow(dead_code, unused_variables)]
mod spec {
    include!("../../spec/packet_number.rs");
}
use spec::*;

const MAXV: u64 = crate::varint::MAX_VARINT_VALUE;

fn any_space() -> PacketNumberSpace {
    let s: u8 = kani::any();
    kani::assume(s < 3);
    match s {
        0 => PacketNumberSpace::Initial,
        1 => PacketNumberSpace::Handshake,
        _ => PacketNumberSpace::ApplicationData,
    }
}

fn pn_of(space: PacketNumberSpace, x: u64) -> PacketNumber {
    space.new_packet_number(VarInt::new(x).unwrap())
}

//@ harness props=C08,C05 tier=quick level=full timeout=240
//@ fn PacketNumber::truncate
//@ fn derive_truncation_range
//@ fn PacketNumberLen::from_varint
//@ fn PacketNumberLen::truncate_packet_number
//@ fn TruncatedPacketNumber::expand
//@ fn decode_packet_number
#[kani::proof]
#[kani::unwind(2)]
fn vq_c08_pn_truncate_expand() {
    let space = any_space();
    let pn: u64 = kani::any(); // packet number being sent
    let la: u64 = kani::any(); // largest packet number the sender has seen acknowledged
    let r: u64 = kani::any(); //  largest packet number the receiver has processed when the packet arrives
    kani::assume(pn <= MAXV && la <= MAXV && r <= MAXV);
    let (p, l, rr) = (pn as i128, la as i128, r as i128);
    let t = pn_of(space, pn).truncate(pn_of(space, la));
    assert!(pn_truncate_none_iff_unrepresentable(p, l, t.is_some()), "C08/pn.truncate/none_iff_unrepresentable");
    let len = derive_truncation_range(pn_of(space, la), pn_of(space, pn));
    assert!(len.is_some() == t.is_some(), "C08/pn.derive_truncation_range/some_iff_truncate_some");
    if let Some(t) = t {
        let bits = t.bitsize() as i128;
        assert!(pn_truncate_window_more_than_twice_distance(p, l, bits), "C08/pn.truncate/window_more_than_twice_distance");
        assert!(pn_truncate_len_is_minimal(p, l, bits), "C08/pn.truncate/len_is_minimal_rfc_a2");
        assert!(pn_truncate_value_is_low_bits(p, bits, t.into_u64() as i128), "C08/pn.truncate/value_is_low_bits");
        assert!(t.space() == space, "C08/pn.truncate/space_preserved");
        assert!(len == Some(t.len()), "C08/pn.derive_truncation_range/is_len_of_truncate");
        assert!(t.len().bytesize() as i128 * 8 == bits, "C08/pn.len/bytesize_matches_bitsize");
        let x = t.expand(pn_of(space, r));
        assert!(x.space() == space, "C08/pn.expand/space_preserved");
        let x = x.as_u64() as i128;
        // the receiver may hold *any* largest-received r between what the sender saw acknowledged and the packet itself
        assert!(pn_roundtrip_for_receiver(p, l, rr, x), "C08/pn.truncate/expands_for_all_receiver_largest");
        // ... and under reordering any r that keeps pn inside the RFC window
        assert!(pn_roundtrip_in_window(p, rr, bits, x), "C08/pn.expand/exact_within_rfc_window");
        kani::cover!(r > pn && x == p, "reach:reordered");
        kani::cover!(la <= r && r < pn && r > la, "reach:receiver_ahead_of_acked");
        kani::cover!(x != p, "reach:outside_window_differs");
        kani::cover!(pn == MAXV, "reach:max");
        kani::cover!(bits == 8, "reach:one_byte");
        kani::cover!(bits == 16, "reach:two_bytes");
        kani::cover!(bits == 24, "reach:three_bytes");
        kani::cover!(bits == 32 && p - l == 2147483647, "reach:four_bytes_largest_distance");
        kani::cover!(p - l == 127 && bits == 8, "reach:boundary_127");
        kani::cover!(p - l == 128 && bits == 16, "reach:boundary_128");
    } else {
        kani::cover!(pn < la, "reach:none_below_acked");
        kani::cover!(pn >= la && pn - la == 2147483648, "reach:none_first_unrepresentable");
    }
    kani::cover!(true, "reach:end");
}

fn any_truncated(space: PacketNumberSpace) -> TruncatedPacketNumber {
    let sel: u8 = kani::any();
    let v: u32 = kani::any();
    kani::assume(sel < 4);
    match sel {
        0 => TruncatedPacketNumber::new(v as u8, space),
        1 => TruncatedPacketNumber::new(v as u16, space),
        2 => TruncatedPacketNumber::new(u24::new_truncated(v), space),
        _ => TruncatedPacketNumber::new(v, space),
    }
}

//@ harness props=C08,C05 tier=quick level=full timeout=240
//@ fn decode_packet_number
//@ fn TruncatedPacketNumber::expand
#[kani::proof]
#[kani::unwind(2)]
fn vq_c08_pn_decode_vs_rfc_a3() {
    let space = any_space();
    let largest: u64 = kani::any();
    kani::assume(largest <= MAXV);
    let t = any_truncated(space);
    let bits = t.bitsize() as i128;
    let tv = t.into_u64() as i128;
    assert!(pn_bits_valid(bits) && 0 <= tv && tv < pn_win(bits), "C08/pn.truncated/value_fits_len");
    let got = decode_packet_number(pn_of(space, largest), t);
    assert!(got.space() == space, "C08/pn.decode/space_preserved");
    let g = got.as_u64() as i128;
    let lg = largest as i128;
    assert!(pn_decode_equals_rfc(lg, tv, bits, g), "C08/pn.decode/equals_rfc9000_a3");
    assert!(pn_decode_out_of_range_only_at_end(lg, tv, bits, g), "C08/pn.decode/pseudocode_out_of_range_only_at_last_pn");
    assert!(t.expand(pn_of(space, largest)) == got, "C08/pn.expand/is_decode_packet_number");
    let rfc = pn_decode_rfc(lg, tv, bits);
    // RFC 9000 17.1: "finding the packet number value that is closest to the next expected packet"
    if rfc <= pn_max() {
        assert!(g % pn_win(bits) == tv, "C08/pn.decode/low_bits_are_the_wire_bits");
        assert!(g > lg + 1 - pn_win(bits) / 2 || g + pn_win(bits) > pn_max(), "C08/pn.decode/not_below_window_unless_at_top");
        assert!(g <= lg + 1 + pn_win(bits) / 2 || g < pn_win(bits), "C08/pn.decode/not_above_window_unless_at_bottom");
    }
    kani::cover!(g == pn_decode_candidate(lg, tv, bits) + pn_win(bits), "reach:candidate_plus_win");
    kani::cover!(g == pn_decode_candidate(lg, tv, bits) - pn_win(bits), "reach:candidate_minus_win");
    kani::cover!(g == pn_decode_candidate(lg, tv, bits), "reach:candidate");
    kani::cover!(rfc > pn_max(), "reach:pseudocode_leaves_range");
    kani::cover!(largest == 0, "reach:largest_zero");
    kani::cover!(bits == 8, "reach:bits8");
    kani::cover!(bits == 16, "reach:bits16");
    kani::cover!(bits == 24, "reach:bits24");
    kani::cover!(bits == 32, "reach:bits32");
    // RFC 9000 A.3 worked example
    kani::cover!(largest == 0xa82f_30ea && tv == 0x9b32 && bits == 16 && g == 0xa82f_9b32, "reach:rfc_example");
    kani::cover!(true, "reach:end");
}

//@ harness props=C08,C05 tier=quick level=full timeout=240
//@ fn TruncatedPacketNumber::encode
//@ fn PacketNumberLen::decode_truncated_packet_number
//@ fn PacketNumberLen::into_packet_tag_mask
//@ fn PacketNumberLen::from_packet_tag
#[kani::proof]
#[kani::unwind(8)]
fn vq_c08_pn_wire_bytes() {
    // RFC 9000 17.1: "encoded in 1 to 4 bytes ... including only the least significant bits"; 17.2/17.3.1: the two
    // low bits of the first byte carry the length minus one; integers are in network byte order
    let space = any_space();
    let t = any_truncated(space);
    let n = t.len().bytesize();
    let v = t.into_u64();
    let mut buf = [0xaau8; 6];
    let written = {
        let mut enc = EncoderBuffer::new(&mut buf);
        t.encode(&mut enc);
        enc.len()
    };
    assert!(written == n && n * 8 == t.bitsize(), "C08/pn.wire/length_is_len");
    let mut i = 0;
    while i < 6 {
        if i < n {
            assert!(buf[i] as u64 == (v >> (8 * (n - 1 - i))) & 0xff, "C08/pn.wire/big_endian_low_bits");
        } else {
            assert!(buf[i] == 0xaa, "C08/pn.wire/nothing_written_past_len");
        }
        i += 1;
    }
    let tag_bits = t.len().into_packet_tag_mask();
    assert!(tag_bits as usize == n - 1, "C08/pn.wire/tag_bits_are_len_minus_one");
    let other: u8 = kani::any();
    let len2 = PacketNumberLen::from_packet_tag((other & 0xfc) | tag_bits, space);
    assert!(len2 == t.len(), "C08/pn.wire/len_roundtrips_through_tag");
    let dec = len2.decode_truncated_packet_number(DecoderBuffer::new(&buf));
    assert!(dec.is_ok(), "C08/pn.wire/decodes");
    let (t2, rest) = dec.unwrap();
    assert!(t2 == t, "C08/pn.wire/decode_is_inverse_of_encode");
    assert!(rest.len() == 6 - n, "C08/pn.wire/decode_consumes_len_bytes");
    kani::cover!(n == 1, "reach:len1");
    kani::cover!(n == 2, "reach:len2");
    kani::cover!(n == 3, "reach:len3");
    kani::cover!(n == 4, "reach:len4");
    kani::cover!(true, "reach:end");
}
