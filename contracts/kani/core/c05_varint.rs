//@ inject crate=core src=quic/s2n-quic-core/src/varint/mod.rs
// C05 contract harnesses for the variable-length integer codec (RFC 9000 section 16).
// Oracle: `_rfc9000_wire.rs` (independent transcription of Table 4; uses nothing from the crate).
// The byte-level predicates cannot be phrased in the i128 spec sub-language, hence ordinary Rust.
use super::*;
use s2n_codec::{DecoderBuffer, DecoderBufferMut, Encoder, EncoderBuffer, EncoderValue};
#[macro_use]
#[allow(dead_code, unused_macros)]
mod wire {
    include!("_rfc9000_wire.rs");
}
use wire::*;

const B: usize = 24;

/// bytes of `a` and `b` agree everywhere outside [lo, hi)
fn same_outside(a: &[u8; B], b: &[u8; B], lo: usize, hi: usize) -> bool {
    let mut ok = true;
    unroll!(24, i, {
        if (i < lo || i >= hi) && a[i] != b[i] {
            ok = false;
        }
    });
    ok
}

/// a[at + k] == w[k] for k < n   (n <= 8)
fn window_eq(a: &[u8; B], at: usize, w: &[u8; 8], n: usize) -> bool {
    let mut ok = true;
    unroll!(8, k, {
        if k < n && a[at + k] != w[k] {
            ok = false;
        }
    });
    ok
}

//@ harness props=C05 tier=quick level=full timeout=300
//@ fn VarInt::encode
//@ fn VarInt::encoding_size
//@ fn table::Formatted::new
//@ fn table::Formatted::encode
//@ fn table::Formatted::encode_oversized
//@ fn table::Formatted::encode_maybe_undersized
//@ fn VarInt::decode
#[kani::proof]
#[kani::unwind(10)] // u64::pow(2, 62) in VarInt::decode is a 6-iteration loop
fn vq_c05_varint_enc() {
    // every value of the 62-bit domain
    let x: u64 = kani::any();
    kani::assume(x <= RFC_VARINT_MAX);
    let v = VarInt::new(x).unwrap();

    // the encoder owns buf[pos..cap]; everything else must stay as it is.  remaining = cap - pos ranges
    // over [announced size, 20]: >= 8 selects the `unsafe` 8-byte wide write (encode_oversized), < 8 the
    // exact-size copy (encode_maybe_undersized), == announced size leaves no slack at all.
    let before: [u8; B] = kani::any();
    let pos: usize = kani::any();
    let cap: usize = kani::any();
    kani::assume(pos <= 4 && cap <= 20 && pos <= cap);

    // the oracle
    let n = rfc_varint_len(x);
    let mut spec = Wire::<8>::new([0u8; 8]);
    spec.varint(x);
    assert!(spec.n == n);

    // announced beforehand
    let announced = v.encoding_size();
    assert!(announced == n, "C05/varint.enc/announced_len_is_rfc_shortest_len");
    kani::assume(cap - pos >= announced); // precondition of Encoder::encode: the value fits

    let mut buf = before;
    let (announced_for_encoder, used) = {
        let mut e = EncoderBuffer::new(&mut buf[..cap]);
        e.set_position(pos);
        let a = v.encoding_size_for_encoder(&e);
        e.encode(&v);
        (a, e.len() - pos)
    };
    assert!(announced_for_encoder == n, "C05/varint.enc/announced_len_for_encoder");
    assert!(used == announced, "C05/varint.enc/position_advanced_by_announced_len");
    assert!(window_eq(&buf, pos, &spec.b, n), "C05/varint.enc/bytes_eq_rfc_shortest_form");
    assert!(same_outside(&buf, &before, pos, cap), "C05/varint.enc/nothing_written_outside_capacity");
    if cap - pos < 8 {
        assert!(same_outside(&buf, &before, pos, pos + n), "C05/varint.enc/exact_path_writes_only_announced_bytes");
    }

    // dec: the real decoder on the oracle bytes followed by arbitrary trailing bytes
    let mut input: [u8; 12] = kani::any();
    unroll!(8, i, {
        if i < n {
            input[i] = spec.b[i];
        }
    });
    let extra: usize = kani::any();
    kani::assume(extra <= 4);
    let res = DecoderBuffer::new(&input[..n + extra]).decode::<VarInt>();
    assert!(res.is_ok(), "C05/varint.dec/accepts_rfc_encoding");
    if let Ok((d, rest)) = res {
        assert!(d.as_u64() == x, "C05/varint.dec/value_roundtrip");
        assert!(rest.len() == extra, "C05/varint.dec/remainder_len");
        let r = rest.into_less_safe_slice();
        assert!(extra == 0 || (r[0] == input[n] && r[extra - 1] == input[n + extra - 1]), "C05/varint.dec/remainder_is_the_trailing_bytes");
    }

    kani::cover!(cap - pos >= 8 && n == 1, "reach:wide_write_len1");
    kani::cover!(cap - pos >= 8 && n == 2, "reach:wide_write_len2");
    kani::cover!(cap - pos >= 8 && n == 4, "reach:wide_write_len4");
    kani::cover!(cap - pos >= 8 && n == 8, "reach:wide_write_len8");
    kani::cover!(cap - pos < 8 && n == 1, "reach:exact_path_len1");
    kani::cover!(cap - pos < 8 && n == 2, "reach:exact_path_len2");
    kani::cover!(cap - pos < 8 && n == 4, "reach:exact_path_len4");
    kani::cover!(cap - pos == n && n == 8, "reach:no_slack_len8");
    kani::cover!(cap - pos == n && n == 1 && pos == 4, "reach:no_slack_len1_pos4");
    kani::cover!(x == RFC_VARINT_MAX, "reach:max_value");
    kani::cover!(x == 0, "reach:zero");
    kani::cover!(x == 63 || x == 64 || x == 16383 || x == 16384 || x == 1073741823 || x == 1073741824, "reach:table_boundaries");
    kani::cover!(extra == 4, "reach:trailing_bytes");
    kani::cover!(true, "reach:end");
}

//@ harness props=C05 tier=quick level=full timeout=300
//@ fn VarInt::decode
#[kani::proof]
#[kani::unwind(10)] // u64::pow(2, 62) in VarInt::decode is a 6-iteration loop
fn vq_c05_varint_dec_any_rfc_length() {
    // RFC 9000 section 16 does not require the shortest form on receipt: each of the lengths that can hold
    // the value is a valid encoding and must decode to the value.
    let x: u64 = kani::any();
    kani::assume(x <= RFC_VARINT_MAX);
    let len: usize = kani::any();
    kani::assume(len == 1 || len == 2 || len == 4 || len == 8);
    kani::assume(x <= rfc_varint_max_for_len(len));
    let mut spec = Wire::<12>::new(kani::any());
    spec.varint_n(x, len);
    let extra: usize = kani::any();
    kani::assume(extra <= 4);
    // through both buffer flavours (DecoderValue and DecoderValueMut are generated from the same body)
    let res = DecoderBuffer::new(&spec.b[..len + extra]).decode::<VarInt>();
    assert!(res.is_ok(), "C05/varint.dec/any_length_accepted");
    if let Ok((d, rest)) = res {
        assert!(d.as_u64() == x, "C05/varint.dec/any_length_value");
        assert!(rest.len() == extra, "C05/varint.dec/any_length_remainder");
    }
    let mut copy = spec.b;
    let res = DecoderBufferMut::new(&mut copy[..len + extra]).decode::<VarInt>();
    assert!(res.is_ok(), "C05/varint.dec_mut/any_length_accepted");
    if let Ok((d, rest)) = res {
        assert!(d.as_u64() == x, "C05/varint.dec_mut/any_length_value");
        assert!(rest.len() == extra, "C05/varint.dec_mut/any_length_remainder");
    }
    // ... while the encoder never emits anything but the shortest one
    assert!(VarInt::new(x).unwrap().encoding_size() <= len, "C05/varint.enc/never_longer_than_any_valid_length");
    kani::cover!(len == 8 && x == 0, "reach:zero_in_8_bytes");
    kani::cover!(len == 2 && x == 63, "reach:non_shortest_2");
    kani::cover!(len == 4 && x == 16383, "reach:non_shortest_4");
    kani::cover!(len == rfc_varint_len(x), "reach:shortest");
    kani::cover!(true, "reach:end");
}

//@ harness props=C05 tier=quick level=full timeout=300
//@ fn VarInt::decode
#[kani::proof]
#[kani::unwind(10)] // u64::pow(2, 62) in VarInt::decode is a 6-iteration loop
fn vq_c05_varint_dec_total_vs_reference() {
    // tot + agreement with the reference parser on every input of length 0..=9 (a decoder never looks
    // further than 8 bytes, so 9 covers "exactly enough", "too short" and "one byte left over")
    let bytes: [u8; 9] = kani::any();
    let len: usize = kani::any();
    kani::assume(len <= 9);
    let mut rd = Rd::<9>::new(bytes, len);
    let reference = rd.varint();
    let res = DecoderBuffer::new(&bytes[..len]).decode::<VarInt>();
    assert!(res.is_ok() == reference.is_some(), "C05/varint.dec/ok_iff_reference_ok");
    assert!(res.is_ok() == (len > 0 && len >= (1usize << (bytes[0] >> 6))), "C05/varint.dec/err_iff_truncated");
    if let Ok((v, rest)) = res {
        assert!(Some(v.as_u64()) == reference, "C05/varint.dec/value_eq_reference");
        assert!(rest.len() == len - rd.at, "C05/varint.dec/consumed_eq_reference");
        assert!(v.as_u64() <= RFC_VARINT_MAX, "C05/varint.dec/range");
        assert!(len - rest.len() == (1usize << (bytes[0] >> 6)), "C05/varint.dec/consumes_length_given_by_2msb");
    }
    kani::cover!(len == 0, "reach:empty");
    kani::cover!(len == 9 && bytes[0] >= 0xc0, "reach:eight_byte_form_with_leftover");
    kani::cover!(len == 7 && bytes[0] >= 0xc0, "reach:truncated_eight_byte_form");
    kani::cover!(len == 1 && bytes[0] < 0x40, "reach:one_byte_form");
    kani::cover!(reference.is_none() && len > 0, "reach:truncated");
    kani::cover!(true, "reach:end");
}

//@ harness props=C05 tier=quick level=full timeout=300
//@ fn VarInt::encode_updated
//@ fn table::Entry::read
//@ fn table::Entry::format
//@ fn table::Formatted::encode_maybe_undersized
#[kani::proof]
#[kani::unwind(10)] // u64::pow(2, 62) in VarInt::decode is a 6-iteration loop
fn vq_c05_varint_encode_updated() {
    // `placeholder.encode_updated(replacement, e)` re-writes a length field in place: it must occupy
    // exactly the placeholder's length (a longer-than-shortest, still valid RFC encoding of the
    // replacement) and must not touch a single byte around it (the payload is already behind it).
    let p: u64 = kani::any();
    let r: u64 = kani::any();
    kani::assume(p <= RFC_VARINT_MAX && r <= RFC_VARINT_MAX);
    let plen = rfc_varint_len(p);
    // precondition (debug_assert in the function; the only production call site, packet/long.rs:236-250,
    // has replacement = actual payload length <= placeholder = capacity at the time the field was written)
    kani::assume(rfc_varint_len(r) <= plen);
    let before: [u8; B] = kani::any();
    let pos: usize = kani::any();
    let cap: usize = kani::any();
    kani::assume(pos <= 4 && cap <= B && pos + plen <= cap);
    let mut spec = Wire::<8>::new([0u8; 8]);
    spec.varint_n(r, plen);
    let mut buf = before;
    let used = {
        let mut e = EncoderBuffer::new(&mut buf[..cap]);
        e.set_position(pos);
        VarInt::new(p).unwrap().encode_updated(VarInt::new(r).unwrap(), &mut e);
        e.len() - pos
    };
    assert!(used == plen, "C05/varint.encode_updated/occupies_placeholder_len");
    assert!(window_eq(&buf, pos, &spec.b, plen), "C05/varint.encode_updated/bytes_eq_rfc_encoding_in_placeholder_len");
    assert!(same_outside(&buf, &before, pos, pos + plen), "C05/varint.encode_updated/surrounding_bytes_untouched");
    let res = DecoderBuffer::new(&buf[pos..cap]).decode::<VarInt>();
    assert!(res.is_ok(), "C05/varint.encode_updated/decodable");
    if let Ok((d, rest)) = res {
        assert!(d.as_u64() == r, "C05/varint.encode_updated/decodes_to_replacement");
        assert!(rest.len() == cap - pos - plen, "C05/varint.encode_updated/decoder_consumes_placeholder_len");
    }
    kani::cover!(plen == 8 && r == 0, "reach:max_placeholder_zero_replacement");
    kani::cover!(plen == 2 && rfc_varint_len(r) == 1, "reach:two_byte_placeholder");
    kani::cover!(plen == rfc_varint_len(r), "reach:same_len");
    kani::cover!(cap - pos >= 8 && plen < 8, "reach:wide_write_would_have_been_possible");
    kani::cover!(true, "reach:end");
}
