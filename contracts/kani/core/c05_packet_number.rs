//@ inject crate=core src=quic/s2n-quic-core/src/packet/number/truncated_packet_number.rs
// C05 contract harnesses for the wire form of packet numbers (RFC 9000 section 17.1, 17.2, 17.3.1):
//   * the Packet Number field carries the least significant 8*len bits of the packet number, big-endian;
//   * the two least significant bits of the first header byte are (len - 1).
// The truncate/expand window algebra (which len is sufficient, how the full number is recovered) is C08's.
// Oracle: `_rfc9000_wire.rs` (rfc_packet_number_bytes / rfc_packet_number_len_bits).
use super::*;
use crate::varint::VarInt;
use s2n_codec::EncoderBuffer;
#[macro_use]
#[allow(dead_code, unused_macros)]
mod wire {
    include!("_rfc9000_wire.rs");
}
use wire::*;

fn any_space() -> PacketNumberSpace {
    match kani::any::<u8>() % 3 {
        0 => PacketNumberSpace::Initial,
        1 => PacketNumberSpace::Handshake,
        _ => PacketNumberSpace::ApplicationData,
    }
}

//@ harness props=C05 tier=quick level=full timeout=300
//@ fn PacketNumberLen::from_packet_tag
//@ fn PacketNumberLen::into_packet_tag_mask
//@ fn PacketNumberLen::bytesize
//@ fn PacketNumberLen::truncate_packet_number
//@ fn PacketNumberLen::decode_truncated_packet_number
//@ fn TruncatedPacketNumber::encode
//@ fn TruncatedPacketNumber::decode
#[kani::proof]
#[kani::unwind(6)]
fn vq_c05_packet_number_wire() {
    let space = any_space();
    // any first header byte: only its two least significant bits matter
    let first_byte: u8 = kani::any();
    let len = PacketNumberLen::from_packet_tag(first_byte, space);
    let n = (first_byte & 0x03) as usize + 1;
    assert!(len.bytesize() == n, "C05/packet_number_len.dec/len_is_two_low_bits_plus_one");
    assert!(len.bitsize() == 8 * n, "C05/packet_number_len.dec/bitsize");
    assert!(len.into_packet_tag_mask() == rfc_packet_number_len_bits(n), "C05/packet_number_len.enc/bits_are_len_minus_one");
    assert!(len.into_packet_tag_mask() & !0x03 == 0, "C05/packet_number_len.enc/only_two_low_bits");
    assert!(len.space() == space, "C05/packet_number_len.dec/space_kept");

    // every packet number of the 62-bit domain
    let pn: u64 = kani::any();
    kani::assume(pn <= RFC_VARINT_MAX);
    let t = len.truncate_packet_number(VarInt::new(pn).unwrap());
    let spec = rfc_packet_number_bytes(pn, n);
    assert!(t.len() == len, "C05/truncated_packet_number.enc/len_kept");
    let announced = t.encoding_size();
    assert!(announced == n, "C05/truncated_packet_number.enc/announced_len_is_field_len");
    let before: [u8; 8] = kani::any();
    let cap: usize = kani::any();
    kani::assume(cap >= announced && cap <= 8);
    let mut out = before;
    let used = {
        let mut e = EncoderBuffer::new(&mut out[..cap]);
        e.encode(&t);
        e.len()
    };
    assert!(used == announced, "C05/truncated_packet_number.enc/len_eq_announced");
    let mut bytes_ok = true;
    let mut rest_ok = true;
    unroll!(4, i, {
        if i < n && out[i] != spec[i] {
            bytes_ok = false;
        }
    });
    unroll!(8, i, {
        if i >= n && out[i] != before[i] {
            rest_ok = false;
        }
    });
    assert!(bytes_ok, "C05/truncated_packet_number.enc/bytes_are_low_bits_big_endian");
    assert!(rest_ok, "C05/truncated_packet_number.enc/nothing_written_past_len");

    // dec: oracle bytes followed by arbitrary bytes
    let mut input: [u8; 8] = kani::any();
    unroll!(4, i, {
        if i < n {
            input[i] = spec[i];
        }
    });
    let extra: usize = kani::any();
    kani::assume(extra <= 4);
    let r = len.decode_truncated_packet_number(DecoderBuffer::new(&input[..n + extra]));
    assert!(r.is_ok(), "C05/truncated_packet_number.dec/accepts_rfc_bytes");
    if let Ok((d, rest)) = r {
        let mask: u64 = if n == 4 { 0xffff_ffff } else { (1u64 << (8 * n)) - 1 };
        assert!(d.into_u64() == pn & mask, "C05/truncated_packet_number.dec/value_is_low_bits");
        assert!(d == t, "C05/truncated_packet_number.dec/roundtrip");
        assert!(d.len() == len && d.space() == space, "C05/truncated_packet_number.dec/len_and_space");
        assert!(rest.len() == extra, "C05/truncated_packet_number.dec/remainder");
    }
    kani::cover!(n == 1 && pn > 0xff, "reach:one_byte_truncates");
    kani::cover!(n == 3 && pn > 0xff_ffff, "reach:three_bytes_truncates");
    kani::cover!(n == 4 && pn == RFC_VARINT_MAX, "reach:four_bytes_max");
    kani::cover!(n == 2 && cap == 2, "reach:no_slack");
    kani::cover!(first_byte & 0xfc != 0, "reach:other_header_bits_set");
    kani::cover!(true, "reach:end");
}

//@ harness props=C05 tier=quick level=full timeout=300
//@ fn PacketNumberLen::decode_truncated_packet_number
//@ fn TruncatedPacketNumber::decode
#[kani::proof]
#[kani::unwind(6)]
fn vq_c05_packet_number_dec_total() {
    // tot + reference on every input of 0..=5 bytes (the field is at most 4 bytes long)
    let space = any_space();
    let first_byte: u8 = kani::any();
    let len = PacketNumberLen::from_packet_tag(first_byte, space);
    let n = (first_byte & 0x03) as usize + 1;
    let bytes: [u8; 5] = kani::any();
    let blen: usize = kani::any();
    kani::assume(blen <= 5);
    let r = len.decode_truncated_packet_number(DecoderBuffer::new(&bytes[..blen]));
    assert!(r.is_ok() == (blen >= n), "C05/truncated_packet_number.dec/ok_iff_enough_bytes");
    if let Ok((d, rest)) = r {
        let mut want: u64 = 0;
        unroll!(4, i, {
            if i < n {
                want = (want << 8) + bytes[i] as u64;
            }
        });
        assert!(d.into_u64() == want, "C05/truncated_packet_number.dec/value_is_big_endian_of_field");
        assert!(rest.len() == blen - n, "C05/truncated_packet_number.dec/consumes_field_len");
        assert!(d.len().bytesize() == n, "C05/truncated_packet_number.dec/len_of_value_is_field_len");
    }
    kani::cover!(blen == 0, "reach:empty");
    kani::cover!(blen == 3 && n == 4, "reach:truncated");
    kani::cover!(blen == 5 && n == 4, "reach:leftover");
    kani::cover!(true, "reach:end");
}
