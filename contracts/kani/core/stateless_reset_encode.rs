//@ inject crate=core src=quic/s2n-quic-core/src/packet/stateless_reset.rs
// Contract harness for packet::stateless_reset::encode_packet (property C11: "a stateless reset is
// strictly smaller than the datagram that caused it (none is sent if that is impossible)").
// The byte-level oracle cannot be phrased in the spec sub-language (bytes, bit patterns), so it is
// written here as an independent transcription of RFC 9000 10.3 / 10.3.3 / 17.3.1:
//   Stateless Reset { Fixed Bits (2) = 1, Unpredictable Bits (38..), Stateless Reset Token (128) }
//   * smaller than the packet that triggered it (10.3.3),
//   * "indistinguishable from a regular packet with a short header": at least 1 (first byte) + 4
//     (largest packet number) + 20 (largest connection id) + 1 (smallest payload) + AEAD tag bytes,
//   * the last 16 bytes are the token, the first byte has the form 0b01xx_xxxx.
use super::*;

/// Generator with symbolic output: byte i of every fill is seed[i % 8] (the harness can therefore
/// say exactly which unpredictable bytes must appear in the packet).
struct Gen {
    seed: [u8; 8],
    fills: u8,
    private_fills: u8,
}
impl random::Generator for Gen {
    fn public_random_fill(&mut self, dest: &mut [u8]) {
        let mut i = 0;
        while i < dest.len() {
            dest[i] = self.seed[i & 7];
            i += 1;
        }
        self.fills += 1;
    }
    fn private_random_fill(&mut self, _dest: &mut [u8]) {
        self.private_fills += 1;
    }
}

const RFC_MIN_WITHOUT_TAG: usize = 1 + 4 + 20 + 1;
const BUF: usize = 64;

//@ harness props=C11 tier=quick level=bounded timeout=300 bound="packet buffer <= 64 bytes, AEAD tag length <= 64"
//@ fn packet::stateless_reset::encode_packet
//@ fn packet::stateless_reset::min_indistinguishable_packet_len
#[kani::proof]
#[kani::unwind(66)]
fn vq_c11_stateless_reset_encode_packet() {
    let token_bytes: [u8; 16] = kani::any();
    let token = stateless_reset::Token::from(token_bytes);
    let trigger: usize = kani::any();
    let tag_len: usize = kani::any();
    kani::assume(tag_len <= 64);
    let orig: [u8; BUF] = kani::any();
    let mut buf = orig;
    let blen: usize = kani::any();
    kani::assume(blen <= BUF);
    let mut g = Gen { seed: kani::any(), fills: 0, private_fills: 0 };
    let seed = g.seed;

    let r = encode_packet(token, tag_len, trigger, &mut g, &mut buf[..blen]);

    // the packet goes on the wire: only public randomness may be used for it
    assert!(g.private_fills == 0, "C11/stateless_reset.encode/uses_only_public_randomness");
    let min_len = RFC_MIN_WITHOUT_TAG + tag_len;
    assert!(min_indistinguishable_packet_len(tag_len) == min_len, "C11/stateless_reset.min_len/is_26_plus_tag");
    // largest permitted length: strictly smaller than the trigger and inside the buffer
    let impossible = trigger == 0 || core::cmp::min(trigger - 1, blen) < min_len;
    // symbolic witness index for the byte-wise obligations
    let k: usize = kani::any();
    kani::assume(k < BUF);
    match r {
        Some(n) => {
            assert!(!impossible, "C11/stateless_reset.encode/none_if_impossible");
            assert!(n < trigger, "C11/stateless_reset.encode/strictly_smaller_than_trigger");
            assert!(n <= blen, "C11/stateless_reset.encode/fits_buffer");
            assert!(n >= min_len, "C11/stateless_reset.encode/at_least_min_indistinguishable_len");
            assert!(buf[0] & 0xC0 == 0x40, "C11/stateless_reset.encode/short_header_fixed_bits");
            // the last 16 bytes are the token
            assert!(k >= 16 || buf[n - 16 + k] == token_bytes[k], "C11/stateless_reset.encode/last_16_bytes_are_the_token");
            // everything between the first byte and the token comes from the generator
            assert!(
                !(1 <= k && k < n - 16) || buf[k] == seed[k & 7],
                "C11/stateless_reset.encode/unpredictable_bytes_from_generator"
            );
            assert!(buf[0] == (seed[0] >> 2) | 0x40, "C11/stateless_reset.encode/first_byte_keeps_six_random_bits");
            // nothing is written behind the packet
            assert!(k < n || buf[k] == orig[k], "C11/stateless_reset.encode/bytes_after_packet_untouched");
            assert!(g.fills >= 1, "C11/stateless_reset.encode/generator_used");
            kani::cover!(n == min_len, "reach:shortest");
            kani::cover!(n == BUF, "reach:fills_buffer");
            kani::cover!(n + 1 == trigger && n > min_len, "reach:one_less_than_trigger");
            kani::cover!(n < core::cmp::min(trigger - 1, blen), "reach:random_shorter_length");
        }
        None => {
            assert!(impossible, "C11/stateless_reset.encode/none_only_if_impossible");
            assert!(buf[k] == orig[k], "C11/stateless_reset.encode/none_leaves_buffer_untouched");
            assert!(g.fills == 0, "C11/stateless_reset.encode/none_draws_no_randomness");
            kani::cover!(trigger == 0, "reach:zero_trigger");
            kani::cover!(trigger > min_len && blen < min_len, "reach:buffer_too_small");
            kani::cover!(trigger == min_len && blen >= min_len, "reach:trigger_equals_min_len");
        }
    }
    kani::cover!(tag_len == 64, "reach:largest_tag_len");
    kani::cover!(tag_len == 16 && r.is_some(), "reach:tls13_tag_len");
    kani::cover!(trigger == usize::MAX, "reach:largest_trigger");
    kani::cover!(true, "reach:end");
}
