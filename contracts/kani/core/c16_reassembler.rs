//@ inject crate=core src=quic/s2n-quic-core/src/buffer/reassembler.rs
// Contract harnesses for the Reassembler (properties C16 / C01).
//   part 1: pure helpers `allocation_size`, `align_offset` (level=full)
//   part 2: modular Reassembler harnesses (see the header of that part)
// Predicates: contracts/spec/reassembly.rs.
use super::*;
#[allow(dead_code, unused_variables)]
mod spec {
    include!("../../spec/reassembly.rs");
}
use spec::*;

const MAXV: u64 = crate::varint::MAX_VARINT_VALUE;

// ==== part 1: allocation table and block alignment ================================================================

//@ harness props=C16 tier=quick level=full timeout=120
//@ fn Reassembler::allocation_size
#[kani::proof]
#[kani::unwind(5)]
fn vq_c16_reassembler_allocation_size() {
    let o: u64 = kani::any(); // the function is total on u64; stream offsets are the sub-range 0..=2^62-1
    let a = Reassembler::allocation_size(o) as i128;
    assert!(a == ra_alloc_size(o as i128), "C16/reassembler.allocation_size/table_as_documented");
    assert!(a >= MIN_BUFFER_ALLOCATION_SIZE as i128 && a <= 65536, "C16/reassembler.allocation_size/within_slot_capacity_limit");
    // monotone: later offsets never get smaller buffers
    let o2: u64 = kani::any();
    if o <= o2 {
        assert!(a <= Reassembler::allocation_size(o2) as i128, "C16/reassembler.allocation_size/monotone");
    }
    kani::cover!(o == 65535, "reach:below_64k");
    kani::cover!(o == 65536 && a == 16384, "reach:at_64k");
    kani::cover!(o == 262144 && a == 32768, "reach:at_256k");
    kani::cover!(o == 1048575 && a == 32768, "reach:below_1m");
    kani::cover!(o == 1048576 && a == 65536, "reach:at_1m");
    kani::cover!(o == MAXV, "reach:max_stream_offset");
}

//@ harness props=C16 tier=quick level=full timeout=240
//@ fn Reassembler::align_offset
//@ fn Reassembler::allocation_size
#[kani::proof]
#[kani::unwind(5)]
fn vq_c16_reassembler_align_offset_blocks() {
    // every production call site passes `allocation_size(x)` as the alignment (allocate_slot, unsplit_range,
    // invariants): reassembler.rs:433-434, 581-582, 683-685
    let o: u64 = kani::any();
    let a = Reassembler::allocation_size(o);
    let r = Reassembler::align_offset(o, a);
    let (oi, ai, ri) = (o as i128, a as i128, r as i128);
    assert!(ra_align_le_offset(oi, ai, ri), "C16/reassembler.align_offset/le_offset");
    assert!(ra_align_offset_in_block(oi, ai, ri), "C16/reassembler.align_offset/offset_lt_block_end");
    assert!(ra_align_is_multiple(oi, ai, ri), "C16/reassembler.align_offset/multiple_of_alignment");
    assert!(ri == ra_block_start(oi), "C16/reassembler.align_offset/eq_floor_multiple");
    // the blocks partition the offset space: every offset of the block [r, r+a) has the same allocation size and
    // the same block start, i.e. two slots allocated for offsets of one block describe the same memory region
    let w: u64 = kani::any();
    if ri <= w as i128 && (w as i128) < ri + ai {
        let aw = Reassembler::allocation_size(w);
        assert!(aw == a, "C16/reassembler.blocks/same_allocation_size_within_block");
        assert!(Reassembler::align_offset(w, aw) == r, "C16/reassembler.blocks/same_block_start_within_block");
    } else {
        assert!(
            Reassembler::align_offset(w, Reassembler::allocation_size(w)) != r,
            "C16/reassembler.blocks/other_offsets_other_block"
        );
    }
    kani::cover!(o == 4095 && r == 0, "reach:first_block_last_byte");
    kani::cover!(o == 4096 && r == 4096, "reach:second_block");
    kani::cover!(o == 65536 + 16383 && r == 65536, "reach:first_16k_block");
    kani::cover!(o == 1048576 && r == 1048576, "reach:first_64k_block");
    kani::cover!(o == MAXV, "reach:max_stream_offset");
    kani::cover!(w != o && w as i128 >= ri && (w as i128) < ri + ai, "reach:witness_in_block");
}

//@ harness props=C16 tier=quick level=full timeout=300
//@ fn Reassembler::align_offset
#[kani::proof]
#[kani::unwind(2)]
fn vq_c16_reassembler_align_offset_any_alignment() {
    // requires: alignment > 0 (the function's own assume!)
    let o: u64 = kani::any();
    let a: usize = kani::any();
    kani::assume(a > 0);
    let r = Reassembler::align_offset(o, a);
    let (oi, ai, ri) = (o as i128, a as i128, r as i128);
    assert!(ra_align_le_offset(oi, ai, ri), "C16/reassembler.align_offset_any/le_offset");
    assert!(ra_align_offset_in_block(oi, ai, ri), "C16/reassembler.align_offset_any/offset_lt_block_end");
    assert!(r % (a as u64) == 0, "C16/reassembler.align_offset_any/multiple_of_alignment");
    kani::cover!(a == 1 && r == o, "reach:alignment_1");
    kani::cover!(a as u64 > o && r == 0, "reach:alignment_above_offset");
    kani::cover!(o == u64::MAX, "reach:max_offset");
}
