//@ inject crate=core src=quic/s2n-quic-core/src/buffer/reassembler.rs
// Contract harnesses for the Reassembler (properties C16 / C01).
//   part 1: pure helpers `allocation_size`, `align_offset` (level=full)
//   part 2: `allocate_slot` against its contract (the modular harnesses in c01_reassembler_modular.rs assume it)
// Predicates: contracts/spec/reassembly.rs.
use super::*;
#[allow(dead_code, unused_variables)]
mod spec {
    include!("../../spec/reassembly.rs");
}
use spec::*;

const MAXV: u64 = crate::varint::MAX_VARINT_VALUE;

// ==== part 1: allocation table and block alignment ================================================================

//@ harness props=C16 tier=quick level=full timeout=120
//@ fn Reassembler::allocation_size
#[kani::proof]
#[kani::unwind(5)]
fn vq_c16_reassembler_allocation_size() {
    let o: u64 = kani::any(); // the function is total on u64; stream offsets are the sub-range 0..=2^62-1
    let a = Reassembler::allocation_size(o) as i128;
    assert!(a == ra_alloc_size(o as i128), "C16/reassembler.allocation_size/table_as_documented");
    assert!(a >= MIN_BUFFER_ALLOCATION_SIZE as i128 && a <= 65536, "C16/reassembler.allocation_size/within_slot_capacity_limit");
    // monotone: later offsets never get smaller buffers
    let o2: u64 = kani::any();
    if o <= o2 {
        assert!(a <= Reassembler::allocation_size(o2) as i128, "C16/reassembler.allocation_size/monotone");
    }
    kani::cover!(o == 65535, "reach:below_64k");
    kani::cover!(o == 65536 && a == 16384, "reach:at_64k");
    kani::cover!(o == 262144 && a == 32768, "reach:at_256k");
    kani::cover!(o == 1048575 && a == 32768, "reach:below_1m");
    kani::cover!(o == 1048576 && a == 65536, "reach:at_1m");
    kani::cover!(o == MAXV, "reach:max_stream_offset");
}

//@ harness props=C16 tier=quick level=full timeout=240
//@ fn Reassembler::align_offset
//@ fn Reassembler::allocation_size
#[kani::proof]
#[kani::unwind(5)]
fn vq_c16_reassembler_align_offset_blocks() {
    // every production call site passes `allocation_size(x)` as the alignment (allocate_slot, unsplit_range,
    // invariants): reassembler.rs:433-434, 581-582, 683-685
    let o: u64 = kani::any();
    let a = Reassembler::allocation_size(o);
    let r = Reassembler::align_offset(o, a);
    let (oi, ai, ri) = (o as i128, a as i128, r as i128);
    assert!(ra_align_le_offset(oi, ai, ri), "C16/reassembler.align_offset/le_offset");
    assert!(ra_align_offset_in_block(oi, ai, ri), "C16/reassembler.align_offset/offset_lt_block_end");
    assert!(ra_align_is_multiple(oi, ai, ri), "C16/reassembler.align_offset/multiple_of_alignment");
    assert!(ri == ra_block_start(oi), "C16/reassembler.align_offset/eq_floor_multiple");
    // the blocks partition the offset space: every offset of the block [r, r+a) has the same allocation size and
    // the same block start, i.e. two slots allocated for offsets of one block describe the same memory region
    let w: u64 = kani::any();
    if ri <= w as i128 && (w as i128) < ri + ai {
        let aw = Reassembler::allocation_size(w);
        assert!(aw == a, "C16/reassembler.blocks/same_allocation_size_within_block");
        assert!(Reassembler::align_offset(w, aw) == r, "C16/reassembler.blocks/same_block_start_within_block");
    } else {
        assert!(
            Reassembler::align_offset(w, Reassembler::allocation_size(w)) != r,
            "C16/reassembler.blocks/other_offsets_other_block"
        );
    }
    kani::cover!(o == 4095 && r == 0, "reach:first_block_last_byte");
    kani::cover!(o == 4096 && r == 4096, "reach:second_block");
    kani::cover!(o == 65536 + 16383 && r == 65536, "reach:first_16k_block");
    kani::cover!(o == 1048576 && r == 1048576, "reach:first_64k_block");
    kani::cover!(o == MAXV, "reach:max_stream_offset");
    kani::cover!(w != o && w as i128 >= ri && (w as i128) < ri + ai, "reach:witness_in_block");
}

//@ harness props=C16 tier=quick level=full timeout=300
//@ fn Reassembler::align_offset
#[kani::proof]
#[kani::unwind(19)]
fn vq_c16_reassembler_align_offset_pow2_alignment() {
    // requires: alignment > 0 (the function's own assume!).  Every power of two up to the slot capacity limit 2^16
    // (a fully symbolic 64-bit alignment makes the 64-bit divider SAT-hard: no result in 8 min)
    let o: u64 = kani::any();
    let mut k = 0;
    while k <= 16 {
        let a: usize = 1 << k;
        let r = Reassembler::align_offset(o, a);
        let (oi, ai, ri) = (o as i128, a as i128, r as i128);
        assert!(ra_align_le_offset(oi, ai, ri), "C16/reassembler.align_offset_pow2/le_offset");
        assert!(ra_align_offset_in_block(oi, ai, ri), "C16/reassembler.align_offset_pow2/offset_lt_block_end");
        assert!(r & (a as u64 - 1) == 0, "C16/reassembler.align_offset_pow2/multiple_of_alignment");
        k += 1;
    }
    kani::cover!(o == u64::MAX, "reach:max_offset");
    kani::cover!(o == 0, "reach:offset_0");
}

// ==== part 2: allocate_slot ===========================================================================================
use crate::buffer::{reader, writer};

/// symbolic Reader: only the observations allocate_slot makes (current offset, buffered length)
struct SymReader {
    off: u64,
    len: usize,
}
impl reader::Storage for SymReader {
    type Error = core::convert::Infallible;
    fn buffered_len(&self) -> usize {
        self.len
    }
    fn read_chunk(&mut self, _w: usize) -> Result<reader::storage::Chunk<'_>, Self::Error> {
        Ok(Default::default())
    }
    fn partial_copy_into<D: writer::Storage + ?Sized>(&mut self, _d: &mut D) -> Result<reader::storage::Chunk<'_>, Self::Error> {
        Ok(Default::default())
    }
}
impl Reader for SymReader {
    fn current_offset(&self) -> VarInt {
        VarInt::new(self.off).unwrap()
    }
    fn final_offset(&self) -> Option<VarInt> {
        None
    }
}

//@ harness props=C16,C01 tier=quick level=full timeout=600 mem=12
//@ fn Reassembler::allocate_slot
#[kani::proof]
#[kani::unwind(5)]
fn vq_c16_reassembler_allocate_slot() {
    // arbitrary cursors satisfying cur_inv; allocate_slot does not look at the stored slots
    let start: u64 = kani::any();
    let max_recv: u64 = kani::any();
    let fin: u64 = kani::any();
    let fin_known: bool = kani::any();
    let mut r = Reassembler::new();
    r.cursors = Cursors { start_offset: start, max_recv_offset: max_recv, final_offset: if fin_known { fin } else { UNKNOWN_FINAL_SIZE } };
    let c = CurV { start: start as i128, max_recv: max_recv as i128, fin: if fin_known { fin as i128 } else { -1 } };
    kani::assume(cur_inv(c));
    let off: u64 = kani::any();
    let len: usize = kani::any();
    kani::assume(off <= MAXV);
    let (oi, li) = (off as i128, len as i128);
    // requires (call sites: write_reader_impl, write_reader_with_alloc; both after skip_until(start) and handle_reader_fin)
    kani::assume(alloc_slot_pre(c, oi, li));
    let reader = SymReader { off, len };

    let slot = r.allocate_slot(&reader);

    let v = SlotV { start: slot.start() as i128, len: slot.end() as i128 - slot.start() as i128, end_alloc: slot.end_allocated() as i128 };
    let (b, a) = (ra_block_start(oi), ra_alloc_size(oi));
    assert!(alloc_slot_post(c, oi, li, b, a, v), "C16/reassembler.allocate_slot/view_is_rest_of_block_from_read_cursor");
    // consequences the caller relies on
    assert!(v.start <= oi && oi < v.end_alloc, "C16/reassembler.allocate_slot/covers_reader_offset");
    assert!(b <= v.start && v.end_alloc <= b + a && v.start >= c.start, "C16/reassembler.allocate_slot/within_block_above_read_cursor");
    assert!(slot_inv(v) && !slot_should_drop(v), "C16/reassembler.allocate_slot/slot_well_formed");
    let c2 = r.cursors;
    assert!(c2.start_offset == start && c2.max_recv_offset == max_recv && r.slots.is_empty(), "C16/reassembler.allocate_slot/frame");
    kani::cover!(v.start == c.start && b < c.start, "reach:clipped_at_read_cursor");
    kani::cover!(fin_known && v.end_alloc == c.fin && c.fin < b + a, "reach:cut_at_final_size");
    kani::cover!(v.end_alloc - v.start == 65536, "reach:full_64k_block");
    kani::cover!(v.end_alloc - v.start == 1, "reach:one_byte_slot");
    kani::cover!(oi + li > b + a, "reach:reader_extends_beyond_block");
    kani::cover!(v.end_alloc > MAXV as i128, "reach:allocation_reaches_beyond_max_offset");
}
