//@ inject crate=core src=quic/s2n-quic-core/src/packet/number/map.rs
// One-step contract of `packet::number::Map::insert_or_update` against a finite-map model (properties C16 "equals
// its reference model", C09 "no sent packet is lost from the bookkeeping").  Same style as pn_map.rs
// (`vq_c09_pn_map_remove_one`): a CONCRETE ring layout -- capacity 8, oldest entry in physical slot 6, a second entry
// three packet numbers later (physical slot 1, i.e. behind the wrap-around) -- with symbolic start packet number,
// symbolic values, symbolic packet-number space, and ONE call.
// Obligations: the entry for the given packet number is inserted (absent) or updated through the closure (present);
// every other key keeps its value and stays visible through `get` (symbolic witness); `get_range()` is
// [min key, max key]; the ring stays well formed (the crate's own `invariants()` runs too: cfg(test)).
// The distance of the packet number from `start` is concrete per call (0..=7, every call on a freshly built map):
// with a symbolic distance the ring-growth path `Map::resize` stays reachable for CBMC, and `Map::insert` with that
// path reachable crashes CBMC 6.11 (status 139, see pn_map.rs).  level=bounded.
use super::*;
use crate::varint::VarInt;

const CAP: usize = 8;
const INDEX: usize = 6;
/// distance of the second stored entry from the first one
const OFF2: usize = 3;
const MAXV: u64 = crate::varint::MAX_VARINT_VALUE;

fn pn(space: PacketNumberSpace, v: u64) -> PacketNumber {
    space.new_packet_number(VarInt::new(v).unwrap())
}

/// the only production caller (sync::data_sender::Transmissions) tracks stream data, i.e. application-space packets;
/// a symbolic space triples every packet-number comparison (first attempt: > 15 GB after 20 min)
fn any_space() -> PacketNumberSpace {
    PacketNumberSpace::ApplicationData
}

/// the reference model: keys `start` and `start + OFF2`
struct Model {
    start: u64,
    v0: u16,
    v1: u16,
}
impl Model {
    fn lookup(&self, p: u64) -> Option<u16> {
        if p == self.start {
            Some(self.v0)
        } else if p == self.start + OFF2 as u64 {
            Some(self.v1)
        } else {
            None
        }
    }
}

fn build(space: PacketNumberSpace) -> (Map<u16>, Model) {
    let mut map: Map<u16> = Map::default();
    let start: u64 = kani::any();
    kani::assume(start <= MAXV - 2 * CAP as u64);
    let m = Model { start, v0: kani::any(), v1: kani::any() };
    map.values[INDEX] = Some(m.v0);
    map.values[(INDEX + OFF2) % CAP] = Some(m.v1);
    map.index = INDEX;
    map.start = pn(space, start);
    map.end = pn(space, start + OFF2 as u64);
    map.invariants();
    (map, m)
}

//@ harness props=C16,C09 tier=quick level=bounded timeout=400 mem=16 bound="ring capacity 8, 2 stored entries (physical slots 6 and 1), packet number at distance 0 from the oldest entry (update of the oldest entry); start and values symbolic, application space"
//@ fn packet::number::Map::insert_or_update
//@ fn packet::number::Map::get
//@ fn packet::number::Map::get_range
#[kani::proof]
#[kani::unwind(10)]
fn vq_c16_pn_map_insert_or_update_d0() {
    let _ = step(0);
    kani::cover!(true, "reach:end");
}

/// one `insert_or_update` at concrete distance `d` from the oldest entry
fn step(d: usize) -> (Map<u16>, Model, u64, bool) {
    let space = any_space();
    let (mut map, m) = build(space);
    let p = m.start + d as u64;
    let v: u16 = kani::any(); // value to insert
    let u: u16 = kani::any(); // value the update closure writes
    let witness: u64 = kani::any();
    kani::assume(witness <= MAXV);
    let was = m.lookup(p);
    assert!(map.get(pn(space, witness)).copied() == m.lookup(witness), "C16/pn_map.get/equals_model");

    map.insert_or_update(pn(space, p), v, |prev| *prev = u);

    // the key itself: updated through the closure if present, inserted otherwise
    let expect = if was.is_some() { u } else { v };
    assert!(map.get(pn(space, p)).copied() == Some(expect), "C16/pn_map.insert_or_update/entry_inserted_or_updated");
    // every other key: same value, still visible
    assert!(
        witness == p || map.get(pn(space, witness)).copied() == m.lookup(witness),
        "C16/pn_map.insert_or_update/other_entries_untouched_and_visible"
    );
    // bounds = min / max of the keys
    let max_key = core::cmp::max(m.start + OFF2 as u64, p);
    let r = map.get_range();
    assert!(r.start().as_u64() == m.start, "C16/pn_map.insert_or_update/start_is_min_key");
    assert!(r.end().as_u64() == max_key, "C16/pn_map.insert_or_update/end_is_max_key");
    // ring still well formed: not empty, oldest entry where it was, newest entry reachable
    assert!(
        !map.is_empty() && map.index == INDEX && map.values.len() == CAP && map.get(pn(space, max_key)).is_some(),
        "C16/pn_map.insert_or_update/well_formed_preserved"
    );
    (map, m, p, was.is_some())
}

//@ harness props=C16,C09 tier=thorough level=bounded timeout=1800 mem=16 bound="ring capacity 8, 2 stored entries (physical slots 6 and 1), packet number at distance 1 from the oldest entry (insert into the hole below the newest entry; iteration checked); start and values symbolic, application space"
//@ fn packet::number::Map::insert_or_update
//@ fn packet::number::Map::get
//@ fn packet::number::Map::get_range
#[kani::proof]
#[kani::unwind(10)]
fn vq_c16_pn_map_insert_or_update_d1() {
    let (map, m, p, was_present) = step(1);
    // the entries are also all visible to iteration (what remove_range / loss detection walk over)
    let mut n = 0;
    let mut it = map.iter();
    while let Some((k, _)) = it.next() {
        assert!(
            k.as_u64() == m.start || k.as_u64() == m.start + OFF2 as u64 || k.as_u64() == p,
            "C16/pn_map.insert_or_update/iter_yields_only_keys"
        );
        n += 1;
    }
    assert!(n == if was_present { 2 } else { 3 }, "C16/pn_map.insert_or_update/iter_yields_every_key");
    kani::cover!(true, "reach:end");
}

//@ harness props=C16,C09 tier=thorough level=bounded timeout=1800 mem=16 bound="ring capacity 8, 2 stored entries (physical slots 6 and 1), packet number at distance 3 from the oldest entry (update of the newest entry); start and values symbolic, application space"
//@ fn packet::number::Map::insert_or_update
//@ fn packet::number::Map::get
//@ fn packet::number::Map::get_range
#[kani::proof]
#[kani::unwind(10)]
fn vq_c16_pn_map_insert_or_update_d3() {
    let _ = step(3);
    kani::cover!(true, "reach:end");
}

//@ harness props=C16,C09 tier=thorough level=bounded timeout=1800 mem=16 bound="ring capacity 8, 2 stored entries (physical slots 6 and 1), packet number at distance 5 from the oldest entry (insert beyond the newest entry, no ring growth); start and values symbolic, application space"
//@ fn packet::number::Map::insert_or_update
//@ fn packet::number::Map::get
//@ fn packet::number::Map::get_range
#[kani::proof]
#[kani::unwind(10)]
fn vq_c16_pn_map_insert_or_update_d5() {
    let _ = step(5);
    kani::cover!(true, "reach:end");
}

