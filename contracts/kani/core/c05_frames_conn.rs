//@ inject crate=core src=quic/s2n-quic-core/src/frame/connection_close.rs
// C05 contract harnesses for CONNECTION_CLOSE (RFC 9000 19.19, types 0x1c / 0x1d) and NEW_CONNECTION_ID (19.15).
// Oracle: `_rfc9000_wire.rs`.  level=bounded: reason phrase <= 4 bytes (integer fields full-domain); connection id
// length as concrete shapes 1, 8, 20 (contents symbolic) with sequence numbers from one varint length class at a
// time; the reference-parser agreement (arbitrary bytes) mixes all lengths.
use super::*;
use crate::frame::NewConnectionId;
use s2n_codec::{DecoderBufferMut, DecoderParameterizedValueMut, EncoderBuffer};
#[macro_use]
#[allow(dead_code, unused_macros)]
mod wire {
    include!("_rfc9000_wire.rs");
}
use wire::*;

const W: usize = 64;

fn v(x: u64) -> VarInt {
    VarInt::new(x).unwrap()
}

fn any_int() -> u64 {
    let x: u64 = kani::any();
    kani::assume(x <= RFC_VARINT_MAX);
    x
}

struct Enc {
    announced: usize,
    used: usize,
    before: [u8; W],
    out: [u8; W],
}

fn run_encoder<T: EncoderValue>(f: &T) -> Enc {
    let announced = f.encoding_size();
    let before: [u8; W] = kani::any();
    let mut out = before;
    let used = {
        let mut e = EncoderBuffer::new(&mut out[..]);
        e.encode(f);
        e.len()
    };
    Enc { announced, used, before, out }
}

fn run_encoder_exact<T: EncoderValue>(f: &T) -> Enc {
    let announced = f.encoding_size();
    let before: [u8; W] = kani::any();
    kani::assume(announced <= W);
    let mut out = before;
    let used = {
        let mut e = EncoderBuffer::new(&mut out[..announced]);
        e.encode(f);
        e.len()
    };
    Enc { announced, used, before, out }
}

/// Decodes one frame of the static type `T` from bytes[..len] the way the tag dispatch of the `frames!` macro does for
/// the arm of `T` (`buffer.skip(size_of::<Tag>())?` then `buffer.decode_parameterized(tag)?`); None for Err.
/// (Why not through `FrameMut`: see c05_frames_fixed.rs `run_decoder`; the dispatch itself is contracted in c05_total.rs.)
fn decode_as<'a, T>(bytes: &'a mut [u8; W], len: usize, ty: u8) -> Option<(T, usize)>
where
    T: DecoderParameterizedValueMut<'a, Parameter = Tag>,
{
    assert!(len == 0 || bytes[0] == ty);
    let buffer = DecoderBufferMut::new(&mut bytes[..len]);
    let buffer = buffer.skip(core::mem::size_of::<Tag>()).ok()?;
    let (frame, rest) = buffer.decode_parameterized::<T>(ty).ok()?;
    Some((frame, rest.len()))
}

fn payload_eq4(d: &[u8], src: &[u8; 4], n: usize) -> bool {
    if d.len() != n {
        return false;
    }
    let mut ok = true;
    unroll!(4, i, {
        if i < n && d[i] != src[i] {
            ok = false;
        }
    });
    ok
}

/// d == bytes[start..start + n], n <= 32
fn payload_is_window(d: &[u8], bytes: &[u8; W], start: usize, n: usize) -> bool {
    if d.len() != n {
        return false;
    }
    let mut ok = true;
    unroll!(32, i, {
        if i < n && d[i] != bytes[start + i] {
            ok = false;
        }
    });
    ok
}

// ---- NEW_CONNECTION_ID helper: one concrete connection-id length L per harness ---------------------------------
// 19.15: "Length: An 8-bit unsigned integer containing the length of the connection ID.  Values less than 1 and
// greater than 20 are invalid and MUST be treated as a connection error of type FRAME_ENCODING_ERROR."
// "Retire Prior To ... The value in the Retire Prior To field MUST be less than or equal to the value in the
// Sequence Number field.  Receiving a value ... greater ... MUST be treated as a connection error of type
// FRAME_ENCODING_ERROR."
/// any value of one RFC 9000 Table 4 length class: `wide` = 8-byte form (2^30 ..= 2^62-1), else 1-byte form (0 ..= 63)
fn any_int_of(wide: bool) -> u64 {
    let x: u64 = kani::any();
    if wide {
        kani::assume(x >= 1073741824 && x <= RFC_VARINT_MAX);
    } else {
        kani::assume(x <= 63);
    }
    x
}

/// the frame value and its oracle bytes; sequence number and retire-prior-to from one length class at a time (with
/// both full-domain and a 64-byte frame the harnesses did not finish within 1500 s)
fn new_connection_id_enc<const L: usize>(put_cid: fn(&mut Wire<W>, &[u8; L])) {
    let cid: [u8; L] = kani::any();
    let wide: bool = kani::any();
    let seq = any_int_of(wide);
    let rpt = any_int_of(wide);
    let token: [u8; 16] = kani::any();
    let mut spec = Wire::<W>::new([0u8; W]);
    spec.new_connection_id_head(seq, rpt, L as u8);
    put_cid(&mut spec, &cid);
    spec.arr16(&token);
    let f = NewConnectionId { sequence_number: v(seq), retire_prior_to: v(rpt), connection_id: &cid[..], stateless_reset_token: &token };
    // layout holds for every field value (a sender that violates retire_prior_to <= sequence_number is C13's business)
    let e = run_encoder(&f);
    assert!(e.announced == spec.n, "C05/new_connection_id.enc/announced_len_eq_rfc_len");
    assert!(e.used == e.announced, "C05/new_connection_id.enc/len_eq_announced");
    assert!(prefix_eq64(&e.out, &spec.b, spec.n), "C05/new_connection_id.enc/bytes_eq_rfc");
    let x = run_encoder_exact(&f);
    assert!(x.used == x.announced, "C05/new_connection_id.enc/len_eq_announced_without_slack");
    assert!(suffix_eq64(&x.out, &x.before, x.announced), "C05/new_connection_id.enc/nothing_written_past_announced_len");
    kani::cover!(wide && rpt > seq, "reach:wide_fields");
    kani::cover!(!wide && rpt == seq, "reach:one_byte_fields");
}

fn new_connection_id_dec<const L: usize>(put_cid: fn(&mut Wire<W>, &[u8; L])) {
    let cid: [u8; L] = kani::any();
    let wide: bool = kani::any();
    let seq = any_int_of(wide);
    let rpt = any_int_of(wide);
    let token: [u8; 16] = kani::any();
    let mut spec = Wire::<W>::new(kani::any());
    spec.new_connection_id_head(seq, rpt, L as u8);
    put_cid(&mut spec, &cid);
    spec.arr16(&token);
    let extra: usize = kani::any();
    kani::assume(extra <= 3 && spec.n + extra <= W);
    let r = decode_as::<NewConnectionId>(&mut spec.b, spec.n + extra, T_NEW_CONNECTION_ID);
    assert!(r.is_some() == (rpt <= seq), "C05/new_connection_id.dec/ok_iff_retire_prior_to_le_sequence_number");
    if let Some((g, rest)) = r {
        assert!(rest == extra, "C05/new_connection_id.dec/remainder");
        assert!(g.sequence_number.as_u64() == seq && g.retire_prior_to.as_u64() == rpt, "C05/new_connection_id.dec/sequence_numbers");
        let mut cid_ok = g.connection_id.len() == L;
        unroll!(20, i, {
            if i < L && cid_ok && g.connection_id[i] != cid[i] {
                cid_ok = false;
            }
        });
        assert!(cid_ok, "C05/new_connection_id.dec/connection_id");
        let mut tok_ok = true;
        unroll!(16, i, {
            if g.stateless_reset_token[i] != token[i] {
                tok_ok = false;
            }
        });
        assert!(tok_ok, "C05/new_connection_id.dec/stateless_reset_token");
    }
    kani::cover!(rpt == seq && extra == 3, "reach:retire_prior_to_eq_sequence_number");
    kani::cover!(rpt == seq + 1, "reach:retire_prior_to_too_large");
    kani::cover!(seq == RFC_VARINT_MAX && extra == 0, "reach:max_sequence_number_exact_fit");
}

// ---- ref helpers ----------------------------------------------------------------------------------------------
#[derive(Clone, Copy)]
struct ConnView {
    ty: u8,
    a: u64,
    b: u64,
    has_b: bool,
    data_start: usize,
    data_len: usize,
    token_start: usize,
}

/// reference parser for CONNECTION_CLOSE and NEW_CONNECTION_ID; None = FRAME_ENCODING_ERROR
fn rfc_parse_conn_frame(rd: &mut Rd<W>) -> Option<ConnView> {
    let ty = rd.u8()?;
    if ty == 0x1c || ty == 0x1d {
        // CONNECTION_CLOSE Frame { Type (i) = 0x1c..0x1d, Error Code (i), [Frame Type (i)],
        //                          Reason Phrase Length (i), Reason Phrase (..) }
        let error_code = rd.varint()?;
        let mut frame_type = 0;
        if ty == 0x1c {
            frame_type = rd.varint()?;
        }
        let l = rd.varint()?;
        if l > rd.remaining() as u64 {
            return None;
        }
        let data_start = rd.skip(l as usize)?;
        Some(ConnView { ty, a: error_code, b: frame_type, has_b: ty == 0x1c, data_start, data_len: l as usize, token_start: 0 })
    } else if ty == 0x18 {
        // NEW_CONNECTION_ID Frame { Type (i) = 0x18, Sequence Number (i), Retire Prior To (i), Length (8),
        //                           Connection ID (8..160), Stateless Reset Token (128) }
        let seq = rd.varint()?;
        let rpt = rd.varint()?;
        let l = rd.u8()?;
        if l < 1 || l > 20 {
            return None;
        }
        let data_start = rd.skip(l as usize)?;
        let token_start = rd.skip(16)?;
        if rpt > seq {
            return None;
        }
        Some(ConnView { ty, a: seq, b: rpt, has_b: true, data_start, data_len: l as usize, token_start })
    } else {
        None
    }
}

fn close_matches(c: &ConnectionClose, bytes: &[u8; W], want: &ConnView) -> bool {
    (want.ty == 0x1c || want.ty == 0x1d)
        && c.tag() == want.ty
        && c.error_code.as_u64() == want.a
        && c.frame_type.is_some() == want.has_b
        && (!want.has_b || c.frame_type.map(|t| t.as_u64()) == Some(want.b))
        && match c.reason {
            // an empty reason phrase is reported as "no reason"
            None => want.data_len == 0,
            Some(d) => want.data_len > 0 && payload_is_window(d, bytes, want.data_start, want.data_len),
        }
}

fn ncid_matches(n: &NewConnectionId, bytes: &[u8; W], want: &ConnView) -> bool {
    want.ty == 0x18
        && n.sequence_number.as_u64() == want.a
        && n.retire_prior_to.as_u64() == want.b
        && payload_is_window(n.connection_id, bytes, want.data_start, want.data_len)
        && payload_is_window(&n.stateless_reset_token[..], bytes, want.token_start, 16)
}

/// one expansion per frame type: the decoder under test is selected statically
macro_rules! conn_ref_agreement {
    ($t:ty, $ty:expr, $max_len:expr, $matches:ident) => {{
        let ty: u8 = $ty;
        let mut bytes: [u8; W] = kani::any();
        let len: usize = kani::any();
        kani::assume(len >= 1 && len <= $max_len);
        bytes[0] = ty;
        let mut rd = Rd::<W>::new(bytes, len);
        let reference = rfc_parse_conn_frame(&mut rd);
        let mut input = bytes;
        let r = decode_as::<$t>(&mut input, len, ty);
        assert!(r.is_some() == reference.is_some(), "C05/conn_frames.ref/ok_iff_reference_ok");
        if let (Some((frame, rest)), Some(want)) = (r, reference) {
            assert!(len - rest == rd.at, "C05/conn_frames.ref/consumed_eq_reference");
            assert!(rest < len, "C05/conn_frames.ref/progress");
            assert!($matches(&frame, &bytes, &want), "C05/conn_frames.ref/fields_eq_reference");
        }
        kani::cover!(reference.is_some() && rd.at == len, "reach:exact_fit");
        kani::cover!(reference.is_some() && rd.at < len, "reach:trailing_bytes");
        kani::cover!(reference.is_none() && len > 4, "reach:rejected");
    }};
}

// ---- 19.19 CONNECTION_CLOSE -------------------------------------------------------------------------------
//@ harness props=C05 tier=thorough level=bounded timeout=1500 bound="reason phrase <= 4 bytes; error code and frame type full-domain; both types 0x1c/0x1d"
//@ fn ConnectionClose::encode
//@ fn ConnectionClose::tag
//@ fn ConnectionClose::decode_parameterized_mut
#[kani::proof]
#[kani::unwind(10)]
fn vq_c05_frame_connection_close() {
    let error_code = any_int();
    let application: bool = kani::any();
    let frame_type = if application { 0 } else { any_int() };
    let reason: [u8; 4] = kani::any();
    let rlen: usize = kani::any();
    kani::assume(rlen <= 4);
    // `reason: None` and `Some(&[])` both mean "Reason Phrase Length = 0"
    let none_for_empty: bool = kani::any();
    let mut spec = Wire::<W>::new(kani::any());
    spec.connection_close(application, error_code, frame_type, &reason, rlen);
    let f = ConnectionClose {
        error_code: v(error_code),
        frame_type: if application { None } else { Some(v(frame_type)) },
        reason: if rlen == 0 && none_for_empty { None } else { Some(&reason[..rlen]) },
    };
    assert!(f.tag() == spec.b[0], "C05/connection_close.enc/type_0x1c_iff_frame_type_present");
    let e = run_encoder(&f);
    assert!(e.announced == spec.n, "C05/connection_close.enc/announced_len_eq_rfc_len");
    assert!(e.used == e.announced, "C05/connection_close.enc/len_eq_announced");
    assert!(prefix_eq64(&e.out, &spec.b, spec.n), "C05/connection_close.enc/bytes_eq_rfc");
    let extra: usize = kani::any();
    kani::assume(extra <= 3 && spec.n + extra <= W);
    let r = if application {
        decode_as::<ConnectionClose>(&mut spec.b, spec.n + extra, T_CONNECTION_CLOSE_APP)
    } else {
        decode_as::<ConnectionClose>(&mut spec.b, spec.n + extra, T_CONNECTION_CLOSE)
    };
    assert!(r.is_some(), "C05/connection_close.dec/accepts_rfc_bytes");
    if let Some((c, rest)) = r {
        assert!(rest == extra, "C05/connection_close.dec/remainder");
        assert!(c.error_code.as_u64() == error_code, "C05/connection_close.dec/error_code");
        assert!(c.frame_type.map(|t| t.as_u64()) == (if application { None } else { Some(frame_type) }), "C05/connection_close.dec/frame_type_only_in_0x1c");
        let reason_ok = match c.reason {
            None => rlen == 0,
            Some(d) => rlen > 0 && payload_eq4(d, &reason, rlen),
        };
        assert!(reason_ok, "C05/connection_close.dec/reason_phrase");
    }
    kani::cover!(application && rlen == 0 && none_for_empty, "reach:application_close_without_reason");
    kani::cover!(!application && rlen == 4 && extra == 3, "reach:transport_close_with_reason");
    kani::cover!(rlen == 0 && !none_for_empty, "reach:some_empty_reason");
    kani::cover!(true, "reach:end");
}

//@ harness props=C05 tier=thorough level=bounded timeout=1500 bound="reason phrase <= 4 bytes; error code and frame type full-domain; both types 0x1c/0x1d"
//@ fn ConnectionClose::encode
#[kani::proof]
#[kani::unwind(10)]
fn vq_c05_frame_connection_close_exact() {
    let error_code = any_int();
    let application: bool = kani::any();
    let frame_type = if application { 0 } else { any_int() };
    let reason: [u8; 4] = kani::any();
    let rlen: usize = kani::any();
    kani::assume(rlen <= 4);
    let none_for_empty: bool = kani::any();
    let f = ConnectionClose {
        error_code: v(error_code),
        frame_type: if application { None } else { Some(v(frame_type)) },
        reason: if rlen == 0 && none_for_empty { None } else { Some(&reason[..rlen]) },
    };
    let x = run_encoder_exact(&f);
    assert!(x.used == x.announced, "C05/connection_close.enc/len_eq_announced_without_slack");
    assert!(suffix_eq64(&x.out, &x.before, x.announced), "C05/connection_close.enc/nothing_written_past_announced_len");
    kani::cover!(application && rlen == 0, "reach:smallest");
    kani::cover!(!application && rlen == 4 && error_code == RFC_VARINT_MAX, "reach:largest");
    kani::cover!(true, "reach:end");
}

// ---- 19.15 NEW_CONNECTION_ID ------------------------------------------------------------------------------
//@ harness props=C05 tier=thorough level=bounded timeout=1500 bound="connection id length 1 (contents symbolic); sequence number and retire-prior-to both <= 63 or both in 2^30..=2^62-1"
//@ fn NewConnectionId::encode
#[kani::proof]
#[kani::unwind(10)]
fn vq_c05_frame_new_connection_id_len1_enc() {
    new_connection_id_enc::<1>(Wire::<W>::arr1);
    kani::cover!(true, "reach:end");
}

//@ harness props=C05 tier=thorough level=bounded timeout=1500 bound="connection id length 1 (contents symbolic); sequence number and retire-prior-to both <= 63 or both in 2^30..=2^62-1; <= 3 trailing bytes"
//@ fn NewConnectionId::decode_parameterized_mut
#[kani::proof]
#[kani::unwind(10)]
fn vq_c05_frame_new_connection_id_len1_dec() {
    new_connection_id_dec::<1>(Wire::<W>::arr1);
    kani::cover!(true, "reach:end");
}

//@ harness props=C05 tier=thorough level=bounded timeout=1500 bound="connection id length 8 (contents symbolic); sequence number and retire-prior-to both <= 63 or both in 2^30..=2^62-1"
//@ fn NewConnectionId::encode
#[kani::proof]
#[kani::unwind(10)]
fn vq_c05_frame_new_connection_id_len8_enc() {
    new_connection_id_enc::<8>(Wire::<W>::arr8);
    kani::cover!(true, "reach:end");
}

//@ harness props=C05 tier=thorough level=bounded timeout=1500 bound="connection id length 8 (contents symbolic); sequence number and retire-prior-to both <= 63 or both in 2^30..=2^62-1; <= 3 trailing bytes"
//@ fn NewConnectionId::decode_parameterized_mut
#[kani::proof]
#[kani::unwind(10)]
fn vq_c05_frame_new_connection_id_len8_dec() {
    new_connection_id_dec::<8>(Wire::<W>::arr8);
    kani::cover!(true, "reach:end");
}

//@ harness props=C05 tier=thorough level=bounded timeout=1500 bound="connection id length 20 (contents symbolic); sequence number and retire-prior-to both <= 63 or both in 2^30..=2^62-1"
//@ fn NewConnectionId::encode
#[kani::proof]
#[kani::unwind(10)]
fn vq_c05_frame_new_connection_id_len20_enc() {
    new_connection_id_enc::<20>(Wire::<W>::arr20);
    kani::cover!(true, "reach:end");
}

//@ harness props=C05 tier=thorough level=bounded timeout=1500 bound="connection id length 20 (contents symbolic); sequence number and retire-prior-to both <= 63 or both in 2^30..=2^62-1; <= 3 trailing bytes"
//@ fn NewConnectionId::decode_parameterized_mut
#[kani::proof]
#[kani::unwind(10)]
fn vq_c05_frame_new_connection_id_len20_dec() {
    new_connection_id_dec::<20>(Wire::<W>::arr20);
    kani::cover!(true, "reach:end");
}

// ---- ref (thorough tier) ------------------------------------------------------------------------------------
//@ harness props=C05 tier=thorough level=bounded timeout=1500 bound="arbitrary input of <= 30 bytes with type byte 0x1c or 0x1d"
//@ fn ConnectionClose::decode_parameterized_mut
#[kani::proof]
#[kani::unwind(10)]
fn vq_c05_conn_frames_ref_connection_close() {
    let app: bool = kani::any();
    if app {
        conn_ref_agreement!(ConnectionClose, 0x1d, 30, close_matches);
    } else {
        conn_ref_agreement!(ConnectionClose, 0x1c, 30, close_matches);
    }
    kani::cover!(app, "reach:application");
    kani::cover!(!app, "reach:transport");
    kani::cover!(true, "reach:end");
}

//@ harness props=C05 tier=thorough level=bounded timeout=1500 bound="arbitrary input of <= 56 bytes (largest frame: 54) with type byte 0x18; any Length byte 0..=255"
//@ fn NewConnectionId::decode_parameterized_mut
#[kani::proof]
#[kani::unwind(10)]
fn vq_c05_conn_frames_ref_new_connection_id() {
    conn_ref_agreement!(NewConnectionId, 0x18, 56, ncid_matches);
    kani::cover!(true, "reach:end");
}
