//@ inject crate=core src=quic/s2n-quic-core/src/packet/mod.rs
// C05 "tot" harnesses: the real decode entry points on *arbitrary* byte strings return Ok or Err with every
// automatic check (bounds, pointer, arithmetic overflow, the crate's own debug assertions, `expect`s, unwinding)
// passing -- no panic, no out-of-bounds access, no endless loop -- and the dispatch on the first byte follows
// RFC 9000 section 12.4 Table 3 (frames) / section 17.2, 17.3 (packets).
//
//   * `FrameMut` decode (frame/mod.rs, `frames!` macro: `FrameDecoder::decode_frame`): NOT in the registry -- three
//     shapes (arbitrary <= 24 bytes, arbitrary <= 16 bytes, literal first byte 0x00..=0x3f + 23 arbitrary bytes /
//     first byte >= 0x40 + 7 bytes) all ran into the 1500 s timeout (the last one at 11.7 GB); they are kept in
//     probes/kani_c05_frame_dispatch_timeout.rs together with `rfc_frame_kind` / `real_frame_kind` below.
//   * `ProtectedPacket::decode` (packet/mod.rs: `PacketDecoder::decode_packet`), exactly 24 bytes and 0..=10 bytes,
//     fixed-length destination-connection-id validator (`usize`, the validator used by the default id format)
//
// Both are level=bounded (input length); the per-frame reference-parser agreement harnesses live next to the
// frame harnesses (c05_frames_*.rs).
use super::*;
use crate::{
    frame::{Frame, FrameMut},
    inet::SocketAddress,
};
#[macro_use]
#[allow(dead_code, unused_macros)]
mod wire {
    include!("_rfc9000_wire.rs");
}
use wire::*;

/// RFC 9000 section 12.4, Table 3 (+ RFC 9221): frame type value -> frame.  0 = not a frame type of QUIC v1.
fn rfc_frame_kind(first_byte: u8) -> u8 {
    match first_byte {
        0x00 => 1,         // PADDING
        0x01 => 2,         // PING
        0x02..=0x03 => 3,  // ACK
        0x04 => 4,         // RESET_STREAM
        0x05 => 5,         // STOP_SENDING
        0x06 => 6,         // CRYPTO
        0x07 => 7,         // NEW_TOKEN
        0x08..=0x0f => 8,  // STREAM
        0x10 => 9,         // MAX_DATA
        0x11 => 10,        // MAX_STREAM_DATA
        0x12..=0x13 => 11, // MAX_STREAMS
        0x14 => 12,        // DATA_BLOCKED
        0x15 => 13,        // STREAM_DATA_BLOCKED
        0x16..=0x17 => 14, // STREAMS_BLOCKED
        0x18 => 15,        // NEW_CONNECTION_ID
        0x19 => 16,        // RETIRE_CONNECTION_ID
        0x1a => 17,        // PATH_CHALLENGE
        0x1b => 18,        // PATH_RESPONSE
        0x1c..=0x1d => 19, // CONNECTION_CLOSE
        0x1e => 20,        // HANDSHAKE_DONE
        0x30..=0x31 => 21, // DATAGRAM (RFC 9221)
        _ => 0,
    }
}

/// the variant the real decoder produced, in the numbering of `rfc_frame_kind`; 100 = one of this implementation's
/// private extension frames (types 0xdc0000 / 0xdc0002, outside the RFC 9000 registry)
fn real_frame_kind(f: &FrameMut) -> u8 {
    match f {
        Frame::Padding(_) => 1,
        Frame::Ping(_) => 2,
        Frame::Ack(_) => 3,
        Frame::ResetStream(_) => 4,
        Frame::StopSending(_) => 5,
        Frame::Crypto(_) => 6,
        Frame::NewToken(_) => 7,
        Frame::Stream(_) => 8,
        Frame::MaxData(_) => 9,
        Frame::MaxStreamData(_) => 10,
        Frame::MaxStreams(_) => 11,
        Frame::DataBlocked(_) => 12,
        Frame::StreamDataBlocked(_) => 13,
        Frame::StreamsBlocked(_) => 14,
        Frame::NewConnectionId(_) => 15,
        Frame::RetireConnectionId(_) => 16,
        Frame::PathChallenge(_) => 17,
        Frame::PathResponse(_) => 18,
        Frame::ConnectionClose(_) => 19,
        Frame::HandshakeDone(_) => 20,
        Frame::Datagram(_) => 21,
        Frame::DcStatelessResetTokens(_) => 100,
        Frame::MtuProbingComplete(_) => 100,
    }
}

/// RFC 9000 section 17.2 / 17.3: what the first byte (and, for long headers, the version) says the packet is.
/// 1 short, 2 version negotiation, 3 initial, 4 0-RTT, 5 handshake, 6 retry, 0 = must be discarded.
fn rfc_packet_kind(first_byte: u8, version: u32) -> u8 {
    let long_header = first_byte & 0x80 != 0; // Header Form
    let fixed_bit = first_byte & 0x40 != 0;
    if !long_header {
        // 17.3.1: "Fixed Bit: ... Packets containing a zero value for this bit are not valid packets in this version"
        return if fixed_bit { 1 } else { 0 };
    }
    if version == 0 {
        // 17.2.1: "The Version field of a Version Negotiation packet MUST be set to 0x00000000";
        // the remaining 7 bits of the first byte are Unused (any value)
        return 2;
    }
    if !fixed_bit {
        return 0;
    }
    match (first_byte & 0x30) >> 4 {
        // 17.2 Table 5: Long Packet Type
        0x00 => 3,
        0x01 => 4,
        0x02 => 5,
        _ => 6,
    }
}

const DCID_LEN: usize = 4;

fn packet_decode_total(len: usize) -> bool {
    let mut bytes: [u8; 24] = kani::any();
    kani::assume(len <= 24);
    let first = bytes[0];
    let version = ((bytes[1] as u32) << 24) | ((bytes[2] as u32) << 16) | ((bytes[3] as u32) << 8) | (bytes[4] as u32);
    let addr = SocketAddress::default();
    let info = ConnectionInfo::new(&addr);
    let r = ProtectedPacket::decode(DecoderBufferMut::new(&mut bytes[..len]), &info, &DCID_LEN);
    let want = if len >= 5 || (len >= 1 && first & 0x80 == 0) { rfc_packet_kind(first, version) } else { 0 };
    match &r {
        Ok((packet, rest)) => {
            // the datagram's packet loop terminates
            assert!(rest.len() < len, "C05/packet.tot/ok_consumes_at_least_one_byte");
            let (kind, cid_ok) = match packet {
                ProtectedPacket::Short(p) => (1, p.destination_connection_id().len() == DCID_LEN && rest.is_empty()),
                // 17.2: connection ids of QUIC v1 are at most 20 bytes
                ProtectedPacket::VersionNegotiation(p) => (2, p.destination_connection_id().len() <= 20 && p.source_connection_id().len() <= 20),
                // 17.2: "servers SHOULD be able to read longer connection IDs from other QUIC versions" to form a
                // Version Negotiation packet, so the Initial decoder itself does not reject them (checked later)
                ProtectedPacket::Initial(p) => (3, p.destination_connection_id().len() < len && p.source_connection_id().len() < len && p.token().len() < len),
                ProtectedPacket::ZeroRtt(p) => (4, p.destination_connection_id().len() <= 20 && p.source_connection_id().len() <= 20),
                ProtectedPacket::Handshake(p) => (5, p.destination_connection_id().len() <= 20 && p.source_connection_id().len() <= 20),
                ProtectedPacket::Retry(p) => (6, p.destination_connection_id().len() <= 20 && p.source_connection_id().len() <= 20 && !p.retry_token.is_empty()),
            };
            assert!(kind == want, "C05/packet.tot/variant_follows_header_form_type_and_version");
            assert!(cid_ok, "C05/packet.tot/connection_ids_within_packet_and_limits");
        }
        Err(_) => {}
    }
    assert!(want != 0 || r.is_err(), "C05/packet.tot/invalid_first_byte_or_truncated_header_rejected");
    r.is_ok()
}

//@ harness props=C05 tier=thorough level=bounded timeout=1500 bound="arbitrary datagram of exactly 24 bytes, any first byte; short-header destination connection id length fixed to 4"
//@ fn ProtectedPacket::decode
//@ fn PacketDecoder::decode_packet
//@ fn HeaderDecoder::finish_long
//@ fn HeaderDecoderResult::split_off_packet
//@ fn ProtectedVersionNegotiation::decode
//@ fn ProtectedRetry::decode
//@ fn ProtectedShort::decode
#[kani::proof]
#[kani::unwind(10)]
fn vq_c05_packet_decode_total_24() {
    let ok = packet_decode_total(24);
    kani::cover!(ok, "reach:ok");
    kani::cover!(!ok, "reach:err");
    kani::cover!(true, "reach:end");
}

//@ harness props=C05 tier=thorough level=bounded timeout=1500 bound="arbitrary datagram of 0..=10 bytes, any first byte; short-header destination connection id length fixed to 4"
//@ fn ProtectedPacket::decode
//@ fn PacketDecoder::decode_packet
#[kani::proof]
#[kani::unwind(10)]
fn vq_c05_packet_decode_total_short() {
    let len: usize = kani::any();
    kani::assume(len <= 10);
    let ok = packet_decode_total(len);
    kani::cover!(ok && len == 5, "reach:ok_short_header");
    kani::cover!(!ok && len == 10, "reach:err");
    kani::cover!(len == 0, "reach:empty_datagram");
    kani::cover!(true, "reach:end");
}
